SPECIFICATION Spec
CONSTANTS
  Items = {1, 2, 3}
  MaxSets = 2
  SimDepth = 0
INVARIANTS TypeOK
PROPERTIES Monotone ChildDoesNotTouchParent
VIEW view
ACTION_CONSTRAINT Emit
