------------------------------- MODULE BiMap -------------------------------
(* common/bimap.BiMap (property C51): a partial bijection between keys and values.

   Model: `fwd`, an injective finite map.  Insert(k, v) first drops the pair of k and the pair
   of v, if any, then relates k and v; lookups, existence tests and deletions work from either
   side; Size is the number of pairs. *)
EXTENDS Integers, Sequences, FiniteSets, TLC, Json
CONSTANTS Keys, Vals, SimDepth
VARIABLES fwd, last, hist
vars == <<fwd, last, hist>>
view == fwd

Pairs(f)   == {<<k, f[k]>> : k \in DOMAIN f}
Image(f)   == {f[k] : k \in DOMAIN f}
InvOf(f, v) == CHOOSE k \in DOMAIN f : f[k] = v
Drop(f, ks) == [k \in DOMAIN f \ ks |-> f[k]]
Init == fwd = [k \in {} |-> 0] /\ last = [op |-> "init"] /\ hist = << >>
Done(l, f) == fwd' = f /\ last' = l @@ [st |-> Pairs(f)]
Read(l) == Done(l, fwd)

Insert(k, v) ==
  LET f1 == Drop(fwd, {k} \cup {x \in DOMAIN fwd : fwd[x] = v}) IN
  Done([op |-> "insert", k |-> k, v |-> v], [x \in DOMAIN f1 \cup {k} |-> IF x = k THEN v ELSE f1[x]])
Delete(k)        == Done([op |-> "delete", k |-> k], Drop(fwd, {k}))
DeleteInverse(v) == Done([op |-> "deleteInverse", v |-> v], Drop(fwd, {x \in DOMAIN fwd : fwd[x] = v}))
Exists(k)        == Read([op |-> "exists", k |-> k, res |-> (k \in DOMAIN fwd)])
ExistsInverse(v) == Read([op |-> "existsInverse", v |-> v, res |-> (v \in Image(fwd))])
Get(k)           == Read([op |-> "get", k |-> k, res |-> IF k \in DOMAIN fwd THEN <<fwd[k]>> ELSE << >>])
GetInverse(v)    == Read([op |-> "getInverse", v |-> v, res |-> IF v \in Image(fwd) THEN <<InvOf(fwd, v)>> ELSE << >>])
Size             == Read([op |-> "size", res |-> Cardinality(DOMAIN fwd)])

Step == \/ \E k \in Keys, v \in Vals : Insert(k, v)
        \/ \E k \in Keys : Delete(k) \/ Exists(k) \/ Get(k)
        \/ \E v \in Vals : DeleteInverse(v) \/ ExistsInverse(v) \/ GetInverse(v)
        \/ Size
Next == Step /\ UNCHANGED hist
Spec == Init /\ [][Next]_vars
Injective == \A a, b \in DOMAIN fwd : fwd[a] = fwd[b] => a = b
Emit == PrintT(ToJson([s |-> Pairs(fwd), t |-> Pairs(fwd'), a |-> last']))

One(S) == {RandomElement(S)}
SimStep == \E act \in One(1..14), k \in One(Keys), v \in One(Vals) :
  CASE act \in 1..6 -> Insert(k, v)
    [] act = 7 -> Delete(k)   [] act = 8 -> DeleteInverse(v)   [] act = 9 -> Exists(k)   [] act = 10 -> ExistsInverse(v)
    [] act = 11 -> Get(k)     [] act = 12 -> GetInverse(v)     [] act = 13 -> Size       [] act = 14 -> Delete(k)
SimNext == SimStep /\ hist' = Append(hist, last')
SimSpec == Init /\ [][SimNext]_vars
SimEmit == Len(hist) < SimDepth \/ PrintT(ToJson(hist))
=============================================================================
