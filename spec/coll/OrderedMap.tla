---------------------------- MODULE OrderedMap ----------------------------
(* common/orderedmap.OrderedMap (property C51): a map that iterates in insertion order.

   Model: `keys`, a sequence of distinct keys (insertion order), and `vals`, the finite map.
   Contract taken from the doc comments of the package: Set on a present key replaces the
   value and KEEPS the key's position, Set on an absent key appends; Set / Delete return what
   Get would have returned before; Foreach / ForeachWithIndex / Oldest..Next / Newest..Prev
   walk the insertion order; ForAllKeys / ForAnyKey are the quantifiers over the key set (so
   over no keys: TRUE / FALSE); SetAll sets every entry of the other map in its order;
   KeySetIntersection keeps the receiver's order; KeySetUnion is the receiver followed by the
   other map's new keys.  The other map of the binary operations is a literal (a sequence of
   pairs) from `Others`, built freshly by the harness.
   `last` (label, predicted result, predicted contents) is hidden by VIEW; `hist` is only
   written by the simulation. *)
EXTENDS Integers, Sequences, FiniteSets, TLC, Json
CONSTANTS Keys, Vals, Others, SimDepth

VARIABLES keys, vals, last, hist
vars == <<keys, vals, last, hist>>
view == <<keys, vals>>

KeySet(q)   == {q[i] : i \in 1..Len(q)}
Pos(q, k)   == CHOOSE i \in 1..Len(q) : q[i] = k
Without(q, k) == SelectSeq(q, LAMBDA x : x # k)
Opt(k)      == IF k \in DOMAIN vals THEN <<vals[k]>> ELSE << >>       \* << >> = absent
Contents(q, f) == [i \in 1..Len(q) |-> <<q[i], f[q[i]]>>]
Pred(p, k)  == IF p = "even" THEN k % 2 = 0 ELSE IF p = "lt3" THEN k < 3 ELSE k > 100  \* "none": never true
Preds       == {"even", "lt3", "none"}
\* result of setting the pairs of `o` (a sequence of <<k, v>>) one after the other
RECURSIVE SetSeq(_, _, _)
SetSeq(q, f, o) ==
  IF o = << >> THEN [keys |-> q, vals |-> f]
  ELSE LET k == o[1][1]  v == o[1][2] IN
       SetSeq(IF k \in DOMAIN f THEN q ELSE Append(q, k), [x \in DOMAIN f \cup {k} |-> IF x = k THEN v ELSE f[x]], Tail(o))
OKeys(o) == {o[i][1] : i \in 1..Len(o)}

Init == keys = << >> /\ vals = [k \in {} |-> 0] /\ last = [op |-> "init"] /\ hist = << >>
Done(l, q, f) == keys' = q /\ vals' = f /\ last' = l @@ [st |-> Contents(q, f)]
Read(l) == Done(l, keys, vals)

Set(k, v) == Done([op |-> "set", k |-> k, v |-> v, res |-> Opt(k)],
                  IF k \in DOMAIN vals THEN keys ELSE Append(keys, k),
                  [x \in DOMAIN vals \cup {k} |-> IF x = k THEN v ELSE vals[x]])
Delete(k) == Done([op |-> "delete", k |-> k, res |-> Opt(k)], Without(keys, k), [x \in DOMAIN vals \ {k} |-> vals[x]])
Clear     == Done([op |-> "clear"], << >>, [k \in {} |-> 0])
Get(k)      == Read([op |-> "get", k |-> k, res |-> Opt(k)])
Contains(k) == Read([op |-> "contains", k |-> k, res |-> (k \in DOMAIN vals)])
LenOp       == Read([op |-> "len", res |-> Len(keys)])
Oldest      == Read([op |-> "oldest", res |-> IF keys = << >> THEN << >> ELSE <<keys[1]>>])
Newest      == Read([op |-> "newest", res |-> IF keys = << >> THEN << >> ELSE <<keys[Len(keys)]>>])
\* GetPair(k).Prev() / .Next(): the neighbours in insertion order
Neighbours(k) == /\ k \in DOMAIN vals
                 /\ LET i == Pos(keys, k) IN
                    Read([op |-> "neighbours", k |-> k,
                          res |-> [prev |-> IF i = 1 THEN << >> ELSE <<keys[i - 1]>>,
                                   next |-> IF i = Len(keys) THEN << >> ELSE <<keys[i + 1]>>]])
Foreach     == Read([op |-> "foreach", res |-> Contents(keys, vals)])
ForAll(p)   == Read([op |-> "forAllKeys", p |-> p, res |-> (\A k \in DOMAIN vals : Pred(p, k))])
ForAny(p)   == Read([op |-> "forAnyKey", p |-> p, res |-> (\E k \in DOMAIN vals : Pred(p, k))])
SetAll(o)   == LET r == SetSeq(keys, vals, o) IN Done([op |-> "setAll", o |-> o], r.keys, r.vals)
Disjoint(o) == Read([op |-> "disjoint", o |-> o, res |-> (DOMAIN vals \cap OKeys(o) = {})])
\* the result becomes the new contents of the map under test
Intersection(o) == LET q == SelectSeq(keys, LAMBDA k : k \in OKeys(o)) IN
                   Done([op |-> "intersection", o |-> o], q, [k \in KeySet(q) |-> vals[k]])
Union(o)    == LET r == SetSeq(keys, vals, o) IN Done([op |-> "union", o |-> o], r.keys, r.vals)

Step == \/ \E k \in Keys, v \in Vals : Set(k, v)
        \/ \E k \in Keys : Delete(k) \/ Get(k) \/ Contains(k) \/ Neighbours(k)
        \/ Clear \/ LenOp \/ Oldest \/ Newest \/ Foreach
        \/ \E p \in Preds : ForAll(p) \/ ForAny(p)
        \/ \E o \in Others : SetAll(o) \/ Disjoint(o) \/ Intersection(o) \/ Union(o)
Next == Step /\ UNCHANGED hist
Spec == Init /\ [][Next]_vars

\* ---- properties of the model
TypeOK   == /\ KeySet(keys) = DOMAIN vals /\ Cardinality(KeySet(keys)) = Len(keys)
SetKeepsPosition == [][(last'.op = "set" /\ last'.k \in DOMAIN vals) => keys' = keys]_vars
DeleteKeepsOrder == [][last'.op = "delete" => keys' = Without(keys, last'.k)]_vars
Emit == PrintT(ToJson([s |-> Contents(keys, vals), t |-> Contents(keys', vals'), a |-> last']))

\* ---- simulation: one randomly drawn call per step
One(S) == {RandomElement(S)}
SimStep == \E act \in One(1..20), k \in One(Keys), v \in One(Vals), p \in One(Preds), o \in One(Others) :
  CASE act \in 1..6 -> Set(k, v)
    [] act \in 7..9 -> Delete(k)
    [] act = 10 -> Get(k)          [] act = 11 -> Contains(k)     [] act = 12 -> IF k \in DOMAIN vals THEN Neighbours(k) ELSE LenOp
    [] act = 13 -> Oldest          [] act = 14 -> Newest          [] act = 15 -> Foreach
    [] act = 16 -> ForAll(p)       [] act = 17 -> ForAny(p)
    [] act = 18 -> \E c \in One(1..12) : IF c = 1 THEN Clear ELSE Disjoint(o)
    [] act = 19 -> \E c \in One(1..3) : IF c = 1 THEN Intersection(o) ELSE SetAll(o)
    [] act = 20 -> Union(o)
SimNext == SimStep /\ hist' = Append(hist, last')
SimSpec == Init /\ [][SimNext]_vars
SimEmit == Len(hist) < SimDepth \/ PrintT(ToJson(hist))
=============================================================================
