SPECIFICATION SimSpec
CONSTANTS
  Keys = {1, 2, 3, 4, 5, 6, 7, 8, 9, 10, 11, 12, 13, 14, 15, 16}
  Vals = {1, 2, 3}
  Others <- OthersS
  SimDepth = 3000
INVARIANTS TypeOK SimEmit
