---------------------------- MODULE IntervalTree ----------------------------
(* common/intervalst.IntervalST (property C51): a MULTISET of (interval, value) entries.

   Put never replaces: putting an interval that is already present adds another entry (the
   code says so: "does *not* check if the interval already exists").  The model is a bag
   `cnt : entry -> how many`, an entry being <<lo, hi, value>>.
   Get(interval) finds SOME entry with exactly that interval (present iff one exists; the
   value is the value of one of them); Search(p) finds SOME entry whose interval contains p;
   SearchInterval(i) SOME entry whose interval intersects i; SearchAll(p) ALL entries whose
   interval contains p (as a bag); Values() the bag of all values.  Where the code may choose,
   the model gives the set of allowed answers (`allowed`) and the harness tests membership. *)
EXTENDS Integers, Sequences, FiniteSets, TLC, Json
CONSTANTS Points, Vals, MaxEntries, SimDepth
VARIABLES cnt, last, hist
vars == <<cnt, last, hist>>
view == cnt

Intervals == {<<lo, hi>> \in Points \X Points : lo <= hi}
Entries   == {<<i[1], i[2], v>> : i \in Intervals, v \in Vals}
Support   == {e \in DOMAIN cnt : cnt[e] > 0}
Total     == LET RECURSIVE Sum(_)
                 Sum(S) == IF S = {} THEN 0 ELSE LET e == CHOOSE x \in S : TRUE IN cnt[e] + Sum(S \ {e})
             IN Sum(Support)
Bag(S)    == {<<e, cnt[e]>> : e \in S}        \* entries with multiplicities
Covers(e, p)     == e[1] <= p /\ p <= e[2]
Meets(e, lo, hi) == ~(hi < e[1] \/ e[2] < lo)
Init == cnt = [e \in {} |-> 0] /\ last = [op |-> "init"] /\ hist = << >>
Done(l, c) == cnt' = c /\ last' = l @@ [st |-> {<<e, c[e]>> : e \in {x \in DOMAIN c : c[x] > 0}}]
Read(l) == Done(l, cnt)

Put(lo, hi, v) ==
  /\ Total < MaxEntries
  /\ LET e == <<lo, hi, v>> IN
     Done([op |-> "put", lo |-> lo, hi |-> hi, v |-> v],
          [x \in DOMAIN cnt \cup {e} |-> IF x = e THEN (IF e \in DOMAIN cnt THEN cnt[e] + 1 ELSE 1) ELSE cnt[x]])
Get(lo, hi) ==
  LET m == {e \in Support : e[1] = lo /\ e[2] = hi} IN
  Read([op |-> "get", lo |-> lo, hi |-> hi, res |-> [present |-> (m # {}), allowed |-> {e[3] : e \in m}]])
Search(p) ==
  LET m == {e \in Support : Covers(e, p)} IN
  Read([op |-> "search", p |-> p, res |-> [present |-> (m # {}), allowed |-> m]])
SearchInterval(lo, hi) ==
  LET m == {e \in Support : Meets(e, lo, hi)} IN
  Read([op |-> "searchInterval", lo |-> lo, hi |-> hi, res |-> [present |-> (m # {}), allowed |-> m]])
SearchAll(p) == Read([op |-> "searchAll", p |-> p, res |-> Bag({e \in Support : Covers(e, p)})])
Values       == Read([op |-> "values", res |-> Bag(Support)])

Probe == Points \cup {0, 99}
Step == \/ \E i \in Intervals, v \in Vals : Put(i[1], i[2], v)
        \/ \E i \in Intervals : Get(i[1], i[2]) \/ SearchInterval(i[1], i[2])
        \/ \E p \in Probe : Search(p) \/ SearchAll(p)
        \/ Values
Next == Step /\ UNCHANGED hist
Spec == Init /\ [][Next]_vars
TypeOK == DOMAIN cnt \subseteq Entries /\ Total <= MaxEntries
PutAddsOne == [][last'.op = "put" => \E e \in DOMAIN cnt' :
                   /\ cnt'[e] = (IF e \in DOMAIN cnt THEN cnt[e] ELSE 0) + 1
                   /\ \A x \in DOMAIN cnt : x # e => cnt'[x] = cnt[x]]_vars
StJ(c) == {<<e, c[e]>> : e \in {x \in DOMAIN c : c[x] > 0}}
Emit == PrintT(ToJson([s |-> StJ(cnt), t |-> StJ(cnt'), a |-> last']))

One(S) == {RandomElement(S)}
SimStep == \E act \in One(1..12), i \in One(Intervals), v \in One(Vals), p \in One(Probe) :
  CASE act \in 1..5 -> IF Total < MaxEntries THEN Put(i[1], i[2], v) ELSE Values
    [] act \in 6..7 -> Get(i[1], i[2])
    [] act \in 8..9 -> Search(p)
    [] act = 10 -> SearchInterval(i[1], i[2])
    [] act = 11 -> SearchAll(p)
    [] act = 12 -> \E c \in One(1..8) : IF c = 1 THEN Values ELSE SearchAll(p)
SimNext == SimStep /\ hist' = Append(hist, IF last'.op \in {"put", "values"} THEN last' ELSE [x \in DOMAIN last' \ {"st"} |-> last'[x]])
SimSpec == Init /\ [][SimNext]_vars
SimEmit == Len(hist) < SimDepth \/ PrintT(ToJson(hist))
=============================================================================
