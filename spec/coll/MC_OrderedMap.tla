---- MODULE MC_OrderedMap ----
EXTENDS OrderedMap, MC_Coll
====
