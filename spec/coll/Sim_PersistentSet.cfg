SPECIFICATION SimSpec
CONSTANTS
  Items = {1, 2, 3, 4, 5, 6, 7, 8, 9, 10, 11, 12, 13, 14, 15, 16}
  MaxSets = 8
  SimDepth = 1500
INVARIANTS TypeOK SimEmit
