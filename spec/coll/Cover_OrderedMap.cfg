SPECIFICATION Spec
CONSTANTS
  Keys = {1, 2, 3}
  Vals = {1, 2}
  Others <- OthersQ
  SimDepth = 0
INVARIANTS TypeOK
PROPERTIES SetKeepsPosition DeleteKeepsOrder
VIEW view
ACTION_CONSTRAINT Emit
