SPECIFICATION Spec
CONSTANTS
  Points = {1, 2, 3}
  Vals = {1, 2}
  MaxEntries = 3
  SimDepth = 0
INVARIANTS TypeOK
PROPERTIES PutAddsOne
VIEW view
ACTION_CONSTRAINT Emit
