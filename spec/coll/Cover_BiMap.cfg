SPECIFICATION Spec
CONSTANTS
  Keys = {1, 2, 3, 4}
  Vals = {1, 2, 3, 4}
  SimDepth = 0
INVARIANTS Injective
VIEW view
ACTION_CONSTRAINT Emit
