SPECIFICATION Spec
CONSTANTS
  Items = {1, 2}
  MaxSets = 3
  SimDepth = 0
INVARIANTS TypeOK
PROPERTIES Monotone ChildDoesNotTouchParent
VIEW view
ACTION_CONSTRAINT Emit
