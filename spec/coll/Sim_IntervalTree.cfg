SPECIFICATION SimSpec
CONSTANTS
  Points = {1, 2, 3, 4, 5, 6, 7, 8, 9, 10, 11, 12, 13, 14, 15, 16}
  Vals = {1, 2, 3}
  MaxEntries = 400
  SimDepth = 1500
INVARIANTS SimEmit
