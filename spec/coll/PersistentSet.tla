--------------------------- MODULE PersistentSet ---------------------------
(* common/persistent.OrderedSet (property C51): a LAYERED LIVE VIEW.

   A set owns a sequence of distinct items (insertion order) and may have a parent.  What a
   set shows is its own items followed by what its parent shows -- live: `Clone` makes a child
   that SHARES the parent, so items added to the parent later are visible in the child (the
   snapshot reading of "persistent" was refuted in the design round; the doc comment of Clone
   promises only that changes to the child are not applied to the parent).
   Add does nothing when the item is already visible (own or inherited); consequently an item
   can be owned by a child and, later, also by its parent: ForEach then yields it twice, which
   the model states explicitly (`Show`).
   Sets are numbered 1..MaxSets in creation order; `par[i]` is 0 for a root. *)
EXTENDS Integers, Sequences, FiniteSets, TLC, Json
CONSTANTS Items, MaxSets, SimDepth

VARIABLES own,   \* sequence (one entry per created set) of item sequences
          par,   \* sequence of parent indices (0 = none)
          last, hist
vars == <<own, par, last, hist>>
view == <<own, par>>

N == Len(own)
RECURSIVE Show(_, _, _)
Show(o, p, i) == IF i = 0 THEN << >> ELSE o[i] \o Show(o, p, p[i])
InSeq(q, x) == \E j \in 1..Len(q) : q[j] = x
Has(o, p, i, x) == InSeq(Show(o, p, i), x)
AllShown(o, p) == [i \in 1..Len(o) |-> Show(o, p, i)]

Init == own = << >> /\ par = << >> /\ last = [op |-> "init"] /\ hist = << >>
Done(l, o, p) == own' = o /\ par' = p /\ last' = l @@ [st |-> AllShown(o, p)]
Read(l) == Done(l, own, par)

NewRoot  == N < MaxSets /\ Done([op |-> "new", res |-> N + 1], Append(own, << >>), Append(par, 0))
Clone(i) == N < MaxSets /\ Done([op |-> "clone", s |-> i, res |-> N + 1], Append(own, << >>), Append(par, i))
Add(i, x) == Done([op |-> "add", s |-> i, x |-> x],
                  IF Has(own, par, i, x) THEN own ELSE [own EXCEPT ![i] = Append(@, x)], par)
Contains(i, x) == Read([op |-> "contains", s |-> i, x |-> x, res |-> Has(own, par, i, x)])
ForEach(i)     == Read([op |-> "forEach", s |-> i, res |-> Show(own, par, i)])
IsEmpty(i)     == Read([op |-> "isEmpty", s |-> i, res |-> (Show(own, par, i) = << >>)])
\* s.AddIntersection(a, b): for every item a shows, in that order: if b shows it, Add it to s
RECURSIVE AddAll(_, _, _, _)
AddAll(o, p, i, q) == IF q = << >> THEN o
                      ELSE AddAll(IF Has(o, p, i, q[1]) THEN o ELSE [o EXCEPT ![i] = Append(@, q[1])], p, i, Tail(q))
AddIntersection(i, a, b) ==
  Done([op |-> "addIntersection", s |-> i, a |-> a, b |-> b],
       AddAll(own, par, i, SelectSeq(Show(own, par, a), LAMBDA x : Has(own, par, b, x))), par)

Step == \/ NewRoot
        \/ \E i \in 1..N : \/ Clone(i) \/ ForEach(i) \/ IsEmpty(i)
                           \/ \E x \in Items : Add(i, x) \/ Contains(i, x)
                           \/ \E a \in 1..N, b \in 1..N : AddIntersection(i, a, b)
Next == Step /\ UNCHANGED hist
Spec == Init /\ [][Next]_vars

TypeOK == /\ Len(par) = Len(own) /\ \A i \in 1..N : par[i] < i
          /\ \A i \in 1..N : Cardinality({own[i][j] : j \in 1..Len(own[i])}) = Len(own[i])
\* what a set shows only ever grows, and adding to a child never changes what its parent shows
Monotone == [][\A i \in 1..N : \A x \in Items : Has(own, par, i, x) => Has(own', par', i, x)]_vars
ChildDoesNotTouchParent ==
  [][(last'.op = "add" /\ N' = N) => \A i \in 1..N : (i # last'.s => own'[i] = own[i])]_vars
Emit == PrintT(ToJson([s |-> [own |-> own, par |-> par], t |-> [own |-> own', par |-> par'], a |-> last']))

One(S) == {RandomElement(S)}
SimStep ==
  IF N = 0 THEN NewRoot
  ELSE \E act \in One(1..16), i \in One(1..N), a \in One(1..N), b \in One(1..N), x \in One(Items) :
    CASE act \in 1..7 -> Add(i, x)
      [] act \in 8..9 -> Contains(i, x)
      [] act \in 10..11 -> ForEach(i)
      [] act = 12 -> IsEmpty(i)
      [] act = 13 -> IF N < MaxSets THEN Clone(i) ELSE Contains(i, x)
      [] act = 14 -> IF N < MaxSets THEN (\E c \in One(1..3) : IF c = 1 THEN NewRoot ELSE Clone(i)) ELSE ForEach(i)
      [] act \in 15..16 -> AddIntersection(i, a, b)
SimNext == SimStep /\ hist' = Append(hist, last')
SimSpec == Init /\ [][SimNext]_vars
SimEmit == Len(hist) < SimDepth \/ PrintT(ToJson(hist))
=============================================================================
