SPECIFICATION Spec
CONSTANT Devs = {{}, {"DevLoopOnce"}, {"DevForceAssignInvalid"}, {"DevReturnAfterJump"},
                 {"DevLoopOnce", "DevForceAssignInvalid"}, {"DevLoopOnce", "DevReturnAfterJump"},
                 {"DevForceAssignInvalid", "DevReturnAfterJump"},
                 {"DevLoopOnce", "DevForceAssignInvalid", "DevReturnAfterJump"}}
INVARIANTS TypeOK Scoped WellFormed Report
CHECK_DEADLOCK FALSE
