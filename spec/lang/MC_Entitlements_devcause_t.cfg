INIT Init
NEXT Next
CONSTANTS
  E = {"X0", "X1", "X2"}
  MaxRel = 9
  UseDev = TRUE
INVARIANTS DevOnlyCause
