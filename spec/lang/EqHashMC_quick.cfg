SPECIFICATION Spec
CONSTANTS
  Tier = "quick"
INVARIANTS Judge LawsHold
