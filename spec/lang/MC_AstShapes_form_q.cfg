SPECIFICATION Spec
CONSTANTS
  ExprDepth = 2
  FormDepth = 2
  FullOps = "reps"
  Family = "form"
INVARIANTS TermOK Emit
