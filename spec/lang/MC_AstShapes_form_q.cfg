SPECIFICATION Spec
CONSTANTS
  Family = "form"
  MaxDepth = 3
  FullOps = "reps"
  AllAtomsUpTo = 1
  DefaultFrom = 99
  OpsFrom = 99
INVARIANTS SpineOK FullOK Emit
