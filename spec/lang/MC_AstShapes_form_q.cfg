SPECIFICATION Spec
CONSTANTS
  Family = "form"
  MaxDepth = 2
  FullOps = "reps"
INVARIANTS SpineOK FullOK Emit
