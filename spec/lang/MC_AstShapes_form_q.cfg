SPECIFICATION Spec
CONSTANTS
  Family = "form"
  MaxDepth = 3
  FullOps = "reps"
INVARIANTS SpineOK FullOK Emit
