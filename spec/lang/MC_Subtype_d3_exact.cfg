INIT Init
NEXT Next
CONSTANTS
  Depth = 3
  DevNeverKind = FALSE
INVARIANTS Emit Laws
