-------------------------- MODULE PeepholeShapes --------------------------
(* Control-flow shapes over the leaf forms the bytecode compiler's peephole pass rewrites (C34).

   The peephole pass combines / removes instructions (local.field access, constant / nil / path
   followed by a transfer) and must re-target jumps. It only matters where control flow lands on
   or around such a window, and -- on this code base -- only inside function expressions
   (closures). This module enumerates small function bodies: a control construct whose arms are
   leaf forms, for every truth assignment, and gives the value the body returns. The harness
   renders every shape as a closure AND as a global function and runs it on the interpreter, the
   VM and the VM with peephole optimisation: all three must return the specified value. *)
EXTENDS Naturals, Sequences, TLC, Json, FiniteSets

Nil == 99     \* TLC cannot compare integers with strings: nil is the integer 99 (no leaf has that value)
\* leaf forms with the value they denote in the rendering environment
\*   let s = S()  (s.f = 7, s.g = 8);  var x = 1;  fun g(_ n: Int): Int { return n + 1 }
Leaves == {"field", "field2", "const", "nilv", "call", "arith", "index", "local"}
LeafVal(l) == CASE l = "field"  -> 7
                [] l = "field2" -> 8
                [] l = "const"  -> 5
                [] l = "nilv"   -> Nil
                [] l = "call"   -> 4
                [] l = "arith"  -> 2
                [] l = "index"  -> 31
                [] l = "local"  -> 1

Ctls == {"cond", "ifelse", "ifonly", "coalesce", "while0", "while2", "switch", "nestcond", "optchain", "andor", "forin", "ifletelse"}
Shapes == {[ctl |-> k, a |-> a1, b |-> a2, c |-> cc, d |-> dd] :
             k \in Ctls, a1 \in Leaves, a2 \in Leaves, cc \in BOOLEAN, dd \in BOOLEAN}
\* d only matters for the nested / and-or shapes
Valid(s) == (s.ctl \notin {"nestcond", "andor"} => s.d = TRUE)

Coalesce(x, y) == IF x = Nil THEN y ELSE x
Val(s) ==
  LET A == LeafVal(s.a)  B == LeafVal(s.b) IN
  CASE s.ctl = "cond"     -> IF s.c THEN A ELSE B
    [] s.ctl = "ifelse"   -> IF s.c THEN A ELSE B
    [] s.ctl = "ifonly"   -> IF s.c THEN A ELSE B
    [] s.ctl = "coalesce" -> Coalesce(IF s.c THEN Nil ELSE A, B)      \* (c ? nil : A) ?? B
    [] s.ctl = "while0"   -> B                                         \* r = B; loop runs 0 times
    [] s.ctl = "while2"   -> IF s.c THEN A ELSE B                      \* r = B; loop (2 rounds) assigns A when c
    [] s.ctl = "switch"   -> IF s.c THEN A ELSE B                      \* switch k { case 1: A  default: B }
    [] s.ctl = "nestcond" -> IF s.c THEN (IF s.d THEN A ELSE B) ELSE 5 \* c ? (d ? A : B) : 5
    [] s.ctl = "optchain" -> IF s.c THEN Coalesce(7, B) ELSE B         \* (c ? s : nil)?.f ?? B
    [] s.ctl = "andor"    -> IF (s.c /\ s.d) \/ ~s.c THEN A ELSE B     \* ((c && d) || !c) ? A : B
    [] s.ctl = "forin"    -> IF s.c THEN A ELSE B                      \* r = B; for e in [c] { if e { r = A } }
    [] s.ctl = "ifletelse"-> IF s.c THEN Coalesce(A, B) ELSE B         \* if let v = (c ? A : nil) { v } else { B }
All == {s \in Shapes : Valid(s)}
ASSUME PrintT(ToJson([shapes |-> {s @@ [val |-> Val(s)] : s \in All}]))
\* sanity of the table itself
ASSUME \A s \in All : Val(s) \in {Nil} \cup 0..40
VARIABLE x
Init == x = 0
Next == UNCHANGED x
=============================================================================
