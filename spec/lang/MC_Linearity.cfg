SPECIFICATION Spec
CONSTANT Devs = {{}}
INVARIANTS TypeOK Scoped WellFormed Report
CHECK_DEADLOCK FALSE
