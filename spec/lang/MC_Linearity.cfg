SPECIFICATION Spec
CONSTANT Devs = {"exact", "DevLoopOnce", "DevJumpNoExit"}
INVARIANTS TypeOK Scoped WellFormed Report
CHECK_DEADLOCK FALSE
