SPECIFICATION Spec
CONSTANT Devs = {{}, {"DevJumpNoExit"}}
INVARIANTS TypeOK Scoped WellFormed Report
CHECK_DEADLOCK FALSE
