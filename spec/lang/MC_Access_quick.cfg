SPECIFICATION Spec
CONSTANTS
  Sites = {"S.method", "S.closure", "A.Sib", "A.fun", "B.fun@1", "B.T@1", "C.fun@2", "script", "tx.prepare", "tx.execute"}
  CKinds = {"struct", "resource"}
