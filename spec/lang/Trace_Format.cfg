SPECIFICATION JSpec
