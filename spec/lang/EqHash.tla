------------------------------- MODULE EqHash -------------------------------
(* Equality, ordering and hashing of values (property C18).

   A VALUE is known by its static type and its canonical form.  A REPRESENTATION (rep) is one way
   of writing a value down in a program: the NFC or the NFD spelling of a string, a character taken
   from a literal or by indexing a string, a number written in decimal, in hexadecimal or converted
   from another type, an address with or without leading zeros, a path literal or a path built at
   run time, an enum case or an enum built from its raw value, a type value whose intersections and
   entitlement sets are listed in some order and which is written statically or built at run time,
   and optionals, arrays and dictionaries of these.  Canon maps a rep to the canonical form:

       Eq(a, b)  ==  the static types agree and Canon(a) = Canon(b)

   Comparable types (numbers, strings, characters, booleans, arrays of these) are totally ordered
   consistently with Eq.  Hashable values (everything except optionals and containers) are
   dictionary keys; the model dictionary is a list of entries with pairwise different (static
   type, canonical form) keys, so equal values are interchangeable as keys by construction.

   Strings and characters reuse the alphabet, Norm and the code-point order of text/Graphemes.tla. *)
EXTENDS Graphemes

RECURSIVE SymStr(_)
SymStr(q) == IF q = << >> THEN "" ELSE Head(q) \o SymStr(Tail(q))
SeqToSet(q) == {q[i] : i \in 1..Len(q)}
NoDup(q) == \A i \in 1..Len(q) : \A j \in 1..Len(q) : q[i] = q[j] => i = j

\* ------------------------------------------------------------------ type terms (for type values)
\* one record shape for every constructor: c constructor, n name, ms interface names as written,
\* au kind of authorization ("none", "conj", "disj"), es entitlement names as written, args type arguments
TPrim(n)        == [c |-> "prim",  n |-> n,  ms |-> << >>, au |-> "none", es |-> << >>, args |-> << >>]
TInter(ms)      == [c |-> "inter", n |-> "", ms |-> ms,    au |-> "none", es |-> << >>, args |-> << >>]
TRInter(ms)     == [c |-> "rinter", n |-> "", ms |-> ms,   au |-> "none", es |-> << >>, args |-> << >>]   \* of resource interfaces: @{..}
TRef(au, es, t) == [c |-> "ref",   n |-> "", ms |-> << >>, au |-> au,     es |-> es,    args |-> <<t>>]
TOpt(t)         == [c |-> "opt",   n |-> "", ms |-> << >>, au |-> "none", es |-> << >>, args |-> <<t>>]
TArr(t)         == [c |-> "arr",   n |-> "", ms |-> << >>, au |-> "none", es |-> << >>, args |-> <<t>>]
TCap(t)         == [c |-> "cap",   n |-> "", ms |-> << >>, au |-> "none", es |-> << >>, args |-> <<t>>]
TDict(k, v)     == [c |-> "dict",  n |-> "", ms |-> << >>, au |-> "none", es |-> << >>, args |-> <<k, v>>]

RECURSIVE TypeWellFormed(_)
TypeWellFormed(t) == /\ NoDup(t.ms) /\ NoDup(t.es)
                     /\ (t.c \in {"inter", "rinter"} => Len(t.ms) >= 1)
                     /\ (t.au = "none" <=> t.es = << >>) /\ (t.au # "none" => t.c = "ref")
                     /\ \A i \in 1..Len(t.args) : TypeWellFormed(t.args[i])
\* the type denoted: members of intersections and entitlement sets are SETS; a one-element
\* conjunction and a one-element disjunction are the same authorization
RECURSIVE TypeCanon(_)
TypeCanon(t) == [c |-> t.c, n |-> t.n, ms |-> SeqToSet(t.ms),
                 au |-> IF Len(t.es) = 1 THEN "conj" ELSE t.au, es |-> SeqToSet(t.es),
                 args |-> [i \in 1..Len(t.args) |-> TypeCanon(t.args[i])]]

\* ------------------------------------------------------------------ representations
\* one record shape for every kind; unused fields hold defaults.  ty is the static type as Cadence
\* syntax (reps are only compared with reps of the same static type).
Rep(k, ty, form, src, v, name, t, xs) ==
  [k |-> k, ty |-> ty, form |-> form, src |-> src, v |-> v, name |-> name, t |-> t, xs |-> xs]
NoType == TPrim("")
RStr(src, form)        == Rep("String", "String", form, src, 0, "", NoType, << >>)        \* form: lit | utf8 | concat
RChar(src, form)       == Rep("Character", "Character", form, src, 0, "", NoType, << >>)  \* form: lit | index
RBool(b, form)         == Rep("Bool", "Bool", form, << >>, IF b THEN 1 ELSE 0, "", NoType, << >>)   \* form: lit | not | cmp
RNum(ty, v, form)      == Rep("Num", ty, form, << >>, v, "", NoType, << >>)               \* form: dec | hex | conv
RFix(ty, v, form)      == Rep("Fix", ty, form, << >>, v, "", NoType, << >>)               \* v in hundredths; form: short | long | conv
RAddr(v, form)         == Rep("Address", "Address", form, << >>, v, "", NoType, << >>)    \* form: short | padded | conv
RPath(dom, id, form)   == Rep("Path", "Path", form, << >>, 0, dom \o "/" \o id, NoType, << >>)    \* form: lit | ctor
REnum(ty, raw, form)   == Rep("Enum", ty, form, << >>, raw, "", NoType, << >>)            \* form: case | raw
RType(t, form)         == Rep("Type", "Type", form, << >>, 0, "", t, << >>)               \* form: static | dynamic
RNil(ty, form)         == Rep("Nil", ty, form, << >>, 0, "", NoType, << >>)               \* ty: an optional type; form: nil | inner (nil of the inner optional)
RSome(ty, x)           == Rep("Some", ty, "", << >>, 0, "", NoType, <<x>>)                \* x viewed at the optional type ty
RArr(ty, xs)           == Rep("Arr", ty, "", << >>, 0, "", NoType, xs)
RDict(ty, kvs)         == Rep("Dict", ty, "", << >>, 0, "", NoType, kvs)                  \* xs = <<k1, v1, k2, v2, ...>> in the order written

Hashable(r) == r.k \in {"String", "Character", "Bool", "Num", "Fix", "Address", "Path", "Enum", "Type"}

RECURSIVE WellFormed(_)
WellFormed(r) ==
  /\ (r.k = "Character" => Len(Clusters(Norm(r.src))) = 1)
  /\ (r.k = "Type" => TypeWellFormed(r.t))
  /\ \A i \in 1..Len(r.xs) : WellFormed(r.xs[i])
  /\ (r.k = "Arr" => \A i \in 1..Len(r.xs) : \A j \in 1..Len(r.xs) : r.xs[i].ty = r.xs[j].ty)
  /\ (r.k = "Dict" => /\ Len(r.xs) % 2 = 0
                      /\ \A i \in 1..Len(r.xs) : \A j \in 1..Len(r.xs) : (i % 2 = j % 2) => r.xs[i].ty = r.xs[j].ty
                      /\ \A i \in 1..Len(r.xs) : (i % 2 = 1) => Hashable(r.xs[i]))

\* ------------------------------------------------------------------ canonical forms and equality
\* Canonical forms of reps of one static type have one shape, so they can be compared.
RECURSIVE Canon(_)
RECURSIVE EqR(_, _)
\* dictionary entries as written, later entries with an equal key replace earlier ones
RECURSIVE EntriesOf(_, _)
EntriesOf(kvs, acc) ==
  IF kvs = << >> THEN acc
  ELSE LET key == kvs[1]  val == kvs[2]
           kept == SelectSeq(acc, LAMBDA e : ~EqR(e[1], key))
       IN EntriesOf(SubSeq(kvs, 3, Len(kvs)), Append(kept, <<key, val>>))
Canon(r) ==
  CASE r.k \in {"String", "Character"} -> SymStr(Norm(r.src))
    [] r.k \in {"Bool", "Num", "Fix", "Address", "Enum"} -> r.v
    [] r.k = "Path" -> r.name
    [] r.k = "Type" -> TypeCanon(r.t)
    [] r.k = "Nil"  -> << >>
    [] r.k = "Some" -> IF r.xs[1].k \in {"Nil", "Some"} THEN Canon(r.xs[1]) ELSE <<Canon(r.xs[1])>>   \* optionals do not nest values
    [] r.k = "Arr"  -> [i \in 1..Len(r.xs) |-> Canon(r.xs[i])]
    [] r.k = "Dict" -> LET es == EntriesOf(r.xs, << >>) IN {<<Canon(es[i][1]), Canon(es[i][2])>> : i \in 1..Len(es)}
EqR(a, b) == a.ty = b.ty /\ Canon(a) = Canon(b)
Eq(a, b) == EqR(a, b)

\* ------------------------------------------------------------------ ordering
\* comparable static types: numbers, strings, characters, booleans, and arrays of comparable types
ComparableBase == {"String", "Character", "Bool", "Fix64", "UFix64", "Fix128", "UFix128",
                   "Int", "Int8", "Int16", "Int32", "Int64", "Int128", "Int256",
                   "UInt", "UInt8", "UInt16", "UInt32", "UInt64", "UInt128", "UInt256",
                   "Word8", "Word16", "Word32", "Word64", "Word128", "Word256"}
RECURSIVE ComparableTy(_)
ComparableTy(ty) == IF Len(ty) >= 2 /\ SubSeq(ty, 1, 1) = "[" /\ SubSeq(ty, Len(ty), Len(ty)) = "]"
                    THEN ComparableTy(SubSeq(ty, 2, Len(ty) - 1))
                    ELSE ty \in ComparableBase
ComparableRep(r) == ComparableTy(r.ty)
RECURSIVE LessR(_, _)
RECURSIVE LessSeq(_, _)
LessSeq(xs, ys) == IF ys = << >> THEN FALSE ELSE IF xs = << >> THEN TRUE
                   ELSE IF LessR(Head(xs), Head(ys)) THEN TRUE
                   ELSE IF LessR(Head(ys), Head(xs)) THEN FALSE ELSE LessSeq(Tail(xs), Tail(ys))
LessR(a, b) ==                                   \* a, b comparable reps of one static type
  CASE a.k \in {"String", "Character"} -> LessCP(Norm(a.src), Norm(b.src))
    [] a.k \in {"Bool", "Num", "Fix"} -> a.v < b.v                                        \* false < true
    [] a.k = "Arr" -> LessSeq(a.xs, b.xs)                                                \* lexicographic
Cmp3(a, b) == IF Eq(a, b) THEN 0 ELSE IF LessR(a, b) THEN -1 ELSE 1

\* ------------------------------------------------------------------ the dictionary model
\* entries [key |-> rep, val |-> Int]; keys pairwise not KeyEq.  Keys of different static types are different keys.
KeyEq(a, b) == EqR(a, b)
NoVal == -1
FindKey(d, key) == {i \in 1..Len(d) : KeyEq(d[i].key, key)}
DictOK(d) == \A i \in 1..Len(d) : FindKey(d, d[i].key) = {i}
Lookup(d, key) == IF FindKey(d, key) = {} THEN NoVal ELSE d[CHOOSE i \in FindKey(d, key) : TRUE].val
\* insert returns the new dictionary and the value that was replaced (NoVal: none)
Insert(d, key, val) ==
  IF FindKey(d, key) = {} THEN [d |-> Append(d, [key |-> key, val |-> val]), old |-> NoVal]
  ELSE LET i == CHOOSE i \in FindKey(d, key) : TRUE IN [d |-> [d EXCEPT ![i].val = val], old |-> d[i].val]
Remove(d, key) ==
  IF FindKey(d, key) = {} THEN [d |-> d, old |-> NoVal]
  ELSE LET i == CHOOSE i \in FindKey(d, key) : TRUE IN
       [d |-> SubSeq(d, 1, i - 1) \o SubSeq(d, i + 1, Len(d)), old |-> d[i].val]

\* ------------------------------------------------------------------ laws
EqLaws(a, b) == Eq(a, a) /\ (Eq(a, b) <=> Eq(b, a))                                          \* reflexive, symmetric
EqTransitive(a, b, c) == (Eq(a, b) /\ Eq(b, c)) => Eq(a, c)
OrderLaws(a, b) ==                                \* a, b comparable reps of one static type
  /\ ~LessR(a, a)
  /\ (Eq(a, b) /\ ~LessR(a, b) /\ ~LessR(b, a)) \/ (~Eq(a, b) /\ (LessR(a, b) # LessR(b, a)))     \* exactly one of <, =, >
OrderTransitive(a, b, c) ==
  /\ (LessR(a, b) /\ LessR(b, c)) => LessR(a, c)
  /\ (Eq(a, b) => (LessR(a, c) <=> LessR(b, c)) /\ (LessR(c, a) <=> LessR(c, b)))                 \* consistent with ==
\* equal hashable values are interchangeable as keys: inserting both leaves one entry, either finds it
KeyLaws(a, b) ==
  LET d1 == Insert(<< >>, a, 1).d  r2 == Insert(d1, b, 2) IN
  /\ DictOK(r2.d)
  /\ KeyEq(a, b) => Len(r2.d) = 1 /\ r2.old = 1 /\ Lookup(r2.d, a) = 2 /\ Lookup(r2.d, b) = 2
  /\ ~KeyEq(a, b) => Len(r2.d) = 2 /\ r2.old = NoVal /\ Lookup(r2.d, a) = 1 /\ Lookup(r2.d, b) = 2
=============================================================================
