INIT Init
NEXT Next
CONSTANTS
  Depth = 2
  Locs <- MCLocs
INVARIANTS DecodeInv InjectiveInv Emit
