---- MODULE FormatRel ----
(* C39 -- the relation a formatter run has to satisfy, over an observation record (see Format.tla). *)
EXTENDS Naturals, Sequences, FiniteSets

\* ------------------------------------------------------------- the relation
BagOf(seq) == [x \in {seq[i] : i \in 1..Len(seq)} |-> Cardinality({i \in 1..Len(seq) : seq[i] = x})]
Tokens(seq) == {seq[i][1] : i \in 1..Len(seq)}
Lost(o)       == Tokens(o.cin) \ Tokens(o.cout)
Invented(o)   == Tokens(o.cout) \ Tokens(o.cin)
Duplicated(o) == {k \in Tokens(o.cout) : Cardinality({i \in 1..Len(o.cout) : o.cout[i][1] = k}) >
                                        Cardinality({i \in 1..Len(o.cin) : o.cin[i][1] = k})}
TextChanged(o) == {k \in Tokens(o.cin) \cap Tokens(o.cout) :
                     {o.cin[i][2] : i \in {j \in 1..Len(o.cin) : o.cin[j][1] = k}} #
                     {o.cout[i][2] : i \in {j \in 1..Len(o.cout) : o.cout[j][1] = k}}}
R1(o) == o.parses /\ o.asteq
R2(o) == BagOf(o.cin) = BagOf(o.cout)
R3(o) == ~o.err2 /\ o.fixed
Conforms(o) == o.err \/ (R1(o) /\ R2(o) /\ R3(o))
\* why an observation does not conform (the semantic class of a finding)
Reasons(o) ==
  IF o.err THEN {} ELSE
     (IF ~o.parses THEN {"output-does-not-parse"} ELSE {})
     \cup (IF o.parses /\ ~o.asteq THEN {"ast-changed"} ELSE {})
     \cup (IF Lost(o) # {} THEN {"comment-lost"} ELSE {})
     \cup (IF Duplicated(o) # {} \/ Invented(o) # {} THEN {"comment-duplicated"} ELSE {})
     \cup (IF TextChanged(o) # {} THEN {"comment-text-changed"} ELSE {})
     \cup (IF o.err2 THEN {"second-pass-error"} ELSE {})
     \cup (IF ~o.err2 /\ ~o.fixed THEN {"not-idempotent"} ELSE {})
ReasonsSound == TRUE   \* (checked on the trace: Conforms(o) <=> Reasons(o) = {})

====
