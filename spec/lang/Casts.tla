------------------------------- MODULE Casts -------------------------------
(***************************************************************************)
(* C09 -- dynamic casts and run-time type tests.                           *)
(*                                                                         *)
(* A value term has a dynamic type DynType(v).  Everything the program     *)
(* can ask about the value at run time is a function of that type and the  *)
(* subtype relation (SubtypeRel):                                          *)
(*    v.isInstance(T)               = DynType(v) <: T                      *)
(*    v.getType().isSubtype(of: T)  = DynType(v) <: T                      *)
(*    v as? T  succeeds             = DynType(v') <: T, where v' is v with *)
(*        all optional layers removed -- unless T is AnyStruct/AnyResource *)
(*        or an optional of them, then v' = v                              *)
(*    v as! T  fails  <=>  v as? T is nil;  a successful cast yields v.    *)
(* Facts of the language that shape DynType: the dynamic type of an array  *)
(* or dictionary is the type it was *created* with (not derived from its   *)
(* elements); the dynamic type of a reference is its authorization and the *)
(* dynamic type of the referenced value (the static borrow type only       *)
(* limits what the checker lets the program do); and storing a value into  *)
(* an AnyStruct variable                                                   *)
(* strips the authorizations of every reference inside it (held = "any");  *)
(* a reference kept in a variable of its own reference type keeps them     *)
(* (held = "exact").                                                       *)
(* Named deviation DevRefForward: on an ephemeral reference, isInstance    *)
(* and getType answer for the *referenced value* instead of the reference. *)
(***************************************************************************)
EXTENDS SubtypeRel, TLC, Json, SequencesExt

\* ------------------------------------------------------------------ value terms
Num(t)        == [k |-> "num", t |-> t]                 \* a number literal of primitive type t
Simple(t)     == [k |-> "simple", t |-> t]              \* String, Bool, Address, paths, Type, Character
ArrV(t, es)   == [k |-> "arr", t |-> t, es |-> es]      \* ([..] as [t])
CArrV(t, es)  == [k |-> "carr", t |-> t, es |-> es]     \* ([..] as [t; n])
DictV(kt, vt, es) == [k |-> "dict", kt |-> kt, vt |-> vt, es |-> es]   \* es: sequence of <<key, value>>
Comp(n)       == [k |-> "comp", n |-> n]                \* S(), S2(), En.a
FunV(pure, ps, r) == [k |-> "fun", pure |-> pure, ps |-> ps, r |-> r]
RefV(a, t, x) == [k |-> "ref", a |-> a, t |-> t, x |-> x]   \* &x as auth(a) &t ; x names the referenced variable
ResV(n)       == [k |-> "res", n |-> n]                 \* <- create R()   (a resource value)
SomeV(v)      == [k |-> "some", v |-> v]
NilV          == [k |-> "nil"]

\* variables references point to: name -> dynamic type of the value stored there
Referent(x) == CASE x = "sv" -> Nom("S") [] x = "iv" -> P("Int") [] x = "av" -> VArr(P("Int")) [] x = "rv" -> Nom("R")

RECURSIVE DynType(_)
DynType(v) ==
  CASE v.k = "num"    -> P(v.t)
    [] v.k = "simple" -> P(v.t)
    [] v.k = "arr"    -> VArr(v.t)
    [] v.k = "carr"   -> CArr(v.t, Len(v.es))
    [] v.k = "dict"   -> Dict(v.kt, v.vt)
    [] v.k = "comp"   -> Nom(v.n)
    [] v.k = "res"    -> Nom(v.n)
    [] v.k = "fun"    -> Fun(v.pure, "none", v.ps, v.r)
    [] v.k = "ref"    -> Ref(v.a, Referent(v.x))     \* the referenced value's own type, not the borrow type v.t:
                                                        \* `&sv as &{I1}` can be cast back to &S (type narrowing)
    [] v.k = "some"   -> Opt(DynType(v.v))
    [] v.k = "nil"    -> Opt(P("Never"))

\* storing into AnyStruct removes every authorization inside the type
RECURSIVE Strip(_)
Strip(t) ==
  CASE t.k = "ref"  -> Ref(EB!Un, Strip(t.t))
    [] t.k = "opt"  -> Opt(Strip(t.t))
    [] t.k = "varr" -> VArr(Strip(t.t))
    [] t.k = "carr" -> CArr(Strip(t.t), t.n)
    [] t.k = "dict" -> Dict(Strip(t.kt), Strip(t.vt))
    [] t.k = "fun"  -> Fun(t.pure, t.tp, t.ps, Strip(t.r))
    [] OTHER -> t
HeldType(v, held) == IF held = "any" THEN Strip(DynType(v)) ELSE DynType(v)

RECURSIVE Unbox(_)
Unbox(v) == IF v.k = "some" THEN Unbox(v.v) ELSE v
RECURSIVE UnwrapT(_)
UnwrapT(t) == IF t.k = "opt" THEN UnwrapT(t.t) ELSE t
AnyTarget(t) == UnwrapT(t) \in {P("AnyStruct"), P("AnyResource")}

CastOk(v, held, t) == Sub(HeldType(IF AnyTarget(t) THEN v ELSE Unbox(v), held), t)
InstOk(v, held, t) == Sub(HeldType(v, held), t)
\* DevRefForward: the reference forwards the question to the value it points to
InstFwd(v, held, t) == IF v.k = "ref" THEN Sub(Referent(v.x), t) ELSE InstOk(v, held, t)

IsOptionalValue(v) == v.k \in {"some", "nil"}

\* ------------------------------------------------ the result of a successful cast
\* "A successful cast yields the original value": the value the cast looked at (v itself for the
\* Any* targets, its payload otherwise), boxed into optionals only as far as the target's own optional
\* depth requires.  In particular a cast to AnyStruct? / AnyResource?? never *removes* optional layers.
RECURSIVE OptDepth(_)
OptDepth(t) == IF t.k = "opt" THEN 1 + OptDepth(t.t) ELSE 0
RECURSIVE BoxTo(_, _)
BoxTo(t, n) == IF OptDepth(t) >= n THEN t ELSE BoxTo(Opt(t), n)
ResultType(v, held, t) == BoxTo(HeldType(IF AnyTarget(t) THEN v ELSE Unbox(v), held), OptDepth(t))
RECURSIVE OptN(_, _)
OptN(t, n) == IF n = 0 THEN t ELSE Opt(OptN(t, n - 1))
RECURSIVE SomeN(_, _)
SomeN(v, n) == IF n = 0 THEN v ELSE SomeV(SomeN(v, n - 1))
\* optional depth 0..3 of a struct, a number and a resource against Any* and concrete targets of depth 0..3
DepthVals    == {SomeN(x, d) : x \in {Comp("S"), Num("Int"), ResV("R")}, d \in 0..3}
DepthTargets == {OptN(x, n) : x \in {P("AnyStruct"), P("AnyResource"), Nom("S"), Nom("R"), P("Int"), Inter({"I1"}), Inter({"RI"})}, n \in 0..3}
\* the checker only admits casts within one kind
SameKind(v, t) == IsRes(DynType(v)) = IsRes(t)
\* identity, as the property states it: on the Any* targets the result is the operand itself whenever
\* the operand is at least as optional as the target
IdentityLemma == \A v \in DepthVals : \A t \in DepthTargets :
                   AnyTarget(t) /\ SameKind(v, t) /\ OptDepth(t) <= OptDepth(DynType(v)) =>
                     CastOk(v, "any", t) /\ ResultType(v, "any", t) = DynType(v)
DepthRow(v) == [kind |-> "depth", v |-> v, decl |-> DynType(v), resource |-> IsRes(DynType(v)),
                targets |-> LET ts == SetToSeq({t \in DepthTargets : SameKind(v, t)})
                            IN [i \in 1..Len(ts) |-> [t |-> ts[i], ok |-> CastOk(v, "any", ts[i]),
                                                       result |-> ResultType(v, "any", ts[i])]]]

\* ------------------------------------------------------------------ the universes
\* targets: struct-kinded types a program can write after `as?` on an AnyStruct value
RECURSIVE Writable(_)
Writable(t) ==
  CASE t.k = "prim"  -> t.n \notin {"Any"}
    [] t.k = "nom"   -> t.n \notin Ifaces \cup RAttachments \cup SAttachments
    [] t.k \in {"opt", "varr", "carr", "cap"} -> Writable(t.t)
    [] t.k = "range" -> Writable(t.t) /\ t.t # P("Integer")
    [] t.k = "ref"   -> Writable(t.t) \/ (t.t.k = "nom" /\ t.t.n \in RAttachments \cup SAttachments)
    [] t.k = "dict"  -> Writable(t.kt) /\ Writable(t.vt)
    [] t.k = "fun"   -> t.tp = "none" /\ Writable(t.r) /\ \A i \in 1..Len(t.ps) : Writable(t.ps[i])
    [] OTHER -> TRUE
\* authorizations of the same kind and size that overlap without being equal (auth(E1, E2) vs auth(E1, E3)):
\* equality / subtyping of authorizations must look at *every* member
OverlapAuths == {Conj({"E1", "E2"}), Conj({"E1", "E3"}), Conj({"E2", "E3"}),
                 Disj({"E1", "E2"}), Disj({"E1", "E3"}), Disj({"E2", "E3"})}
OverlapTargets == UNION {{Ref(a, Nom("S")), VArr(Ref(a, Nom("S"))), Dict(P("String"), Ref(a, Nom("S"))), Opt(Ref(a, Nom("S")))}
                           : a \in OverlapAuths}
Targets == {t \in Universe : Writable(t) /\ IsStruct(t)} \cup OverlapTargets

One == Num("Int")
sS == Comp("S")
RefVals == {RefV(a, t, "sv") : a \in AuthSet, t \in {Nom("S"), Inter({"I1"}), P("AnyStruct")}}
      \cup {RefV(EB!Un, P("Int"), "iv"), RefV(Conj({"E1"}), P("Int"), "iv"), RefV(EB!Un, P("Integer"), "iv"),
            RefV(EB!Un, VArr(P("Int")), "av"), RefV(Conj({"E1"}), VArr(P("Int")), "av"),
            RefV(EB!Un, Nom("R"), "rv"), RefV(Conj({"E1", "E2"}), Nom("R"), "rv"), RefV(EB!Un, Inter({"RI"}), "rv"),
            RefV(Disj({"E1", "E2"}), P("AnyResource"), "rv")}
PlainVals ==
     {Num(t) : t \in {"Int", "Int8", "UInt8", "Int256", "Word8", "UFix64", "Fix64", "UInt"}}
  \cup {Simple(t) : t \in {"String", "Bool", "Address", "StoragePath", "PublicPath", "Type", "Character"}}
  \cup {ArrV(P("Int"), <<One, One>>), ArrV(P("Int8"), <<Num("Int8")>>), ArrV(P("Integer"), <<One>>), ArrV(P("AnyStruct"), <<One, Simple("String")>>),
        ArrV(P("Int"), << >>), ArrV(Nom("S"), <<sS>>), ArrV(Inter({"I1"}), <<sS>>), ArrV(Opt(P("Int")), <<One>>),
        ArrV(VArr(P("Int")), <<ArrV(P("Int"), <<One>>)>>), ArrV(P("Never"), << >>),
        CArrV(P("Int"), <<One, One>>), CArrV(P("Integer"), <<One, One, One>>),
        DictV(P("Int"), P("Int"), <<<<One, One>>>>), DictV(P("String"), Nom("S"), <<<<Simple("String"), sS>>>>),
        DictV(P("String"), Inter({"I1"}), <<<<Simple("String"), sS>>>>), DictV(P("String"), P("AnyStruct"), <<<<Simple("String"), One>>>>),
        DictV(P("String"), P("Int"), << >>),
        Comp("S"), Comp("S2"), Comp("S3"), Comp("En"),
        FunV(FALSE, << >>, P("Int")), FunV(TRUE, << >>, P("Int")), FunV(FALSE, <<P("Int")>>, P("Int")), FunV(FALSE, <<P("Integer")>>, P("Void")),
        ArrV(Ref(Conj({"E1"}), Nom("S")), <<RefV(Conj({"E1"}), Nom("S"), "sv")>>)}
OptVals == {SomeV(One), SomeV(SomeV(One)), SomeV(sS), SomeV(ArrV(P("Int"), <<One>>)), SomeV(RefV(EB!Un, Nom("S"), "sv")),
            SomeV(RefV(Conj({"E1"}), Nom("S"), "sv")), SomeV(Simple("String")), NilV}
\* every value is observed through an AnyStruct variable; references also through a variable of their own type
OverlapRefs == {RefV(a, Nom("S"), "sv") : a \in OverlapAuths}
OverlapVals == OverlapRefs
    \cup {ArrV(Ref(r.a, Nom("S")), <<r>>) : r \in OverlapRefs}
    \cup {DictV(P("String"), Ref(r.a, Nom("S")), <<<<Simple("String"), r>>>>) : r \in OverlapRefs}
    \cup {SomeV(r) : r \in OverlapRefs}
Cases == {[v |-> v, held |-> "any"] : v \in PlainVals \cup RefVals \cup OptVals}
    \cup {[v |-> v, held |-> "exact"] : v \in RefVals \cup {x \in OptVals : x.k = "some" /\ x.v.k = "ref"}}
    \cup {[v |-> v, held |-> "exact"] : v \in OverlapVals}

\* ------------------------------------------------------------------ lemmas
\* the optional-unwrapping rule, as the property states it
UnwrapLemma == \A c \in Cases : c.v.k = "some" =>
                 \A t \in Targets : ~AnyTarget(t) => CastOk(c.v, c.held, t) = CastOk(c.v.v, c.held, t)
\* the three mechanisms agree on everything that is neither optional nor a reference ...
AgreeLemma == \A c \in Cases : ~IsOptionalValue(c.v) =>
                 \A t \in Targets : CastOk(c.v, c.held, t) = InstOk(c.v, c.held, t)
\* ... and DevRefForward breaks the agreement exactly on references
FwdOnlyRefs == \A c \in Cases : c.v.k # "ref" => \A t \in Targets : InstFwd(c.v, c.held, t) = InstOk(c.v, c.held, t)

\* ------------------------------------------------------ state: one case at a time
VARIABLES ci, tl, row
CL == SetToSeq(Cases)
Init == /\ ci \in 1..Cardinality(Cases)
        /\ tl = SetToSeq(Targets)
        /\ row = LET c == CL[ci] IN
                 [cast |-> {j \in 1..Len(tl) : CastOk(c.v, c.held, tl[j])},
                  inst |-> {j \in 1..Len(tl) : InstOk(c.v, c.held, tl[j])},
                  fwd  |-> {j \in 1..Len(tl) : InstFwd(c.v, c.held, tl[j])}]
Next == UNCHANGED <<ci, tl, row>>
RowLaws == LET c == CL[ci] IN
           /\ (~IsOptionalValue(c.v) => row.cast = row.inst)
           /\ (c.v.k # "ref" => row.fwd = row.inst)
\* static type the value expression is written with (rendering aid for the driver)
RECURSIVE DeclType(_)
DeclType(v) == CASE v.k = "ref" -> Ref(v.a, v.t) [] v.k = "some" -> Opt(DeclType(v.v)) [] OTHER -> DynType(v)
Emit == PrintT(ToJson([kind |-> "case", v |-> CL[ci].v, held |-> CL[ci].held, dyn |-> HeldType(CL[ci].v, CL[ci].held),
                       decl |-> DeclType(CL[ci].v),
                       optional |-> IsOptionalValue(CL[ci].v), reference |-> CL[ci].v.k = "ref",
                       cast |-> row.cast, inst |-> row.inst, fwd |-> row.fwd]))
TargetsRow == [kind |-> "targets", types |-> SetToSeq(Targets)]
=============================================================================
