SPECIFICATION Spec
