SPECIFICATION Spec
CONSTANT Depth = 1
