---- MODULE Trace_Format ----
(* Judges the observations recorded from the real formatter (obs.ndjson, one per line) with the relation
   of Format.tla: an observation that does not conform is reported as <<"BAD", i, reasons>>. *)
EXTENDS FormatRel, Json, TLC
Obs == ndJsonDeserialize("obs.ndjson")
VARIABLE l
JInit == l = 1
JNext == /\ l <= Len(Obs) /\ l' = l + 1
         /\ LET o == Obs[l] IN
            /\ Assert(Conforms(o) <=> Reasons(o) = {}, <<"Reasons inconsistent with Conforms at", l>>)
            /\ Conforms(o) \/ PrintT(<<"BAD", l, Reasons(o), Lost(o)>>)
JSpec == JInit /\ [][JNext]_l
====
