---------------------------- MODULE Entitlements ----------------------------
(***************************************************************************)
(* C06 -- the authorization algebra of entitlements, possible-worlds      *)
(* semantics.                                                              *)
(*                                                                         *)
(* An authorization does not say which entitlements the holder of a        *)
(* reference has; it says which *worlds* (sets of entitlements actually    *)
(* possessed) are possible.  Everything else is derived from that:         *)
(*   a requirement is satisfied  iff  it holds in every possible world,    *)
(*   a derived authorization is sound iff it is true of the world the      *)
(*   holder really ends up in, whatever world he started from.             *)
(* The documented syntactic rules (PermitsRule, IntersectRule, ImageRule)  *)
(* are stated next to the semantics and TLC checks them against it.        *)
(* Written from the property statement and the language definition of      *)
(* entitlement sets and mappings; not a transliteration of sema/access.go. *)
(***************************************************************************)
EXTENDS EntitlementsBase, Sequences, SequencesExt, TLC, Json

CONSTANTS MaxRel,   \* bound on the number of explicit relations of a mapping
          UseDev    \* TRUE: the image rule is the named deviation DevImageDropsEmpty
\* (E, the universe of entitlements, is declared in EntitlementsBase)

\* Worlds, W, Permits, PermitsRule, IntersectRule, IntersectSound: see EntitlementsBase
\* ------------------------------------------------------------------ mappings
\* A mapping is a relation over E, optionally including the identity relation.
\* `include` of other mappings is union of relations and disjunction of the
\* identity flags (Flatten), transitively.
Rels     == {r \in SUBSET (E \X E) : Cardinality(r) <= MaxRel}
Mappings == {[rel |-> r, id |-> b] : r \in Rels, b \in BOOLEAN}
Flatten(layers) ==                       \* layers: sequence of mappings, layer i includes layer i+1
  [rel |-> UNION {layers[i].rel : i \in 1..Len(layers)},
   id  |-> \E i \in 1..Len(layers) : layers[i].id]

Img1(m, e) == {p[2] : p \in {q \in m.rel : q[1] = e}} \cup (IF m.id THEN {e} ELSE {})
ImgW(m, w) == UNION {Img1(m, e) : e \in w}     \* what a holder in world w really obtains

\* r is a sound authorization for what is reached through m by a holder of a
Sound(m, a, r) == \A w \in W(a) : ImgW(m, w) \in W(r)

Unrepresentable(m, a) == a.k = "disj" /\ \E e \in a.s : Cardinality(Img1(m, e)) > 1
HasEmptyMember(m, a)  == a.k = "disj" /\ \E e \in a.s : Img1(m, e) = {}
UnionImg(m, a)        == UNION {Img1(m, e) : e \in a.s}

\* documented rule, exact form: the image of a set is the set of images with the
\* same connective; a disjunction one of whose alternatives maps to nothing
\* guarantees nothing.
ImageExact(m, a) ==
  CASE a.k \in {"un", "self"} -> a
    [] Unrepresentable(m, a)  -> Err
    [] HasEmptyMember(m, a)   -> Un
    [] OTHER                  -> Norm(a.k, UnionImg(m, a))
\* named deviation DevImageDropsEmpty: alternatives with an empty image are ignored
ImageDev(m, a) ==
  CASE a.k \in {"un", "self"} -> a
    [] Unrepresentable(m, a)  -> Err
    [] OTHER                  -> Norm(a.k, UnionImg(m, a))
ImageRule(m, a) == IF UseDev THEN ImageDev(m, a) ELSE ImageExact(m, a)
\* the deviation changes the answer exactly here
DevApplies(m, a) == HasEmptyMember(m, a) /\ ~Unrepresentable(m, a) /\ UnionImg(m, a) # {}

\* what a holder of `a` can do through a mapped member: call members requiring r
ReachRule(m, a, r) == LET i == ImageRule(m, a) IN i.k # "err" /\ Permits(r, i)

\* --------------------------------------------- theorems, mapping independent
PermitsOK   == \A r, h \in Auth : PermitsRule(r, h) = Permits(r, h)
PermitsPreorder == /\ \A a \in Auth : Permits(a, a)
                   /\ \A a, b, c \in Auth : Permits(b, a) /\ Permits(c, b) => Permits(c, a)
IntersectOK == \A a, b \in Auth : IntersectSound(IntersectRule(a, b), a, b)
\* direct members: an upcast (Permits(b, a): a-reference usable as b-reference) loses members only
UpcastDirect == \A a, b \in RefAuth : Permits(b, a) => \A r \in Auth : Permits(r, b) => Permits(r, a)
\* nested references: what is reachable through b is reachable through a
\* (c is the *declared* authorization of the nested reference, hence denotable: a one-element
\* disjunction cannot be written in source, it only arises as an image; for such c the syntactic
\* rule is needlessly imprecise -- disj{X} /\ disj{X} = unauthorized -- and the law fails harmlessly)
Denotable(a) == ~(a.k = "disj" /\ Cardinality(a.s) = 1)
UpcastNested == \A a, b \in RefAuth, c \in {x \in RefAuth : Denotable(x)} : Permits(b, a) =>
                  \A r \in Auth : Permits(r, IntersectRule(b, c)) => Permits(r, IntersectRule(a, c))
FlattenUnion == \A m1, m2 \in Mappings : \A e \in E :
                  Img1(Flatten(<<m1, m2>>), e) = Img1(m1, e) \cup Img1(m2, e)

\* ------------------------------------------------ state = one mapping at a time
\* The state space is the set of mappings, built up one source entitlement at a time (so
\* that TLC's workers share the work); `snd` carries the semantic reach table of the mapping:
\* snd[a] = the requirements a holder of `a` really satisfies after going through m.
VARIABLES m, snd
\* (evaluation aids: the relation Permits and the world sets as constant tables, computed once)
PT == [r \in Auth |-> {h \in Auth : Permits(r, h)}]
WT == [a \in Auth |-> W(a)]
Pm(r, h) == h \in PT[r]
SoundTab(mm) == LET iw == [w \in Worlds |-> ImgW(mm, w)]
                IN [a \in Auth |-> {r \in Auth : \A w \in WT[a] : iw[w] \in WT[r]}]
Init == /\ m \in {[rel |-> {}, id |-> b] : b \in BOOLEAN}
        /\ snd = SoundTab(m)
Next == \E e \in E : \E S \in NonEmpty :
          /\ \A p \in m.rel : p[1] # e
          /\ Cardinality(m.rel) + Cardinality(S) <= MaxRel
          /\ m' = [m EXCEPT !.rel = @ \cup ({e} \X S)]
          /\ snd' = SoundTab(m')

ImageSound == \A a \in Auth : LET i == ImageRule(m, a) IN i.k # "err" => i \in snd[a]
SemMonotone == \A a, b \in RefAuth : Pm(b, a) => snd[b] \subseteq snd[a]
UpcastMapped == LET img == [a \in RefAuth |-> ImageRule(m, a)]
                    reach == [a \in RefAuth |-> IF img[a].k = "err" THEN {} ELSE {r \in Auth : Pm(r, img[a])}]
                IN \A a, b \in RefAuth : Pm(b, a) /\ img[a].k # "err" => reach[b] \subseteq reach[a]
ReachIsSound == \A a \in RefAuth : LET i == ImageRule(m, a) IN
                  i.k # "err" => \A r \in Auth : Pm(r, i) => r \in snd[a]
\* With the deviation switched on (UseDev), ImageSound and UpcastMapped are refuted; this invariant
\* states that the deviation is the *only* cause: every unsound image and every escalation through
\* an upcast has a disjunction with an empty-image alternative at its root.
DevOnlyCause ==
  LET img == [a \in RefAuth |-> ImageDev(m, a)]
      reach == [a \in RefAuth |-> IF img[a].k = "err" THEN {} ELSE {r \in Auth : Pm(r, img[a])}]
  IN /\ \A a \in RefAuth : img[a].k # "err" /\ img[a] \notin snd[a] => DevApplies(m, a)
     /\ \A a \in RefAuth : ~DevApplies(m, a) => img[a] = ImageExact(m, a)
     /\ \A a, b \in RefAuth : Pm(b, a) /\ img[a].k # "err" /\ ~(reach[b] \subseteq reach[a]) => DevApplies(m, b)
\* the most precise sound answers are sound (sanity of the table itself)
SoundTabOK == \A a \in Auth : Un \in snd[a]

\* ------------------------------------------------------------- table emission
AuthSeq == SetToSeq(Auth)
N == Len(AuthSeq)
Idx(a) == IF a.k = "err" THEN 0 ELSE CHOOSE i \in 1..N : AuthSeq[i] = a
Bit(b) == IF b THEN "1" ELSE "0"
RECURSIVE BitsFrom(_, _)
BitsFrom(f, i) == IF i > N THEN "" ELSE Bit(f[i]) \o BitsFrom(f, i + 1)
Bits(f) == BitsFrom(f, 1)

BaseTable ==
  [kind |-> "base", auths |-> AuthSeq,
   permits   |-> [i \in 1..N |-> Bits([j \in 1..N |-> Permits(AuthSeq[i], AuthSeq[j])])],
   intersect |-> [i \in 1..N |-> [j \in 1..N |-> Idx(IntersectRule(AuthSeq[i], AuthSeq[j]))]],
   isound    |-> [i \in 1..N |-> [j \in 1..N |->
                    Bits([x \in 1..N |-> IntersectSound(AuthSeq[x], AuthSeq[i], AuthSeq[j])])]]]

Row ==
  LET ex == [u \in 1..N |-> ImageExact(m, AuthSeq[u])]
      dv == [u \in 1..N |-> ImageDev(m, AuthSeq[u])]
  IN
  [kind |-> "map", rel |-> m.rel, id |-> m.id,
   exact |-> [u \in 1..N |-> Idx(ex[u])],
   dev   |-> [u \in 1..N |-> Idx(dv[u])],
   devapplies |-> Bits([u \in 1..N |-> DevApplies(m, AuthSeq[u])]),
   sound |-> [u \in 1..N |-> Bits([r \in 1..N |-> AuthSeq[r] \in snd[AuthSeq[u]]])],
   devreach |-> [u \in 1..N |-> Bits([r \in 1..N |-> dv[u].k # "err" /\ Pm(AuthSeq[r], dv[u])])]]
EmitRow == PrintT(ToJson(Row))
=============================================================================
