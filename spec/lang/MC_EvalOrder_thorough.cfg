SPECIFICATION Spec
CONSTANTS
  InnerOps <- ThoroughInner
  RootOps <- AllOps
  NSample = 3000
  NDictSample = 2000
  Chunk = 0
  NChunks = 1
