SPECIFICATION Spec
CONSTANTS
  InnerOps <- ThoroughInner
  RootOps <- AllOps
  NSample = 2000
  NDictSample = 1000
  Chunk = 0
  NChunks = 1
