INIT Init
NEXT Next
CONSTANTS
  E = {"X0", "X1"}
  MaxRel = 4
  UseDev = FALSE
