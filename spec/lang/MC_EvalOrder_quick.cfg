SPECIFICATION Spec
CONSTANTS
  InnerOps <- QuickInner
  RootOps <- AllOps
  NSample = 60
  NDictSample = 200
  Chunk = 0
  NChunks = 1
