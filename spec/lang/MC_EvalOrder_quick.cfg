SPECIFICATION Spec
CONSTANTS
  InnerOps <- QuickInner
  RootOps <- AllOps
  NSample = 60
  NDictSample = 200
  Chunk = 0
  NChunks = 1
INVARIANTS LogOfTerm NoDup LeftToRight FirstFirst BodyLast StrictTotal LazyLaws Emit
