SPECIFICATION Spec
CONSTANTS
  Family = "full"
  MaxDepth = 2
  FullOps = "reps"
  AllAtomsUpTo = 1
  DefaultFrom = 99
  OpsFrom = 99
INVARIANTS SpineOK FullOK Emit
