SPECIFICATION Spec
CONSTANTS
  Family = "full"
  MaxDepth = 2
  FullOps = "reps"
INVARIANTS SpineOK FullOK Emit
