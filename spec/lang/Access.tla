------------------------------ MODULE Access ------------------------------
(* Access modifiers and constant fields (property C50): an independent LEXICAL scope model.

   World: contract A deployed to account 1 declares entitlements E and F, contract-level members
   and a composite S (struct or resource) with members; a sibling composite Sib in A; contract B
   (with a nested composite T) in the same account; contract C in account 2; scripts and
   transactions belong to no account and no contract.

   A member has a modifier and a kind (var field / let field / function) and lives in a
   container: "S" (the composite) or "A" (the contract itself).

   An access names the site (where the code stands, lexically), the path it goes through
   (via: self, an owned value, an optional owned value, a reference with some authorization)
   and the operation (read / call / assign).

   Rules (Cadence reference, "Access control"):
     access(all)       readable / callable everywhere
     access(self)      only inside the declaring composite -- "inside" is lexical: code of a
                       composite nested in contract A is inside A (current and inner scopes)
     access(contract)  anywhere inside the contract that contains the declaration
     access(account)   any code deployed to the same account (scripts/transactions are not)
     access(E...)      entitlement: everywhere, but through a reference only when the reference's
                       authorization satisfies the requirement (conjunction: all, disjunction: one);
                       an owned value (and self) is fully authorized
     assignment        to a field only inside the declaring composite (current and inner),
                       and only if the member is accessible there at all (an entitlement-modified
                       field through an insufficiently authorized reference is not); never to a `let` field
     initializer       every field may be assigned in init; a `let` field exactly once

   TLC enumerates every combination and prints the table; ASSUMEs state laws of the model. *)
EXTENDS Naturals, Sequences, FiniteSets, TLC, Json

CONSTANTS Sites,      \* set of site names used by this configuration
          CKinds      \* composite kinds of S: subset of {"struct", "resource"}

\* ---------------------------------------------------------------- sites
\* site attributes: contract the code is lexically in, account it is deployed to (0 = none),
\* composite it is lexically in ("none" = directly in the contract / program)
SiteInfo(s) ==
  CASE s = "S.method"    -> [contract |-> "A", account |-> 1, comp |-> "S"]
    [] s = "S.closure"   -> [contract |-> "A", account |-> 1, comp |-> "S"]     \* function expression inside a method of S
    [] s = "A.Sib"       -> [contract |-> "A", account |-> 1, comp |-> "Sib"]
    [] s = "A.fun"       -> [contract |-> "A", account |-> 1, comp |-> "none"]
    [] s = "B.fun@1"     -> [contract |-> "B", account |-> 1, comp |-> "none"]
    [] s = "B.T@1"       -> [contract |-> "B", account |-> 1, comp |-> "T"]
    [] s = "C.fun@2"     -> [contract |-> "C", account |-> 2, comp |-> "none"]
    [] s = "script"      -> [contract |-> "none", account |-> 0, comp |-> "none"]
    [] s = "tx.prepare"  -> [contract |-> "none", account |-> 0, comp |-> "none"]  \* signed by account 1: still no account code
    [] s = "tx.execute"  -> [contract |-> "none", account |-> 0, comp |-> "none"]
AllSites == {"S.method", "S.closure", "A.Sib", "A.fun", "B.fun@1", "B.T@1", "C.fun@2", "script", "tx.prepare", "tx.execute"}

\* ---------------------------------------------------------------- members
PrimMods == {"self", "contract", "account", "all"}
EntMods  == {"E", "E,F", "E|F"}          \* access(E), access(E, F), access(E | F)
Mods(cont) == IF cont = "S" THEN PrimMods \cup EntMods ELSE PrimMods
MKinds == {"var", "let", "fun"}

\* ---------------------------------------------------------------- paths
\* authorization carried by a reference path (set of entitlements); owned paths are fully authorized
Owned == {"self", "o", "oo"}                  \* self, owned value, optional owned value (oo?.x)
\* an authorization is a set of possible worlds (each a set of entitlements): a conjunction has one world,
\* the disjunction auth(E | F) two -- the holder knows only that one of them is granted
RefAuth(via) == CASE via = "r" -> {{}} [] via = "arE" -> {{"E"}} [] via = "arF" -> {{"F"}} [] via = "arEF" -> {{"E", "F"}}
                  [] via = "arEoF" -> {{"E"}, {"F"}}
                  [] via = "ror" -> {{}}     \* optional reference, optional chaining
Refs == {"r", "arE", "arF", "arEF", "arEoF", "ror"}
\* w2 grants at least what w1 grants: every world of w2 contains some world of w1
AtLeast(w1, w2) == \A b \in w2 : \E a \in w1 : a \subseteq b
\* paths that can be written down at a site for a container
\* (a closure cannot capture the `self` of a resource: that combination is not a program of the fragment)
Vias(site, cont, ckind) ==
  IF cont = "A" THEN (IF site = "A.fun" THEN {"name", "self", "cref"} ELSE {"name", "cref"})  \* A.x ; self.x in A's own function ; borrowed &A
  ELSE (IF site = "S.method" \/ (site = "S.closure" /\ ckind = "struct") THEN {"self"} ELSE {}) \cup {"o", "oo"} \cup Refs

Ops(mkind) == IF mkind = "fun" THEN {"call"} ELSE {"read", "assign"}
\* assignment through optional chaining is not a statement of the language
Writable(via) == via \notin {"oo", "ror"}

\* ---------------------------------------------------------------- the judgement
LexInside(site, cont) ==
  LET i == SiteInfo(site) IN
  IF cont = "S" THEN i.contract = "A" /\ i.comp = "S" ELSE i.contract = "A"

Satisfies(auth, mod) ==      \* in every possible world of the authorization
  \A w \in auth : CASE mod = "E" -> "E" \in w [] mod = "E,F" -> {"E", "F"} \subseteq w [] mod = "E|F" -> w \cap {"E", "F"} # {}

ReadPermitted(site, cont, mod, via) ==
  LET i == SiteInfo(site) IN
  CASE mod = "all"      -> TRUE
    [] mod = "self"     -> LexInside(site, cont)
    [] mod = "contract" -> i.contract = "A"
    [] mod = "account"  -> i.account = 1
    [] mod \in EntMods  -> via \in Owned \/ Satisfies(RefAuth(via), mod)

Permitted(site, cont, mod, mkind, via, op) ==
  CASE op \in {"read", "call"} -> ReadPermitted(site, cont, mod, via)
    \* the target of an assignment is a member access: it must be accessible in the first place
    \* (inside the declaring composite only an entitlement modifier on a reference path can fail that)
    [] op = "assign"           -> mkind = "var" /\ LexInside(site, cont) /\ ReadPermitted(site, cont, mod, via)

Cases == {[site |-> s, cont |-> c, ckind |-> ck, mod |-> m, mkind |-> mk, via |-> v, op |-> o] :
            s \in Sites, c \in {"S", "A"}, ck \in CKinds, m \in PrimMods \cup EntMods, mk \in MKinds,
            v \in Owned \cup Refs \cup {"name", "cref"}, o \in {"read", "call", "assign"}}
Valid(x) == /\ x.mod \in Mods(x.cont) /\ x.via \in Vias(x.site, x.cont, x.ckind) /\ x.op \in Ops(x.mkind)
            /\ (x.op = "assign" => Writable(x.via))
            /\ (x.cont = "A" => x.ckind = CHOOSE k \in CKinds : TRUE)      \* composite kind is irrelevant for contract members
Table == {x @@ [permitted |-> Permitted(x.site, x.cont, x.mod, x.mkind, x.via, x.op)] : x \in {y \in Cases : Valid(y)}}

\* initializer family: field kind x assignment pattern in init x container kind
\*   n = 1: one assignment; n = 2: two assignments in sequence;
\*   n = 3: assignment, a conditional `return`, then a second assignment (still two assignments on one path)
InitCases == {[fkind |-> f, n |-> n, ckind |-> ck] : f \in {"var", "let"}, n \in {1, 2}, ck \in {"struct", "resource", "contract"}}
             \cup {[fkind |-> f, n |-> 3, ckind |-> ck] : f \in {"var", "let"}, ck \in {"struct", "resource"}}
InitPermitted(x) == x.fkind = "var" \/ x.n = 1
InitTable == {x @@ [permitted |-> InitPermitted(x)] : x \in InitCases}

\* ---------------------------------------------------------------- laws of the model (checked by TLC)
Rank(m) == CASE m = "self" -> 0 [] m = "contract" -> 1 [] m = "account" -> 2 [] m = "all" -> 3
\* the primitive modifiers form a chain: a wider modifier permits every read a narrower one permits
ASSUME \A s \in AllSites, c \in {"S", "A"}, m1 \in PrimMods, m2 \in PrimMods :
         (Rank(m1) <= Rank(m2) /\ ReadPermitted(s, c, m1, "o")) => ReadPermitted(s, c, m2, "o")
\* more authorization never hurts; owned values can do whatever any reference can
ASSUME \A s \in AllSites, m \in EntMods, v1 \in Refs, v2 \in Refs :
         (AtLeast(RefAuth(v1), RefAuth(v2)) /\ ReadPermitted(s, "S", m, v1)) => ReadPermitted(s, "S", m, v2)
ASSUME \A s \in AllSites, m \in EntMods, v \in Refs : ReadPermitted(s, "S", m, v) => ReadPermitted(s, "S", m, "o")
\* whoever may assign a field may read an access(self) field of the same container, and vice versa (both = lexically inside)
ASSUME \A s \in AllSites, c \in {"S", "A"} : Permitted(s, c, "all", "var", "o", "assign") <=> ReadPermitted(s, c, "self", "o")
\* nothing outside account 1 gets more than access(all) and entitlements
ASSUME \A s \in AllSites : SiteInfo(s).account # 1 => \A m \in {"self", "contract", "account"} : ~ReadPermitted(s, "S", m, "o")
\* a let field is never assignable outside init
ASSUME \A x \in Table : (x.mkind = "let" /\ x.op = "assign") => ~x.permitted

\* ---------------------------------------------------------------- members declared in an INTERFACE
\* Interface SI is declared in contract IB on account 1. The implementing composite T: SI lives in the same
\* contract ("same"), in another contract O of the same account ("sameacct") or in a contract O on account 2
\* ("otheracct"). A member is a default function of SI (inherited by T, never redeclared), or a function /
\* field REQUIRED by SI and implemented in T with the same modifier. access(self) is not a valid modifier inside
\* an interface. The access goes through self / a T value / an unauthorized reference to T / a value of static
\* type {SI}. For access(contract) and access(account) what counts is where the DECLARATION the access resolves
\* to stands: the interface for default functions and for any access on static type {SI}, T otherwise.
IWheres == {"same", "sameacct", "otheracct"}
IMods   == {"contract", "account", "all", "E"}
IKinds  == {"default", "implfun", "implfield"}
ISites  == {"T.self", "T.new", "T.ref", "T.iface", "T.sibling", "TC.fun", "IB.fun", "SI.default", "script"}
TInfo(w) == [contract |-> IF w = "same" THEN "IB" ELSE "O", account |-> IF w = "otheracct" THEN 2 ELSE 1]
ISiteInfo(site, w) ==
  CASE site \in {"T.self", "T.new", "T.ref", "T.iface", "T.sibling", "TC.fun"} -> TInfo(w)
    [] site \in {"IB.fun", "SI.default"} -> [contract |-> "IB", account |-> 1]
    [] site = "script" -> [contract |-> "none", account |-> 0]
IStatic(site) == IF site \in {"T.iface", "IB.fun", "SI.default"} THEN "SI" ELSE "T"
IDeclInfo(kind, site, w) == IF kind = "default" \/ IStatic(site) = "SI" THEN [contract |-> "IB", account |-> 1] ELSE TInfo(w)
IPermitted(w, mod, kind, site) ==
  LET here == ISiteInfo(site, w)  decl == IDeclInfo(kind, site, w) IN
  CASE mod = "all"      -> TRUE
    [] mod = "contract" -> here.contract = decl.contract
    [] mod = "account"  -> here.account = decl.account
    [] mod = "E"        -> site # "T.ref"              \* every path but the unauthorized reference is an owned value
ITable == {[where |-> w, mod |-> m, mkind |-> k, site |-> s, permitted |-> IPermitted(w, m, k, s)] :
             w \in IWheres, m \in IMods, k \in IKinds, s \in ISites}
\* laws: an inherited default function never gets more access in the implementer than the interface's own code has
ASSUME \A w \in IWheres, m \in IMods, s \in ISites : IPermitted(w, m, "default", s) => IPermitted(w, m, "default", "SI.default")
\* a default function of an interface on another account is not callable with access(contract)/access(account) from the implementer
ASSUME \A m \in {"contract", "account"}, s \in {"T.self", "T.new", "T.sibling", "TC.fun"} : ~IPermitted("otheracct", m, "default", s)
\* an implemented requirement is the implementer's own declaration
ASSUME \A w \in IWheres, m \in {"contract", "account"}, k \in {"implfun", "implfield"} : IPermitted(w, m, k, "T.self")

\* ---------------------------------------------------------------- initializer shapes: "a let field is assigned only once"
\* Path-exact, like Linearity: the initializer is  FIRST ; JUMP ; SECOND  and is BAD iff some path through it
\* assigns the let field twice.
\*   FIRST   uncond | ifthen (if c1 { x = 1 }) | ifboth (both branches assign) | elseonly (if c1 {} else { x = 1 })
\*           | while (while i < n { x = 1 }) | switch (switch n { case 2: x = 1  default: skip })
\*   JUMP    none | ifreturn (if c2 { return }) | loopreturn (while c2 { return })
\*   SECOND  none | uncond (x = 2) | cond (if c3 { x = 2 })
\* Number of assignments a part can contribute on some path: its minimum and its maximum.
SFirsts  == {"uncond", "ifthen", "ifboth", "elseonly", "while", "switch"}
SJumps   == {"none", "ifreturn", "loopreturn"}
SSeconds == {"none", "uncond", "cond"}
SFKinds  == {"letstruct", "letres"}          \* let x: Int in a struct; let r: @R in a resource (assigned with <-)
MinFirst(f) == IF f \in {"uncond", "ifboth"} THEN 1 ELSE 0
MaxFirst(f) == IF f = "while" THEN 2 ELSE 1                     \* a loop body may run twice (or more)
MinSecond(x) == IF x = "uncond" THEN 1 ELSE 0
MaxSecond(x) == IF x = "none" THEN 0 ELSE 1
\* every jump can also be passed, so the maxima of the two parts add up
ShapeBad(f, j, x) == MaxFirst(f) + MaxSecond(x) >= 2
\* outside this property (definite initialisation): every path, also one that returns early, must assign at least once
ShapeWellFormed(f, j, x) == (j # "none" => MinFirst(f) >= 1) /\ MinFirst(f) + MinSecond(x) >= 1
ShapeTable == {[first |-> f, jump |-> j, second |-> x, fkind |-> k, bad |-> ShapeBad(f, j, x)] :
                 <<f, j, x, k>> \in {q \in SFirsts \X SJumps \X SSeconds \X SFKinds : ShapeWellFormed(q[1], q[2], q[3])}}
\* laws: a single unconditional assignment is fine whatever jump follows; any second assignment after a possible first is bad
ASSUME \A j \in SJumps : ~ShapeBad("uncond", j, "none")
ASSUME \A f \in SFirsts, j \in SJumps, x \in SSeconds \ {"none"} : ShapeBad(f, j, x)

\* ---------------------------------------------------------------- the table (printed once, at start-up)
ASSUME \A row \in Table : PrintT(ToJson([kind |-> "access"] @@ row))
ASSUME \A irow \in InitTable : PrintT(ToJson([kind |-> "init"] @@ irow))
ASSUME \A hrow \in ITable : PrintT(ToJson([kind |-> "inh"] @@ hrow))
ASSUME \A srow \in ShapeTable : PrintT(ToJson([kind |-> "initshape"] @@ srow))

VARIABLE done
Init == done = FALSE
Next == done = FALSE /\ done' = TRUE
Spec == Init /\ [][Next]_done
=============================================================================
