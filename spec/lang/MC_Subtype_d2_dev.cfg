INIT Init
NEXT Next
CONSTANTS
  Depth = 2
  DevNeverKind = TRUE
INVARIANTS Emit Laws
