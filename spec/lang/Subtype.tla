------------------------------ MODULE Subtype ------------------------------
(***************************************************************************)
(* C08 -- the subtype relation of SubtypeRel.tla tabulated over the        *)
(* universe of Types.tla, its laws (reflexive, transitive over all         *)
(* triples, Never bottom, Any top), and the table the implementations are  *)
(* compared with.                                                          *)
(***************************************************************************)
EXTENDS SubtypeRel, TLC, Json, SequencesExt

\* ----------------------------------------------------------- the relation as a table
\* The table is the (single) state of the model: ul enumerates the universe, up[i] is the set
\* of (indices of) supertypes of ul[i].  (State variables are tabulated once by TLC; constant
\* definitions over RECURSIVE operators are re-evaluated at every use.)
VARIABLES ul, up
NU == Len(ul)
Init == /\ ul = SetToSeq(Universe)
        /\ up = [i \in 1..Cardinality(Universe) |-> {j \in 1..Cardinality(Universe) : Sub(ul[i], ul[j])}]
Next == UNCHANGED <<ul, up>>

IdxOf(t)   == CHOOSE i \in 1..NU : ul[i] = t
Reflexive  == \A i \in 1..NU : i \in up[i]
Transitive == \A i \in 1..NU : \A j \in up[i] : up[j] \subseteq up[i]
Bottom     == up[IdxOf(P("Never"))] = 1..NU
\* (Any is not denotable: it is only required to be the top)
Top        == LET any == IdxOf(P("Any")) IN \A i \in 1..NU : any \in up[i]
\* pairs (i, j) with i <: j through which transitivity fails for some l
NonTransitive == {p \in (1..NU) \X (1..NU) : p[2] \in up[p[1]] /\ ~(up[p[2]] \subseteq up[p[1]])}
\* mutually-subtype pairs of distinct types
Equivalent == {p \in (1..NU) \X (1..NU) : p[1] < p[2] /\ p[2] \in up[p[1]] /\ p[1] \in up[p[2]]}

\* laws of the exact relation; under DevNeverKind exactly transitivity is lost
Laws == IF DevNeverKind THEN Reflexive /\ Bottom /\ Top /\ ~Transitive
                        ELSE Reflexive /\ Bottom /\ Top /\ Transitive

Table == [kind |-> "subtype", dev |-> DevNeverKind, types |-> ul, rows |-> up,
          nontransitive |-> Cardinality(NonTransitive), equivalent |-> Cardinality(Equivalent)]
Emit == PrintT(ToJson(Table))
=============================================================================
