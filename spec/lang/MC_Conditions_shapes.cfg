SPECIFICATION SpecShapes
CONSTANTS
  NI = 2
  MaxFalse = 0
  NestSet <- MCNestNo
  ViaAll = FALSE
  DRSeq <- MCDR
  ESeq <- MCE
  FullUnrelated = TRUE
  PickByHash = TRUE
  Seed = 1
  SampleMod = 1000
  Keep0 = 1000
  Keep1 = 1000
  Keep2 = 1000
INVARIANTS EmitShape
