---- MODULE MC_Subtype ----
\* model-checking wrapper: the single state holds the whole relation; laws are invariants
EXTENDS Subtype
DebugEq == \A p \in Equivalent : PrintT(<<"EQ", ul[p[1]], ul[p[2]]>>)
DebugNT == \A p \in NonTransitive : PrintT(<<"NT", ul[p[1]], ul[p[2]], {ul[l] : l \in up[p[2]] \ up[p[1]]}>>)
====
