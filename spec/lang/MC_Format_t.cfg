SPECIFICATION FSpec
CONSTANTS
  Family = "form"
  MaxDepth = 2
  FullOps = "reps"
  GapMax = 10
  PairGapMax = 8
  Nested = TRUE
  OptionSet <- AllOptions
  OwnLineOptions <- QuickOptions
INVARIANTS FSpineOK FEmit
