SPECIFICATION FSpec
CONSTANTS
  Family = "form"
  MaxDepth = 2
  FullOps = "reps"
  GapMax = 10
  PairGapMax = 8
  Nested = TRUE
  OptionSet <- AllOptions
  OwnLineOptions <- QuickOptions
  AllAtomsUpTo = 1
  DefaultFrom = 99
  OpsFrom = 99
INVARIANTS FSpineOK FEmit
