INIT Init
NEXT Next
CONSTANTS
  Depth = 1
  DevNeverKind = TRUE
INVARIANTS Emit Laws
