INIT Init
NEXT Next
CONSTANTS
  Depth = 1
  DevNeverKind = FALSE
INVARIANTS Emit Laws
