INIT Init
NEXT Next
