---- MODULE MC_Conditions ----
(* Model parameters for Conditions.tla (cfg files cannot hold tuples / records). *)
EXTENDS Conditions
MCNestNo == {FALSE}
MCNestBoth == {FALSE, TRUE}
MCDRQuick == {<<1, 0>>, <<0, 1>>}
MCDRAll == {<<0, 0>>, <<0, 1>>, <<1, 0>>, <<1, 1>>}
MCEOne == {1}
MCEAll == {0, 1}
====
