---- MODULE MC_Conditions ----
(* Model parameters for Conditions.tla (cfg files cannot hold tuples / sequences). *)
EXTENDS Conditions
MCNestNo == {FALSE}
MCNestBoth == {FALSE, TRUE}
MCDR == << <<1, 0>>, <<0, 1>>, <<1, 1>>, <<0, 0>> >>
MCE == <<1, 0>>
====
