---- MODULE Format ----
(* C39 -- the formatter as a relation between an input source and its output.

   For an input `in` the parser accepts, Format(in, options) must be either an ERROR, or an output
   `out` with
       (R1)  Ast(out) = Ast(in)  up to the order of import declarations,
       (R2)  Comments(out) = Comments(in) as multisets of comment texts
             (every comment exactly once, text unchanged),
       (R3)  Format(out, options) = out                         (fixed point).
   `Conforms(o)` (module FormatRel) states this over an *observation* o recorded from the real formatter:
       o.err      first pass reported an error          o.parses   the output parses
       o.asteq    ASTs equal up to import order          o.cin/o.cout  comments of input / output, as
       o.err2     second pass reported an error                        sequences of <<token, text>>
       o.fixed    second pass returned its input
   Trace_Format.tla evaluates it on every recorded observation.

   The second half of the module is the COMMENT-PLACEMENT MODEL.  A case is
       a program of the AstShapes algebra (a form with default children in the canonical context
         of its sort; thorough: additionally inside every slot of every other form),
       one or two GAPS of the form's concrete syntax (gap k = between its k-th and (k+1)-th token;
         0 = before the first token) -- the syntactic positions,
       the comment KIND at each gap (block, line, doc-line, doc-block), each comment carrying a unique token,
       a LAYOUT variant (inline / on its own line / blank line before / after / semicolon before / after),
       -- or, for container forms, a RUN of 2-3 comments in one gap separated by line breaks / blank lines --
       a formatter OPTION combination.
   TLC enumerates the cases (Place); the driver renders them, runs the formatter and records the
   observations. *)
EXTENDS AstShapes, FormatRel

\* --------------------------------------------------- the comment-placement model
CONSTANTS GapMax,      \* gaps 0..GapMax of the target form are enumerated (the driver skips gaps a form does not have)
          PairGapMax,  \* pairs of gaps i < j <= PairGapMax get two block comments
          Nested,      \* TRUE: the target form also stands in every slot of every other form
          OptionSet,   \* the formatter option combinations (block / line comments inline under every one of them)
          OwnLineOptions \* the combinations under which block / line comments are also placed on their own line
Kinds == {"block", "line", "doc-line", "doc-block"}
Layouts == {"inline", "own-line", "blank-before", "blank-after", "semi-before", "semi-after"}

\* canonical context of a sort: the spine above the target form
Ctx(srt) == CASE srt \in {"E"} -> << <<"rootE", 1>> >>
              [] srt \in {"T", "A"} -> << <<"rootE", 1>>, <<"cast-as", 2>> >>
              [] srt = "S" -> << <<"prog1", 1>>, <<"funvoid", 3>> >>
              [] srt \in {"F", "Q", "D"} -> << <<"prog1", 1>> >>
              [] srt = "M" -> << <<"prog1", 1>>, <<"struct", 2>> >>
              [] srt = "I" -> << <<"prog1", 1>>, <<"structI", 2>> >>
              [] srt = "N" -> << <<"prog1", 1>>, <<"enum", 2>> >>
              [] srt = "P" -> << <<"prog1", 1>>, <<"funvoid", 2>> >>
              [] srt = "K" -> << <<"prog1", 1>>, <<"funpre", 2>> >>
              [] srt = "X" -> << <<"prog1", 1>>, <<"funvoid", 1>> >>
              [] OTHER -> <<>>
TargetForms == {s \in AllSigs : s[2] # "G" /\ s[1] \notin TemplateForms}
DefaultLeafOf(s) == Default(s[4][1])[1]
\* <<spine, leaf, index of the target on the spine (Len+1 = the leaf itself)>>
Plain == {<<Ctx(s[2]) \o << <<s[1], 1>> >>, DefaultLeafOf(s), Len(Ctx(s[2])) + 1, FALSE>> : s \in {u \in TargetForms : ~Nullary(u)}}
         \cup {<<Ctx(s[2]), s[1], Len(Ctx(s[2])) + 1, FALSE>> : s \in {u \in TargetForms : Nullary(u) /\ u[2] \in {"E", "S", "D", "T", "M", "N", "X", "K"}}}
Inside == {<<Ctx(g[2]) \o << <<g[1], j>>, <<s[1], 1>> >>, DefaultLeafOf(s), Len(Ctx(g[2])) + 2, TRUE>> :
              g \in {u \in TargetForms : ~Nullary(u)}, j \in 1..9, s \in {u \in TargetForms : ~Nullary(u)}}
InsideOK == {c \in Inside : LET p == c[1][Len(c[1]) - 1] g == SigByName[p[1]] IN
                              p[2] <= Len(g[4]) /\ SigByName[c[1][Len(c[1])][1]][2] \in Accepts(g[4][p[2]])}
Targets == IF Nested THEN Plain \cup InsideOK ELSE Plain

\* CONTAINER forms: forms with a delimited list of children (a block, a member / interface / enum body, a parameter
\* or condition list, an argument list, an array or dictionary literal).  For those, RUNS of 2-3 comments are placed
\* in ONE gap (in particular after the last child before the closing delimiter, and before the first child), separated
\* by a line break or a blank line, the first one on the last child's line or on its own line.  The body slot holds a
\* real child (a field, an interface function, a parameter; statements / cases / conditions are non-empty by default).
ListSorts == {"S", "M", "I", "N", "P", "K"}
ExprContainers == {"call1", "call2", "callT", "array1", "array2", "dict1", "dict2", "create", "attach", "emit", "kemit"}
Fill(srt) == CASE srt = "M" -> << << <<"fieldlet", 2>> >>, "nom" >>
               [] srt = "I" -> << << <<"ifun", 1>> >>, "acc-all" >>
               [] srt = "P" -> << << <<"p1", 1>> >>, "nom" >>
               [] OTHER -> << <<>>, Default(srt)[1] >>
RunSlots == {<<s, j>> \in {u \in TargetForms : ~Nullary(u)} \X (1..9) :
                 /\ j <= Len(s[4])
                 /\ \/ s[4][j] \in ListSorts
                    \/ s[1] \in ExprContainers /\ j = Len(s[4])}
RunTargets == {<<Ctx(c[1][2]) \o << <<c[1][1], c[2]>> >> \o Fill(c[1][4][c[2]])[1], Fill(c[1][4][c[2]])[2], Len(Ctx(c[1][2])) + 1>> : c \in RunSlots}
Opt0 == CHOOSE o \in OptionSet : o.id = 0
RunKinds == {<<a, b>> : a \in {"line", "block"}, b \in {"line", "block"}} \cup {<<"doc-line", "line">>, <<"line", "doc-line">>}
Runs == {[gaps |-> <<g>>, kinds |-> ks, seps |-> <<sp1>>, layout |-> lead, opt |-> Opt0] :
            g \in 0..GapMax, ks \in RunKinds, sp1 \in {"nl", "blank"}, lead \in {"own-line", "inline"}}
        \cup {[gaps |-> <<g>>, kinds |-> ks, seps |-> <<sp1, sp2>>, layout |-> "own-line", opt |-> Opt0] :
            g \in 0..GapMax, ks \in {<<"line", "line", "line">>, <<"block", "line", "block">>}, sp1 \in {"nl", "blank"}, sp2 \in {"nl", "blank"}}

LayoutsOf(k) == IF k \in {"doc-line", "doc-block"} THEN {"inline", "own-line"} ELSE Layouts
\* one comment: every kind in every layout under the default options; block and line comments inline / on their own
\* line under every other option combination; inside other forms: block and line comments inline, default options
Combos(nested) ==
  IF nested THEN {[kinds |-> <<k>>, layout |-> "inline", opt |-> Opt0] : k \in {"block", "line"}}
  ELSE UNION {{[kinds |-> <<k>>, layout |-> lay, opt |-> Opt0] : lay \in LayoutsOf(k)} : k \in Kinds}
       \cup {[kinds |-> <<k>>, layout |-> "inline", opt |-> o] : k \in {"block", "line"}, o \in OptionSet \ {Opt0}}
       \cup {[kinds |-> <<k>>, layout |-> "own-line", opt |-> o] : k \in {"block", "line"}, o \in OwnLineOptions \ {Opt0}}
       \cup {[kinds |-> <<"block">>, layout |-> lay, opt |-> o] : lay \in {"semi-before", "semi-after"},
                                                                   o \in {x \in OwnLineOptions : ~x.stripSemicolons}}
Singles(nested) == {[gaps |-> <<g>>, kinds |-> c.kinds, layout |-> c.layout, opt |-> c.opt] : g \in 0..GapMax, c \in Combos(nested)}
Pairs == {[gaps |-> <<i, j>>, kinds |-> ks, layout |-> "inline", opt |-> Opt0] :
            i \in 0..PairGapMax, j \in 0..PairGapMax, ks \in {<<"block", "block">>, <<"line", "block">>}}

VARIABLES target, nest, place   \* nest: "plain" | "inside" | "run"
fvars == <<sp, leaf, full, target, nest, place>>
FInit == /\ \/ \E c \in Targets : sp = c[1] /\ leaf = c[2] /\ target = c[3] /\ nest = (IF c[4] THEN "inside" ELSE "plain")
            \/ \E c \in RunTargets : sp = c[1] /\ leaf = c[2] /\ target = c[3] /\ nest = "run"
         /\ full = <<>> /\ place = <<>>
Place == /\ place = <<>>
         /\ place' \in (IF nest = "run" THEN Runs
                        ELSE Singles(nest = "inside") \cup (IF nest = "inside" THEN {} ELSE {p \in Pairs : p.gaps[1] < p.gaps[2]}))
         /\ UNCHANGED <<sp, leaf, full, target, nest>>
FNext == Place
FSpec == FInit /\ [][FNext]_fvars
FEmit == place # <<>> => PrintT(ToJson([sp |-> sp, leaf |-> leaf, target |-> target, place |-> place]))
FSpineOK == SpineOK /\ target \in 1..(Len(sp) + 1)
====
