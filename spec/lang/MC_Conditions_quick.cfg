SPECIFICATION Spec
CONSTANTS
  NI = 2
  MaxFalse = 1
  NestSet <- MCNestNo
  ViaAll = FALSE
  DRSet <- MCDRQuick
  ESet <- MCEOne
  Seed = 1
  SampleMod = 1
  SampleKeep = 1
INVARIANTS JudgementAgrees OnlyApplicableMatter TruthBookkeeping BodyIffPre PhaseOrder Monotone EventsComplete EmitRow
