---- MODULE MC_Entitlements_lemma ----
\* include chains: the image through a mapping that includes another is the union of images
EXTENDS Entitlements
ASSUME FlattenUnion
ASSUME \A m1, m2, m3 \in Mappings : Flatten(<<m1, m2, m3>>) = Flatten(<<m1, Flatten(<<m2, m3>>)>>)
====
