SPECIFICATION Spec
CONSTANTS
  Family = "expr"
  MaxDepth = 2
  FullOps = "reps"
INVARIANTS SpineOK FullOK Emit
