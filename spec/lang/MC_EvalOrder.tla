---------------------------- MODULE MC_EvalOrder ----------------------------
(* Model-checking instances of EvalOrder (C52).  One TLC state per case; the  *)
(* invariants are the sanity properties of the evaluator, `Emit` prints the   *)
(* table (one JSON line per case) that the Go driver langeo replays.          *)
EXTENDS EvalOrder

AllOps        == ArithOps \cup CmpOps \cup BoolEqOps
\* operator symbols used BELOW the root (the root always ranges over AllOps)
QuickInner    == {"add", "lt"}
ThoroughInner == {"add", "div", "lt"}
=============================================================================
