INIT Init
NEXT Next
CONSTANTS
  E = {"X0", "X1", "X2", "X3"}
  MaxRel = 4
  UseDev = FALSE
INVARIANTS ImageSound SemMonotone UpcastMapped ReachIsSound SoundTabOK EmitRow
