SPECIFICATION Spec
CONSTANTS
  Family = "form"
  MaxDepth = 4
  FullOps = "all"
INVARIANTS SpineOK FullOK Emit
