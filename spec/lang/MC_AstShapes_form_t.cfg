SPECIFICATION Spec
CONSTANTS
  Family = "form"
  MaxDepth = 3
  FullOps = "all"
INVARIANTS SpineOK FullOK Emit
