SPECIFICATION Spec
CONSTANTS
  Family = "form"
  MaxDepth = 3
  FullOps = "all"
  AllAtomsUpTo = 2
  DefaultFrom = 99
  OpsFrom = 99
INVARIANTS SpineOK FullOK Emit
