INIT Init
NEXT Next
CONSTANTS
  Depth = 3
  DevNeverKind = TRUE
INVARIANTS Emit Laws
