------------------------------ MODULE EqHashMC ------------------------------
(* The table of EqHash.tla over a universe of representations.

   Groups: the reps of one static type (a sequence).  TLC visits
     ("group", g)                 prints the group: its static type, whether it is comparable / hashable, its reps;
     ("pair", g, i)               prints for rep i of group g the predicted == and order against every rep j of the group;
                                  the equivalence and total-order laws are checked for every (i, j, k) of the group;
     ("key", p)                   for hashable rep p (of any group): the predicted outcome of inserting it and every
                                  hashable rep q into an empty dictionary (KeyLaws checked for every q);
     ("hist", pool, k1, k2, k3)   a dictionary history over a pool of keys: insert k1 -> 1; insert k2 -> 2; remove k3;
                                  then the length and the lookup of every key of the pool.
   Tier selects the number types of the universe ("quick": 10 integer and 2 fixed-point types, "thorough": all 20 + 4). *)
EXTENDS EqHash, Json
CONSTANTS Tier
VARIABLES st

\* the facts about the string alphabet, printed once for the driver's validation against the Unicode libraries
ASSUME PrintT(ToJson([alphabet |-> [x \in AllSyms |-> [cp |-> CP(x), class |-> Class(x), ccc |-> CCC(x), decomp |-> SymStr(Decomp(x)),
                                                       lower |-> Lower(x), hex |-> HexVal(x)]]]))

Sy(str) == [i \in 1..Len(str) |-> SubSeq(str, i, i)]            \* "eM" -> <<"e", "M">>

\* ---- strings and characters: canonically equivalent spellings, built in different ways
StrSources == <<"", "b", "e", "eM", "d", "EM", "D", "dM", "eMM", "LV", "G", "LVT", "GT", "H", "bM", "PZP", "RR", "CF", "eS", "eSM">>
StrReps == [i \in 1..Len(StrSources) |-> RStr(Sy(StrSources[i]), "lit")]
           \o <<RStr(Sy("eM"), "utf8"), RStr(Sy("d"), "utf8"), RStr(Sy("eM"), "concat"), RStr(Sy("LVT"), "concat"),
                RStr(Sy("GT"), "concat"), RStr(Sy("H"), "utf8"), RStr(Sy("bM"), "concat"), RStr(Sy("dM"), "concat")>>
CharSources == <<"b", "e", "eM", "d", "EM", "D", "LV", "G", "LVT", "GT", "H", "bM", "PZP", "RR", "CF", "eS", "dM", "eMM">>
CharReps == [i \in 1..Len(CharSources) |-> RChar(Sy(CharSources[i]), "lit")]
            \o <<RChar(Sy("eM"), "index"), RChar(Sy("d"), "index"), RChar(Sy("LVT"), "index"), RChar(Sy("H"), "index"), RChar(Sy("RR"), "index")>>
BoolReps == <<RBool(TRUE, "lit"), RBool(TRUE, "not"), RBool(TRUE, "cmp"), RBool(FALSE, "lit"), RBool(FALSE, "not"), RBool(FALSE, "cmp")>>

\* ---- numbers
Signed   == <<"Int", "Int8", "Int16", "Int32", "Int64", "Int128", "Int256">>
Unsigned == <<"UInt", "UInt8", "UInt16", "UInt32", "UInt64", "UInt128", "UInt256", "Word8", "Word16", "Word32", "Word64", "Word128", "Word256">>
QuickNum == {"Int", "Int8", "Int64", "Int256", "UInt", "UInt8", "UInt64", "Word8", "Word64", "UInt128"}
NumTypes == SelectSeq(Signed \o Unsigned, LAMBDA t : Tier = "thorough" \/ t \in QuickNum)
IsSigned(t) == \E i \in 1..Len(Signed) : Signed[i] = t
NumRepsOf(t) == <<RNum(t, 0, "dec"), RNum(t, 0, "hex"), RNum(t, 1, "dec"), RNum(t, 1, "hex"), RNum(t, 1, "conv"), RNum(t, 100, "dec"), RNum(t, 100, "conv"), RNum(t, 127, "hex")>>
                \o (IF IsSigned(t) THEN <<RNum(t, -1, "dec"), RNum(t, -1, "conv"), RNum(t, -128, "dec"), RNum(t, -128, "hex")>> ELSE << >>)
FixRepsOf(t) == <<RFix(t, 0, "short"), RFix(t, 0, "long"), RFix(t, 100, "short"), RFix(t, 100, "long"), RFix(t, 100, "conv"), RFix(t, 150, "short"), RFix(t, 150, "long"), RFix(t, 105, "short")>>
                \o (IF t \in {"Fix64", "Fix128"} THEN <<RFix(t, -150, "short"), RFix(t, -150, "long"), RFix(t, -100, "conv")>> ELSE << >>)
FixTypes == IF Tier = "thorough" THEN <<"Fix64", "UFix64", "Fix128", "UFix128">> ELSE <<"Fix64", "UFix64">>

AddrReps == <<RAddr(1, "short"), RAddr(1, "padded"), RAddr(1, "conv"), RAddr(2, "short"), RAddr(0, "short"), RAddr(0, "padded"), RAddr(256, "short"), RAddr(256, "conv")>>
PathReps == <<RPath("public", "a", "lit"), RPath("public", "a", "ctor"), RPath("storage", "a", "lit"), RPath("storage", "a", "ctor"),
              RPath("public", "b", "lit"), RPath("storage", "b", "ctor")>>
EnumRepsOf(t) == <<REnum(t, 0, "case"), REnum(t, 0, "raw"), REnum(t, 1, "case"), REnum(t, 1, "raw")>>

\* ---- type values: members listed in different orders, at the top and inside other types, static and run-time built
TInt == TPrim("Int")
TypeTerms == <<TInt, TPrim("String"),
               TInter(<<"I1">>), TInter(<<"I1", "I2">>), TInter(<<"I2", "I1">>), TInter(<<"I1", "I2", "I3">>), TInter(<<"I3", "I1", "I2">>), TInter(<<"I2", "I3", "I1">>),
               TInter(<<"I1", "I3">>),
               TRInter(<<"R1", "R2">>), TRInter(<<"R2", "R1">>),
               TRef("none", << >>, TInt), TRef("conj", <<"X">>, TInt), TRef("disj", <<"X">>, TInt),
               TRef("conj", <<"X", "Y">>, TInt), TRef("conj", <<"Y", "X">>, TInt), TRef("disj", <<"X", "Y">>, TInt), TRef("disj", <<"Y", "X">>, TInt),
               TRef("conj", <<"X", "Y", "Z">>, TInt), TRef("conj", <<"Z", "Y", "X">>, TInt), TRef("disj", <<"Z", "X", "Y">>, TInt), TRef("disj", <<"X", "Y", "Z">>, TInt),
               TRef("none", << >>, TInter(<<"I1", "I2">>)), TRef("none", << >>, TInter(<<"I2", "I1">>)),
               TRef("conj", <<"X", "Y">>, TInter(<<"I1", "I2">>)), TRef("conj", <<"Y", "X">>, TInter(<<"I2", "I1">>)), TRef("conj", <<"X", "Y">>, TInter(<<"I2", "I1">>)),
               TRef("disj", <<"Y", "X">>, TInter(<<"I1", "I2">>)),
               TOpt(TInter(<<"I1", "I2">>)), TOpt(TInter(<<"I2", "I1">>)), TOpt(TInt),
               TArr(TInter(<<"I1", "I2">>)), TArr(TInter(<<"I2", "I1">>)),
               TArr(TRef("conj", <<"X", "Y">>, TInt)), TArr(TRef("conj", <<"Y", "X">>, TInt)),
               TCap(TRef("none", << >>, TInter(<<"I1", "I2">>))), TCap(TRef("none", << >>, TInter(<<"I2", "I1">>))),
               TCap(TRef("conj", <<"X", "Y">>, TInt)), TCap(TRef("conj", <<"Y", "X">>, TInt)), TCap(TRef("disj", <<"Y", "X">>, TInt)),
               TDict(TPrim("String"), TInter(<<"I1", "I2">>)), TDict(TPrim("String"), TInter(<<"I2", "I1">>)),
               TDict(TPrim("String"), TOpt(TRef("disj", <<"X", "Y">>, TInter(<<"I1", "I2">>)))), TDict(TPrim("String"), TOpt(TRef("disj", <<"Y", "X">>, TInter(<<"I2", "I1">>))))>>
\* constructs with a run-time constructor function (ReferenceType builds conjunctions only)
RECURSIVE Dynamic(_)
Dynamic(t) == /\ t.c \in {"prim", "inter", "rinter", "ref", "opt", "arr", "cap", "dict"}
              /\ (t.c = "ref" => t.au \in {"none", "conj"})
              /\ \A i \in 1..Len(t.args) : Dynamic(t.args[i])
DynTerms == SelectSeq(TypeTerms, LAMBDA t : t.c # "prim" /\ Dynamic(t))
TypeReps == [i \in 1..Len(TypeTerms) |-> RType(TypeTerms[i], "static")] \o [i \in 1..Len(DynTerms) |-> RType(DynTerms[i], "dynamic")]

\* ---- optionals, arrays, dictionaries of these
S(x) == RStr(Sy(x), "lit")
T(t) == RType(t, "static")
I8(v) == RNum("Int8", v, "dec")
OptStrReps  == <<RNil("String?", "nil"), RSome("String?", S("eM")), RSome("String?", S("d")), RSome("String?", S("b")), RSome("String?", S(""))>>
Opt2StrReps == <<RNil("String??", "nil"), RNil("String??", "inner"), RSome("String??", S("d")), RSome("String??", RSome("String?", S("eM"))),
                 RSome("String??", RSome("String?", S("b")))>>
OptTypeReps == <<RNil("Type?", "nil"), RSome("Type?", T(TInter(<<"I1", "I2">>))), RSome("Type?", T(TInter(<<"I2", "I1">>))), RSome("Type?", T(TInt))>>
ArrStrReps  == <<RArr("[String]", << >>), RArr("[String]", <<S("eM")>>), RArr("[String]", <<S("d")>>), RArr("[String]", <<S("d"), S("b")>>),
                 RArr("[String]", <<S("eM"), S("b")>>), RArr("[String]", <<S("b"), S("d")>>), RArr("[String]", <<S("d"), S("b"), S("")>>), RArr("[String]", <<S("e")>>)>>
ArrI8Reps   == <<RArr("[Int8]", << >>), RArr("[Int8]", <<I8(1)>>), RArr("[Int8]", <<RNum("Int8", 1, "conv")>>), RArr("[Int8]", <<I8(1), I8(-1)>>),
                 RArr("[Int8]", <<I8(1), I8(0)>>), RArr("[Int8]", <<I8(2)>>), RArr("[Int8]", <<I8(-1), I8(100)>>)>>
ArrTypeReps == <<RArr("[Type]", <<T(TInter(<<"I1", "I2">>)), T(TInt)>>), RArr("[Type]", <<T(TInter(<<"I2", "I1">>)), T(TInt)>>),
                 RArr("[Type]", <<T(TInt), T(TInter(<<"I1", "I2">>))>>), RArr("[Type]", <<T(TRef("conj", <<"X", "Y">>, TInt))>>), RArr("[Type]", <<T(TRef("conj", <<"Y", "X">>, TInt))>>)>>
ArrOptReps  == <<RArr("[String?]", <<RNil("String?", "nil")>>), RArr("[String?]", <<RSome("String?", S("eM"))>>), RArr("[String?]", <<RSome("String?", S("d"))>>),
                 RArr("[String?]", <<RSome("String?", S("d")), RNil("String?", "nil")>>), RArr("[String?]", << >>)>>
ArrArrReps  == <<RArr("[[String]]", <<RArr("[String]", <<S("eM")>>), RArr("[String]", << >>)>>), RArr("[[String]]", <<RArr("[String]", <<S("d")>>), RArr("[String]", << >>)>>),
                 RArr("[[String]]", <<RArr("[String]", <<S("d")>>)>>), RArr("[[String]]", << >>)>>
DictStrReps == <<RDict("{String: Int8}", << >>), RDict("{String: Int8}", <<S("eM"), I8(1), S("b"), I8(2)>>), RDict("{String: Int8}", <<S("b"), I8(2), S("d"), I8(1)>>),
                 RDict("{String: Int8}", <<S("d"), I8(1)>>), RDict("{String: Int8}", <<S("eM"), I8(2), S("b"), I8(2)>>), RDict("{String: Int8}", <<S("eM"), I8(0), S("d"), I8(1)>>),
                 RDict("{String: Int8}", <<S("b"), I8(2), S("eM"), I8(1), S("e"), I8(0)>>)>>
DictTypeReps == <<RDict("{Type: String}", <<T(TInter(<<"I1", "I2">>)), S("eM")>>), RDict("{Type: String}", <<T(TInter(<<"I2", "I1">>)), S("d")>>),
                  RDict("{Type: String}", <<T(TInter(<<"I1", "I2">>)), S("e")>>), RDict("{Type: String}", <<T(TInter(<<"I1">>)), S("d")>>),
                  RDict("{Type: String}", <<T(TInter(<<"I1", "I2">>)), S("b"), T(TInter(<<"I2", "I1">>)), S("d")>>)>>
DictArrReps == <<RDict("{Character: [String]}", <<RChar(Sy("eM"), "lit"), RArr("[String]", <<S("d")>>)>>),
                 RDict("{Character: [String]}", <<RChar(Sy("d"), "index"), RArr("[String]", <<S("eM")>>)>>),
                 RDict("{Character: [String]}", <<RChar(Sy("d"), "lit"), RArr("[String]", <<S("e")>>)>>), RDict("{Character: [String]}", << >>)>>

Seq2(f(_), ts) == [i \in 1..Len(ts) |-> f(ts[i])]
Groups == <<StrReps, CharReps, BoolReps, AddrReps, PathReps, EnumRepsOf("E"), EnumRepsOf("F"), TypeReps>>
          \o Seq2(NumRepsOf, NumTypes) \o Seq2(FixRepsOf, FixTypes)
          \o <<OptStrReps, Opt2StrReps, OptTypeReps, ArrStrReps, ArrI8Reps, ArrTypeReps, ArrOptReps, ArrArrReps, DictStrReps, DictTypeReps, DictArrReps>>
NG == Len(Groups)
\* all hashable reps, as (group, index)
HK == LET F[g \in 0..NG] == IF g = 0 THEN << >>
                            ELSE F[g - 1] \o (IF Hashable(Groups[g][1]) THEN [i \in 1..Len(Groups[g]) |-> <<g, i>>] ELSE << >>)
      IN F[NG]
HKRep(p) == Groups[HK[p][1]][HK[p][2]]

\* ---- key pools for dictionary histories (as indexes into HK would be unreadable: pools are given as reps)
Pools == << <<S("eM"), S("d"), S("e"), S("dM")>>,
            <<RChar(Sy("eM"), "lit"), RChar(Sy("d"), "index"), RChar(Sy("e"), "lit"), S("d"), S("eM")>>,
            <<T(TInter(<<"I1", "I2">>)), T(TInter(<<"I2", "I1">>)), RType(TInter(<<"I2", "I1">>), "dynamic"), T(TInter(<<"I1">>)), T(TRef("none", << >>, TInter(<<"I2", "I1">>)))>>,
            <<T(TRef("conj", <<"X", "Y">>, TInt)), T(TRef("conj", <<"Y", "X">>, TInt)), T(TRef("disj", <<"X", "Y">>, TInt)), T(TRef("disj", <<"Y", "X">>, TInt)),
              RType(TRef("conj", <<"Y", "X">>, TInt), "dynamic")>>,
            <<I8(1), RNum("Int8", 1, "conv"), RNum("Int16", 1, "dec"), RNum("UInt8", 1, "hex"), RNum("Word8", 1, "dec"), RFix("UFix64", 100, "short"), RFix("Fix64", 100, "long")>>,
            <<REnum("E", 0, "case"), REnum("E", 0, "raw"), REnum("F", 0, "case"), REnum("E", 1, "raw"), RNum("UInt8", 0, "dec")>>,
            <<RAddr(1, "short"), RAddr(1, "padded"), RAddr(1, "conv"), RNum("UInt64", 1, "dec"), RPath("public", "a", "lit"), RPath("public", "a", "ctor"), RPath("storage", "a", "lit")>>,
            <<RBool(TRUE, "lit"), RBool(TRUE, "cmp"), RBool(FALSE, "not"), RNum("UInt8", 1, "dec"), S("LVT"), S("H"), RStr(Sy("GT"), "concat")>> >>

\* ------------------------------------------------------------------ states
Init == st = <<"start">>
Next == /\ st = <<"start">>
        /\ \/ \E g \in 1..NG : st' = <<"group", g>>
           \/ \E g \in 1..NG : \E i \in 1..Len(Groups[g]) : st' = <<"pair", g, i>>
           \/ \E p \in 1..Len(HK) : st' = <<"key", p>>
           \/ \E q \in 1..Len(Pools) : \E k1 \in 1..Len(Pools[q]) : \E k2 \in 1..Len(Pools[q]) : \E k3 \in 1..Len(Pools[q]) :
                st' = <<"hist", q, k1, k2, k3>>
Spec == Init /\ [][Next]_st

\* ------------------------------------------------------------------ rows
GroupRow(g) == LET R == Groups[g] IN
  [row |-> "group", g |-> g, ty |-> R[1].ty, comparable |-> ComparableRep(R[1]), hashable |-> Hashable(R[1]), reps |-> R]
PairRow(g, i) == LET R == Groups[g] IN
  [row |-> "pair", g |-> g, i |-> i, eq |-> [j \in 1..Len(R) |-> Eq(R[i], R[j])],
   cmp |-> IF ComparableRep(R[1]) THEN [j \in 1..Len(R) |-> Cmp3(R[i], R[j])] ELSE << >>]
KeyRow(p) == [row |-> "key", p |-> p, g |-> HK[p][1], i |-> HK[p][2], same |-> [q \in 1..Len(HK) |-> KeyEq(HKRep(p), HKRep(q))]]
HistRow(q, k1, k2, k3) ==
  LET P == Pools[q]
      r1 == Insert(<< >>, P[k1], 1)  r2 == Insert(r1.d, P[k2], 2)  r3 == Remove(r2.d, P[k3]) IN
  [row |-> "hist", pool |-> q, ks |-> <<k1, k2, k3>>, keys |-> (IF k1 = 1 /\ k2 = 1 /\ k3 = 1 THEN P ELSE << >>),
   old |-> <<r1.old, r2.old, r3.old>>, len |-> Len(r3.d), look |-> [x \in 1..Len(P) |-> Lookup(r3.d, P[x])]]

Judge == CASE st[1] = "group" -> PrintT(ToJson(GroupRow(st[2])))
           [] st[1] = "pair"  -> PrintT(ToJson(PairRow(st[2], st[3])))
           [] st[1] = "key"   -> PrintT(ToJson(KeyRow(st[2])))
           [] st[1] = "hist"  -> PrintT(ToJson(HistRow(st[2], st[3], st[4], st[5])))
           [] OTHER -> TRUE

\* ------------------------------------------------------------------ laws of the model on the universe
LawsHold ==
  CASE st[1] = "group" -> LET R == Groups[st[2]] IN \A i \in 1..Len(R) : WellFormed(R[i]) /\ R[i].ty = R[1].ty /\ R[i].k \in {R[1].k, "Nil", "Some"}
    [] st[1] = "pair"  -> LET R == Groups[st[2]]  a == R[st[3]]  cmp == ComparableRep(a) IN
                          \A j \in 1..Len(R) :
                             /\ EqLaws(a, R[j]) /\ (cmp => OrderLaws(a, R[j]))
                             /\ \A k \in 1..Len(R) : EqTransitive(a, R[j], R[k]) /\ (cmp => OrderTransitive(a, R[j], R[k]))
    [] st[1] = "key"   -> \A q \in 1..Len(HK) : KeyLaws(HKRep(st[2]), HKRep(q))
    [] st[1] = "hist"  -> LET P == Pools[st[2]]
                              r1 == Insert(<< >>, P[st[3]], 1)  r2 == Insert(r1.d, P[st[4]], 2)  r3 == Remove(r2.d, P[st[5]]) IN
                          DictOK(r1.d) /\ DictOK(r2.d) /\ DictOK(r3.d) /\ \A x \in 1..Len(P) : Hashable(P[x]) /\ WellFormed(P[x])
    [] OTHER -> TRUE
=============================================================================
