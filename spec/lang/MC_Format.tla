---- MODULE MC_Format ----
EXTENDS Format
\* formatter options: id 0 is formatter.Default()
Opt(id, w, ic, in, si, ss, kb) == [id |-> id, width |-> w, indentChar |-> ic, indentCount |-> in, sortImports |-> si, stripSemicolons |-> ss, keepBlank |-> kb]
QuickOptions == { Opt(0, 100, " ", 4, TRUE, TRUE, 1), Opt(101, 40, "\t", 1, FALSE, FALSE, 0), Opt(102, 100, " ", 2, TRUE, FALSE, 2),
                  Opt(103, 40, " ", 4, FALSE, TRUE, 2) }
AllOptions == { Opt(0, 100, " ", 4, TRUE, TRUE, 1) } \cup
              { Opt(1 + (w \div 60) * 36 + ii * 12 + (IF si THEN 6 ELSE 0) + (IF ss THEN 3 ELSE 0) + kb, w, IF ii = 1 THEN "\t" ELSE " ", IF ii = 0 THEN 4 ELSE IF ii = 1 THEN 1 ELSE 2, si, ss, kb)
                  : w \in {40, 100}, ii \in 0..2, si \in BOOLEAN, ss \in BOOLEAN, kb \in 0..2 }
====
