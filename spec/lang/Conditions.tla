---------------------------- MODULE Conditions ----------------------------
(***************************************************************************)
(* Property C10: function pre- and post-conditions are always enforced.    *)
(*                                                                         *)
(* A CONFIGURATION is a small Cadence program, described abstractly:       *)
(*   - NI struct interfaces I1..I_NI.  par[i] is the ordered list of       *)
(*     interfaces Ii explicitly conforms to (only lower-numbered ones, so  *)
(*     every DAG shape over NI nodes occurs, each list in every order).    *)
(*   - one concrete struct C with the ordered explicit conformance list    *)
(*     conf (redundant entries such as C: I2, I1 with I2: I1 allowed).     *)
(*   - per declaration site s (interfaces 1..NI, and C = NI+1) the shape   *)
(*     of  fun f(_ flags: [Bool], _ c: &Counter): Int :                    *)
(*       decl  f is declared at s                                          *)
(*       pre   ... with a block                                            *)
(*               pre  { emit Ev("s.pre.a");  flags[k]: "pre:s";            *)
(*                      emit Ev("s.pre.b") }                               *)
(*       post  ... with a block                                            *)
(*               post { emit Ev("s.post.a"); flags[k']: "post:s";          *)
(*                      c.n == before(c.n) + D[s]: "before:s";             *)
(*                      result == R[s]: "result:s";                        *)
(*                      emit Ev("s.post.b") }                              *)
(*       body  ... with a body (a default implementation when s is an      *)
(*             interface):  log("body:s"); c.inc(d); [nested call]; return r*)
(*   - fs, the set of test conditions that are FALSE in this configuration *)
(*     (at most MaxFalse of them).  A plain test reads flags[k]; the       *)
(*     before-test is false iff D[s] differs from the increment really     *)
(*     performed between entry and exit; the result-test is false iff      *)
(*     R[s] differs from the returned value.                               *)
(*   - nest: the body of C.f calls self.g(flags, c) after its own          *)
(*     increment; g is declared in every interface that declares f, with   *)
(*     condition blocks of the same shape (gpre / gpost / gbefore), and    *)
(*     implemented by C without own conditions; its body increments by e.  *)
(*   - via: the call is made on a value of static type C (0) or {I_via}.   *)
(*                                                                         *)
(* The JUDGEMENT is written from the language definition:                  *)
(*   * every condition of the function's own declaration and of the        *)
(*     declaration in every interface the concrete type conforms to,       *)
(*     directly or transitively, is enforced; conditions of interfaces the *)
(*     type does not conform to are not;                                   *)
(*   * pre-conditions are evaluated on entry, before the body; the body    *)
(*     runs only if all of them held; post-conditions are evaluated after  *)
(*     the body; before(e) denotes the value of e on entry; result denotes *)
(*     the returned value;                                                 *)
(*   * conditions are evaluated in the linearized order: pre-conditions of *)
(*     the interfaces in depth-first pre-order of the conformance          *)
(*     hierarchy (each interface once, at its first occurrence), then the  *)
(*     function's own; post-conditions in exactly the reverse order (own   *)
(*     first, then the interfaces in reversed depth-first pre-order);      *)
(*     within a block in textual order; evaluation stops at the first test *)
(*     that is false, and the call fails with a condition error carrying   *)
(*     that test's message; emit conditions evaluated before that point    *)
(*     have emitted their events;                                          *)
(*   * the body that runs is C's own f if it declares one, otherwise the   *)
(*     unique default implementation among its conformances.               *)
(* Expected(F) computes the whole observable outcome: ok / failing phase   *)
(* and message, sequence of emitted events, sequence of logs (which body   *)
(* ran, counter value after the call), returned value.                     *)
(* The STATEMENT of C10 is the set-level predicate AllHold; the invariants *)
(* relate the evaluation-order semantics to it (model sanity).             *)
(***************************************************************************)
EXTENDS Integers, Sequences, FiniteSets, TLC, Json

CONSTANTS NI,         \* number of interfaces
          MaxFalse,   \* at most this many false tests per configuration (0..2)
          NestSet,    \* subset of BOOLEAN: values of nest explored
          ViaAll,     \* TRUE: also call through every interface type that exposes f
          DRSet,      \* set of <<d, r>> pairs explored
          ESet,       \* values of e explored in nested configurations
          Seed, SampleMod, SampleKeep   \* a row is emitted iff Hash % SampleMod < SampleKeep

VARIABLES par, conf, ik, ck, dr, nest, e, via, fs
vars == <<par, conf, ik, ck, dr, nest, e, via, fs>>

C == NI + 1
Ifaces == 1..NI
Sites == 1..C
Name(s) == IF s = C THEN "C" ELSE "I" \o ToString(s)

----------------------------------------------------------------------------
(* enumeration domains *)

\* duplicate-free sequences over a set of at most 3 elements
DFSeqs(S) == {<<>>} \cup {<<a>> : a \in S}
             \cup {sq \in {<<a, b>> : a \in S, b \in S} : sq[1] # sq[2]}
             \cup {sq \in {<<a, b, c>> : a \in S, b \in S, c \in S} :
                     sq[1] # sq[2] /\ sq[1] # sq[3] /\ sq[2] # sq[3]}

Absent == [decl |-> FALSE, pre |-> FALSE, post |-> FALSE, body |-> FALSE]
IKinds == {Absent} \cup {[decl |-> TRUE, pre |-> p, post |-> q, body |-> b] : p \in BOOLEAN, q \in BOOLEAN, b \in BOOLEAN}
CKinds == {Absent} \cup {[decl |-> TRUE, pre |-> p, post |-> q, body |-> TRUE] : p \in BOOLEAN, q \in BOOLEAN}

K(s) == IF s = C THEN ck ELSE ik[s]

----------------------------------------------------------------------------
(* the conformance hierarchy *)

Range(sq) == {sq[i] : i \in 1..Len(sq)}

\* depth-first pre-order traversal, every interface once (first occurrence)
RECURSIVE Dfs(_, _)
Dfs(list, acc) ==
  IF list = <<>> THEN acc
  ELSE LET h == Head(list) IN
       IF h \in Range(acc) THEN Dfs(Tail(list), acc)
       ELSE Dfs(Tail(list), Dfs(par[h], Append(acc, h)))

Lin == Dfs(conf, <<>>)               \* linearized conformances of C
Closure == Range(Lin)                \* every interface C conforms to, directly or transitively
Anc(i) == Range(Dfs(par[i], <<>>))   \* proper ancestors of interface i

RECURSIVE Rev(_)
Rev(sq) == IF sq = <<>> THEN <<>> ELSE Append(Rev(Tail(sq)), Head(sq))

Rel(s) == IF s = C THEN "own"
          ELSE IF s \in Range(conf) THEN "direct"
          ELSE IF s \in Closure THEN "indirect" ELSE "unrelated"

----------------------------------------------------------------------------
(* well-formedness: the configurations that are valid programs.            *)
(* Language rules on default implementations:                              *)
(*  W1 an interface together with all its ancestors provides at most one   *)
(*     default implementation of f (a default cannot be overridden by      *)
(*     another default; two inherited defaults conflict);                  *)
(*  W2 an interface may re-declare an inherited function that has a        *)
(*     default implementation only by adding conditions, not by a bare     *)
(*     declaration;                                                        *)
(*  W3 a concrete type that does not declare f needs exactly one default   *)
(*     among its conformances; one that declares f may have any number.    *)
(*  The function must exist on C to be called at all.                      *)

HasDefault(i) == ik[i].decl /\ ik[i].body
Bare(i) == ik[i].decl /\ ~ik[i].pre /\ ~ik[i].post /\ ~ik[i].body

W1 == \A i \in Ifaces : Cardinality({j \in Anc(i) \cup {i} : HasDefault(j)}) <= 1
W2 == \A i \in Ifaces : Bare(i) => \A j \in Anc(i) : ~HasDefault(j)
W3 == ck.decl \/ Cardinality({j \in Closure : HasDefault(j)}) = 1
WellFormed == W1 /\ W2 /\ W3

\* interfaces through whose type f can be called on a C value
Exposes(i) == i \in Closure /\ \E j \in Anc(i) \cup {i} : ik[j].decl

----------------------------------------------------------------------------
(* tests: <<site, name>>.  Declared tests are those that occur in the text. *)

FTests(s) == (IF K(s).pre THEN {<<s, "pre">>} ELSE {})
             \cup (IF K(s).post THEN {<<s, "post">>, <<s, "before">>, <<s, "result">>} ELSE {})
\* g has condition blocks only in interfaces
GTests(s) == IF nest /\ s # C
             THEN (IF K(s).pre THEN {<<s, "gpre">>} ELSE {})
                  \cup (IF K(s).post THEN {<<s, "gpost">>, <<s, "gbefore">>} ELSE {})
             ELSE {}
DeclaredTests == UNION {FTests(s) \cup GTests(s) : s \in Sites}

SubsetsUpTo(S, k) == {{}} \cup (IF k >= 1 THEN {{a} : a \in S} ELSE {})
                          \cup (IF k >= 2 THEN {{a, b} : a \in S, b \in S} ELSE {})

----------------------------------------------------------------------------
(* what the program text contains, given the set F of false tests *)

d == dr[1]
r == dr[2]
EE == IF nest THEN e ELSE 0
Delta == d + EE                     \* increment of c.n between entry and exit of f
Other(x) == IF x = 0 THEN 1 ELSE x - 1

DConst(s, F) == IF <<s, "before">> \in F THEN Other(Delta) ELSE Delta
RConst(s, F) == IF <<s, "result">> \in F THEN Other(r) ELSE r
EConst(s, F) == IF <<s, "gbefore">> \in F THEN Other(EE) ELSE EE
Flag(t, F) == t \notin F

\* truth of a test under the language semantics
Holds(t, F) ==
  LET s == t[1] IN
  CASE t[2] = "before"  -> DConst(s, F) = Delta      \* c.n(exit) = c.n(entry) + D
    [] t[2] = "result"  -> RConst(s, F) = r          \* result = returned value
    [] t[2] = "gbefore" -> EConst(s, F) = EE
    [] OTHER            -> Flag(t, F)

----------------------------------------------------------------------------
(* the statement of C10, at the level of sets *)

Impl == IF ck.decl THEN C ELSE CHOOSE j \in Closure : HasDefault(j)
Enforced == Closure \cup {C}        \* sites whose conditions apply to C.f
ApplicableTests == UNION {FTests(s) \cup GTests(s) : s \in Enforced}

AllPreHold(F) == \A s \in Enforced : \A t \in FTests(s) : t[2] = "pre" => Holds(t, F)
AllPostHold(F) == \A s \in Enforced : \A t \in FTests(s) : t[2] # "pre" => Holds(t, F)
AllNestedHold(F) == \A s \in Enforced : \A t \in GTests(s) : Holds(t, F)
AllHold(F) == AllPreHold(F) /\ AllNestedHold(F) /\ AllPostHold(F)

----------------------------------------------------------------------------
(* evaluation-order semantics: the sequence of observable atoms *)

Emit(v) == [t |-> "emit", v |-> v, k |-> "", h |-> TRUE]
Log(v) == [t |-> "log", v |-> v, k |-> "", h |-> TRUE]
Test(t, k, F) == [t |-> "test", v |-> t[2] \o ":" \o Name(t[1]), k |-> k, h |-> Holds(t, F)]

PreBlock(s, g, F) ==
  IF (IF g = "g" THEN GTests(s) ELSE FTests(s)) \cap {<<s, g \o "pre">>} = {} THEN <<>>
  ELSE << Emit(Name(s) \o "." \o g \o "pre.a"), Test(<<s, g \o "pre">>, "pre", F), Emit(Name(s) \o "." \o g \o "pre.b") >>

PostBlock(s, g, F) ==
  IF g = "" THEN
    IF ~K(s).post THEN <<>>
    ELSE << Emit(Name(s) \o ".post.a"), Test(<<s, "post">>, "post", F), Test(<<s, "before">>, "post", F),
            Test(<<s, "result">>, "post", F), Emit(Name(s) \o ".post.b") >>
  ELSE
    IF <<s, "gpost">> \notin GTests(s) THEN <<>>
    ELSE << Emit(Name(s) \o ".gpost.a"), Test(<<s, "gpost">>, "post", F), Test(<<s, "gbefore">>, "post", F),
            Emit(Name(s) \o ".gpost.b") >>

RECURSIVE Pres(_, _, _)
Pres(sites, g, F) == IF sites = <<>> THEN <<>> ELSE PreBlock(Head(sites), g, F) \o Pres(Tail(sites), g, F)
RECURSIVE Posts(_, _, _)
Posts(sites, g, F) == IF sites = <<>> THEN <<>> ELSE PostBlock(Head(sites), g, F) \o Posts(Tail(sites), g, F)

PreOrder == Lin \o <<C>>            \* interfaces in depth-first pre-order, then own
PostOrder == <<C>> \o Rev(Lin)      \* own, then interfaces in reversed depth-first pre-order

NestedCall(F) ==
  IF nest /\ Impl = C
  THEN Pres(PreOrder, "g", F) \o <<Log("gbody:C")>> \o Posts(PostOrder, "g", F) \o <<Log("gret:7")>>
  ELSE <<>>

Atoms(F) == Pres(PreOrder, "", F)
            \o <<Log("body:" \o Name(Impl))>> \o NestedCall(F)
            \o Posts(PostOrder, "", F)
            \o <<Log("n:" \o ToString(5 + Delta))>>

FirstFail(a) == IF \E i \in 1..Len(a) : ~a[i].h
                THEN CHOOSE i \in 1..Len(a) : ~a[i].h /\ \A j \in 1..(i - 1) : a[j].h
                ELSE 0

RECURSIVE Pick(_, _)
Pick(a, ty) == IF a = <<>> THEN <<>>
               ELSE IF Head(a).t = ty THEN <<Head(a).v>> \o Pick(Tail(a), ty) ELSE Pick(Tail(a), ty)

Expected(F) ==
  LET a == Atoms(F)
      i == FirstFail(a)
      done == IF i = 0 THEN a ELSE SubSeq(a, 1, i - 1)
  IN [ok |-> i = 0,
      kind |-> IF i = 0 THEN "" ELSE a[i].k,
      msg |-> IF i = 0 THEN "" ELSE a[i].v,
      events |-> Pick(done, "emit"),
      logs |-> Pick(done, "log"),
      ret |-> r]

BodyRan(x) == \E i \in 1..Len(x.logs) : x.logs[i] = "body:" \o Name(Impl)

IsPrefix(p, q) == Len(p) <= Len(q) /\ \A i \in 1..Len(p) : p[i] = q[i]

----------------------------------------------------------------------------
(* model sanity, checked by TLC on every configuration *)

\* the evaluation-order semantics decides exactly the statement of C10
JudgementAgrees == Expected(fs).ok <=> AllHold(fs)
\* only applicable tests matter; false tests of unrelated interfaces do not
OnlyApplicableMatter == Expected(fs).ok <=> (fs \cap ApplicableTests = {})
\* the model's bookkeeping of truth values is consistent with the semantics of before/result
TruthBookkeeping == \A t \in DeclaredTests : Holds(t, fs) <=> t \notin fs
\* the body runs iff all pre-conditions held; success implies it ran
BodyIffPre == LET x == Expected(fs) IN (BodyRan(x) <=> AllPreHold(fs)) /\ (x.ok => BodyRan(x))
\* a failing pre-condition is reported as such and no post-condition event was emitted
PhaseOrder == LET x == Expected(fs) IN
                /\ ~AllPreHold(fs) => x.kind = "pre" /\ x.logs = <<>>
                /\ (AllPreHold(fs) /\ ~x.ok /\ ~nest) => x.kind = "post"
\* turning a false test true never turns success into failure and only extends what was observed
Monotone == \A t \in fs :
              LET x == Expected(fs)
                  y == Expected(fs \ {t})
              IN (x.ok => y.ok) /\ IsPrefix(x.events, y.events) /\ IsPrefix(x.logs, y.logs)
\* on success every applicable block emitted both of its events, every other block none
EventsComplete ==
  LET x == Expected(fs)
      blocks == {<<s, "pre">> : s \in {s \in Enforced : K(s).pre}} \cup {<<s, "post">> : s \in {s \in Enforced : K(s).post}}
  IN x.ok => Len(x.events) = 2 * Cardinality(blocks)
                + (IF nest /\ Impl = C THEN 2 * Cardinality({t \in ApplicableTests : t[2] \in {"gpre", "gpost"}}) ELSE 0)

----------------------------------------------------------------------------
(* the table *)

SiteRow(s, F) == [decl |-> K(s).decl, pre |-> K(s).pre, post |-> K(s).post, body |-> K(s).body,
                  pt |-> Flag(<<s, "pre">>, F), qt |-> Flag(<<s, "post">>, F),
                  D |-> DConst(s, F), R |-> RConst(s, F),
                  gpt |-> Flag(<<s, "gpre">>, F), gqt |-> Flag(<<s, "gpost">>, F), E |-> EConst(s, F),
                  rel |-> Rel(s)]

RECURSIVE SiteRows(_)
SiteRows(s) == IF s > C THEN <<>> ELSE <<SiteRow(s, fs)>> \o SiteRows(s + 1)
RECURSIVE ParRows(_)
ParRows(i) == IF i > NI THEN <<>> ELSE <<par[i]>> \o ParRows(i + 1)

Row ==  [ni |-> NI, par |-> ParRows(1), conf |-> conf, sites |-> SiteRows(1),
           d |-> d, r |-> r, nest |-> nest, e |-> EE, via |-> via,
           lin |-> Lin, impl |-> Name(Impl), nfalse |-> Cardinality(fs),
           napp |-> Cardinality(fs \cap ApplicableTests),
           ninh |-> Cardinality({s \in Closure : K(s).pre \/ K(s).post}),
           exp |-> Expected(fs)]

\* deterministic sampling: a hash of the configuration and the seed
Mix(h, x) == (h * 31 + x + 7) % 1000003
RECURSIVE MixSeq(_, _)
MixSeq(h, sq) == IF sq = <<>> THEN Mix(h, 29) ELSE MixSeq(Mix(h, Head(sq)), Tail(sq))
B(b) == IF b THEN 1 ELSE 0
KCode(k) == 8 * B(k.decl) + 4 * B(k.pre) + 2 * B(k.post) + B(k.body)
TCode(t) == LET n == CASE t[2] = "pre" -> 1 [] t[2] = "post" -> 2 [] t[2] = "before" -> 3 [] t[2] = "result" -> 4
                       [] t[2] = "gpre" -> 5 [] t[2] = "gpost" -> 6 [] OTHER -> 7
            IN (t[1] * 8 + n) * (t[1] * 8 + n + 11)
RECURSIVE SumSet(_)
SumSet(S) == IF S = {} THEN 0 ELSE LET x == CHOOSE x \in S : TRUE IN TCode(x) + SumSet(S \ {x})
RECURSIVE MixPar(_, _)
MixPar(h, i) == IF i > NI THEN h ELSE MixPar(Mix(MixSeq(h, par[i]), KCode(ik[i])), i + 1)
Hash == Mix(Mix(Mix(Mix(Mix(Mix(Mix(MixPar(MixSeq(Mix(Seed, 17), conf), 1), KCode(ck)), d), r), B(nest)), e), via), SumSet(fs))
Keep == SampleKeep >= SampleMod \/ (Hash % SampleMod) < SampleKeep

EmitRow == Keep => PrintT(ToJson(Row))

----------------------------------------------------------------------------
Init ==
  /\ par \in {p \in [Ifaces -> DFSeqs(Ifaces)] : \A i \in Ifaces : \A j \in Range(p[i]) : j < i}
  /\ conf \in DFSeqs(Ifaces)
  /\ ik \in [Ifaces -> IKinds]
  /\ W1 /\ W2
  /\ ck \in CKinds
  /\ W3
  /\ dr \in DRSet
  /\ nest \in (IF ck.decl THEN NestSet ELSE {FALSE})
  /\ e \in (IF nest THEN ESet ELSE {0})
  /\ via \in ({0} \cup (IF ViaAll THEN {i \in Ifaces : Exposes(i)} ELSE {}))
  /\ fs \in SubsetsUpTo(DeclaredTests, MaxFalse)

Next == UNCHANGED vars
Spec == Init /\ [][Next]_vars
=============================================================================
