---------------------------- MODULE Conditions ----------------------------
(***************************************************************************)
(* Property C10: function pre- and post-conditions are always enforced.    *)
(*                                                                         *)
(* A CONFIGURATION is a small Cadence program, described abstractly:       *)
(*   - NI struct interfaces I1..I_NI.  par[i] is the ordered list of       *)
(*     interfaces Ii explicitly conforms to (only lower-numbered ones, so  *)
(*     every DAG shape over NI nodes occurs, each list in every order).    *)
(*   - one concrete struct C with the ordered explicit conformance list    *)
(*     conf (redundant entries such as C: I2, I1 with I2: I1 allowed).     *)
(*   - per declaration site s (interfaces 1..NI, and C = NI+1) the shape   *)
(*     of  fun f(_ flags: [Bool], _ c: &Counter): Int :                    *)
(*       decl  f is declared at s                                          *)
(*       pre   ... with a block                                            *)
(*               pre  { emit Ev("s.pre.a");  flags[k]: "pre:s";            *)
(*                      emit Ev("s.pre.b") }                               *)
(*       post  ... with a block                                            *)
(*               post { emit Ev("s.post.a"); flags[k']: "post:s";          *)
(*                      c.n == before(c.n) + D[s]: "before:s";             *)
(*                      result == R[s]: "result:s";                        *)
(*                      emit Ev("s.post.b") }                              *)
(*       body  ... with a body (a default implementation when s is an      *)
(*             interface):  log("body:s"); c.inc(d); [nested call]; return r*)
(*   - fs, the set of test conditions that are FALSE in this configuration *)
(*     (at most MaxFalse of them).  A plain test reads flags[k]; the       *)
(*     before-test is false iff D[s] differs from the increment really     *)
(*     performed between entry and exit; the result-test is false iff      *)
(*     R[s] differs from the returned value.                               *)
(*   - nest: the body of C.f calls self.g(flags, c) after its own          *)
(*     increment; g is declared in every interface that declares f, with   *)
(*     condition blocks of the same shape (gpre / gpost / gbefore), and    *)
(*     implemented by C without own conditions; its body increments by e.  *)
(*   - via: the call is made on a value of static type C (0) or {I_via}.   *)
(*   - ps: the PARAMETER SHAPE of f at every site: besides flags and the    *)
(*     counter it takes no extra parameter ("none"), a resource first       *)
(*     ("res1"), a resource after a non-resource ("int_res"), two resources  *)
(*     around a non-resource ("res_int_res") or an optional resource after a *)
(*     non-resource ("optres"); every body (own, default, overriding)        *)
(*     destroys the resources it receives.  The judgement does not mention   *)
(*     ps: conditions alone decide the outcome, whatever is passed.          *)
(*                                                                         *)
(* The JUDGEMENT is written from the language definition:                  *)
(*   * every condition of the function's own declaration and of the        *)
(*     declaration in every interface the concrete type conforms to,       *)
(*     directly or transitively, is enforced; conditions of interfaces the *)
(*     type does not conform to are not;                                   *)
(*   * pre-conditions are evaluated on entry, before the body; the body    *)
(*     runs only if all of them held; post-conditions are evaluated after  *)
(*     the body; before(e) denotes the value of e on entry; result denotes *)
(*     the returned value;                                                 *)
(*   * conditions are evaluated in the linearized order: pre-conditions of *)
(*     the interfaces in depth-first pre-order of the conformance          *)
(*     hierarchy (each interface once, at its first occurrence), then the  *)
(*     function's own; post-conditions in exactly the reverse order (own   *)
(*     first, then the interfaces in reversed depth-first pre-order);      *)
(*     within a block in textual order; evaluation stops at the first test *)
(*     that is false, and the call fails with a condition error carrying   *)
(*     that test's message; emit conditions evaluated before that point    *)
(*     have emitted their events;                                          *)
(*   * the body that runs is C's own f if it declares one, otherwise the   *)
(*     unique default implementation among its conformances.               *)
(* Expected(F) computes the whole observable outcome: ok / failing phase   *)
(* and message, sequence of emitted events, sequence of logs (which body   *)
(* ran, counter value after the call), returned value.                     *)
(* The STATEMENT of C10 is the set-level predicate AllHold; the invariants *)
(* relate the evaluation-order semantics to it (model sanity).             *)
(***************************************************************************)
EXTENDS Integers, Sequences, FiniteSets, TLC, Json

CONSTANTS NI,         \* number of interfaces
          MaxFalse,   \* at most this many false tests per configuration (0..2)
          NestSet,    \* subset of BOOLEAN: values of nest explored
          ViaAll,     \* TRUE: also call through every interface type that exposes f
          DRSeq,      \* sequence of <<d, r>> pairs explored
          ESeq,       \* sequence of values of e explored in nested configurations
          FullUnrelated, \* FALSE: an interface C does not conform to either does not declare f or
                      \*        declares it with both condition blocks and no body (instead of all 9 shapes)
          PickByHash, \* TRUE: d/r, e and via are not enumerated but drawn per configuration
                      \*       from their domains by a hash of (Seed, configuration)
          Seed, SampleMod, Keep0, Keep1, Keep2
                      \* a configuration with n false tests is explored iff
                      \* Hash(Seed, configuration) % SampleMod < Keep_n  (Keep_n = SampleMod: all)

\* ph = 0: only the shape (hierarchy and declarations) is chosen; ph = 1: a full configuration;
\* ph = 2: a shape in the unfiltered enumeration used to validate WellFormed against the checker
VARIABLES ph, par, conf, ik, ck, dr, nest, e, via, fs, ps
vars == <<ph, par, conf, ik, ck, dr, nest, e, via, fs, ps>>
PShapes == <<"none", "res1", "int_res", "res_int_res", "optres">>

C == NI + 1
Ifaces == 1..NI
Sites == 1..C
Name(s) == IF s = C THEN "C" ELSE IF s = 1 THEN "I1" ELSE IF s = 2 THEN "I2" ELSE "I" \o ToString(s)

----------------------------------------------------------------------------
(* enumeration domains *)

\* duplicate-free sequences over a set of at most 3 elements
DFSeqs(S) == {<<>>} \cup {<<a>> : a \in S}
             \cup {sq \in {<<a, b>> : a \in S, b \in S} : sq[1] # sq[2]}
             \cup {sq \in {<<a, b, c>> : a \in S, b \in S, c \in S} :
                     sq[1] # sq[2] /\ sq[1] # sq[3] /\ sq[2] # sq[3]}

Absent == [decl |-> FALSE, pre |-> FALSE, post |-> FALSE, body |-> FALSE]
IKinds == {Absent} \cup {[decl |-> TRUE, pre |-> p, post |-> q, body |-> b] : p \in BOOLEAN, q \in BOOLEAN, b \in BOOLEAN}
CKinds == {Absent} \cup {[decl |-> TRUE, pre |-> p, post |-> q, body |-> TRUE] : p \in BOOLEAN, q \in BOOLEAN}

K(s) == IF s = C THEN ck ELSE ik[s]

----------------------------------------------------------------------------
(* the conformance hierarchy *)

Range(sq) == {sq[i] : i \in 1..Len(sq)}

\* depth-first pre-order traversal, every interface once (first occurrence)
RECURSIVE Dfs(_, _)
Dfs(list, acc) ==
  IF list = <<>> THEN acc
  ELSE LET h == Head(list) IN
       IF h \in Range(acc) THEN Dfs(Tail(list), acc)
       ELSE Dfs(Tail(list), Dfs(par[h], Append(acc, h)))

Lin == Dfs(conf, <<>>)               \* linearized conformances of C
Closure == Range(Lin)                \* every interface C conforms to, directly or transitively
Anc(i) == Range(Dfs(par[i], <<>>))   \* proper ancestors of interface i

RECURSIVE Rev(_)
Rev(sq) == IF sq = <<>> THEN <<>> ELSE Append(Rev(Tail(sq)), Head(sq))

Rel(s) == IF s = C THEN "own"
          ELSE IF s \in Range(conf) THEN "direct"
          ELSE IF s \in Closure THEN "indirect" ELSE "unrelated"

----------------------------------------------------------------------------
(* well-formedness: the configurations that are valid programs.            *)
(* Language rules on default implementations:                              *)
(*  W1 an interface together with all its ancestors provides at most one   *)
(*     default implementation of f (a default cannot be overridden by      *)
(*     another default; two inherited defaults conflict);                  *)
(*  W2 an interface may re-declare an inherited function that has a        *)
(*     default implementation only by adding conditions, not by a bare     *)
(*     declaration;                                                        *)
(*  W3 a concrete type that does not declare f needs exactly one default   *)
(*     among its conformances; one that declares f may have any number.    *)
(*  The function must exist on C to be called at all.                      *)

HasDefault(i) == ik[i].decl /\ ik[i].body
Bare(i) == ik[i].decl /\ ~ik[i].pre /\ ~ik[i].post /\ ~ik[i].body

W1 == \A i \in Ifaces : Cardinality({j \in Anc(i) \cup {i} : HasDefault(j)}) <= 1
W2 == \A i \in Ifaces : Bare(i) => \A j \in Anc(i) : ~HasDefault(j)
W3 == IF ck.decl THEN TRUE ELSE Cardinality({j \in Closure : HasDefault(j)}) = 1
WellFormed == W1 /\ W2 /\ W3

\* interfaces through whose type f can be called on a C value
Exposes(i) == i \in Closure /\ \E j \in Anc(i) \cup {i} : ik[j].decl

----------------------------------------------------------------------------
(* tests: <<site, name>>.  Declared tests are those that occur in the text. *)

FTests(s) == (IF K(s).pre THEN {<<s, "pre">>} ELSE {})
             \cup (IF K(s).post THEN {<<s, "post">>, <<s, "before">>, <<s, "result">>} ELSE {})
\* g has condition blocks only in interfaces
GTestsN(s, nv) == IF nv /\ s # C
             THEN (IF K(s).pre THEN {<<s, "gpre">>} ELSE {})
                  \cup (IF K(s).post THEN {<<s, "gpost">>, <<s, "gbefore">>} ELSE {})
             ELSE {}
GTests(s) == GTestsN(s, nest)
DeclaredTestsN(nv) == UNION {FTests(s) \cup GTestsN(s, nv) : s \in Sites}
DeclaredTests == DeclaredTestsN(nest)

SubsetsUpTo(S, k) == {{}} \cup (IF k >= 1 THEN {{a} : a \in S} ELSE {})
                          \cup (IF k >= 2 THEN {{a, b} : a \in S, b \in S} ELSE {})

----------------------------------------------------------------------------
(* what the program text contains, given the set F of false tests *)

d == dr[1]
r == dr[2]
EE == IF nest THEN e ELSE 0
Delta == d + EE                     \* increment of c.n between entry and exit of f
Other(x) == IF x = 0 THEN 1 ELSE x - 1

DConst(s, F) == IF <<s, "before">> \in F THEN Other(Delta) ELSE Delta
RConst(s, F) == IF <<s, "result">> \in F THEN Other(r) ELSE r
EConst(s, F) == IF <<s, "gbefore">> \in F THEN Other(EE) ELSE EE
Flag(t, F) == t \notin F

\* truth of a test under the language semantics
Holds(t, F) ==
  LET s == t[1] IN
  CASE t[2] = "before"  -> DConst(s, F) = Delta      \* c.n(exit) = c.n(entry) + D
    [] t[2] = "result"  -> RConst(s, F) = r          \* result = returned value
    [] t[2] = "gbefore" -> EConst(s, F) = EE
    [] OTHER            -> Flag(t, F)

----------------------------------------------------------------------------
(* the statement of C10, at the level of sets *)

Impl == IF ck.decl THEN C ELSE CHOOSE j \in Closure : HasDefault(j)
Enforced == Closure \cup {C}        \* sites whose conditions apply to C.f
ApplicableTests == UNION {FTests(s) \cup GTests(s) : s \in Enforced}

AllPreHold(F) == \A s \in Enforced : \A t \in FTests(s) : t[2] = "pre" => Holds(t, F)
AllPostHold(F) == \A s \in Enforced : \A t \in FTests(s) : t[2] # "pre" => Holds(t, F)
AllNestedHold(F) == \A s \in Enforced : \A t \in GTests(s) : Holds(t, F)
AllHold(F) == AllPreHold(F) /\ AllNestedHold(F) /\ AllPostHold(F)

----------------------------------------------------------------------------
(* evaluation-order semantics: the sequence of observable atoms.            *)
(* Observables are written as pairs to keep TLC away from string building:  *)
(*   event  <<s, "pre.a">>   stands for  emit Ev(s: "<Name(s)>.pre.a")       *)
(*   message <<"pre", s>>    stands for the condition message "pre:<Name(s)>"*)
(*   log    <<"body", s>>    stands for  log("body:<Name(s)>"), likewise     *)
(*          <<"gbody", s>>;  <<"gret", 7>> = "gret:7";  <<"n", 6>> = "n:6"   *)

Emit(s, tag) == [t |-> "emit", v |-> <<s, tag>>, k |-> "", h |-> TRUE]
Log(tag, x) == [t |-> "log", v |-> <<tag, x>>, k |-> "", h |-> TRUE]
Test(t, k, F) == [t |-> "test", v |-> <<t[2], t[1]>>, k |-> k, h |-> Holds(t, F)]

PreBlock(s, isG, F) ==
  IF isG
  THEN IF <<s, "gpre">> \notin GTests(s) THEN <<>>
       ELSE << Emit(s, "gpre.a"), Test(<<s, "gpre">>, "pre", F), Emit(s, "gpre.b") >>
  ELSE IF ~K(s).pre THEN <<>>
       ELSE << Emit(s, "pre.a"), Test(<<s, "pre">>, "pre", F), Emit(s, "pre.b") >>

PostBlock(s, isG, F) ==
  IF isG
  THEN IF <<s, "gpost">> \notin GTests(s) THEN <<>>
       ELSE << Emit(s, "gpost.a"), Test(<<s, "gpost">>, "post", F), Test(<<s, "gbefore">>, "post", F),
               Emit(s, "gpost.b") >>
  ELSE IF ~K(s).post THEN <<>>
       ELSE << Emit(s, "post.a"), Test(<<s, "post">>, "post", F), Test(<<s, "before">>, "post", F),
               Test(<<s, "result">>, "post", F), Emit(s, "post.b") >>

RECURSIVE Pres(_, _, _)
Pres(sites, isG, F) == IF sites = <<>> THEN <<>> ELSE PreBlock(Head(sites), isG, F) \o Pres(Tail(sites), isG, F)
RECURSIVE Posts(_, _, _)
Posts(sites, isG, F) == IF sites = <<>> THEN <<>> ELSE PostBlock(Head(sites), isG, F) \o Posts(Tail(sites), isG, F)

PreOrderOf(lin) == lin \o <<C>>        \* interfaces in depth-first pre-order, then own
PostOrderOf(lin) == <<C>> \o Rev(lin)  \* own, then interfaces in reversed depth-first pre-order

Atoms(F) ==
  LET lin == Lin
      pre == PreOrderOf(lin)
      post == PostOrderOf(lin)
      nested == IF nest /\ Impl = C
                THEN Pres(pre, TRUE, F) \o <<Log("gbody", C)>> \o Posts(post, TRUE, F) \o <<Log("gret", 7)>>
                ELSE <<>>
  IN Pres(pre, FALSE, F) \o <<Log("body", Impl)>> \o nested \o Posts(post, FALSE, F) \o <<Log("n", 5 + Delta)>>

RECURSIVE FF(_, _)
FF(a, i) == IF i > Len(a) THEN 0 ELSE IF ~a[i].h THEN i ELSE FF(a, i + 1)
FirstFail(a) == FF(a, 1)            \* index of the first test that is false, 0 if none

RECURSIVE Pick(_, _)
Pick(a, ty) == IF a = <<>> THEN <<>>
               ELSE IF Head(a).t = ty THEN <<Head(a).v>> \o Pick(Tail(a), ty) ELSE Pick(Tail(a), ty)

Expected(F) ==
  LET a == Atoms(F)
      i == FirstFail(a)
      done == IF i = 0 THEN a ELSE SubSeq(a, 1, i - 1)
  IN [ok |-> i = 0,
      kind |-> IF i = 0 THEN "" ELSE a[i].k,
      msg |-> IF i = 0 THEN <<>> ELSE a[i].v,
      events |-> Pick(done, "emit"),
      logs |-> Pick(done, "log"),
      ret |-> r]

BodyRan(x) == \E i \in 1..Len(x.logs) : x.logs[i] = <<"body", Impl>>

IsPrefix(p, q) == Len(p) <= Len(q) /\ \A i \in 1..Len(p) : p[i] = q[i]

----------------------------------------------------------------------------
(* model sanity, checked by TLC on every configuration; x = Expected(fs) *)

\* the evaluation-order semantics decides exactly the statement of C10
JudgementAgrees(x) == x.ok <=> AllHold(fs)
\* only applicable tests matter; false tests of interfaces C does not conform to do not
OnlyApplicableMatter(x) == x.ok <=> (fs \cap ApplicableTests = {})
\* the bookkeeping of truth values is consistent with the semantics of before / result
TruthBookkeeping == \A t \in DeclaredTests : Holds(t, fs) <=> t \notin fs
\* the body runs iff all pre-conditions held; success implies it ran
BodyIffPre(x) == (BodyRan(x) <=> AllPreHold(fs)) /\ (x.ok => BodyRan(x))
\* a failing pre-condition is reported as such before anything was logged;
\* without a nested call every other failure is a post-condition failure
PhaseOrder(x) == /\ ~AllPreHold(fs) => x.kind = "pre" /\ x.logs = <<>>
                 /\ (AllPreHold(fs) /\ ~x.ok /\ ~nest) => x.kind = "post"
\* turning a false test true never turns success into failure and only extends what was observed
Monotone(x) == \A t \in fs :
                 LET y == Expected(fs \ {t})
                 IN (x.ok => y.ok) /\ IsPrefix(x.events, y.events) /\ IsPrefix(x.logs, y.logs)
\* on success every applicable block emitted both of its events, and nothing else was emitted
EventsComplete(x) ==
  LET blocks == {<<s, "pre">> : s \in {s \in Enforced : K(s).pre}} \cup {<<s, "post">> : s \in {s \in Enforced : K(s).post}}
  IN x.ok => Len(x.events) = 2 * Cardinality(blocks)
                + (IF nest /\ Impl = C THEN 2 * Cardinality({t \in ApplicableTests : t[2] \in {"gpre", "gpost"}}) ELSE 0)

Sanity == ph = 1 =>
  LET x == Expected(fs)
  IN /\ JudgementAgrees(x) /\ OnlyApplicableMatter(x) /\ TruthBookkeeping /\ BodyIffPre(x)
     /\ PhaseOrder(x) /\ Monotone(x) /\ EventsComplete(x) /\ fs \subseteq DeclaredTests

\* the same, one by one (MC_Conditions_debug.cfg), to locate a violated clause
Inv1 == ph = 1 => JudgementAgrees(Expected(fs))
Inv2 == ph = 1 => OnlyApplicableMatter(Expected(fs))
Inv3 == ph = 1 => TruthBookkeeping
Inv4 == ph = 1 => BodyIffPre(Expected(fs))
Inv5 == ph = 1 => PhaseOrder(Expected(fs))
Inv6 == ph = 1 => Monotone(Expected(fs))
Inv7 == ph = 1 => EventsComplete(Expected(fs))

----------------------------------------------------------------------------
(* the table: one row per configuration.  sites[s] =                        *)
(*   <<8*decl + 4*pre + 2*post + body, pt, qt, D, R, gpt, gqt, E>>          *)

B(b) == IF b THEN 1 ELSE 0
KCode(k) == 8 * B(k.decl) + 4 * B(k.pre) + 2 * B(k.post) + B(k.body)

SiteRow(s, F) == << KCode(K(s)), B(Flag(<<s, "pre">>, F)), B(Flag(<<s, "post">>, F)), DConst(s, F), RConst(s, F),
                    B(Flag(<<s, "gpre">>, F)), B(Flag(<<s, "gpost">>, F)), EConst(s, F) >>

RECURSIVE SiteRows(_)
SiteRows(s) == IF s > C THEN <<>> ELSE <<SiteRow(s, fs)>> \o SiteRows(s + 1)
RECURSIVE Rels(_)
Rels(s) == IF s > C THEN <<>> ELSE <<Rel(s)>> \o Rels(s + 1)
RECURSIVE ParRows(_)
ParRows(i) == IF i > NI THEN <<>> ELSE <<par[i]>> \o ParRows(i + 1)
RECURSIVE KRows(_)
KRows(s) == IF s > C THEN <<>> ELSE <<KCode(K(s))>> \o KRows(s + 1)

\* Sanity and EmitRow in one pass (Expected evaluated once per configuration)
RowOf(x) == [ni |-> NI, par |-> ParRows(1), conf |-> conf, sites |-> SiteRows(1),
             d |-> d, r |-> r, nest |-> nest, e |-> EE, via |-> via, ps |-> ps,
             rel |-> Rels(1), lin |-> Lin, impl |-> Impl,
             napp |-> Cardinality(fs \cap ApplicableTests), nfalse |-> Cardinality(fs),
             ninh |-> Cardinality({s \in Closure : K(s).pre \/ K(s).post}),
             exp |-> x]
SaneAndEmit == ph = 1 =>
  LET x == Expected(fs)
  IN /\ JudgementAgrees(x) /\ OnlyApplicableMatter(x) /\ TruthBookkeeping /\ BodyIffPre(x)
     /\ PhaseOrder(x) /\ Monotone(x) /\ EventsComplete(x) /\ fs \subseteq DeclaredTests
     /\ PrintT(ToJson(RowOf(x)))
EmitRow == ph = 1 => PrintT(ToJson(RowOf(Expected(fs))))

ShapeRow == [ni |-> NI, par |-> ParRows(1), conf |-> conf, k |-> KRows(1), wf |-> WellFormed]
EmitShape == ph = 2 => PrintT(ToJson(ShapeRow))

----------------------------------------------------------------------------
(* deterministic sampling: a hash of the configuration and the seed *)

Mix(h, x) == (h * 31 + x + 7) % 1000003
RECURSIVE MixSeq(_, _)
MixSeq(h, sq) == IF sq = <<>> THEN Mix(h, 29) ELSE MixSeq(Mix(h, Head(sq)), Tail(sq))
TCode(t) == LET n == CASE t[2] = "pre" -> 1 [] t[2] = "post" -> 2 [] t[2] = "before" -> 3 [] t[2] = "result" -> 4
                       [] t[2] = "gpre" -> 5 [] t[2] = "gpost" -> 6 [] OTHER -> 7
            IN (t[1] * 8 + n) * (t[1] * 8 + n + 11)
RECURSIVE SumSet(_)
SumSet(S) == IF S = {} THEN 0 ELSE LET x == CHOOSE x \in S : TRUE IN TCode(x) + SumSet(S \ {x})
RECURSIVE MixPar(_, _)
MixPar(h, i) == IF i > NI THEN h ELSE MixPar(Mix(MixSeq(h, par[i]), KCode(ik[i])), i + 1)
ShapeHash == Mix(MixPar(MixSeq(Mix(Seed, 17), conf), 1), KCode(ck))
CfgHash(nv, F) == Mix(Mix(Mix(ShapeHash, B(nv)), SumSet(F)), 3)

RECURSIVE ViaSeqFrom(_)
ViaSeqFrom(i) == IF i > NI THEN <<>> ELSE (IF Exposes(i) THEN <<i>> ELSE <<>>) \o ViaSeqFrom(i + 1)
ViaSeq == <<0>> \o (IF ViaAll THEN ViaSeqFrom(1) ELSE <<>>)

Choices(sq, h) == IF PickByHash THEN {sq[(h % Len(sq)) + 1]} ELSE Range(sq)

----------------------------------------------------------------------------
ShapeDomains ==
  /\ par \in {p \in [Ifaces -> DFSeqs(Ifaces)] : \A i \in Ifaces : \A j \in Range(p[i]) : j < i}
  /\ conf \in DFSeqs(Ifaces)
  /\ ik \in [Ifaces -> IKinds]

Rest0 == dr = <<0, 0>> /\ nest = FALSE /\ e = 0 /\ via = 0 /\ fs = {} /\ ps = "none"

CondBoth == [decl |-> TRUE, pre |-> TRUE, post |-> TRUE, body |-> FALSE]
UnrelatedOK == IF FullUnrelated THEN TRUE ELSE \A i \in Ifaces \ Closure : ik[i] \in {Absent, CondBoth}

Init ==
  /\ ph = 0
  /\ ShapeDomains
  /\ UnrelatedOK
  /\ W1 /\ W2
  /\ ck \in CKinds
  /\ W3
  /\ Rest0

Next ==
  /\ ph = 0 /\ ph' = 1
  /\ UNCHANGED <<par, conf, ik, ck>>
  /\ \E nv \in (IF ck.decl THEN NestSet ELSE {FALSE}) :
       \E F \in SubsetsUpTo(DeclaredTestsN(nv), MaxFalse) :
         LET h == CfgHash(nv, F) IN
         /\ (h % SampleMod) < (CASE Cardinality(F) = 0 -> Keep0 [] Cardinality(F) = 1 -> Keep1 [] OTHER -> Keep2)
         /\ nest' = nv /\ fs' = F
         /\ dr' \in Choices(DRSeq, h \div 3)
         /\ e' \in (IF nv THEN Choices(ESeq, h \div 17) ELSE {0})
         /\ via' \in Choices(ViaSeq, h \div 101)
         /\ ps' \in Choices(PShapes, h \div 7)

Spec == Init /\ [][Next]_vars

\* unfiltered shapes, to compare WellFormed with the checker's verdict
InitShapes == ph = 2 /\ ShapeDomains /\ ck \in CKinds /\ Rest0
SpecShapes == InitShapes /\ [][UNCHANGED vars]_vars
=============================================================================
