INIT Init
NEXT Next
CONSTANTS
  Depth = 1
  Locs <- MCLocs
INVARIANTS DecodeInv InjectiveInv Emit
