---- MODULE AstShapes ----
(* C38 -- the AST algebra of Cadence as a bounded, many-sorted term algebra.

   A *signature* is <<name, sort, template, slots>>:
     name      unique name of the syntactic form (it is the semantic class used in reports)
     sort      the syntactic category the form belongs to
     template  the FULLY PARENTHESISED concrete syntax of the form; ~1..~9 stand for the
               children, $x / $T for a fresh value / type identifier (numbered left to right by the
               renderer so that a swap of operands is visible), $U for a non-ASCII string body
     slots     the sorts of the children
   A *term* is <<name, child_1, ..., child_n>>.  The specification fixes which form may stand in
   which position (Accepts) and enumerates

     spines        every term whose constructors form a single spine of length <= MaxDepth
                   (all other children are the default leaf of their sort): every form in every
                   position of every other form, to nesting depth MaxDepth. A spine is built by the
                   state machine below (Extend appends a constructor and the slot the spine
                   continues in, Close puts a nullary form at its end), so TLC's reachable states
                   are exactly the spine terms and their prefixes;
     Full2         every binary operator over every pair of depth-1 operator terms: all
                   (precedence, associativity, side) combinations, both children non-trivial.

   The property (oracle = identity): for every enumerated program p,
        Ast(Parse(Print(Ast(Parse(Render(p)))))) = Ast(Parse(Render(p)))   modulo positions.
   TLC enumerates the programs and checks the well-formedness / coverage statements below; the
   Go driver does Render/Parse/Print on the real code.

   Sorts:  E expression, T type, A type annotation (T or @T), S statement (a slot of sort S is a
   block holding that statement), F function declaration, Q composite-like declaration,
   D other top-level declaration, M member, P parameter list, K condition, X access modifier,
   G program (sequence of declarations). *)
EXTENDS Naturals, Sequences, FiniteSets, TLC, Json

CONSTANTS Family,        \* "expr": expression spines below `let x = _`;  "form": declaration/statement/type spines;
                         \* "full": the products Full2 / Cond3 / declaration pairs
          MaxDepth,      \* number of constructors on a spine below the root
          FullOps,       \* "reps" (one operator per precedence level as children of Full2) or "all"
          AllAtomsUpTo,  \* spines with at most this many constructors are closed by every nullary form of the sort,
          DefaultFrom,   \* longer ones by the core forms only, spines with at least DefaultFrom constructors by the default leaf
          OpsFrom        \* constructors number OpsFrom.. of a spine are operator forms only (precedence-relevant nestings)

Sig(n, s, t, sl) == <<n, s, t, sl>>

\* ------------------------------------------------------------------ expressions
\* binary operators with their precedence level (higher binds tighter) and associativity,
\* as the language defines them (docs/cadence.ebnf; the parser's binding powers)
BinTable == <<
  <<"||", 2, "L">>, <<"&&", 3, "L">>,
  <<"==", 4, "L">>, <<"!=", 4, "L">>, <<"<", 4, "L">>, <<"<=", 4, "L">>, <<">", 4, "L">>, <<">=", 4, "L">>,
  <<"??", 5, "R">>,
  <<"|", 6, "L">>, <<"^", 7, "L">>, <<"&", 8, "L">>,
  <<"<<", 9, "L">>, <<">>", 9, "L">>,
  <<"+", 10, "L">>, <<"-", 10, "L">>,
  <<"*", 11, "L">>, <<"/", 11, "L">>, <<"%", 11, "L">> >>
BinIdx == 1..Len(BinTable)
BinReps == {"||", "&&", "==", "<", "??", "|", "^", "&", "<<", ">>", "+", "-", "*", "/"}

ESigs ==
  {Sig("bin" \o BinTable[i][1], "E", "(~1 " \o BinTable[i][1] \o " ~2)", <<"E", "E">>) : i \in BinIdx} \cup
  { Sig("cast-as",  "E", "(~1 as ~2)",  <<"E", "A">>),
    Sig("cast-as?", "E", "(~1 as? ~2)", <<"E", "A">>),
    Sig("cast-as!", "E", "(~1 as! ~2)", <<"E", "A">>),
    Sig("neg",   "E", "(-~1)",  <<"E">>),
    Sig("not",   "E", "(!~1)",  <<"E">>),
    Sig("deref", "E", "(*~1)",  <<"E">>),
    Sig("move",  "E", "(<-~1)", <<"E">>),
    Sig("ref",   "E", "(&~1)",  <<"E">>),
    Sig("cond",  "E", "(~1 ? ~2 : ~3)", <<"E", "E", "E">>),
    Sig("force", "E", "(~1!)", <<"E">>),
    Sig("member",    "E", "((~1).$x)",  <<"E">>),
    Sig("optmember", "E", "(~1?.$x)", <<"E">>),
    Sig("index", "E", "(~1[~2])", <<"E", "E">>),
    Sig("call0", "E", "(~1())", <<"E">>),
    Sig("call1", "E", "(~1(~2))", <<"E", "E">>),
    Sig("call2", "E", "(~1(~2, $x: ~3))", <<"E", "E", "E">>),
    Sig("callT", "E", "(~1<~2>(~3))", <<"E", "A", "E">>),
    Sig("create",  "E", "(create $T($x: ~1))", <<"E">>),
    Sig("destroy", "E", "(destroy ~1)", <<"E">>),
    Sig("attach",  "E", "(attach $T(~1) to ~2)", <<"E", "E">>),
    Sig("array1", "E", "[~1]", <<"E">>),
    Sig("array2", "E", "[~1, ~2]", <<"E", "E">>),
    Sig("dict1",  "E", "{~1: ~2}", <<"E", "E">>),
    Sig("dict2",  "E", "{~1: ~2, ~3: ~4}", <<"E", "E", "E", "E">>),
    Sig("fnexpr",  "E", "(fun ($x: ~1): ~2 { ~3 })", <<"A", "A", "S">>),
    Sig("fnexpr0", "E", "(fun () { ~1 })", <<"S">>),
    Sig("vfnexpr", "E", "(view fun (): ~1 { ~2 })", <<"A", "S">>),
    Sig("tmpl1", "E", "\"a\\(~1)b\"", <<"E">>),
    Sig("tmpl2", "E", "\"\\(~1) \\(~2)\"", <<"E", "E">>) }

\* nullary expression forms; the first two are the "core" atoms used at the bottom of deep chains
EAtomsCore == { Sig("id", "E", "$x", <<>>), Sig("int", "E", "1", <<>>) }
EAtomsMore == {
    Sig("hex", "E", "0x1F", <<>>), Sig("bin", "E", "0b101", <<>>), Sig("oct", "E", "0o17", <<>>),
    Sig("int_", "E", "1_000", <<>>), Sig("int0", "E", "007", <<>>), Sig("fix", "E", "1.50", <<>>), Sig("fix0", "E", "0.0", <<>>),
    Sig("nil", "E", "nil", <<>>), Sig("true", "E", "true", <<>>), Sig("false", "E", "false", <<>>),
    Sig("str", "E", "\"s\"", <<>>), Sig("str-empty", "E", "\"\"", <<>>),
    Sig("str-esc0", "E", "\"\\0\"", <<>>), Sig("str-escbs", "E", "\"\\\\\"", <<>>), Sig("str-esct", "E", "\"\\t\"", <<>>),
    Sig("str-escn", "E", "\"\\n\"", <<>>), Sig("str-escr", "E", "\"\\r\"", <<>>), Sig("str-escq", "E", "\"\\\"\"", <<>>),
    Sig("str-escsq", "E", "\"\\'\"", <<>>), Sig("str-escu", "E", "\"\\u{1F600}\"", <<>>), Sig("str-escu2", "E", "\"\\u{7}\\u{e9}\"", <<>>),
    Sig("str-raw", "E", "\"$U\"", <<>>), Sig("str-mix", "E", "\"a\\n$U\\\"b\\\\\"", <<>>),
    Sig("str-tmplid", "E", "\"\\($x)\"", <<>>),
    Sig("path-s", "E", "/storage/$x", <<>>), Sig("path-p", "E", "/public/$x", <<>>),
    Sig("array0", "E", "[]", <<>>), Sig("dict0", "E", "{}", <<>>) }

\* ------------------------------------------------------------------------ types
TSigs == {
    Sig("opt",   "T", "(~1)?",  <<"T">>),
    Sig("varr",  "T", "[~1]",   <<"T">>),
    Sig("carr",  "T", "[~1; 3]", <<"T">>),
    Sig("dictT", "T", "{~1: ~2}", <<"T", "T">>),
    Sig("funT",  "T", "fun(~1): ~2", <<"A", "A">>),
    Sig("funT0", "T", "fun(): ~1", <<"A">>),
    Sig("funT2", "T", "fun(~1, ~2): ~3", <<"A", "A", "A">>),
    Sig("vfunT", "T", "view fun(~1): ~2", <<"A", "A">>),
    Sig("vfunT0", "T", "view fun(): ~1", <<"A">>),
    \* function types WITHOUT a return type annotation (in parentheses: a following `:` must not be read as theirs)
    Sig("funT-noret1", "T", "(fun(~1))", <<"A">>),
    Sig("funT-noret2", "T", "(fun(~1, ~2))", <<"A", "A">>),
    Sig("vfunT-noret1", "T", "(view fun(~1))", <<"A">>),
    Sig("refT",  "T", "&(~1)", <<"T">>),
    Sig("auth1", "T", "auth($T) &(~1)", <<"T">>),
    Sig("authC", "T", "auth($T, $T) &(~1)", <<"T">>),
    Sig("authD", "T", "auth($T | $T) &(~1)", <<"T">>),
    Sig("authM", "T", "auth(mapping $T) &(~1)", <<"T">>),
    Sig("inst1", "T", "$T<~1>", <<"A">>),
    Sig("inst2", "T", "$T<~1, ~2>", <<"A", "A">>),
    Sig("res",   "A", "@~1", <<"T">>) }
TAtomsCore == { Sig("nom", "T", "$T", <<>>) }
TAtomsMore == { Sig("qual", "T", "$T.$T", <<>>), Sig("qual3", "T", "$T.$T.$T", <<>>),
                Sig("funT-noret0", "T", "(fun())", <<>>), Sig("vfunT-noret0", "T", "(view fun())", <<>>),
                Sig("inter1", "T", "{$T}", <<>>), Sig("inter2", "T", "{$T, $T}", <<>>), Sig("inter0", "T", "{}", <<>>) }

\* ------------------------------------------------------------------- statements
SSigs == {
    Sig("exprstmt", "S", "~1", <<"E">>),
    Sig("return1", "S", "return ~1", <<"E">>),
    Sig("if",      "S", "if ~1 { ~2 }", <<"E", "S">>),
    Sig("ifelse",  "S", "if ~1 { ~2 } else { ~3 }", <<"E", "S", "S">>),
    Sig("iflet",   "S", "if let $x = ~1 { ~2 }", <<"E", "S">>),
    Sig("ifvar",   "S", "if var $x <- ~1 { ~2 } else { ~3 }", <<"E", "S", "S">>),
    Sig("ifletT",  "S", "if let $x: ~1 = ~2 { ~3 }", <<"A", "E", "S">>),
    Sig("while",   "S", "while ~1 { ~2 }", <<"E", "S">>),
    Sig("for",     "S", "for $x in ~1 { ~2 }", <<"E", "S">>),
    Sig("forindex","S", "for $x, $x in ~1 { ~2 }", <<"E", "S">>),
    Sig("switch",  "S", "switch ~1 { case ~2: ~3\ndefault: ~4 }", <<"E", "E", "S", "S">>),
    Sig("switch2", "S", "switch ~1 { case ~2: ~3\ncase ~4: ~5 }", <<"E", "E", "S", "E", "S">>),
    Sig("emit",    "S", "emit $T($x: ~1)", <<"E">>),
    Sig("let",     "S", "let $x = ~1", <<"E">>),
    Sig("var",     "S", "var $x = ~1", <<"E">>),
    Sig("letmove", "S", "let $x <- ~1", <<"E">>),
    Sig("letforce","S", "let $x <-! ~1", <<"E">>),
    Sig("letT",    "S", "let $x: ~1 = ~2", <<"A", "E">>),
    Sig("let2",    "S", "let $x <- ~1 <- ~2", <<"E", "E">>),
    Sig("assign",  "S", "~1 = ~2", <<"E", "E">>),
    Sig("assignmove",  "S", "~1 <- ~2", <<"E", "E">>),
    Sig("assignforce", "S", "~1 <-! ~2", <<"E", "E">>),
    Sig("swap",    "S", "~1 <-> ~2", <<"E", "E">>),
    Sig("remove",  "S", "remove $T from ~1", <<"E">>),
    Sig("guard",   "S", "guard ~1 else { ~2 }", <<"E", "S">>),
    Sig("guardlet","S", "guard let $x = ~1 else { ~2 }", <<"E", "S">>),
    Sig("seq;",    "S", "~1; ~2", <<"S", "S">>),
    Sig("seqnl",   "S", "~1\n~2", <<"S", "S">>) }
SAtoms == { Sig("idstmt", "S", "$x", <<>>), Sig("nostmt", "S", "", <<>>), Sig("return0", "S", "return", <<>>),
            Sig("break", "S", "break", <<>>), Sig("continue", "S", "continue", <<>>),
            Sig("emit0", "S", "emit $T()", <<>>), Sig("switch0", "S", "switch $x { }", <<>>) }

\* ----------------------------------------- parameters, conditions, access modifiers
PSigs == { Sig("p1", "P", "$x: ~1", <<"A">>), Sig("plabel", "P", "$x $x: ~1", <<"A">>), Sig("p_", "P", "_ $x: ~1", <<"A">>),
           Sig("p2", "P", "$x: ~1, $x $x: ~2", <<"A", "A">>) }
PAtoms == { Sig("p0", "P", "", <<>>) }
KSigs == { Sig("ktest", "K", "~1", <<"E">>), Sig("kmsg", "K", "~1: ~2", <<"E", "E">>),
           Sig("kemit", "K", "emit $T($x: ~1)", <<"E">>), Sig("k2", "K", "~1\n~2", <<"K", "K">>), Sig("k2;", "K", "~1; ~2", <<"K", "K">>) }
KAtoms == { Sig("ktrue", "K", "true", <<>>), Sig("kemit0", "K", "emit $T()", <<>>) }
XAtoms == { Sig("acc-all", "X", "access(all)", <<>>), Sig("acc-none", "X", "", <<>>), Sig("acc-self", "X", "access(self)", <<>>),
            Sig("acc-contract", "X", "access(contract)", <<>>), Sig("acc-account", "X", "access(account)", <<>>),
            Sig("acc-ent", "X", "access($T)", <<>>), Sig("acc-conj", "X", "access($T, $T)", <<>>),
            Sig("acc-disj", "X", "access($T | $T)", <<>>), Sig("acc-map", "X", "access(mapping $T)", <<>>) }

\* ----------------------------------------------------------------- declarations
FSigs == {   \* function declarations: top level, member, local
    Sig("fun",      "F", "~1 fun $x(~2): ~3 { ~4 }", <<"X", "P", "A", "S">>),
    Sig("funvoid",  "F", "~1 fun $x(~2) { ~3 }", <<"X", "P", "S">>),
    Sig("viewfun",  "F", "~1 view fun $x(): ~2 { ~3 }", <<"X", "A", "S">>),
    Sig("funpre",   "F", "~1 fun $x() { pre { ~2 } ~3 }", <<"X", "K", "S">>),
    Sig("funpost",  "F", "~1 fun $x(): ~2 { post { ~3 } ~4 }", <<"X", "A", "K", "S">>),
    Sig("funprepost", "F", "~1 fun $x() { pre { ~2 } post { ~3 } ~4 }", <<"X", "K", "K", "S">>) }
QSigs == {   \* composite-like declarations: top level and nested
    Sig("struct",   "Q", "~1 struct $T { ~2 }", <<"X", "M">>),
    Sig("resource", "Q", "~1 resource $T { ~2 }", <<"X", "M">>),
    Sig("contract", "Q", "~1 contract $T { ~2 }", <<"X", "M">>),
    Sig("structC",  "Q", "~1 struct $T: $T { ~2 }", <<"X", "M">>),
    Sig("resourceC2", "Q", "~1 resource $T: $T, $T { ~2 }", <<"X", "M">>),
    Sig("enum",     "Q", "~1 enum $T: $T { ~2 }", <<"X", "N">>),
    Sig("event",    "Q", "~1 event $T(~2)", <<"X", "P">>),
    Sig("attachment", "Q", "~1 attachment $T for $T { ~2 }", <<"X", "M">>),
    Sig("attachmentQ", "Q", "~1 attachment $T for $T.$T { ~2 }", <<"X", "M">>),
    Sig("attachmentC", "Q", "~1 attachment $T for $T: $T { ~2 }", <<"X", "M">>),
    Sig("structI",  "Q", "~1 struct interface $T { ~2 }", <<"X", "I">>),
    Sig("resourceI","Q", "~1 resource interface $T: $T { ~2 }", <<"X", "I">>),
    Sig("contractI","Q", "~1 contract interface $T { ~2 }", <<"X", "I">>),
    Sig("entitlement", "Q", "~1 entitlement $T", <<"X">>),
    Sig("mapping",  "Q", "~1 entitlement mapping $T { $T -> $T }", <<"X">>),
    Sig("mapping2", "Q", "~1 entitlement mapping $T { include $T\n$T -> $T\n$T -> $T }", <<"X">>),
    Sig("mapping0", "Q", "~1 entitlement mapping $T { }", <<"X">>) }
MSigs == {
    Sig("fieldlet", "M", "~1 let $x: ~2", <<"X", "A">>),
    Sig("fieldvar", "M", "~1 var $x: ~2", <<"X", "A">>),
    Sig("init",     "M", "init(~1) { ~2 }", <<"P", "S">>),
    Sig("viewinit", "M", "~1 view init() { ~2 }", <<"X", "S">>),
    Sig("initpre",  "M", "init() { pre { ~1 } ~2 }", <<"K", "S">>),
    Sig("mseq",     "M", "~1\n~2", <<"M", "M">>),
    Sig("mseq;",    "M", "~1; ~2", <<"M", "M">>) }
MAtoms == { Sig("nomember", "M", "", <<>>) }
ISigs == {   \* forms that occur only in interfaces (functions without a body / with conditions only)
    Sig("ifun",     "I", "~1 fun $x(~2): ~3", <<"X", "P", "A">>),
    Sig("ifunpre",  "I", "~1 fun $x() { pre { ~2 } }", <<"X", "K">>),
    Sig("ifunpost", "I", "~1 view fun $x(): ~2 { post { ~3 } }", <<"X", "A", "K">>),
    Sig("iseq",     "I", "~1\n~2", <<"I", "I">>) }
NSigs == {   \* enum bodies
    Sig("enumcase", "N", "~1 case $x", <<"X">>),
    Sig("nseq",     "N", "~1\n~2", <<"N", "N">>), Sig("nseq;", "N", "~1; ~2", <<"N", "N">>) }
NAtoms == { Sig("nocase", "N", "", <<>>), Sig("case0", "N", "case $x", <<>>) }
DSigs == {
    Sig("toplet",   "D", "~1 let $x = ~2", <<"X", "E">>),
    Sig("topvar",   "D", "~1 var $x: ~2 = ~3", <<"X", "A", "E">>),
    Sig("topmove",  "D", "~1 let $x <- ~2", <<"X", "E">>),
    Sig("tx-prepare", "D", "transaction { prepare(~1) { ~2 } }", <<"P", "S">>),
    Sig("tx-execute", "D", "transaction { execute { ~1 } }", <<"S">>),
    Sig("tx-params",  "D", "transaction(~1) { }", <<"P">>),
    Sig("tx-full",  "D", "transaction($x: $T) { let $x: ~1\nvar $x: $T\nprepare($x: &$T) { ~2 } pre { ~3 } execute { ~4 } post { ~5 } }",
                         <<"A", "S", "K", "S", "K">>),
    Sig("tx-prepost", "D", "transaction { prepare() { } pre { ~1 } post { ~2 } }", <<"K", "K">>),
    Sig("pragma",   "D", "#~1", <<"E">>) }
DAtoms == { Sig("tx0", "D", "transaction { }", <<>>),
            Sig("import-addr", "D", "import $T from 0x1", <<>>), Sig("import-str", "D", "import $T from \"s\"", <<>>),
            Sig("import-id", "D", "import $T from $T", <<>>), Sig("import-bare", "D", "import $T", <<>>),
            Sig("import-2", "D", "import $T, $T from 0x1", <<>>), Sig("import-as", "D", "import $T as $T from 0x1", <<>>),
            Sig("import-mix", "D", "import $T as $T, $T from 0x01", <<>>), Sig("import-strloc", "D", "import \"s\"", <<>>) }
GSigs == { Sig("prog2", "G", "~1\n~2", <<"D", "D">>), Sig("prog2;", "G", "~1; ~2", <<"D", "D">>), Sig("prog1", "G", "~1", <<"D">>),
           Sig("rootE", "G", "let $x = ~1", <<"E">>) }
Top == Sig("top", "", "", <<"G">>)

AllSigs == ESigs \cup EAtomsCore \cup EAtomsMore \cup TSigs \cup TAtomsCore \cup TAtomsMore \cup SSigs \cup SAtoms
           \cup PSigs \cup PAtoms \cup KSigs \cup KAtoms \cup XAtoms \cup FSigs \cup QSigs \cup MSigs \cup MAtoms
           \cup DSigs \cup DAtoms \cup GSigs \cup ISigs \cup NSigs \cup NAtoms

\* which sorts of forms may stand in a slot of a given sort
Accepts(slot) == CASE slot = "A" -> {"T", "A"}
                   [] slot = "S" -> {"S", "F"}
                   [] slot = "M" -> {"M", "F", "Q"}
                   [] slot = "D" -> {"D", "F", "Q"}
                   [] slot = "I" -> {"I", "M", "F", "Q"}
                   [] OTHER -> {slot}

\* the default leaf of each sort (fills every slot that is not on the spine)
Default(slot) == CASE slot = "E" -> <<"id">>      [] slot = "T" -> <<"nom">>     [] slot = "A" -> <<"nom">>
                   [] slot = "S" -> <<"idstmt">>  [] slot = "P" -> <<"p0">>      [] slot = "K" -> <<"ktrue">>
                   [] slot = "X" -> <<"acc-all">> [] slot = "M" -> <<"nomember">> [] slot = "D" -> <<"tx0">>
                   [] slot = "I" -> <<"nomember">> [] slot = "N" -> <<"case0">>

Nullary(s) == Len(s[4]) = 0
Core == EAtomsCore \cup TAtomsCore \cup {s \in AllSigs : Nullary(s) /\ s[2] \notin {"E", "T"}}
SigByName == [n \in {s[1] : s \in AllSigs} |-> CHOOSE s \in AllSigs : s[1] = n]
NamesUnique == \A s1, s2 \in AllSigs : s1[1] = s2[1] => s1 = s2
SlotSorts == {"E", "T", "A", "S", "M", "I", "N", "D", "P", "K", "X", "G"}
\* per slot sort: the constructors (with children) and the nullary forms that may stand there
Ctors == TLCEval([srt \in SlotSorts |-> {<<c[1], i>> : c \in {a \in AllSigs : a[2] \in Accepts(srt) /\ ~Nullary(a)}, i \in 1..9} ])
CtorSlots == TLCEval([srt \in SlotSorts |-> {p \in Ctors[srt] : p[2] <= Len(SigByName[p[1]][4])}])
AtomsAll  == TLCEval([srt \in SlotSorts |-> {a[1] : a \in {b \in AllSigs : b[2] \in Accepts(srt) /\ Nullary(b)}}])
AtomsCore == TLCEval([srt \in SlotSorts |-> {a[1] : a \in {b \in AllSigs : b[2] \in Accepts(srt) /\ Nullary(b) /\ b \in Core}}])
SlotSortOf == TLCEval([p \in UNION {CtorSlots[srt] : srt \in SlotSorts} |-> SigByName[p[1]][4][p[2]]])

Apply(s, i, u) == <<s[1]>> \o [j \in 1..Len(s[4]) |-> IF j = i THEN u ELSE Default(s[4][j])]

\* ---- products: both children non-trivial
OpChildren ==
  LET ops == {s \in ESigs : s[1] \in ({"bin" \o o : o \in IF FullOps = "all" THEN {BinTable[i][1] : i \in BinIdx} ELSE BinReps}
                                        \cup {"cast-as", "cast-as?", "neg", "not", "move", "ref", "cond", "force", "optmember", "index", "call1", "deref"})}
  IN {Apply(s, 0, <<"id">>) : s \in ops}
Full2 == {<<"bin" \o BinTable[i][1], x, y>> : i \in BinIdx, x \in OpChildren, y \in OpChildren}
Cond3 == {<<"cond", x, y, z>> : x \in OpChildren, y \in {c \in OpChildren : c[1] \in {"cond", "bin??", "bin||", "cast-as", "neg"}},
                               z \in {c \in OpChildren : c[1] \in {"cond", "bin??", "bin||", "cast-as", "move"}}}
DeclForms == {Apply(c, 0, <<>>) : c \in {a \in AllSigs : a[2] \in Accepts("D")}}
\* (`import X` without `from` is only used as the last declaration: after the imported identifier the parser
\* expects `from`, `,` or the end of the declaration list and rejects `;`, `#`, ...)
FullTerms == {<<"rootE", e>> : e \in Full2 \cup Cond3} \cup
             {<<g, x, y>> : g \in {"prog2", "prog2;"}, x \in DeclForms \ {<<"import-bare">>}, y \in DeclForms}

\* every ordered pair of binary-operator precedence levels occurs with the inner operator on either side
Levels == {BinTable[i][2] : i \in BinIdx}
LevelOf == TLCEval([n \in {"bin" \o BinTable[i][1] : i \in BinIdx} |-> BinTable[CHOOSE i \in BinIdx : "bin" \o BinTable[i][1] = n][2]])
CoveredPairs == UNION {{<<LevelOf[u[1]], side, LevelOf[u[side][1]]>> : side \in {k \in {2, 3} : u[k][1] \in DOMAIN LevelOf}} : u \in Full2}
ASSUME NamesUnique
ASSUME CoveredPairs = Levels \X {2, 3} \X Levels

\* ------------------------------------------------------------- the enumerator
VARIABLES sp,     \* the spine: sequence of <<form, slot>> -- the form and the child the spine continues in
          leaf,   \* the nullary form closing the spine ("" while the spine is open)
          full    \* a complete term of the product families (<<>> otherwise)
vars == <<sp, leaf, full>>
Root == IF Family = "expr" THEN <<<<"rootE", 1>>>> ELSE <<>>
RootLen == Len(Root)
CurSort == IF Len(sp) = 0 THEN "G" ELSE SlotSortOf[sp[Len(sp)]]
Init == IF Family = "full" THEN sp = <<>> /\ leaf = "" /\ full \in FullTerms
        ELSE sp = Root /\ leaf = "" /\ full = <<>>
\* language restriction: string templates do not nest (the lexer has one interpolation mode; the parser
\* rejects a template inside an interpolation, so such programs are outside the property's quantifier)
TemplateForms == {"tmpl1", "tmpl2", "str-tmplid"}
InTemplate == \E k \in 1..Len(sp) : sp[k][1] \in TemplateForms
OpForms == {"bin" \o o : o \in IF FullOps = "all" THEN {BinTable[i][1] : i \in BinIdx} ELSE BinReps} \cup
           {"cast-as", "cast-as?", "cast-as!", "neg", "not", "deref", "move", "ref", "cond", "force", "member", "optmember", "index",
            "call1", "destroy", "attach", "opt", "varr", "funT", "refT", "auth1", "inst1"}
Extend == /\ Family # "full" /\ leaf = "" /\ Len(sp) - RootLen < MaxDepth
          /\ \E p \in CtorSlots[CurSort] : /\ p[1] # "rootE" /\ (InTemplate => p[1] \notin TemplateForms)
                                           /\ (Len(sp) - RootLen + 1 >= OpsFrom => p[1] \in OpForms)
                                           /\ sp' = Append(sp, p)
          /\ UNCHANGED <<leaf, full>>
\* short spines are closed by every nullary form, longer ones only by the core forms (identifier, integer, nominal type, ...)
Close  == /\ Family # "full" /\ leaf = "" /\ Len(sp) > 0
          /\ \E a \in (IF Len(sp) - RootLen <= AllAtomsUpTo THEN AtomsAll[CurSort]
                      ELSE IF Len(sp) - RootLen >= DefaultFrom /\ CurSort # "G" THEN {Default(CurSort)[1]} \cap AtomsCore[CurSort]
                      ELSE AtomsCore[CurSort]) :
                /\ InTemplate => a \notin TemplateForms
                /\ ~(a = "import-bare" /\ sp[Len(sp)][1] \in {"prog2", "prog2;"} /\ sp[Len(sp)][2] = 1)
                /\ leaf' = a
          /\ UNCHANGED <<sp, full>>
Next == Extend \/ Close
Spec == Init /\ [][Next]_vars

SpineOK == /\ \A k \in 1..Len(sp) : sp[k] \in DOMAIN SlotSortOf
           /\ \A k \in 2..Len(sp) : SigByName[sp[k][1]][2] \in Accepts(SlotSortOf[sp[k - 1]])
           /\ leaf # "" => SigByName[leaf][2] \in Accepts(CurSort) /\ Nullary(SigByName[leaf])
RECURSIVE WellSorted(_, _)
WellSorted(u, slot) ==
  /\ u[1] \in DOMAIN SigByName
  /\ LET s == SigByName[u[1]] IN
     /\ s[2] \in Accepts(slot)
     /\ Len(u) = 1 + Len(s[4])
     /\ \A i \in 1..Len(s[4]) : WellSorted(u[i + 1], s[4][i])
FullOK == full # <<>> => WellSorted(full, "G")
Emit == /\ leaf # "" => PrintT(ToJson([sp |-> sp, leaf |-> leaf]))
        /\ full # <<>> => PrintT(ToJson([full |-> full]))
SigTable == PrintT(ToJson([sigs |-> AllSigs, defaults |-> [srt \in SlotSorts \ {"G"} |-> Default(srt)],
                             accepts |-> [srt \in SlotSorts |-> Accepts(srt)]]))
ASSUME SigTable
====
