---- MODULE MC_Entitlements_side ----
\* wrapper without assumptions/tables: used for the deviation configurations
\* (DevImageDropsEmpty refutes ImageSound; DevOnlyCause) 
EXTENDS Entitlements
====
