------------------------------- MODULE TypeId -------------------------------
(***************************************************************************)
(* C45 -- the identity of a type as a string.                              *)
(*                                                                         *)
(* Id(l, t) is the type ID of type term t (Types.tla) when the nominal     *)
(* environment is declared in a program at location l.  It is a function   *)
(* of the *term*: members of sets (entitlements of an authorization,       *)
(* interfaces of an intersection) appear sorted by their own IDs, so no    *)
(* representation may let the order of construction leak into the ID.      *)
(* Decode is defined on the ID *string* (split at the dots the location    *)
(* kind prescribes) and TLC checks Decode(Id) = what the ID was built from *)
(* for every location of the pool.                                         *)
(*                                                                         *)
(* Location kinds and their ID prefixes:                                   *)
(*   address      A.<16 hex digits>.<qualified identifier>  (the location  *)
(*                also names the contract = first part of the identifier)  *)
(*   string       S.<string>.<q>        identifier   I.<identifier>.<q>    *)
(*   transaction  t.<64 hex digits>.<q> script       s.<64 hex digits>.<q> *)
(*   REPL         REPL.<q>                                                 *)
(* In an address location the environment is nested in the contract the    *)
(* location names; elsewhere it is declared at top level, next to a        *)
(* contract C0 with a nested struct N (qualified identifier "C0.N").       *)
(***************************************************************************)
EXTENDS Types, TLC, Json, SequencesExt

CONSTANT Locs        \* sequence of locations (records), supplied per run (seeded)

HexDigit(n) == SubSeq("0123456789abcdef", n + 1, n + 1)
HexByte(b)  == HexDigit(b \div 16) \o HexDigit(b % 16)
RECURSIVE Hex(_)
Hex(bs) == IF bs = << >> THEN "" ELSE HexByte(Head(bs)) \o Hex(Tail(bs))

Contract == "C0"
LocPrefix(l) ==
  CASE l.k = "A" -> "A." \o Hex(l.addr)
    [] l.k = "S" -> "S." \o l.id
    [] l.k = "I" -> "I." \o l.id
    [] l.k = "t" -> "t." \o Hex(l.h)
    [] l.k = "s" -> "s." \o Hex(l.h)
    [] l.k = "REPL" -> "REPL"
\* qualified identifier of nominal type n of the environment declared at l
QId(l, n) == IF l.k = "A" \/ n = "N" THEN Contract \o "." \o n ELSE n
NomId(l, n) == LocPrefix(l) \o "." \o QId(l, n)

\* set members are ordered by their IDs; within one location that is the order of the names
NameOrder == <<"E1", "E2", "E3", "I1", "I2", "I3", "I4", "RI", "RI2", "RI3">>
Pos(n) == CHOOSE i \in 1..Len(NameOrder) : NameOrder[i] = n
SortedNames(s) == SortSeq(SetToSeq(s), LAMBDA a, b : Pos(a) < Pos(b))
RECURSIVE Join(_, _)
Join(seq, sep) == IF seq = << >> THEN "" ELSE IF Len(seq) = 1 THEN seq[1] ELSE seq[1] \o sep \o Join(Tail(seq), sep)

AuthId(l, a) ==
  LET ids == [i \in 1..Cardinality(a.s) |-> NomId(l, SortedNames(a.s)[i])]
  IN CASE a.k = "un"   -> ""
       [] a.k = "conj" -> "auth(" \o Join(ids, ",") \o ")"
       [] a.k = "disj" -> "auth(" \o Join(ids, "|") \o ")"

RECURSIVE Id(_, _)
Id(l, t) ==
  CASE t.k = "prim"  -> t.n
    [] t.k = "nom"   -> NomId(l, t.n)
    [] t.k = "opt"   -> "(" \o Id(l, t.t) \o ")?"
    [] t.k = "varr"  -> "[" \o Id(l, t.t) \o "]"
    [] t.k = "carr"  -> "[" \o Id(l, t.t) \o ";" \o ToString(t.n) \o "]"
    [] t.k = "dict"  -> "{" \o Id(l, t.kt) \o ":" \o Id(l, t.vt) \o "}"
    [] t.k = "ref"   -> AuthId(l, t.a) \o "&" \o Id(l, t.t)
    [] t.k = "inter" -> LET ns == SortedNames(t.s)
                        IN "{" \o Join([i \in 1..Len(ns) |-> NomId(l, ns[i])], ",") \o "}"
    [] t.k = "cap"   -> "Capability<" \o Id(l, t.t) \o ">"
    [] t.k = "capu"  -> "Capability"
    [] t.k = "range" -> "InclusiveRange<" \o Id(l, t.t) \o ">"
    [] t.k = "fun"   -> (IF t.pure THEN "view " ELSE "") \o "fun"
                        \o (IF t.tp = "none" THEN "" ELSE "<T:" \o t.tp \o ">")
                        \o "(" \o Join([i \in 1..Len(t.ps) |-> Id(l, t.ps[i])], ",") \o "):" \o Id(l, t.r)

\* ------------------------------------------------------------------ decoding
RECURSIVE DotAt(_, _)
DotAt(s, i) == IF i > Len(s) THEN 0 ELSE IF SubSeq(s, i, i) = "." THEN i ELSE DotAt(s, i + 1)   \* first dot at or after i
\* split s at its first n dots: <<piece1, ..., piece_n, rest>>
RECURSIVE SplitN(_, _)
SplitN(s, n) == LET d == DotAt(s, 1)
                IN IF n = 0 \/ d = 0 THEN <<s>>
                   ELSE <<SubSeq(s, 1, d - 1)>> \o SplitN(SubSeq(s, d + 1, Len(s)), n - 1)
\* Decode(id) = [prefix, location part, contract name (address locations), qualified identifier]
Decode(id) ==
  LET p == SplitN(id, 1)[1]
  IN CASE p = "REPL" -> LET x == SplitN(id, 1) IN [k |-> "REPL", loc |-> "", name |-> "", qid |-> x[2]]
       [] p = "A"    -> LET x == SplitN(id, 2) IN [k |-> "A", loc |-> x[2], name |-> SplitN(x[3], 1)[1], qid |-> x[3]]
       [] OTHER      -> LET x == SplitN(id, 2) IN [k |-> p, loc |-> x[2], name |-> "", qid |-> x[3]]
LocPart(l) == CASE l.k = "A" -> Hex(l.addr) [] l.k \in {"S", "I"} -> l.id [] l.k \in {"t", "s"} -> Hex(l.h) [] OTHER -> ""
Built(l, n) == [k |-> l.k, loc |-> LocPart(l), name |-> IF l.k = "A" THEN Contract ELSE "", qid |-> QId(l, n)]

NomNames == Nominals \cup Ents \cup {"N"}
DecodeOK(l) == \A n \in NomNames : Decode(NomId(l, n)) = Built(l, n)
\* IDs separate types: within one location, different terms have different IDs unless they differ
\* only by... nothing (terms are canonical)
Injective(l, U) == \A t, u \in U : Id(l, t) = Id(l, u) => t = u

\* -------------------------------------------------- state: one location at a time
VARIABLES li, ids
TUniverse == Universe \cup {Nom("N"), Opt(Nom("N")), Ref(EB!Un, Nom("N"))}
UL == SetToSeq(TUniverse)
Init == /\ li \in 1..Len(Locs)
        /\ ids = [i \in 1..Cardinality(TUniverse) |-> Id(Locs[li], UL[i])]
Next == UNCHANGED <<li, ids>>
DecodeInv == DecodeOK(Locs[li])
InjectiveInv == \A i, j \in 1..Len(ids) : ids[i] = ids[j] => i = j
Row == [kind |-> "ids", loc |-> Locs[li], prefix |-> LocPrefix(Locs[li]), types |-> UL, ids |-> ids,
        nominal |-> [n \in NomNames |-> [id |-> NomId(Locs[li], n), decode |-> Built(Locs[li], n)]]]
Emit == PrintT(ToJson(Row))
=============================================================================
