SPECIFICATION Spec
CONSTANTS
  Tier = "thorough"
INVARIANTS Judge LawsHold
