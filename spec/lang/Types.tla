------------------------------- MODULE Types -------------------------------
(***************************************************************************)
(* A bounded universe of Cadence type terms (C08, C45, C09).               *)
(*                                                                         *)
(* Type terms are records tagged by k:                                     *)
(*   prim  n          built-in simple types incl. the numeric tower        *)
(*   nom   n          nominal types of the environment below               *)
(*   opt   t          T?                                                   *)
(*   varr  t          [T]            carr t n     [T; n]                   *)
(*   dict  kt vt      {K: V}                                               *)
(*   ref   a t        auth(a) &T     (a: authorization, EntitlementsBase)  *)
(*   inter s          {I1, I2}       (s: non-empty set of interface names) *)
(*   cap   t          Capability<T>  capu   Capability                     *)
(*   fun   pure tp ps r   fun<tp>(ps): r, view if pure; tp = bound of the  *)
(*                    single type parameter or "none"                      *)
(*   range t          InclusiveRange<T>                                    *)
(* `Any` is the top of the relation but cannot be written in a program, so *)
(* it never occurs under a constructor.  The internal bound `Storable` and *)
(* the invalid type are outside the universe (as property C08 says).       *)
(***************************************************************************)
EXTENDS Naturals, Sequences, FiniteSets

CONSTANT Depth          \* 1: constructors over representatives; 2: one more level

\* ----------------------------------------------------------- nominal environment
\*   struct interface I1 {}   struct interface I2 {}   struct interface I3: I1 {}   struct interface I4: I3 {}
\*   resource interface RI {}   resource interface RI2: RI {}   resource interface RI3: RI2 {}
\*   struct S: I1, I3 {}   struct S2: I2 {}   struct S3: I4 {}
\*   resource R: RI {}   resource R2 {}   resource R3: RI3 {}
\*   enum En: UInt8 {}   attachment At for R {}   attachment As for S {}
\* (inheritance chains of depth 3 in both kinds: what an interface inherits through a *grand*-parent
\* must be visible in every intersection that names it)
Structs   == {"S", "S2", "S3"}
Resources == {"R", "R2", "R3"}
SIfaces   == {"I1", "I2", "I3", "I4"}
RIfaces   == {"RI", "RI2", "RI3"}
Enums     == {"En"}
RAttachments == {"At"}
SAttachments == {"As"}
Ifaces    == SIfaces \cup RIfaces
Nominals  == Structs \cup Resources \cup Ifaces \cup Enums \cup RAttachments \cup SAttachments
Conf(n) == CASE n = "S" -> {"I1", "I3"} [] n = "S2" -> {"I2"} [] n = "S3" -> {"I4"} [] n = "R" -> {"RI"} [] n = "R3" -> {"RI3"}
             [] n = "I3" -> {"I1"} [] n = "I4" -> {"I3"} [] n = "RI2" -> {"RI"} [] n = "RI3" -> {"RI2"} [] OTHER -> {}
Ents == {"E1", "E2", "E3"}
EB == INSTANCE EntitlementsBase WITH E <- Ents

\* ------------------------------------------------------------------- constructors
P(n)         == [k |-> "prim", n |-> n]
Nom(n)       == [k |-> "nom", n |-> n]
Opt(t)       == [k |-> "opt", t |-> t]
VArr(t)      == [k |-> "varr", t |-> t]
CArr(t, n)   == [k |-> "carr", t |-> t, n |-> n]
Dict(kt, vt) == [k |-> "dict", kt |-> kt, vt |-> vt]
Ref(a, t)    == [k |-> "ref", a |-> a, t |-> t]
Inter(s)     == [k |-> "inter", s |-> s]
Cap(t)       == [k |-> "cap", t |-> t]
CapU         == [k |-> "capu"]
Fun(pure, tp, ps, r) == [k |-> "fun", pure |-> pure, tp |-> tp, ps |-> ps, r |-> r]
RangeT(t)    == [k |-> "range", t |-> t]
Conj(s) == [k |-> "conj", s |-> s]
Disj(s) == [k |-> "disj", s |-> s]
\* authorizations a program can write on a reference over Ents
AuthSet == {EB!Un, Conj({"E1"}), Conj({"E2"}), Conj({"E1", "E2"}), Disj({"E1", "E2"})}

\* -------------------------------------------------------------------- primitives
SignedInts   == {"Int", "Int8", "Int16", "Int32", "Int64", "Int128", "Int256"}
FixedUnsigned == {"UInt8", "UInt16", "UInt32", "UInt64", "UInt128", "UInt256",
                  "Word8", "Word16", "Word32", "Word64", "Word128", "Word256"}
SignedFix    == {"Fix64", "Fix128"}
UnsignedFix  == {"UFix64", "UFix128"}
NumAbstract  == {"Number", "SignedNumber", "Integer", "SignedInteger", "FixedSizeUnsignedInteger",
                 "FixedPoint", "SignedFixedPoint"}
NumConcrete  == SignedInts \cup FixedUnsigned \cup {"UInt"} \cup SignedFix \cup UnsignedFix
PathTs       == {"Path", "StoragePath", "CapabilityPath", "PublicPath", "PrivatePath"}
OtherPrims   == {"Never", "Any", "AnyStruct", "AnyResource", "AnyStructAttachment", "AnyResourceAttachment",
                 "HashableStruct", "String", "Character", "Bool", "Address", "Void", "Type"}
Prims        == NumAbstract \cup NumConcrete \cup PathTs \cup OtherPrims

\* direct supertype edges of the numeric tower and of the path types
PrimUp(n) ==
  CASE n \in SignedInts    -> {"SignedInteger"}
    [] n \in FixedUnsigned -> {"FixedSizeUnsignedInteger"}
    [] n = "UInt"          -> {"Integer"}
    [] n \in SignedFix     -> {"SignedFixedPoint"}
    [] n \in UnsignedFix   -> {"FixedPoint"}
    [] n = "SignedInteger" -> {"Integer", "SignedNumber"}
    [] n = "FixedSizeUnsignedInteger" -> {"Integer"}
    [] n = "Integer"       -> {"Number"}
    [] n = "SignedFixedPoint" -> {"FixedPoint", "SignedNumber"}
    [] n = "FixedPoint"    -> {"Number"}
    [] n = "SignedNumber"  -> {"Number"}
    [] n \in {"PublicPath", "PrivatePath"}      -> {"CapabilityPath"}
    [] n \in {"StoragePath", "CapabilityPath"}  -> {"Path"}
    [] OTHER -> {}
RECURSIVE PrimAnc(_)
PrimAnc(n) == {n} \cup UNION {PrimAnc(x) : x \in PrimUp(n)}

RECURSIVE ConfStar(_)
ConfStar(n) == Conf(n) \cup UNION {ConfStar(x) : x \in Conf(n)}    \* all interfaces n conforms to / inherits
IfaceClosure(s) == s \cup UNION {ConfStar(i) : i \in s}

\* ------------------------------------------------------------------ the universe
Base == {P(n) : n \in Prims} \cup {Nom(n) : n \in Nominals}
Inters == {Inter({"I1"}), Inter({"I2"}), Inter({"I3"}), Inter({"I4"}), Inter({"I1", "I2"}), Inter({"I1", "I3"}), Inter({"I2", "I4"}),
           Inter({"RI"}), Inter({"RI2"}), Inter({"RI3"})}
\* one representative per equivalence class of the rules
Reps == {P("Int"), P("Int8"), P("UFix64"), P("Integer"), P("String"), P("Never"), P("AnyStruct"), P("AnyResource"),
         P("StoragePath"), Nom("S"), Nom("S2"), Nom("S3"), Nom("R"), Nom("R3"), Nom("I1"), Nom("I3"), Nom("RI"), Nom("En"),
         Inter({"I1"}), Inter({"I4"}), Inter({"I1", "I2"}), Inter({"RI"}), Inter({"RI3"})}
RefTargets == {P("Int"), P("Integer"), P("AnyStruct"), P("AnyResource"), Nom("S"), Nom("R"), Nom("I1"), Nom("I3"),
               Inter({"I1"}), Inter({"I3"}), Inter({"I4"}), Inter({"I1", "I2"}), Inter({"RI"}), Inter({"RI2"}), Inter({"RI3"}),
               Nom("S3"), Nom("R3"), VArr(P("Int")), Nom("At"), Nom("As"),
               P("AnyStructAttachment"), P("AnyResourceAttachment")}
Keys == {P("Int"), P("Integer"), P("String")}
Funs == {Fun(p, tp, ps, r) : p \in BOOLEAN, tp \in {"none", "AnyStruct"},
           ps \in {<< >>, <<P("Int")>>, <<P("Integer")>>, <<P("Int"), P("Int")>>},
           r \in {P("Int"), P("Integer"), P("Void"), P("Never")}}
L1 == {Opt(t) : t \in Reps} \cup {Opt(Opt(t)) : t \in {P("Int"), Nom("S"), P("Never"), Nom("R")}}
  \cup {VArr(t) : t \in Reps}
  \cup {CArr(t, n) : t \in {P("Int"), P("Integer"), Nom("R"), P("Never")}, n \in {2, 3}}
  \cup {Dict(kt, vt) : kt \in Keys, vt \in {P("Int"), P("Integer"), P("AnyStruct"), Nom("S"), Nom("I1"), Nom("R"), P("Never")}}
  \cup {Ref(a, t) : a \in AuthSet, t \in RefTargets}
  \cup {Cap(Ref(a, t)) : a \in {EB!Un, Conj({"E1"})}, t \in {Nom("S"), Nom("I1"), Inter({"I1"}), Nom("R")}} \cup {CapU}
  \cup Funs
  \cup {RangeT(t) : t \in {P("Int"), P("Int8"), P("UInt8"), P("Integer"), P("Never")}}
\* second level: constructors over selected first-level types
Sel1 == {Opt(P("Int")), Opt(Nom("S")), Opt(Nom("R")), Opt(P("Never")), Opt(Nom("I1")), Opt(P("AnyStruct")),
         VArr(P("Int")), VArr(P("Integer")), VArr(Nom("R")), VArr(P("Never")), VArr(Nom("S")), VArr(Inter({"I1"})),
         Dict(P("String"), P("Int")), Dict(P("String"), Nom("R")), Dict(P("String"), P("AnyStruct")),
         Ref(EB!Un, Nom("S")), Ref(Conj({"E1"}), Nom("S")), Ref(Disj({"E1", "E2"}), Nom("S")), Ref(EB!Un, Nom("I1")),
         Ref(EB!Un, P("Int")), Ref(Conj({"E1", "E2"}), Inter({"I1"})),
         Cap(Ref(EB!Un, Nom("S"))), CapU, RangeT(P("Int")),
         Fun(TRUE, "none", << >>, P("Int")), Fun(FALSE, "none", <<P("Int")>>, P("Void"))}
L2 == {Opt(t) : t \in Sel1 \ {x \in Sel1 : x.k = "opt"}}
  \cup {VArr(t) : t \in Sel1}
  \cup {CArr(t, 2) : t \in Sel1}
  \cup {Dict(P("String"), t) : t \in Sel1} \cup {Dict(P("Int"), t) : t \in {x \in Sel1 : x.k \in {"opt", "varr"}}}
  \cup {Ref(a, t) : a \in {EB!Un, Conj({"E1"}), Disj({"E1", "E2"})}, t \in {x \in Sel1 : x.k \in {"varr", "dict"}}}
  \cup {Cap(Ref(a, t)) : a \in {EB!Un, Conj({"E1"})}, t \in {x \in Sel1 : x.k \in {"varr", "dict"}}}
  \cup {Fun(p, "none", <<t>>, r) : p \in BOOLEAN, t \in {x \in Sel1 : x.k \in {"ref", "opt", "fun"}},
          r \in {P("Void"), Opt(P("Int")), Ref(EB!Un, Nom("S")), Ref(Conj({"E1"}), Nom("S"))}}
\* third level (thorough tier): containers and references over the second level
Sel2 == {x \in L2 : x.k \in {"opt", "varr", "dict", "ref", "cap"}}
L3 == {Opt(t) : t \in {x \in Sel2 : x.k # "opt"}}
  \cup {VArr(t) : t \in Sel2}
  \cup {Dict(P("String"), t) : t \in Sel2}
  \cup {Ref(a, t) : a \in AuthSet, t \in {x \in Sel2 : x.k \in {"varr", "dict"}}}
  \cup {Fun(p, "none", <<t>>, P("Void")) : p \in BOOLEAN, t \in {x \in Sel2 : x.k \in {"ref", "cap"}}}
Universe == Base \cup Inters \cup (IF Depth >= 1 THEN L1 ELSE {}) \cup (IF Depth >= 2 THEN L2 ELSE {})
              \cup (IF Depth >= 3 THEN L3 ELSE {})
=============================================================================
