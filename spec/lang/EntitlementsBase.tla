------------------------- MODULE EntitlementsBase -------------------------
(***************************************************************************)
(* Authorizations as sets of possible worlds: the constant-level part of   *)
(* the entitlement algebra (C06), also instantiated by Types/Subtype (C08) *)
(* for the authorization of reference types.                               *)
(***************************************************************************)
EXTENDS Naturals, FiniteSets

CONSTANT E          \* universe of entitlements (strings)

Worlds   == SUBSET E
NonEmpty == (SUBSET E) \ {{}}

Un   == [k |-> "un",   s |-> {}]     \* unauthorized reference / access(all) member
Self == [k |-> "self", s |-> {}]     \* access(self): only the declaring type itself
Err  == [k |-> "err",  s |-> {}]     \* "image not representable": the program is rejected
SetAuth == {[k |-> kk, s |-> ss] : kk \in {"conj", "disj"}, ss \in NonEmpty}
RefAuth == {Un} \cup SetAuth         \* what a reference type can carry
Auth    == RefAuth \cup {Self}       \* what a member requirement can be

\* ---------------------------------------------------------------- semantics
W(a) == CASE a.k = "un"   -> Worlds
          [] a.k = "self" -> {}                                  \* no outside holder at all
          [] a.k = "conj" -> {w \in Worlds : a.s \subseteq w}
          [] a.k = "disj" -> {w \in Worlds : w \cap a.s # {}}

\* requirement `req` is satisfied by every holder of `held`
Permits(req, held) == W(held) \subseteq W(req)

\* ------------------------------------------------- documented rule: permits
PermitsRule(req, held) ==
  CASE held.k = "self" -> TRUE
    [] req.k  = "self" -> FALSE
    [] req.k  = "un"   -> TRUE
    [] held.k = "un"   -> FALSE
    [] req.k = "conj" /\ held.k = "conj" -> req.s \subseteq held.s
    [] req.k = "disj" /\ held.k = "conj" -> req.s \cap held.s # {}
    [] req.k = "disj" /\ held.k = "disj" -> held.s \subseteq req.s
    [] req.k = "conj" /\ held.k = "disj" -> \A h \in held.s : \A r \in req.s : r = h

Norm(k, s) == IF s = {} THEN Un ELSE [k |-> k, s |-> s]

\* --------------------------------------------- documented rule: intersection
\* (authorization of a reference reached through another reference)
IntersectRule(a, b) ==
  CASE a.k \notin {"conj", "disj"} \/ b.k \notin {"conj", "disj"} -> Un
    [] a.k = "conj" /\ b.k = "conj" -> Norm("conj", a.s \cap b.s)
    [] a.k = "conj" /\ b.k = "disj" -> IF b.s \subseteq a.s THEN b ELSE Un
    [] a.k = "disj" /\ b.k = "conj" -> IF a.s \subseteq b.s THEN a ELSE Un
    [] OTHER -> Un
\* x is a sound answer for "what do a-holder and b-holder both guarantee"
IntersectSound(x, a, b) == Permits(x, a) /\ Permits(x, b)

=============================================================================
