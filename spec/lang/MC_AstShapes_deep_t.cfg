SPECIFICATION Spec
CONSTANTS
  Family = "expr"
  MaxDepth = 3
  FullOps = "reps"
  AllAtomsUpTo = 0
  DefaultFrom = 1
  OpsFrom = 1
INVARIANTS SpineOK FullOK Emit
