SPECIFICATION Spec
CONSTANT Depth = 2
