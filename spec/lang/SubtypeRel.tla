----------------------------- MODULE SubtypeRel -----------------------------
(***************************************************************************)
(* C08 -- the subtype relation over the type terms of Types.tla            *)
(* (constant level; Subtype.tla tabulates it and checks its laws, Casts.tla *)
(* uses it for the run-time type tests).                                   *)
(*                                                                         *)
(* Written from the language definition: Never is the bottom and Any the   *)
(* top type; AnyStruct / AnyResource are the tops of the two kinds;        *)
(* optionals, arrays, dictionaries, references (in the referenced type),   *)
(* capabilities and ranges are covariant, T <: T?; reference               *)
(* authorizations follow Permits of EntitlementsBase; functions are        *)
(* contravariant in parameters, covariant in the result, view <: impure,   *)
(* type-parameter bounds invariant; nominal types follow the conformance   *)
(* DAG; an intersection type {Us} is above everything that conforms to all *)
(* of Us.                                                                  *)
(*                                                                         *)
(* Kinds.  A preorder with covariant constructors forces types built only  *)
(* from Never (Never?, [Never], {K: Never}) to be below *both* AnyStruct   *)
(* and AnyResource: Never? <: R? <: AnyResource and Never? <: Int? <:      *)
(* AnyStruct.  Kind(t) is therefore "s", "r" or "both".  The named         *)
(* deviation DevNeverKind is the checker's view: Never is not              *)
(* resource-kinded, so such types are struct-kinded only.                  *)
(***************************************************************************)
EXTENDS Types

CONSTANT DevNeverKind     \* TRUE: evaluate the deviating relation

RECURSIVE Kind(_)
Kind(t) ==
  CASE t.k = "prim" -> (IF t.n \in {"AnyResource", "AnyResourceAttachment"} THEN "r"
                        ELSE IF t.n = "Never" THEN (IF DevNeverKind THEN "s" ELSE "both")
                        ELSE IF t.n = "Any" THEN "none" ELSE "s")
    [] t.k = "nom"  -> (IF t.n \in Resources \cup RIfaces \cup RAttachments THEN "r" ELSE "s")
    [] t.k \in {"opt", "varr", "carr"} -> Kind(t.t)
    [] t.k = "dict" -> Kind(t.vt)
    [] t.k = "inter" -> (IF \E i \in t.s : i \in RIfaces THEN "r" ELSE "s")
    [] OTHER -> "s"                                  \* references, capabilities, functions, ranges
IsRes(t)    == Kind(t) \in {"r", "both"}
IsStruct(t) == Kind(t) \in {"s", "both"}

Hashable(t) ==
  \/ t.k = "prim" /\ (t.n \in {"Never", "Bool", "Character", "String", "Type", "HashableStruct", "Address"}
                        \/ "Number" \in PrimAnc(t.n) \/ "Path" \in PrimAnc(t.n))
  \/ t.k = "nom" /\ t.n \in Enums
IsAttachment(t) == \/ t.k = "nom" /\ t.n \in RAttachments \cup SAttachments
                   \/ t.k = "prim" /\ t.n \in {"AnyStructAttachment", "AnyResourceAttachment"}

RECURSIVE Sub(_, _)
Sub(t, u) ==
  \/ t = u
  \/ t = P("Never")
  \/ u = P("Any")
  \/ u = P("AnyStruct")   /\ IsStruct(t)
  \/ u = P("AnyResource") /\ IsRes(t)
  \/ u = P("AnyStructAttachment")   /\ IsStruct(t) /\ IsAttachment(t)
  \/ u = P("AnyResourceAttachment") /\ IsRes(t) /\ IsAttachment(t)
  \/ u = P("HashableStruct") /\ Hashable(t)
  \/ t.k = "prim" /\ u.k = "prim" /\ u.n \in PrimAnc(t.n)                 \* numeric tower, paths
  \/ u.k = "opt"  /\ (IF t.k = "opt" THEN Sub(t.t, u.t) ELSE Sub(t, u.t))
  \/ u.k = "varr" /\ t.k = "varr" /\ Sub(t.t, u.t)
  \/ u.k = "carr" /\ t.k = "carr" /\ t.n = u.n /\ Sub(t.t, u.t)
  \/ u.k = "dict" /\ t.k = "dict" /\ Sub(t.kt, u.kt) /\ Sub(t.vt, u.vt)
  \/ u.k = "ref"  /\ t.k = "ref"  /\ EB!Permits(u.a, t.a) /\ Sub(t.t, u.t)
  \/ u.k = "inter" /\ t.k = "inter" /\ IfaceClosure(u.s) \subseteq IfaceClosure(t.s)
  \/ u.k = "inter" /\ t.k = "nom"   /\ IfaceClosure(u.s) \subseteq ConfStar(t.n) \cup (IF t.n \in Ifaces THEN {t.n} ELSE {})
  \/ u.k = "nom" /\ u.n \in Ifaces /\ t.k = "nom"   /\ u.n \in ConfStar(t.n)
  \/ u.k = "nom" /\ u.n \in Ifaces /\ t.k = "inter" /\ u.n \in IfaceClosure(t.s)
  \/ u.k = "cap"   /\ t.k = "cap"   /\ Sub(t.t, u.t)
  \/ u.k = "capu"  /\ t.k = "cap"
  \/ u.k = "range" /\ t.k = "range" /\ Sub(t.t, u.t)
  \/ u.k = "fun" /\ t.k = "fun" /\ (t.pure \/ ~u.pure) /\ t.tp = u.tp /\ Len(t.ps) = Len(u.ps)
       /\ (\A i \in 1..Len(t.ps) : Sub(u.ps[i], t.ps[i])) /\ Sub(t.r, u.r)

=============================================================================
