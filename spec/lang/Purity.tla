------------------------------ MODULE Purity ------------------------------
(* View functions have no observable side effects (property C07).

   A CASE is  operation x root x path x site:
     operation  what is done (assignment, index/member write, mutating built-in, call of an
                impure / entitled / view function, swap, emit, storage and capability calls ...)
     root       where the value the operation is applied to lives:
                  refparam   behind an auth(Mutate) reference parameter (the caller's variable)
                  global     a field of the enclosing contract
                  self       a field of the composite whose view METHOD is running
                  refglobal  a reference taken to a contract field inside the function
                  valparam   a by-value parameter (a copy owned by the call)
                  refval     a reference taken to a by-value parameter
                  local      a value created inside the call
                  reflocal   a reference taken to a local value
                  account    an account reference parameter (storage / capabilities)
                  none       operations without a target (emit, log, assignment to a global Int ...)
     path       how the operation reaches it from the root expression: directly, through an
                optional (chaining, force unwrap, optional binding), a wrapper struct field, an
                array of references, a closure, a view closure, a dereferenced copy, a bound
                function value
     site       body of a view function / view method, or an expression inside a pre- / post-
                condition (conditions are view contexts)

   The model assigns every case its EFFECT CLASS under the language semantics (structs, arrays
   and dictionaries are values: binding one to a new variable, wrapping it into an optional or an
   array, or dereferencing a reference copies it; references alias):
        "mutates"  changes a value that existed before the call
        "storage"  writes account storage / capability state
        "emits"    emits an event that is not declared by an emit condition
        "none"     nothing observable (pure, or confined to values created inside the call)
   C07 says: a case the checker ACCEPTS in a view context has effect "none" when it runs.
   The check renders every case, lets the real checker decide acceptance, runs the accepted ones
   on both engines and OBSERVES (value snapshots, host register writes, host events). The
   observation is the verdict; the model's class directs the enumeration, tells which accepted
   cases must show nothing, and flags blind spots (predicted effect, accepted, nothing observed). *)
EXTENDS Naturals, Sequences, FiniteSets, TLC, Json

\* ---------------------------------------------------------------- operations
\* tt: type of the target (S struct, A array, D dictionary, N no target, St account)
\* eff: intrinsic effect on its target ("mutates" / "storage" / "emits" / "none" / "mutglobal": mutates a
\*      contract field whatever the target)   member: written as  recv.name(...)  (usable with ?. and as bound function)
\* val: yields a value (usable inside a condition)
Op(n, tt, eff, member, val) == [op |-> n, tt |-> tt, eff |-> eff, member |-> member, val |-> val]
OpsTable == {
  Op("assignOwnField","H", "mutates", FALSE, FALSE),   \* self.hn = 1   (own field of the composite whose view method runs;
                                                       \*  a field of ANOTHER composite is not assignable at all, see C50)
  Op("callImpure",    "S", "mutates", TRUE,  TRUE),    \* recv.setX(1)          (non-view method that assigns a field)
  Op("callEntitled",  "S", "mutates", TRUE,  TRUE),    \* recv.mset(1)          (access(Mutate) non-view method)
  Op("callView",      "S", "none",    TRUE,  TRUE),    \* recv.getX()
  Op("fieldAppend",   "S", "mutates", FALSE, FALSE),   \* recv.arr.append(9)
  Op("fieldDictAppend","S","mutates", FALSE, FALSE),   \* recv.d["a"]!.append(9)
  Op("indexAssign",   "A", "mutates", FALSE, FALSE),   \* recv[0] = 9
  Op("append",        "A", "mutates", TRUE,  FALSE),
  Op("appendAll",     "A", "mutates", TRUE,  FALSE),
  Op("insert",        "A", "mutates", TRUE,  FALSE),
  Op("remove",        "A", "mutates", TRUE,  TRUE),
  Op("removeFirst",   "A", "mutates", TRUE,  TRUE),
  Op("removeLast",    "A", "mutates", TRUE,  TRUE),
  Op("swapElem",      "A", "mutates", FALSE, FALSE),   \* var t = 9; recv[0] <-> t
  Op("reverse",       "A", "none",    TRUE,  TRUE),
  Op("concat",        "A", "none",    TRUE,  TRUE),
  Op("slice",         "A", "none",    TRUE,  TRUE),
  Op("contains",      "A", "none",    TRUE,  TRUE),
  Op("length",        "A", "none",    FALSE, TRUE),
  Op("filterView",    "A", "none",    TRUE,  TRUE),    \* recv.filter(view fun ...)
  Op("mapImpure",     "A", "mutglobal", TRUE, TRUE),   \* recv.map(fun (x) { <contract field> = 7; return x })
  Op("dictAssign",    "D", "mutates", FALSE, FALSE),   \* recv["a"] = [9]
  Op("dictInsert",    "D", "mutates", TRUE,  TRUE),
  Op("dictRemove",    "D", "mutates", TRUE,  TRUE),
  Op("dictNestedAppend","D","mutates", FALSE, FALSE),  \* recv["a"]!.append(9)
  Op("dictKeys",      "D", "none",    FALSE, TRUE),
  Op("forEachKeyImpure","D","mutglobal", TRUE, FALSE), \* recv.forEachKey(fun (k) { <contract field> = 9; return true })
  Op("swapOwnField",  "H", "mutates", FALSE, FALSE),   \* var t = 9; self.hn <-> t
  Op("refFieldAssign","SS","mutates", FALSE, FALSE),   \* other.x = 1       inside a view method of S, other: auth(Mutate) &S
  Op("refFieldSwap",  "SS","mutates", FALSE, FALSE),   \* var t = 9; other.x <-> t   (field through a reference)
  Op("swapGlobal",    "N", "mutglobal", FALSE, FALSE), \* var t = 9; <contract field> <-> t
  Op("swapLocal",     "N", "none",    FALSE, FALSE),   \* var a = 1; var t = 9; a <-> t
  Op("assignCaptured","N", "none",    FALSE, FALSE),   \* var cv = 1; let g = view fun () { cv = 2 }; g()   (cv is local to the OUTER view call)
  Op("swapCaptured",  "N", "none",    FALSE, FALSE),   \* var cv = 1; let g = view fun () { var t = 9; cv <-> t }; g()
  Op("assignGlobal",  "N", "mutglobal", FALSE, FALSE), \* <contract field> = 5
  Op("callImpureFree","N", "mutglobal", FALSE, TRUE),  \* bump()  (non-view contract function assigning a contract field)
  Op("emitStatement", "N", "emits",   FALSE, FALSE),   \* emit Ev()
  Op("log",           "N", "none",    FALSE, FALSE),
  Op("localMutate",   "N", "none",    FALSE, FALSE),   \* var t = [1]; t.append(2)
  Op("save",          "St", "storage", FALSE, FALSE),
  Op("load",          "St", "storage", FALSE, TRUE),
  Op("copy",          "St", "none",    FALSE, TRUE),
  Op("borrow",        "St", "none",    FALSE, TRUE),
  Op("check",         "St", "none",    FALSE, TRUE),
  Op("issue",         "St", "storage", FALSE, TRUE),   \* capabilities.storage.issue
  Op("publish",       "St", "storage", FALSE, FALSE),  \* issue + publish
  Op("unpublish",     "St", "storage", FALSE, TRUE) }

\* ---------------------------------------------------------------- roots and paths
Roots == {"refparam", "global", "self", "refglobal", "valparam", "refval", "local", "reflocal", "account", "none"}
IsRef(root) == root \in {"refparam", "refglobal", "refval", "reflocal"}
\* whose value the root expression denotes
Base(root) == CASE root \in {"refparam", "global", "self", "refglobal"} -> "preexisting"
                [] root \in {"valparam", "refval"} -> "copy"
                [] root \in {"local", "reflocal"} -> "local"
                [] OTHER -> "na"
PathElems == {"direct", "optchain", "force", "iflet", "wrapper", "arrayof", "closure", "viewclosure", "derefcopy", "boundfn"}
\* path elements that bind the root EXPRESSION's value to a new variable / container: a copy when it is a value
Rebinding == {"optchain", "force", "iflet", "arrayof"}
\* elements after which another element can follow; closures do not change the receiver expression
Chainable == {"force", "iflet", "wrapper", "arrayof", "closure", "viewclosure", "derefcopy"}
NonTransforming == {"closure", "viewclosure", "direct"}
\* a PATH is a sequence of 1..Depth elements, applied left to right
CONSTANT Depth
Paths == {<<e>> : e \in PathElems}
         \cup (IF Depth >= 2 THEN {<<e1, e2>> : e1 \in Chainable, e2 \in PathElems \ {"direct"}} ELSE {})
PathName(p) == IF Len(p) = 1 THEN p[1] ELSE p[1] \o "+" \o p[2]

\* abstract state while walking a path: is the current receiver expression a reference? whose value is it?
Start(root) == [ref |-> IsRef(root), base |-> Base(root)]
StepP(st, e) == IF e = "derefcopy" THEN [ref |-> FALSE, base |-> "copy"]
                ELSE IF e \in Rebinding /\ ~st.ref THEN [ref |-> FALSE, base |-> "copy"]
                ELSE IF e = "wrapper" THEN [ref |-> TRUE, base |-> st.base]
                ELSE st
RECURSIVE Walk(_, _)
Walk(st, p) == IF p = << >> THEN st ELSE Walk(StepP(st, Head(p)), Tail(p))

\* well-formedness of a case OUTSIDE purity (type and access rules of the language):
\*  - a nested container reached through a reference is an unauthorized reference: it cannot be mutated
\*  - a force-unwrap is not an assignment / swap target; optional chaining and bound functions need a member call
\*  - only primitives and containers of primitives can be dereferenced (not structs), and only references
\*  - the wrapper struct holds a reference to S
\*  - conditions cannot contain function expressions
NestedOps == {"fieldAppend", "fieldDictAppend", "dictNestedAppend"}
AssignLike == {"indexAssign", "swapElem", "dictAssign"}
RootsOf(o) == CASE o.tt = "N" -> {"none"} [] o.tt = "St" -> {"account"} [] o.tt = "H" -> {"self"}
                [] o.tt = "SS" -> {"refparam"}
                [] OTHER -> Roots \ {"account", "none"}
\* element e applied in state st, for operation o; last = it is the final element
ElemOK(o, st, e, last) ==
  /\ (e \in {"optchain", "boundfn"} => last /\ o.member)
  /\ (e = "boundfn"  => o.op \notin {"mapImpure", "filterView", "forEachKeyImpure"})
  /\ (e = "wrapper"  => st.ref /\ o.tt = "S")
  /\ (e = "derefcopy" => st.ref /\ o.tt \in {"A", "D"})
RECURSIVE ElemsOK(_, _, _)
ElemsOK(o, st, p) == p = << >> \/ (ElemOK(o, st, Head(p), Len(p) = 1) /\ ElemsOK(o, StepP(st, Head(p)), Tail(p)))
\* the element that produced the final receiver expression
LastTransforming(p) == LET idx == {i \in 1..Len(p) : p[i] \notin NonTransforming} IN
                       IF idx = {} THEN "direct" ELSE p[CHOOSE i \in idx : \A j \in idx : j <= i]
PathOK(o, root, p) ==
  IF o.tt \in {"N", "St", "H", "SS"} THEN \A i \in 1..Len(p) : p[i] \in NonTransforming
  ELSE /\ ElemsOK(o, Start(root), p)
       /\ (LastTransforming(p) = "force" => o.op \notin AssignLike)
       /\ (o.op \in NestedOps => ~Walk(Start(root), p).ref)
Sites == {"body", "pre", "post"}
SiteOK(o, root, p, site) ==
  site = "body" \/ (o.val /\ p = <<"direct">> /\ root \in {"refparam", "global", "self", "account", "none"}
                       /\ o.op \notin {"filterView", "mapImpure"})

\* ---------------------------------------------------------------- the judgement
\* which value the operation finally touches
Reach(root, p) == Walk(Start(root), p).base

Effect(o, root, p) ==
  CASE o.eff = "mutates"   -> IF Reach(root, p) = "preexisting" THEN "mutates" ELSE "none"
    [] o.eff = "mutglobal" -> "mutates"
    [] OTHER               -> o.eff

Table == {[op |-> o.op, tt |-> o.tt, root |-> r, path |-> PathName(p), site |-> s, effect |-> Effect(o, r, p)] :
            <<o, r, p, s>> \in {q \in OpsTable \X Roots \X Paths \X Sites :
                                  q[2] \in RootsOf(q[1]) /\ PathOK(q[1], q[2], q[3]) /\ SiteOK(q[1], q[2], q[3], q[4])}}

\* ---------------------------------------------------------------- resource transfers (moves INTO a target)
\* Only resources have the second value transfer of a variable declaration,  let old <- TARGET <- VALUE :
\* TARGET's current value moves to `old`, VALUE moves into TARGET -- an assignment to TARGET. The swap
\* statement  TARGET <-> t  assigns to both sides. In a view context neither `create` nor `destroy` is
\* available, so VALUE comes from a resource parameter and `old` leaves through the return value (view
\* method) or goes into another field of self (view initializer).
\* The view context is a method / the initializer of resource Hold (fields coin: @Coin?, coins: @[Coin],
\* bag: @{String: Coin}, spare: @Coin?); fields are only assignable inside their composite (C50), and a
\* resource field read through a REFERENCE is itself a reference, not a target of a move: no reference paths.
\* Same rule as for assignment: the transfer mutates a pre-existing value unless TARGET is local to the call;
\* an initializer may write the fields of the value it constructs.
XOps     == {"secondTransfer", "swapRes"}
XTargets == {"selfField", "selfIndex", "selfDict", "ownedField", "localVar", "contractField", "contractHoldField"}
XSites   == {"body", "init"}
\* (inside the initializer a transfer / swap on a plain self FIELD counts as a second initialisation of that
\*  field, which the language rejects independently of purity: not a program of the fragment)
XOK(t, site) == site = "body" \/ t \in {"selfIndex", "selfDict", "contractField", "contractHoldField"}
XEffect(t, site) ==
  CASE t \in {"selfField", "selfIndex", "selfDict"} -> IF site = "init" THEN "none" ELSE "mutates"
    [] t \in {"contractField", "contractHoldField"} -> "mutates"
    [] t = "ownedField" -> "none"      \* ownership was moved into the call: no alias of the value survives outside
    [] t = "localVar"   -> "none"
XTable == {[op |-> o, tt |-> "RX", root |-> t, path |-> "direct", site |-> s, effect |-> XEffect(t, s)] :
             <<o, t, s>> \in {q \in XOps \X XTargets \X XSites : XOK(q[2], q[3])}}
\* law: only what the call owns (locals, moved-in parameters, the value under construction) is free to change
ASSUME \A t \in XTargets, s \in XSites :
         (XOK(t, s) /\ XEffect(t, s) = "none") => (t \in {"ownedField", "localVar"} \/ s = "init")

\* ---------------------------------------------------------------- laws of the model
\* an operation without an intrinsic effect never has one; copies and locals absorb mutation
ASSUME \A o \in OpsTable, r \in Roots \ {"account", "none"}, p \in Paths : o.eff = "none" => Effect(o, r, p) = "none"
ASSUME \A o \in OpsTable, r \in Roots \ {"account", "none"}, p \in Paths :
         (o.eff = "mutates" /\ Base(r) \in {"copy", "local"}) => Effect(o, r, p) = "none"
\* through a reference the path never matters, unless it contains the explicit dereferenced copy
ASSUME \A o \in OpsTable, r \in Roots, p \in Paths :
         (IsRef(r) /\ o.eff = "mutates" /\ \A i \in 1..Len(p) : p[i] # "derefcopy") => Effect(o, r, p) = Effect(o, r, <<"direct">>)
\* a longer path can only hide a mutation behind a copy, never create one
ASSUME \A o \in OpsTable, r \in Roots \ {"account", "none"}, p \in Paths :
         (Len(p) = 2 /\ Effect(o, r, p) = "mutates") => Effect(o, r, <<p[1]>>) = "mutates"
\* operation names are unique
ASSUME \A o1 \in OpsTable, o2 \in OpsTable : o1.op = o2.op => o1 = o2

ASSUME \A row \in Table : PrintT(ToJson(row))
ASSUME \A xrow \in XTable : PrintT(ToJson(xrow))

VARIABLE done
Init == done = FALSE
Next == done = FALSE /\ done' = TRUE
Spec == Init /\ [][Next]_done
=============================================================================
