SPECIFICATION Spec
CONSTANTS
  Family = "expr"
  MaxDepth = 3
  FullOps = "all"
INVARIANTS SpineOK FullOK Emit
