SPECIFICATION Spec
CONSTANTS
  Family = "expr"
  MaxDepth = 2
  FullOps = "all"
  AllAtomsUpTo = 2
  DefaultFrom = 99
  OpsFrom = 99
INVARIANTS SpineOK FullOK Emit
