SPECIFICATION Spec
CONSTANTS
  Family = "expr"
  MaxDepth = 3
  FullOps = "all"
  AllAtomsUpTo = 2
  DefaultFrom = 3
INVARIANTS SpineOK FullOK Emit
