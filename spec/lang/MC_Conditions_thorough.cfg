SPECIFICATION Spec
CONSTANTS
  NI = 3
  MaxFalse = 2
  NestSet <- MCNestBoth
  ViaAll = TRUE
  DRSeq <- MCDR
  ESeq <- MCE
  FullUnrelated = FALSE
  PickByHash = TRUE
  Seed = 1
  SampleMod = 1000
  Keep0 = 100
  Keep1 = 20
  Keep2 = 2
INVARIANTS SaneAndEmit
