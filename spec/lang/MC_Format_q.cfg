SPECIFICATION FSpec
CONSTANTS
  Family = "form"
  MaxDepth = 2
  FullOps = "reps"
  GapMax = 7
  PairGapMax = 6
  Nested = FALSE
  OptionSet <- QuickOptions
  OwnLineOptions <- QuickOptions
  AllAtomsUpTo = 1
  DefaultFrom = 99
  OpsFrom = 99
INVARIANTS FSpineOK FEmit
