---- MODULE MC_Casts ----
\* lemmas of the cast model as assumptions; the target list printed once; one state per (value, holding) case
EXTENDS Casts
ASSUME UnwrapLemma
ASSUME AgreeLemma
ASSUME FwdOnlyRefs
ASSUME IdentityLemma
ASSUME PrintT(ToJson(TargetsRow))
ASSUME \A v \in DepthVals : PrintT(ToJson(DepthRow(v)))
====
