---- MODULE MC_Entitlements ----
\* model-checking wrapper for Entitlements: mapping-independent theorems as assumptions
\* (evaluated once), tables printed for the conformance drivers.
EXTENDS Entitlements
ASSUME PermitsOK
ASSUME PermitsPreorder
ASSUME IntersectOK
ASSUME UpcastDirect
ASSUME UpcastNested
ASSUME PrintT(ToJson(BaseTable))
====
