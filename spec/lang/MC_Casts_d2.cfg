INIT Init
NEXT Next
CONSTANTS
  Depth = 2
  DevNeverKind = FALSE
INVARIANTS RowLaws Emit
