------------------------------ MODULE EvalOrder ------------------------------
(***************************************************************************)
(* C52 -- evaluation order and short-circuiting of Cadence expressions and *)
(* of assignment / swap statements.                                        *)
(*                                                                         *)
(* Written from the property statement and the language definition (the    *)
(* operator chapter of the Cadence reference: operands left to right, `&&` *)
(* `||` `??` and the conditional operator are lazy in their right-hand /   *)
(* branch part, optional chaining does nothing when the receiver is nil,   *)
(* force unwrap / force cast / index out of bounds / division by zero      *)
(* abort the program, assignment and swap evaluate the sub-expressions of  *)
(* their targets before the transferred value) -- NOT from the interpreter *)
(* or the compiler.                                                        *)
(*                                                                         *)
(* A TERM is a record [o, a, v, i, p]:                                     *)
(*    o  operator / form name (string)                                     *)
(*    a  sequence of sub-terms                                             *)
(*    v  valuation of a leaf (0/1: false/true, nil/some), 0 elsewhere      *)
(*    i  node id: pre-order number of the node (0 before numbering)        *)
(*    p  payload of a leaf that carries an integer (set by numbering)      *)
(* Leaves are calls of logging functions: evaluating leaf i appends i to   *)
(* the program log.  A method / function body appends the marker 100 + i   *)
(* of its call node when it starts running (after receiver and arguments). *)
(*                                                                         *)
(* Eval(t) is a big-step evaluator: [ok, val, log, err].  ok = FALSE means *)
(* the program aborted; log is then what was logged up to the abort.       *)
(***************************************************************************)
EXTENDS Integers, Sequences, FiniteSets, TLC, Json, SequencesExt

CONSTANTS
  InnerOps,   \* arithmetic / comparison operator symbols used below the root
  RootOps,    \* ... and at the root (superset in practice)
  NSample,    \* number of sampled depth-3 terms per root form
  NDictSample,\* number of sampled depth-2 dictionary literals
  Chunk, NChunks  \* this run handles the cases with index % NChunks = Chunk

VARIABLE idx

ArithOps == {"add", "sub", "mul", "div", "mod"}
CmpOps   == {"lt", "le", "gt", "ge", "eq", "ne"}
BoolEqOps == {"beq", "bne"}

---------------------------------------------------------------------------
(* Values.  Bool: TRUE/FALSE.  Int: integer.  Int?: <<>> (nil) or <<n>>.    *)
(* [Int]: sequence.  {Int: Int}: set of <<key, value>> pairs.  S (a struct *)
(* with one Int field x): the integer x.  S?: <<>> or <<x>>.               *)

Abs(x) == IF x < 0 THEN -x ELSE x
\* Cadence integer division truncates toward zero, remainder has the sign of the dividend
TDiv(x, y) == LET q == Abs(x) \div Abs(y) IN IF (x < 0) = (y < 0) THEN q ELSE -q
TRem(x, y) == x - y * TDiv(x, y)

Put(d, k, w) == {q \in d : q[1] # k} \cup {<<k, w>>}
Del(d, k)    == {q \in d : q[1] # k}
Look(d, k)   == LET m == {q \in d : q[1] = k} IN IF m = {} THEN <<>> ELSE <<(CHOOSE q \in m : TRUE)[2]>>

InR(n, s)    == n >= 0 /\ n < Len(s)          \* 0-based index n is inside sequence s
At(s, n)     == s[n + 1]
Upd(s, n, w) == [s EXCEPT ![n + 1] = w]

Pay(i) == i % 3                               \* integer payload of leaf number i

\* values the fixtures start with (the renderer declares exactly these)
ArrV  == <<10, 11, 12>>                       \* arr(i), variable a, field W.a
ArrB  == <<20, 21, 22>>                       \* variable bb
ArrAA == << <<10, 11>>, <<20, 21>> >>         \* variable aa
DctV  == {<<0, 10>>, <<1, 11>>}               \* dct(i), variable d
WsV   == <<ArrV, ArrV>>                       \* variable ws = [W(), W()], projected to the a fields

---------------------------------------------------------------------------
(* Term construction *)
T(op, args, val) == [o |-> op, a |-> args, v |-> val, i |-> 0, p |-> 0]

LB  == {T("b", <<>>, w) : w \in {0, 1}}       \* b(i, w): Bool
LI  == {T("h", <<>>, 0)}                      \* h(i, Pay(i)): Int
LO  == {T("n", <<>>, w) : w \in {0, 1}}       \* n(i, nil | Pay(i)): Int?
LA  == {T("arr", <<>>, 0)}                    \* arr(i): [Int]
LD  == {T("dct", <<>>, 0)}                    \* dct(i): {Int: Int}
LS  == {T("mk", <<>>, 0)}                     \* mk(i, Pay(i)): S
LSo == {T("mko", <<>>, w) : w \in {0, 1}}     \* mko(i, present, Pay(i)): S?

Un(op, X)           == {T(op, <<x>>, 0) : x \in X}
Bin(op, X, Y)       == {T(op, <<x, y>>, 0) : x \in X, y \in Y}
Ter(op, X, Y, Z)    == {T(op, <<x, y, z>>, 0) : x \in X, y \in Y, z \in Z}
Qua(op, W, X, Y, Z) == {T(op, <<w, x, y, z>>, 0) : w \in W, x \in X, y \in Y, z \in Z}

\* all terms with a root form of the given result type over the given child sets
\* (UNION {..} instead of \cup: TLC's \cup on big enumerated sets is quadratic)
NextB(B, I, O, ops) == UNION {
  Un("not", B), Bin("and", B, B), Bin("or", B, B),
  UNION {Bin(op, I, I) : op \in ops \cap CmpOps},
  UNION {Bin(op, B, B) : op \in ops \cap BoolEqOps},
  Ter("condB", B, B, B) }
NextI(B, I, O, A, S, ops) == UNION {
  Un("neg", I), UNION {Bin(op, I, I) : op \in ops \cap ArithOps},
  Bin("coal", O, I), Ter("condI", B, I, I), Un("force", O),
  Ter("call", S, I, I), Bin("fcall", I, I), Bin("idx", A, I), Un("mem", S),
  Un("castfB", B), Un("castfI", I) }
NextO(B, I, O, D, So) == UNION {
  Bin("coalO", O, O), Ter("condO", B, O, O), Ter("ocall", So, I, I), Un("omem", So),
  Bin("didx", D, I), Un("asO", I), Un("castqB", B), Un("castqI", I) }
NextA(I) == Bin("arrlit", I, I)
\* statements: only at the root
Stmts(I, O) == UNION {
  Bin("asgIdx", I, I), Ter("asgIdx2", I, I, I), Bin("asgDict", I, O), Ter("asgMemIdx", I, I, I),
  Bin("swapIdx", I, I), Bin("swapSame", I, I), Ter("swapIdx2", I, I, I), Ter("swapIdx2r", I, I, I) }

\* depth <= 1 (children are leaves), operator symbols of the inner alphabet
B1 == UNION {LB, NextB(LB, LI, LO, InnerOps)}
I1 == UNION {LI, NextI(LB, LI, LO, LA, LS, InnerOps)}
O1 == UNION {LO, NextO(LB, LI, LO, LD, LSo)}
A1 == UNION {LA, NextA(LI)}
D1 == UNION {LD, Qua("dictlit", LI, LI, LI, LI)}

I1q == SetToSeq(I1)
Pick(s) == s[RandomElement(1..Len(s))]
\* a dictionary literal has four children: sampled above depth 1
D2 == UNION {D1, {T("dictlit", <<Pick(I1q), Pick(I1q), Pick(I1q), Pick(I1q)>>, 0) : k \in 1..NDictSample}}

\* depth <= 2, root forms with the root alphabet: enumerated exhaustively
B2r == UNION {B1, NextB(B1, I1, O1, RootOps)}
I2r == UNION {I1, NextI(B1, I1, O1, A1, LS, RootOps)}
O2r == UNION {O1, NextO(B1, I1, O1, D1, LSo)}
A2r == UNION {A1, NextA(I1)}
S2  == Stmts(I1, O1)

\* depth <= 2 with the inner alphabet: the children of sampled depth-3 terms
B2q == SetToSeq(IF InnerOps = RootOps THEN B2r ELSE UNION {B1, NextB(B1, I1, O1, InnerOps)})
I2q == SetToSeq(IF InnerOps = RootOps THEN I2r ELSE UNION {I1, NextI(B1, I1, O1, A1, LS, InnerOps)})
O2q == SetToSeq(O2r)
A2q == SetToSeq(A2r)
D2q == SetToSeq(D2)
Sq  == SetToSeq(LS)
Soq == SetToSeq(LSo)
RootSeq(ops) == SetToSeq(RootOps \cap ops)

ChildSeq(ty) == CASE ty = "B" -> B2q [] ty = "I" -> I2q [] ty = "O" -> O2q [] ty = "A" -> A2q
                  [] ty = "D" -> D2q [] ty = "S" -> Sq [] ty = "So" -> Soq

\* signature (child types) of every form; "~arith" etc. stand for a random symbol of that class
Forms == {
  <<"not", <<"B">> >>, <<"and", <<"B", "B">> >>, <<"or", <<"B", "B">> >>, <<"~cmp", <<"I", "I">> >>,
  <<"~beq", <<"B", "B">> >>, <<"condB", <<"B", "B", "B">> >>,
  <<"neg", <<"I">> >>, <<"~arith", <<"I", "I">> >>, <<"coal", <<"O", "I">> >>, <<"condI", <<"B", "I", "I">> >>,
  <<"force", <<"O">> >>, <<"call", <<"S", "I", "I">> >>, <<"fcall", <<"I", "I">> >>, <<"idx", <<"A", "I">> >>,
  <<"castfB", <<"B">> >>, <<"castfI", <<"I">> >>,
  <<"coalO", <<"O", "O">> >>, <<"condO", <<"B", "O", "O">> >>, <<"ocall", <<"So", "I", "I">> >>,
  <<"didx", <<"D", "I">> >>, <<"asO", <<"I">> >>, <<"castqB", <<"B">> >>, <<"castqI", <<"I">> >>,
  <<"arrlit", <<"I", "I">> >>, <<"dictlit", <<"I", "I", "I", "I">> >>,
  <<"asgIdx", <<"I", "I">> >>, <<"asgIdx2", <<"I", "I", "I">> >>, <<"asgDict", <<"I", "O">> >>,
  <<"asgMemIdx", <<"I", "I", "I">> >>, <<"swapIdx", <<"I", "I">> >>, <<"swapSame", <<"I", "I">> >>,
  <<"swapIdx2", <<"I", "I", "I">> >>, <<"swapIdx2r", <<"I", "I", "I">> >> }

SymOf(f) == CASE f = "~cmp" -> Pick(RootSeq(CmpOps)) [] f = "~arith" -> Pick(RootSeq(ArithOps))
              [] f = "~beq" -> Pick(RootSeq(BoolEqOps)) [] OTHER -> f
SampleOf(f) == T(SymOf(f[1]), [j \in 1..Len(f[2]) |-> Pick(ChildSeq(f[2][j]))], 0)
Sampled == IF NSample = 0 THEN {} ELSE UNION {{SampleOf(f) : k \in 1..NSample} : f \in Forms}

\* the table: exhaustive part (pairwise disjoint by root type / statement) followed by the samples
CaseSeq == SetToSeq(B2r) \o SetToSeq(I2r) \o SetToSeq(O2r) \o SetToSeq(A2r) \o SetToSeq(D2) \o SetToSeq(S2)
           \o SetToSeq(Sampled)
NCases  == Len(CaseSeq)

TypeOf(op) ==
  CASE op \in {"b", "not", "and", "or", "condB"} \cup CmpOps \cup BoolEqOps -> "B"
    [] op \in {"h", "neg", "coal", "condI", "force", "call", "fcall", "idx", "mem", "castfB", "castfI"} \cup ArithOps -> "I"
    [] op \in {"n", "coalO", "condO", "ocall", "omem", "didx", "asO", "castqB", "castqI"} -> "O"
    [] op \in {"arr", "arrlit"} -> "A"
    [] op \in {"dct", "dictlit"} -> "D"
    [] op = "mk" -> "S"
    [] op = "mko" -> "So"
    [] OTHER -> "St"

---------------------------------------------------------------------------
(* Numbering: every node gets its pre-order number; integer-carrying leaves *)
(* get their payload.  The renderer prints exactly these numbers.           *)
RECURSIVE Num(_, _), NumSeq(_, _)
Num(t, k) == LET cs == NumSeq(t.a, k + 1)
             IN  << [o |-> t.o, a |-> cs[1], v |-> t.v, i |-> k,
                     p |-> IF t.o \in {"h", "n", "mk", "mko"} THEN Pay(k) ELSE 0], cs[2] >>
NumSeq(ts, k) == IF Len(ts) = 0 THEN << <<>>, k >>
                 ELSE LET hd == Num(Head(ts), k)
                          tl == NumSeq(Tail(ts), hd[2])
                      IN  << <<hd[1]>> \o tl[1], tl[2] >>
Number(t) == Num(t, 1)[1]

---------------------------------------------------------------------------
(* The evaluator *)
Ok(w, l)    == [ok |-> TRUE,  val |-> w, log |-> l, err |-> "none"]
Abort(l, e) == [ok |-> FALSE, val |-> 0, log |-> l, err |-> e]
\* r evaluated after l
After(l, r) == [ok |-> r.ok, val |-> r.val, log |-> l.log \o r.log, err |-> r.err]

Leaf(t) ==
  CASE t.o = "b"   -> Ok(t.v = 1, <<t.i>>)
    [] t.o = "h"   -> Ok(t.p, <<t.i>>)
    [] t.o = "n"   -> Ok(IF t.v = 1 THEN <<t.p>> ELSE <<>>, <<t.i>>)
    [] t.o = "arr" -> Ok(ArrV, <<t.i>>)
    [] t.o = "dct" -> Ok(DctV, <<t.i>>)
    [] t.o = "mk"  -> Ok(t.p, <<t.i>>)
    [] t.o = "mko" -> Ok(IF t.v = 1 THEN <<t.p>> ELSE <<>>, <<t.i>>)
IsLeaf(op) == op \in {"b", "h", "n", "arr", "dct", "mk", "mko"}

\* result of a strict form once all operands w (a sequence of values) are there:
\* [ok, val, err, post]; post = what the operation itself logs (body marker)
Pure(w)     == [ok |-> TRUE,  val |-> w, err |-> "none", post |-> <<>>]
Body(w, m)  == [ok |-> TRUE,  val |-> w, err |-> "none", post |-> <<m>>]
Fail(e)     == [ok |-> FALSE, val |-> 0, err |-> e, post |-> <<>>]
Apply(t, w) ==
  LET op == t.o IN
  CASE op = "not"  -> Pure(~w[1])
    [] op = "neg"  -> Pure(-w[1])
    [] op = "add"  -> Pure(w[1] + w[2])
    [] op = "sub"  -> Pure(w[1] - w[2])
    [] op = "mul"  -> Pure(w[1] * w[2])
    [] op = "div"  -> IF w[2] = 0 THEN Fail("div0") ELSE Pure(TDiv(w[1], w[2]))
    [] op = "mod"  -> IF w[2] = 0 THEN Fail("div0") ELSE Pure(TRem(w[1], w[2]))
    [] op = "lt"   -> Pure(w[1] < w[2])
    [] op = "le"   -> Pure(w[1] <= w[2])
    [] op = "gt"   -> Pure(w[1] > w[2])
    [] op = "ge"   -> Pure(w[1] >= w[2])
    [] op = "eq"   -> Pure(w[1] = w[2])
    [] op = "ne"   -> Pure(w[1] # w[2])
    [] op = "beq"  -> Pure(w[1] = w[2])
    [] op = "bne"  -> Pure(w[1] # w[2])
    [] op = "force"  -> IF w[1] = <<>> THEN Fail("force-nil") ELSE Pure(w[1][1])
    \* receiver, then arguments, then the body (which logs its marker first)
    [] op = "call"   -> Body(w[1] + w[2] + w[3], 100 + t.i)
    [] op = "fcall"  -> Body(w[1] + w[2], 100 + t.i)
    [] op = "idx"    -> IF InR(w[2], w[1]) THEN Pure(At(w[1], w[2])) ELSE Fail("index")
    [] op = "mem"    -> Pure(w[1])
    [] op = "castfB" -> Fail("force-cast")          \* a Bool is not an Int
    [] op = "castfI" -> Pure(w[1])
    [] op = "didx"   -> Pure(Look(w[1], w[2]))
    [] op = "asO"    -> Pure(<<w[1]>>)
    [] op = "castqB" -> Pure(<<>>)
    [] op = "castqI" -> Pure(<<w[1]>>)
    [] op = "arrlit" -> Pure(w)
    [] op = "dictlit" -> Pure(Put(Put({}, w[1], w[2]), w[3], w[4]))   \* key1, value1, key2, value2
    \* a[i] = v : the store (and its bounds check) comes after the value
    [] op = "asgIdx"  -> IF InR(w[1], ArrV) THEN Pure(Upd(ArrV, w[1], w[2])) ELSE Fail("index")
    \* d[k] = o : assigning nil removes the key
    [] op = "asgDict" -> Pure(IF w[2] = <<>> THEN Del(DctV, w[1]) ELSE Put(DctV, w[1], w[2][1]))
    \* a[i] <-> bb[j] : all target sub-expressions, then read left, read right, write both
    [] op = "swapIdx" -> IF ~InR(w[1], ArrV) \/ ~InR(w[2], ArrB) THEN Fail("index")
                         ELSE Pure(<<Upd(ArrV, w[1], At(ArrB, w[2])), Upd(ArrB, w[2], At(ArrV, w[1]))>>)
    \* a[i] <-> a[j]
    [] op = "swapSame" -> IF ~InR(w[1], ArrV) \/ ~InR(w[2], ArrV) THEN Fail("index")
                          ELSE Pure(Upd(Upd(ArrV, w[1], At(ArrV, w[2])), w[2], At(ArrV, w[1])))

RECURSIVE Eval(_), EvalSeq(_)
\* operands / arguments / elements: left to right, each exactly once, stop at the first abort
EvalSeq(ts) ==
  IF Len(ts) = 0 THEN [ok |-> TRUE, vals |-> <<>>, log |-> <<>>, err |-> "none"]
  ELSE LET hd == Eval(Head(ts)) IN
       IF ~hd.ok THEN [ok |-> FALSE, vals |-> <<>>, log |-> hd.log, err |-> hd.err]
       ELSE LET tl == EvalSeq(Tail(ts))
            IN  [ok |-> tl.ok, vals |-> <<hd.val>> \o tl.vals, log |-> hd.log \o tl.log, err |-> tl.err]

\* a target of the form x[i][j] (or x[i].a[j]): x[i] is an ordinary index expression, so it is
\* read -- bounds check included -- as soon as i is there; then the remaining sub-expressions
\* `rest`; Fin(first, vals-of-rest) finishes.
Nested(first, outer, rest, Fin(_, _)) ==
  LET f == Eval(first) IN
  IF ~f.ok THEN Abort(f.log, f.err)
  ELSE IF ~InR(f.val, outer) THEN Abort(f.log, "index")
  ELSE LET s == EvalSeq(rest) IN
       IF ~s.ok THEN Abort(f.log \o s.log, s.err)
       ELSE LET r == Fin(f.val, s.vals) IN
            IF r.ok THEN Ok(r.val, f.log \o s.log) ELSE Abort(f.log \o s.log, r.err)

Eval(t) ==
  LET op == t.o IN
  IF IsLeaf(op) THEN Leaf(t)
  ELSE IF op = "and" THEN      \* right side exactly when the left is true
    LET l == Eval(t.a[1]) IN IF ~l.ok \/ ~l.val THEN l ELSE After(l, Eval(t.a[2]))
  ELSE IF op = "or" THEN       \* right side exactly when the left is false
    LET l == Eval(t.a[1]) IN IF ~l.ok \/ l.val THEN l ELSE After(l, Eval(t.a[2]))
  ELSE IF op \in {"coal", "coalO"} THEN   \* right side exactly when the left is nil
    LET l == Eval(t.a[1]) IN
    IF ~l.ok THEN l
    ELSE IF l.val # <<>> THEN Ok(IF op = "coal" THEN l.val[1] ELSE l.val, l.log)
    ELSE After(l, Eval(t.a[2]))
  ELSE IF op \in {"condB", "condI", "condO"} THEN   \* test, then only the chosen branch
    LET c == Eval(t.a[1]) IN
    IF ~c.ok THEN c ELSE After(c, Eval(IF c.val THEN t.a[2] ELSE t.a[3]))
  ELSE IF op = "ocall" THEN    \* o?.m(x, y): nothing more happens when o is nil
    LET r == Eval(t.a[1]) IN
    IF ~r.ok THEN r
    ELSE IF r.val = <<>> THEN Ok(<<>>, r.log)
    ELSE LET s == EvalSeq(Tail(t.a)) IN
         IF ~s.ok THEN Abort(r.log \o s.log, s.err)
         ELSE Ok(<<r.val[1] + s.vals[1] + s.vals[2]>>, r.log \o s.log \o <<100 + t.i>>)
  ELSE IF op = "omem" THEN     \* o?.x
    LET r == Eval(t.a[1]) IN IF ~r.ok THEN r ELSE Ok(r.val, r.log)
  ELSE IF op = "asgIdx2" THEN  \* aa[i][j] = v
    Nested(t.a[1], ArrAA, Tail(t.a),
           LAMBDA i, w : IF InR(w[1], At(ArrAA, i))
                         THEN Pure(Upd(ArrAA, i, Upd(At(ArrAA, i), w[1], w[2]))) ELSE Fail("index"))
  ELSE IF op = "asgMemIdx" THEN  \* ws[i].a[j] = v
    Nested(t.a[1], WsV, Tail(t.a),
           LAMBDA i, w : IF InR(w[1], At(WsV, i))
                         THEN Pure(Upd(WsV, i, Upd(At(WsV, i), w[1], w[2]))) ELSE Fail("index"))
  ELSE IF op = "swapIdx2" THEN   \* aa[i][j] <-> a[k]
    Nested(t.a[1], ArrAA, Tail(t.a),
           LAMBDA i, w : IF ~InR(w[1], At(ArrAA, i)) \/ ~InR(w[2], ArrV) THEN Fail("index")
                         ELSE Pure(<<Upd(ArrAA, i, Upd(At(ArrAA, i), w[1], At(ArrV, w[2]))),
                                     Upd(ArrV, w[2], At(At(ArrAA, i), w[1]))>>))
  ELSE IF op = "swapIdx2r" THEN  \* a[k] <-> aa[i][j] : left target first, then the right one
    LET k == Eval(t.a[1]) IN
    IF ~k.ok THEN k
    ELSE After(k, Nested(t.a[2], ArrAA, <<t.a[3]>>,
           LAMBDA i, w : IF ~InR(k.val, ArrV) \/ ~InR(w[1], At(ArrAA, i)) THEN Fail("index")
                         ELSE Pure(<<Upd(ArrV, k.val, At(At(ArrAA, i), w[1])),
                                     Upd(ArrAA, i, Upd(At(ArrAA, i), w[1], At(ArrV, k.val)))>>)))
  ELSE  \* every other form is strict: all sub-expressions left to right, then the operation
    LET s == EvalSeq(t.a) IN
    IF ~s.ok THEN Abort(s.log, s.err)
    ELSE LET r == Apply(t, s.vals) IN
         IF r.ok THEN Ok(r.val, s.log \o r.post) ELSE Abort(s.log, r.err)

---------------------------------------------------------------------------
(* The table: one state per case *)
\* (the table is evaluated once, at start-up, by the ASSUME at the end of the module: TLC does not cache
\* CaseSeq across states, so one state per case would rebuild the whole term universe for every case)
Init == idx = 0
Next == UNCHANGED idx
Spec == Init /\ [][Next]_idx

Case == Number(CaseSeq[idx])

RECURSIVE Nodes(_)
Nodes(t) == {t} \cup UNION {Nodes(t.a[j]) : j \in 1..Len(t.a)}
Ids(t)   == {x.i : x \in Nodes(t)}
LeafIds(t) == {x.i : x \in {y \in Nodes(t) : IsLeaf(y.o)}}
CallIds(t) == {x.i : x \in {y \in Nodes(t) : y.o \in {"call", "fcall", "ocall"}}}
Lazy(t)  == \E x \in Nodes(t) : x.o \in {"and", "or", "coal", "coalO", "condB", "condI", "condO", "ocall"}
InLog(l, x) == \E j \in 1..Len(l) : l[j] = x
Pos(l, x)   == CHOOSE j \in 1..Len(l) : l[j] = x
PrefixOf(s, l) == Len(s) <= Len(l) /\ SubSeq(l, 1, Len(s)) = s

\* the table line of case c with result r
LineN(n, c, r) == [id |-> n, term |-> c, ty |-> TypeOf(c.o), log |-> r.log, val |-> r.val,
                  fails |-> ~r.ok, err |-> r.err, nl |-> Cardinality(LeafIds(c))]
Line(c, r) == [id |-> idx, term |-> c, ty |-> TypeOf(c.o), log |-> r.log, val |-> r.val,
               fails |-> ~r.ok, err |-> r.err, nl |-> Cardinality(LeafIds(c))]
Emit == LET c == Case r == Eval(c) IN PrintT(ToJson(Line(c, r)))

(* Sanity of the model itself: c = numbered term, l = its log, r = its result *)
\* only nodes of the term are logged, a leaf by its id and a body by 100 + id of its call
PLogOfTerm(c, l) == LET allowed == LeafIds(c) \cup {100 + x : x \in CallIds(c)}
                    IN  \A j \in 1..Len(l) : l[j] \in allowed
\* exactly once
PNoDup(l) == \A j, k \in 1..Len(l) : j # k => l[j] # l[k]
\* left to right: pre-order numbering makes the leaf entries strictly increasing
PLeftToRight(l) == LET m == SelectSeq(l, LAMBDA x : x < 100)
                   IN  \A j \in 1..Len(m) - 1 : m[j] < m[j + 1]
\* the first sub-expression is always evaluated first; its abort is the abort of the whole
PFirstFirst(c, r) == Len(c.a) > 0 =>
                       LET f == Eval(c.a[1]) IN
                       /\ PrefixOf(f.log, r.log)
                       /\ (~f.ok) => (~r.ok /\ r.log = f.log /\ r.err = f.err)
\* a body runs after its receiver and after whatever was evaluated of its arguments
PBodyLast(c, l) == \A x \in CallIds(c) :
                     InLog(l, 100 + x) =>
                       LET n == CHOOSE y \in Nodes(c) : y.i = x
                       IN  \A y \in LeafIds(n) : InLog(l, y) => Pos(l, y) < Pos(l, 100 + x)
\* without lazy forms and without abort everything is evaluated
PStrictTotal(c, r) == (r.ok /\ ~Lazy(c)) =>
                        Len(r.log) = Cardinality(LeafIds(c)) + Cardinality(CallIds(c))
\* short-circuit laws at the root
PLazyLaws(c, r) ==
  LET op == c.o IN
  /\ op \in {"and", "or", "coal", "coalO"} =>
       LET l == Eval(c.a[1])
           skip == CASE op = "and" -> l.ok /\ ~l.val [] op = "or" -> l.ok /\ l.val [] OTHER -> l.ok /\ l.val # <<>>
       IN  /\ skip => (r.log = l.log /\ r.ok)
           /\ (l.ok /\ ~skip) => r.log = l.log \o Eval(c.a[2]).log
  /\ op \in {"condB", "condI", "condO"} =>
       ~ \E x \in Ids(c.a[2]), y \in Ids(c.a[3]) : InLog(r.log, x) /\ InLog(r.log, y)
  /\ op = "ocall" =>
       LET f == Eval(c.a[1]) IN (f.ok /\ f.val = <<>>) => (r.log = f.log /\ r.val = <<>>)

\* all sanity properties and the table line in one pass over the case (one evaluation of the case per state)
Sane(c, r) == /\ PLogOfTerm(c, r.log) /\ PNoDup(r.log) /\ PLeftToRight(r.log) /\ PFirstFirst(c, r)
              /\ PBodyLast(c, r.log) /\ PStrictTotal(c, r) /\ PLazyLaws(c, r)
SaneAndEmit == LET c == Case r == Eval(c) IN Sane(c, r) /\ PrintT(ToJson(Line(c, r)))
\* the whole table of this chunk: every case is numbered, evaluated, checked against the sanity laws and printed.
\* The term sets are walked directly (no sequence of the whole universe is built); a cheap structural hash
\* assigns every term to one of the NChunks parallel TLC processes.
RECURSIVE THash(_)
THash(t) == (t.v + Len(t.a) + (IF Len(t.a) = 0 THEN 0
                               ELSE 3 * THash(t.a[1]) + (IF Len(t.a) > 1 THEN 5 * THash(t.a[Len(t.a)]) ELSE 0))) % 9973
Row(t) == (THash(t) % NChunks = Chunk) =>
            LET c == Number(t) r == Eval(c) IN Sane(c, r) /\ PrintT(ToJson(LineN(0, c, r)))
TableOK == /\ (\A t \in B2r : Row(t)) /\ (\A t \in I2r : Row(t)) /\ (\A t \in O2r : Row(t)) /\ (\A t \in A2r : Row(t))
           /\ (\A t \in D2 : Row(t)) /\ (\A t \in S2 : Row(t)) /\ (\A t \in Sampled : Row(t))
ASSUME TableOK

LogOfTerm   == LET c == Case r == Eval(c) IN PLogOfTerm(c, r.log)
NoDup       == LET r == Eval(Case) IN PNoDup(r.log)
LeftToRight == LET r == Eval(Case) IN PLeftToRight(r.log)
FirstFirst  == LET c == Case r == Eval(c) IN PFirstFirst(c, r)
BodyLast    == LET c == Case r == Eval(c) IN PBodyLast(c, r.log)
StrictTotal == LET c == Case r == Eval(c) IN PStrictTotal(c, r)
LazyLaws    == LET c == Case r == Eval(c) IN PLazyLaws(c, r)
=============================================================================
