----------------------------- MODULE Linearity -----------------------------
(* Resource linearity (property C03): TLC as the independent, path-sensitive oracle.

   Small-step semantics of the resource fragment of Cadence over a status map
       variable |-> "valid" | "invalid"          (a variable outside DOMAIN env is undeclared)
   The PROGRAM IS DATA: `Progs` is a batch of programs (one JSON object per line, read with
   ndJsonDeserialize); Init picks a program p and an oracle variant dev; TLC explores every
   path of every program: branch conditions are nondeterministic, loop bodies run any number
   of times. The flag `bad` becomes TRUE on a path that
     - uses, moves or destroys a variable that is not valid (use after move, double move),
     - assigns to a resource variable (the language forbids it: it would overwrite), or
     - leaves the scope of a variable that is still valid (fall-through, break, continue,
       return): resource loss.
   A path that ends in `panic` is exempt from the loss rule: a halted program loses nothing
   observable (the transaction is reverted).

   Statement forms (field t):  decl x | move x ys (declare x from moving every y: variable,
   optional wrapping, array literal) | take z x (z <- x.removeFirst()) | destroy x | consume x |
   call name ys (arguments are moved left to right) | use x | swap x y | append x y
   (x.append(<-y)) | fassign x y (x <-! y) | assign x y (x <- y) | shift z x y (var z <- x <- y) |
   cmove x (x is moved inside a CONDITIONALLY EVALUATED operand: c && f(<-x), c || f(<-x), o ?? f(<-x),
   c ? f(<-x) : 0, and the argument list of an optional-chaining call o?.m(<-x), o?.m(f(<-x)), o?.m([f(<-x)]),
   o?.m(c ? f(<-x) : 0): nothing is evaluated when the receiver is nil -- the move happens or not, nondeterministically) |
   if then else | iflet y x then else (if let y <- x) | while body | for body | break | continue |
   return [x] | panic | fun name params body (nested function: analysed as its own entry point).

   Named deviation variants -- used ONLY to classify a disagreement between the exact oracle
   (dev = {}) and the real checker as a known finding; `dev` is a SET of deviation names:
     DevLoopOnce         a loop body is executed at most once (the real checker analyses loop
                         bodies once); explains unsound ACCEPTS whose only bad paths need a
                         second iteration and whose remaining loss report is hidden by a halt
                         (DESIGN section 7 #9).
     DevForceAssignInvalid  `x <-! y` does not look at the status of x: a moved/destroyed x is
                         not reported and stays invalid, the value moved into it is forgotten.
     DevReturnAfterJump  a break/continue taken inside an if-branch whose last statement is a
                         `return` forgets every invalidation made since that branch was entered
                         (the real checker marks the branch "definitely returned" and drops its
                         invalidations at the merge although the jumping path does not return).
     DevJumpNoExit       exits inside an if-branch do not cut the path where branches merge:
                         (a) after panic / break / continue / return (the latter three after their
                             own loss check) the path goes on after the if statement with the
                             invalidations made so far;
                         (b) an if statement whose branches all exit may be skipped as a whole;
                         (c) once a break/continue has been passed this way, every later invalidation
                             in that loop iteration is only potential (the path on which the variable
                             stays valid exists too);
                         (d) inside a loop a panic does not suppress the loss report of its block.
                         Explains REJECTIONS of programs whose every real path is fine (DESIGN
                         section 7 #10: the real checker cuts a branch at a merge only when it
                         definitely returns, forgets the invalidations of nested all-returning ifs,
                         invents one for return/halt siblings, and treats an invalidation textually
                         after a jump in the same loop as potential). Deliberately an
                         over-approximation: it is consulted only when the checker rejects a
                         program the exact oracle accepts. *)
EXTENDS Naturals, Sequences, FiniteSets, TLC, Json

CONSTANT Devs          \* the set of variants to explore; each variant is a set of deviation names ({} = exact)

Progs == ndJsonDeserialize("progs.ndjson")

VARIABLES p, dev, k, env, bad, done
vars == <<p, dev, k, env, bad, done>>

\* A program is flattened by the generator: Progs[p].blocks[b] is the statement sequence of block b
\* (block 1 = the body of the function under analysis); compound statements name their blocks by number.
\* frame: b = block, pc = index of the next statement, kind in {"fun","block","loop"}, decl = variables
\* declared in this frame, adv = TRUE when the enclosing frame has already moved past the loop statement,
\* e0 = status map at entry (recorded only under DevReturnAfterJump), j = a break/continue was passed
\* without being taken in this loop iteration (only under DevJumpNoExit)
Frame(b, kind, decl, adv) == [b |-> b, pc |-> 1, kind |-> kind, decl |-> decl, adv |-> adv, j |-> FALSE,
                              e0 |-> IF "DevReturnAfterJump" \in dev THEN env ELSE << >>]
Dev(d) == d \in dev
Top == k[Len(k)]
Block(f) == Progs[p].blocks[f.b]
AtEnd(f) == f.pc > Len(Block(f))
Cur(f)   == Block(f)[f.pc]

ValidIn(e, x) == x \in DOMAIN e /\ e[x] = "valid"
Valid(x) == ValidIn(env, x)
Bind(e, x, v) == [y \in DOMAIN e \cup {x} |-> IF y = x THEN v ELSE e[y]]
Unbind(e, xs) == [y \in DOMAIN e \ xs |-> e[y]]
Lost(f) == \E x \in f.decl : Valid(x)
LostFrom(i) == \E j \in i..Len(k) : Lost(k[j])
DeclsFrom(i) == UNION {k[j].decl : j \in i..Len(k)}
LoopIdx == CHOOSE i \in 1..Len(k) : k[i].kind = "loop" /\ \A j \in (i+1)..Len(k) : k[j].kind # "loop"
InLoop == \E i \in 1..Len(k) : k[i].kind = "loop"

\* static shape of a block: every path through it ends in an exit / in a return
RECURSIVE ExitsB(_), RetB(_)
ExitsB(b) == LET B == Progs[p].blocks[b] IN
             /\ Len(B) > 0
             /\ LET s == B[Len(B)] IN \/ s.t \in {"break", "continue", "return", "panic"}
                                      \/ (s.t \in {"if", "iflet"} /\ ExitsB(s.then) /\ ExitsB(s.else))
RetB(b) == LET B == Progs[p].blocks[b] IN
           /\ Len(B) > 0
           /\ LET s == B[Len(B)] IN \/ s.t = "return"
                                    \/ (s.t \in {"if", "iflet"} /\ RetB(s.then) /\ RetB(s.else))

\* move every variable of xs in order; ok = FALSE as soon as one is not valid (double move)
RECURSIVE MoveAll(_, _)
MoveAll(e, xs) == IF xs = << >> THEN [ok |-> TRUE, e |-> e]
                  ELSE IF ~ValidIn(e, Head(xs)) THEN [ok |-> FALSE, e |-> e]
                  ELSE MoveAll(Bind(e, Head(xs), "invalid"), Tail(xs))

Init == /\ p \in 1..Len(Progs)
        /\ dev \in Devs
        /\ k = <<[b |-> 1, pc |-> 1, kind |-> "fun", decl |-> {}, adv |-> FALSE, j |-> FALSE, e0 |-> << >>]>>
        /\ env = << >> /\ bad = FALSE /\ done = FALSE

\* all final states of a program collapse into one (per verdict): the continuation is dropped
Stop(b) == /\ bad' = b /\ done' = TRUE /\ k' = << >> /\ env' = << >> /\ UNCHANGED <<p, dev>>

Cont(k2, e2) == k' = k2 /\ env' = e2 /\ UNCHANGED <<p, dev, bad, done>>

\* DevJumpNoExit: once a break/continue has been passed in this loop iteration, an invalidation is only
\* "potential": the path on which the variables xs stay valid is explored as well
MayKeep == "DevJumpNoExit" \in dev /\ InLoop /\ k[LoopIdx].j
ContInv(k2, e2, xs) == \/ Cont(k2, e2)
                       \/ MayKeep /\ Cont(k2, [y \in DOMAIN e2 |-> IF y \in xs THEN "valid" ELSE e2[y]])
Range(sq) == {sq[i] : i \in DOMAIN sq}

SetTop(f)   == [k EXCEPT ![Len(k)] = f]
Rest(f)     == [f EXCEPT !.pc = @ + 1]
DeclIn(f, x) == [f EXCEPT !.decl = @ \cup {x}]
Advance     == SetTop(Rest(Top))
\* pop the frames i..Len(k); the variables declared in them go out of scope
PopTo(i)    == SubSeq(k, 1, i - 1)
AdvanceAt(kk) == [kk EXCEPT ![Len(kk)] = Rest(@)]

Fallthrough ==
  IF Lost(Top) THEN Stop(TRUE)
  ELSE IF Len(k) = 1 THEN Stop(FALSE)
  ELSE Cont(PopTo(Len(k)), Unbind(env, Top.decl))

\* leave the innermost loop: brk = TRUE exits it, FALSE goes back to its head
Jump(brk) ==
  LET i == LoopIdx IN
  IF LostFrom(i) THEN Stop(TRUE)
  ELSE LET kk == PopTo(i)
           e1 == Unbind(env, DeclsFrom(i))
           \* deviation: the outermost enclosing if-branch (inside the loop) that ends in `return`
           rs == {j \in (i+1)..Len(k) : k[j].kind = "block" /\ RetB(k[j].b)}
           e2 == IF Dev("DevReturnAfterJump") /\ rs # {}
                 THEN LET j == CHOOSE x \in rs : \A y \in rs : x <= y IN
                      [x \in DOMAIN e1 |-> IF x \in DOMAIN k[j].e0 THEN k[j].e0[x] ELSE e1[x]]
                 ELSE e1
       IN Cont(IF brk /\ ~k[i].adv THEN AdvanceAt(kk) ELSE kk, e2)

Loop(st) ==
  \/ Cont(Advance, env)                                               \* condition false / no more elements
  \/ IF Dev("DevLoopOnce")
     THEN Cont(Append(Advance, Frame(st.body, "loop", {}, TRUE)), env) \* at most one iteration
     ELSE Cont(Append(k, Frame(st.body, "loop", {}, FALSE)), env)      \* the loop statement stays at the head

Exec(st) ==
  CASE st.t = "decl" ->
         Cont(SetTop(DeclIn(Rest(Top), st.x)), Bind(env, st.x, "valid"))
    [] st.t = "move" ->
         LET m == MoveAll(env, st.ys) IN
         IF ~m.ok THEN Stop(TRUE)
         ELSE ContInv(SetTop(DeclIn(Rest(Top), st.x)), Bind(m.e, st.x, "valid"), Range(st.ys))
    [] st.t = "take" ->
         IF ~Valid(st.x) THEN Stop(TRUE)
         ELSE Cont(SetTop(DeclIn(Rest(Top), st.z)), Bind(env, st.z, "valid"))
    [] st.t \in {"destroy", "consume"} ->
         IF ~Valid(st.x) THEN Stop(TRUE) ELSE ContInv(Advance, Bind(env, st.x, "invalid"), {st.x})
    [] st.t = "cmove" ->                          \* the operand holding the move may or may not be evaluated
         \/ Cont(Advance, env)
         \/ (IF ~Valid(st.x) THEN Stop(TRUE) ELSE ContInv(Advance, Bind(env, st.x, "invalid"), {st.x}))
    [] st.t = "call" ->
         LET m == MoveAll(env, st.ys) IN
         IF ~m.ok THEN Stop(TRUE) ELSE ContInv(Advance, m.e, Range(st.ys))
    [] st.t = "use" ->
         IF ~Valid(st.x) THEN Stop(TRUE) ELSE Cont(Advance, env)
    [] st.t = "swap" ->
         IF ~Valid(st.x) \/ ~Valid(st.y) THEN Stop(TRUE) ELSE Cont(Advance, env)
    [] st.t \in {"append", "fassign"} ->          \* the target is used, the value is moved into it
         IF st.t = "fassign" /\ Dev("DevForceAssignInvalid")
         THEN IF ~Valid(st.y) THEN Stop(TRUE) ELSE Cont(Advance, Bind(env, st.y, "invalid"))
         ELSE IF ~Valid(st.x) \/ ~Valid(st.y) THEN Stop(TRUE) ELSE ContInv(Advance, Bind(env, st.y, "invalid"), {st.y})
    [] st.t = "assign" -> Stop(TRUE)              \* would overwrite: never allowed on a resource variable
    [] st.t = "shift" ->                          \* var z <- x <- y : x's old value goes to z, y's value to x
         IF ~Valid(st.x) \/ ~Valid(st.y) THEN Stop(TRUE)
         ELSE ContInv(SetTop(DeclIn(Rest(Top), st.z)), Bind(Bind(env, st.y, "invalid"), st.z, "valid"), {st.y})
    [] st.t = "if" ->
         \/ \E br \in {st.then, st.else} : Cont(Append(Advance, Frame(br, "block", {}, FALSE)), env)
         \/ Dev("DevJumpNoExit") /\ ExitsB(st.then) /\ ExitsB(st.else) /\ Cont(Advance, env)
    [] st.t = "iflet" ->                          \* the optional is moved by the test, whatever it holds
         IF ~Valid(st.x) THEN Stop(TRUE)
         ELSE LET e1 == Bind(env, st.x, "invalid")
                  E0(f) == [f EXCEPT !.e0 = IF Dev("DevReturnAfterJump") THEN e1 ELSE << >>] IN
              \/ Cont(Append(Advance, E0(Frame(st.then, "block", {st.y}, FALSE))), Bind(e1, st.y, "valid"))
              \/ Cont(Append(Advance, E0(Frame(st.else, "block", {}, FALSE))), e1)
              \/ Dev("DevJumpNoExit") /\ ExitsB(st.then) /\ ExitsB(st.else)
                    /\ Cont(Advance, Bind(env, st.x, "invalid"))
    [] st.t \in {"while", "for"} -> Loop(st)
    [] st.t \in {"break", "continue"} ->
         IF Dev("DevJumpNoExit") /\ Top.kind = "block"
         THEN IF Lost(Top) THEN Stop(TRUE)         \* deviation: the branch just ends (and the jump is remembered)
              ELSE Cont([PopTo(Len(k)) EXCEPT ![LoopIdx].j = TRUE], Unbind(env, Top.decl))
         ELSE Jump(st.t = "break")
    [] st.t = "return" ->
         IF st.x # "" /\ ~Valid(st.x) THEN Stop(TRUE)
         ELSE IF st.x # "" /\ MayKeep THEN Stop(TRUE)     \* deviation: the returned variable's move is only potential
         ELSE IF \E j \in 1..Len(k) : \E v \in k[j].decl : v # st.x /\ Valid(v) THEN Stop(TRUE)
         ELSE IF Dev("DevJumpNoExit") /\ Top.kind = "block"
              THEN Cont(PopTo(Len(k)), Unbind(env, Top.decl))   \* deviation: the path goes on after the if
              ELSE Stop(FALSE)
    [] st.t = "panic" ->
         IF Dev("DevJumpNoExit") /\ Len(k) > 1
         THEN IF InLoop THEN Fallthrough                   \* deviation: inside a loop not even the loss report is suppressed
              ELSE Cont(PopTo(Len(k)), Unbind(env, Top.decl))   \* deviation: the path goes on after the block
         ELSE Stop(FALSE)                                  \* halting loses nothing
    [] st.t = "fun" ->
         \/ Cont(Advance, env)                             \* the declaration itself does nothing
         \/ Cont(<<[b |-> st.body, pc |-> 1, kind |-> "fun", adv |-> FALSE, j |-> FALSE, e0 |-> << >>,
                    decl |-> {st.params[i].x : i \in DOMAIN st.params}]>>,
                 [x \in {st.params[i].x : i \in DOMAIN st.params} |-> "valid"])   \* its body is an entry point

Step == /\ ~done
        /\ IF AtEnd(Top) THEN Fallthrough ELSE Exec(Cur(Top))

Next == Step \/ (done /\ UNCHANGED vars)
Spec == Init /\ [][Next]_vars

\* ---------------------------------------------------------------- properties of the model
TypeOK == /\ bad \in BOOLEAN /\ done \in BOOLEAN /\ (bad => done)
          /\ \A x \in DOMAIN env : env[x] \in {"valid", "invalid"}
          /\ \A i \in 1..Len(k) : k[i].kind \in {"fun", "block", "loop"}
\* every variable in the status map is declared in exactly the frames on the stack (scoping)
Scoped == done \/ (DOMAIN env = UNION {k[i].decl : i \in 1..Len(k)})
\* break/continue only ever execute inside a loop (the generator's obligation)
WellFormed == done \/ AtEnd(Top) \/ (Cur(Top).t \in {"break", "continue"} => InLoop)

\* ---------------------------------------------------------------- the table
\* always TRUE; prints every (program, variant) with a reachable bad path, and every finished one
Report == /\ bad => PrintT(<<"BAD", Progs[p].id, dev>>)
=============================================================================
