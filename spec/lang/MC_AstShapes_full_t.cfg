SPECIFICATION Spec
CONSTANTS
  Family = "full"
  MaxDepth = 2
  FullOps = "all"
  AllAtomsUpTo = 2
  DefaultFrom = 3
  OpsFrom = 99
INVARIANTS SpineOK FullOK Emit
