SPECIFICATION Spec
CONSTANTS
  Family = "full"
  MaxDepth = 2
  FullOps = "all"
INVARIANTS SpineOK FullOK Emit
