-------------------------- MODULE MC_BigMeterJudge --------------------------
(* Judges the metering trace recorded by `num meter`: one state per event. *)
EXTENDS BigMeter, Json, TLC

CONSTANT TraceFile
Trace == ndJsonDeserialize(TraceFile)

VARIABLES i, bt            \* bt: Bignum!BitTables, computed once in Init

Verdict(e) == IF ~Consistent(bt, e) THEN "malformed" ELSE IF Valid(e) THEN "ok" ELSE "bad"

Init == i = 0 /\ bt = BitTables
Next == i < Len(Trace) /\ i' = i + 1 /\ UNCHANGED bt
Spec == Init /\ [][Next]_<<i, bt>>

Judged == i = 0 \/ LET e == Trace[i]
                       v == Verdict(e)
                   IN v = "ok" \/ PrintT(ToJson([k |-> e.k, v |-> v,
                                                 dev |-> IF v = "bad" THEN Deviation(e) ELSE "none",
                                                 cls |-> IF v = "bad" THEN Class(e) ELSE ""]))
=============================================================================
