----------------------------- MODULE FixedPoint -----------------------------
(***************************************************************************)
(* Fixed-point arithmetic of Cadence (property C15), written from the      *)
(* property statement.                                                     *)
(*                                                                         *)
(* A value of Fix64 / UFix64 (scale s = 8) or Fix128 / UFix128 (s = 24) is *)
(* the rational m / 10^s for an integer m in the type's range [min, max]   *)
(* (64 resp. 128 bits, two's complement or unsigned).  The specification   *)
(* works on the scaled integers m (Bignum).  With F = 10^s:                *)
(*                                                                         *)
(*   a + b, a - b   the exact sum / difference                             *)
(*   a * b          the exact product a*b/F truncated toward zero          *)
(*   a / b          the exact quotient a*F/b truncated toward zero         *)
(*   a % b          a - trunc(a/b)*b  with trunc(a/b) the INTEGER quotient *)
(*                  of the two values, i.e. the remainder of the scaled    *)
(*                  integers with the dividend's sign                      *)
(*   a.multiplyDivide(b, c, rounding)   a*b/c rounded by the rule          *)
(*                  (towardZero when no rule is given), no intermediate    *)
(*                  rounding                                               *)
(*                                                                         *)
(* Each operation returns that result when it is in [min, max] and fails   *)
(* with an overflow or underflow error (either kind) exactly when it is    *)
(* not; division, remainder and multiplyDivide by zero fail with a         *)
(* division-by-zero error; `%` may (but need not) fail when the quotient   *)
(* a / b is out of range.                                                  *)
(*                                                                         *)
(* Truncation and rounding are stated RELATIONALLY (ConvertTypes!IsRounded *)
(* : inequalities between products, e.g. for the product                   *)
(*      |r| * F  <=  |a * b|  <  (|r| + 1) * F ,  sign r = sign(a*b) or 0) *)
(* An event recorded from the implementation carries a WITNESS w for the   *)
(* exact rounded result (it may lie outside the type); the relation has    *)
(* exactly one solution, so a wrong witness makes the event malformed      *)
(* (harness error) and a right one decides the event:                      *)
(*      w in range   =>  outcome ok and result = w                         *)
(*      w out of range => outcome overflow or underflow.                   *)
(***************************************************************************)
EXTENDS ConvertTypes

FxOps == {"add", "sub", "mul", "div", "mod", "muldiv"}

EffRule(rule) == IF rule = "" THEN "towardZero" ELSE rule

\* is w the exact result (before the range check) of the operation?  (the witness relation)
FxExact(T, op, rule, a, b, c, w) ==
  CASE op = "add" -> ZEq(w, ZAdd(a, b))
    [] op = "sub" -> ZEq(w, ZSub(a, b))
    [] op = "mul" -> IsRounded(ZMul(a, b), T.factor, "towardZero", w)
    [] op = "div" -> IsRounded(ZMul(a, T.factor), b, "towardZero", w)
    [] op = "muldiv" -> IsRounded(ZMul(a, b), c, EffRule(rule), w)
    \* mod: w is the integer quotient trunc(a / b); the remainder follows
    [] op = "mod" -> LET rem == ZSub(a, ZMul(w, b))
                     IN MCmp(rem.m, b.m) < 0 /\ (ZIsZero(rem) \/ rem.n = a.n)

Divisor(op, b, c) == IF op = "muldiv" THEN c ELSE b
DividesByZero(op, b, c) == op \in {"div", "mod", "muldiv"} /\ ZIsZero(Divisor(op, b, c))

\* the verdict on one recorded call: (out, r) observed; w the witness (w2: for mod the scaled quotient a*F/b
\* truncated; for muldiv the quotient a*b/c truncated, only used to classify deviations)
FxValid(T, op, rule, a, b, c, out, r, w, w2) ==
  IF DividesByZero(op, b, c) THEN out = "divzero"
  ELSE IF op = "mod"
       THEN \/ out = "ok" /\ ZEq(r, ZSub(a, ZMul(w, b)))
            \/ out \in RangeErr /\ ~TInRange(T, w2)          \* permitted only when the quotient is out of range
       ELSE IF TInRange(T, w) THEN out = "ok" /\ ZEq(r, w)
            ELSE out \in RangeErr

\* what the spec expects, for reports
FxExpected(T, op, a, b, c, w, w2) ==
  IF DividesByZero(op, b, c) THEN [out |-> "divzero", r |-> ZZero]
  ELSE IF op = "mod" THEN [out |-> IF TInRange(T, w2) THEN "ok" ELSE "ok (or a range error: the quotient is out of range)",
                           r |-> ZSub(a, ZMul(w, b))]
  ELSE IF TInRange(T, w) THEN [out |-> "ok", r |-> w]
  ELSE [out |-> "overflow or underflow", r |-> ZZero]

-----------------------------------------------------------------------------
(* Named deviation (known finding)                                         *)

\* DevFmdLowWordAllOnes: multiplyDivide of the 128-bit types divides a 256-bit product by a 128-bit divisor
\* with a hand-written long division (library onflow/fixed-point, div192by128).  In one edge case of its
\* quotient-digit estimate it ASSUMES that the low 64-bit word of the quotient is 2^64 - 1 without checking;
\* when the true low word is 2^64 - 2 the quotient comes out one too high, and the requested rounding is then
\* applied on top of it.  Observable: with q = trunc(|a*b / c|) (witness w2)
\*      (q + 1) mod 2^64 = 2^64 - 1,   |result| = |exact rounded result| + 1,   |result| in {q + 1, q + 2}.
AllOnes64 == MSub(MPow2(64), <<1>>)
DevFmdApplies(T, op, out, r, w, w2) ==
  /\ op = "muldiv" /\ T.bits = 128 /\ out = "ok"
  /\ MLowBits(MAdd(w2.m, <<1>>), 64) = AllOnes64
  /\ r.m = MAdd(w.m, <<1>>)
  /\ r.m \in {MAdd(w2.m, <<1>>), MAdd(w2.m, <<2>>)}
  /\ (r.n = w.n \/ ZIsZero(w))

FxDeviation(T, op, out, r, w, w2) == IF DevFmdApplies(T, op, out, r, w, w2) THEN "DevFmdLowWordAllOnes" ELSE "none"

=============================================================================
