--------------------------- MODULE MC_BigMeterEnum ---------------------------
(* Exhaustive enumeration of the C32 descriptor space: one TLC state per row
   (type, operation, left operand descriptor); the row lists every right operand
   descriptor (binary operations) or every shift amount. *)
EXTENDS BigMeter, Json, TLC, FiniteSets

CONSTANTS N,          \* word lengths 0..N of the operands ...
          Extra,      \* ... plus these (around the thresholds of the estimates: 40 words for the
                      \*     multiplication formula, 100 words for the division formula)
          FullShifts  \* BOOLEAN: every shift amount 0..4096 or the thinned set

Sizes == (0..N) \cup Extra

VARIABLES t, op, a

Init == /\ t \in MeterTypeNames
        /\ op \in OpsOf(MType(t))
        /\ a \in Descs(MType(t), Sizes)
Next == UNCHANGED <<t, op, a>>
Spec == Init /\ [][Next]_<<t, op, a>>

Emit == LET T == MType(t)
        IN PrintT(ToJson([t |-> t, op |-> op, a |-> a,
                          bs |-> IF op \in BinOps THEN Descs(T, Sizes) ELSE {},
                          ns |-> IF op \in ShiftOps THEN Amounts(T, FullShifts) ELSE {}]))
=============================================================================
