---------------------------- MODULE RangeIterMC ----------------------------
(***************************************************************************)
(* Instances of RangeIter checked by TLC (property C21).                   *)
(*  - Int4-like / UInt4-like: EVERY start, end and step of a 16-value type *)
(*    (exhaustive; safety invariants and termination).                     *)
(*  - Int8 / UInt8 / Word8: boundary-biased argument sets, quick and       *)
(*    thorough; the printed rows are the table the implementation is       *)
(*    compared with.                                                       *)
(***************************************************************************)
EXTENDS RangeIter

M8 == 0 - 8
M128 == 0 - 128
S4  == M8..7
U4  == 0..15

\* boundary-biased 8-bit arguments: the bounds and their neighbours, 0, +-1, +-2, a value far from
\* everything; steps additionally 3 (does not divide the spans) and values whose multiples do / do not
\* reach the bounds.  q = quick tier, t = thorough tier.
S8q  == {0 - 128, 0 - 127, 0 - 126, 0 - 100, 0 - 1, 0, 1, 2, 100, 126, 127}
S8qs == S8q \cup {0 - 2, 3}
U8q  == {0, 1, 2, 5, 100, 127, 128, 200, 250, 254, 255}
U8qs == U8q \cup {3, 253}
S8t  == S8q \cup {0 - 125, 0 - 64, 0 - 17, 0 - 3, 0 - 2, 3, 7, 17, 64, 125}
S8ts == S8t
U8t  == U8q \cup {3, 4, 16, 17, 51, 85, 129, 251, 253}
U8ts == U8t
=============================================================================
