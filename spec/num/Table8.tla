------------------------------- MODULE Table8 -------------------------------
(***************************************************************************)
(* The complete operation tables of the 8-bit types Int8, UInt8 and Word8  *)
(* (spec -> impl, exhaustive).  TLC's native integers hold every 8-bit     *)
(* intermediate, so here the property statements C11-C14 are written       *)
(* directly on integers:                                                   *)
(*   checked   exact result if representable, otherwise a range error      *)
(*   word      exact result modulo 256                                     *)
(*   saturating exact result clamped                                       *)
(*   bit ops   on the 8-bit two's-complement patterns                      *)
(*   x << n    x * 2^n truncated to 8 bits,  x >> n  floor(x / 2^n),       *)
(*             negative n fails                                            *)
(* One TLC state per row (type, operation, left operand a); the state's    *)
(* invariant prints the row [t, op, a, v] as JSON, v[k] being the entry    *)
(* for b = Lo + k - 1, an integer result or one of the codes               *)
(*   ERange = 1000 (overflow or underflow), EDivZero = 1001,               *)
(*   ENegShift = 1002.                                                     *)
(* The Go driver compares EVERY entry with the real value methods and with *)
(* Cadence scripts on both engines.                                        *)
(*                                                                         *)
(* Model-level checks done by TLC on every row:                            *)
(*  - algebraic sanity of the native definitions (Laws);                   *)
(*  - agreement of the two formulations of the specification: the          *)
(*    relational Bignum judge (IntArith/Bits, used for the wide types)     *)
(*    must ACCEPT every table entry and REJECT two mutants of it (result   *)
(*    off by one; outcome flipped between value and error).                *)
(***************************************************************************)
EXTENDS Bits, Json, TLC

CONSTANTS TName,        \* "Int8" | "UInt8" | "Word8"
          Op,           \* one operation name
          Cross         \* "all" | "some" | "none": rows cross-checked against the relational judge

VARIABLES a, tt, bt

ERange == 1000
EDivZero == 1001
ENegShift == 1002

Signed == TName = "Int8"
IsWord == TName = "Word8"
Lo == IF Signed THEN -128 ELSE 0
Hi == IF Signed THEN 127 ELSE 255
Dom == Lo..Hi

Abs(x) == IF x < 0 THEN 0 - x ELSE x
\* quotient truncated toward zero / remainder with the dividend's sign
TDiv(x, y) == LET q == Abs(x) \div Abs(y) IN IF (x < 0) # (y < 0) THEN 0 - q ELSE q
TRem(x, y) == x - TDiv(x, y) * y

Checked(e) == IF e >= Lo /\ e <= Hi THEN e ELSE ERange
Wrapped(e) == e % 256                                   \* TLA+ % is non-negative for a positive modulus
Clamped(e) == IF e < Lo THEN Lo ELSE IF e > Hi THEN Hi ELSE e
Plain(e)   == IF IsWord THEN Wrapped(e) ELSE Checked(e)

\* two's complement at width 8
Pattern(x) == x % 256
FromPattern(u) == IF Signed /\ u >= 128 THEN u - 256 ELSE u

Entry(op, x, y) ==
  CASE op = "add" -> Plain(x + y)
    [] op = "sub" -> Plain(x - y)
    [] op = "mul" -> Plain(x * y)
    [] op = "div" -> IF y = 0 THEN EDivZero ELSE Plain(TDiv(x, y))
    [] op = "mod" -> IF y = 0 THEN EDivZero ELSE Plain(TRem(x, y))
    [] op = "neg" -> Checked(0 - x)
    [] op = "satadd" -> Clamped(x + y)
    [] op = "satsub" -> Clamped(x - y)
    [] op = "satmul" -> Clamped(x * y)
    [] op = "satdiv" -> IF y = 0 THEN EDivZero ELSE Clamped(TDiv(x, y))
    [] op = "and" -> FromPattern(Pattern(x) & Pattern(y))
    [] op = "or"  -> FromPattern(Pattern(x) | Pattern(y))
    [] op = "xor" -> FromPattern(Pattern(x) ^^ Pattern(y))
    [] op = "shl" -> IF y < 0 THEN ENegShift ELSE IF y >= 8 THEN 0 ELSE FromPattern((x * 2^y) % 256)
    [] op = "shr" -> IF y < 0 THEN ENegShift ELSE IF y >= 8 THEN (IF x < 0 THEN -1 ELSE 0) ELSE x \div 2^y

Unary == Op = "neg"
Cols == IF Unary THEN {0} ELSE Dom
Row(x) == [k \in 1..(IF Unary THEN 1 ELSE 256) |-> Entry(Op, x, IF Unary THEN 0 ELSE Lo + k - 1)]

IsErr(c) == c >= 1000

(* ------------------------------------------------------------------ laws *)
Laws(x) ==
  \A y \in Cols :
    LET e == Entry(Op, x, y)
    IN /\ (~IsErr(e) => e \in Dom)
       /\ CASE Op \in {"add", "mul", "satadd", "satmul", "and", "or", "xor"} -> e = Entry(Op, y, x)
            [] Op \in {"div", "satdiv"} ->
                 y # 0 => LET q == TDiv(x, y)
                              r == TRem(x, y)
                          IN x = q * y + r /\ Abs(r) < Abs(y) /\ (r = 0 \/ (r < 0) = (x < 0))
            [] Op = "mod" -> y # 0 => ~IsErr(e)
            [] Op = "shl" -> (y >= 0 /\ y < 8) => (e - x * 2^y) % 256 = 0
            [] Op = "shr" -> (y >= 0 /\ y < 8) => (e * 2^y <= x /\ x < (e + 1) * 2^y)
            [] Op = "sub" -> (~IsErr(e) /\ ~IsWord) => e + y = x
            [] OTHER -> TRUE
       /\ (Op = "xor" => Entry("or", x, y) - Entry("and", x, y) = e)
       /\ (Op = "or" => Entry("and", x, y) + e = x + y)

(* ----------------------------------------- agreement with the relational judge *)
OutOf(c) == CASE c = ERange -> "overflow" [] c = EDivZero -> "divzero" [] c = ENegShift -> "negshift" [] OTHER -> "ok"
ValOf(c) == IF IsErr(c) THEN ZZero ELSE ZFromInt(c)

\* the relational judge on native entries: (c, c2) are the entries of the call and of `x % y`
Judge(T, x, y, c, c2) ==
  LET za == ZFromInt(x)
      zb == ZFromInt(y)
  IN CASE Op \in {"add", "sub", "mul", "neg", "satadd", "satsub", "satmul"} ->
            ValidArith(T, Op, za, zb, OutOf(c), ValOf(c), "", ZZero)
       [] Op = "div" -> ValidArith(T, "divmod", za, zb, OutOf(c), ValOf(c), OutOf(c2), ValOf(c2))
       [] Op = "mod" -> ValidArith(T, "divmod", za, zb, OutOf(c2), ValOf(c2), OutOf(c), ValOf(c))
       [] Op = "satdiv" -> ValidArith(T, "satdiv", za, zb, OutOf(c), ValOf(c), OutOf(c2), ValOf(c2))
       [] OTHER -> ValidBits(bt, T, Op, za, zb, OutOf(c), ValOf(c))

\* the other half of a division event (quotient for Op = mod, remainder otherwise)
Other(x, y) == IF Op = "mod" THEN Entry("div", x, y) ELSE Entry("mod", x, y)

Mutant1(c) == IF IsErr(c) THEN 0 ELSE c + 1                  \* off by one / error turned into a value
Mutant2(c) == IF IsErr(c) THEN (IF c = ERange THEN EDivZero ELSE ERange) ELSE ERange   \* value turned into an error

Agrees(x) ==
  LET T == tt[TName]
  IN \A y \in Cols :
       LET c  == Entry(Op, x, y)
           c2 == IF Op \in {"div", "mod", "satdiv"} THEN Other(x, y) ELSE 0
       IN /\ Judge(T, x, y, c, c2)
          /\ ~Judge(T, x, y, Mutant1(c), c2)
          /\ ~Judge(T, x, y, Mutant2(c), c2)

(* ----------------------------------------------------------------- model *)
\* tt and bt first: TLC then evaluates them once, not once per row
Init == tt = [nm \in {TName} |-> Full(TypeOf(nm))] /\ bt = BitTables /\ a \in Dom
Next == UNCHANGED <<a, tt, bt>>
Spec == Init /\ [][Next]_<<a, tt, bt>>

\* "some": the rows of the limits, of 0, +-1, 2 and every 16th row (quick tier); "all": every row
CrossRow(x) == \/ Cross = "all"
               \/ Cross = "some" /\ (x \in {Lo, Lo + 1, -1, 0, 1, 2, Hi - 1, Hi} \/ x % 16 = 5)

RowOK == /\ Laws(a)
         /\ (CrossRow(a) => Agrees(a))
         /\ PrintT(ToJson([t |-> TName, op |-> Op, a |-> a, v |-> Row(a)]))
=============================================================================
