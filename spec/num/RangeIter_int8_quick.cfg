SPECIFICATION Spec
CONSTANTS
  Lo <- M128
  Hi = 127
  Starts <- S8q
  Ends <- S8q
  Steps <- S8qs
  Wraps = FALSE
  PrintRows = TRUE
INVARIANTS TypeOK NeedsNoValueOutsideT YieldsTheSequence StopsAtTheEnd DenotationConsistent RejectedOnlyWhenSpecified Emit

