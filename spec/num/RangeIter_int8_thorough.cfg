SPECIFICATION Spec
CONSTANTS
  Lo <- M128
  Hi = 127
  Starts <- S8t
  Ends <- S8t
  Steps <- S8ts
  Wraps = FALSE
  PrintRows = TRUE
INVARIANTS TypeOK NeedsNoValueOutsideT YieldsTheSequence StopsAtTheEnd DenotationConsistent RejectedOnlyWhenSpecified Emit

