SPECIFICATION Spec
INVARIANT Emit
