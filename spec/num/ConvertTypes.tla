---------------------------- MODULE ConvertTypes ----------------------------
(***************************************************************************)
(* The numeric types of Cadence as the specifications of C15, C16 and C21  *)
(* see them: a type is  [name, signed, bits, word, scale]  with bits = 0   *)
(* for the unbounded types Int and UInt and scale = 0 for integer types;   *)
(* a fixed-point value v is represented by the integer v * 10^scale        *)
(* (scale 8 for Fix64 / UFix64, 24 for Fix128 / UFix128).  `FullType`      *)
(* adds the derived bounds min / max and the factor 10^scale.  The check   *)
(* compares this table with the declarations of sema (names, signedness,   *)
(* bounds, scale) before anything else is judged.                          *)
(*                                                                         *)
(* Also: the rounding relation IsRounded, used for fixed-point products,   *)
(* quotients, multiplyDivide and conversions.  The spec never computes a   *)
(* quotient: the rounded result is stated as inequalities on products.     *)
(***************************************************************************)
EXTENDS Bignum

RECURSIVE ZPow10(_)
ZPow10(k) == IF k = 0 THEN ZOne ELSE ZMulSmall(ZPow10(k - 1), 10)

TY(nm, s, b, w, sc) == [name |-> nm, signed |-> s, bits |-> b, word |-> w, scale |-> sc]

NumTypes == <<
  TY("Int8", TRUE, 8, FALSE, 0), TY("Int16", TRUE, 16, FALSE, 0), TY("Int32", TRUE, 32, FALSE, 0),
  TY("Int64", TRUE, 64, FALSE, 0), TY("Int128", TRUE, 128, FALSE, 0), TY("Int256", TRUE, 256, FALSE, 0),
  TY("Int", TRUE, 0, FALSE, 0),
  TY("UInt8", FALSE, 8, FALSE, 0), TY("UInt16", FALSE, 16, FALSE, 0), TY("UInt32", FALSE, 32, FALSE, 0),
  TY("UInt64", FALSE, 64, FALSE, 0), TY("UInt128", FALSE, 128, FALSE, 0), TY("UInt256", FALSE, 256, FALSE, 0),
  TY("UInt", FALSE, 0, FALSE, 0),
  TY("Word8", FALSE, 8, TRUE, 0), TY("Word16", FALSE, 16, TRUE, 0), TY("Word32", FALSE, 32, TRUE, 0),
  TY("Word64", FALSE, 64, TRUE, 0), TY("Word128", FALSE, 128, TRUE, 0), TY("Word256", FALSE, 256, TRUE, 0),
  TY("Fix64", TRUE, 64, FALSE, 8), TY("UFix64", FALSE, 64, FALSE, 8),
  TY("Fix128", TRUE, 128, FALSE, 24), TY("UFix128", FALSE, 128, FALSE, 24) >>

NumTypeNames == {NumTypes[i].name : i \in 1..Len(NumTypes)}
FixedTypeNames == {NumTypes[i].name : i \in {j \in 1..Len(NumTypes) : NumTypes[j].scale > 0}}
IntegerTypeNames == NumTypeNames \ FixedTypeNames
NumTypeOf(nm) == NumTypes[CHOOSE i \in 1..Len(NumTypes) : NumTypes[i].name = nm]

\* descriptor with derived bounds; TLC does not cache definitions that go through RECURSIVE
\* operators, so users build the table ONCE (into a state variable) and pass full descriptors
FullType(T) ==
  [name |-> T.name, signed |-> T.signed, bits |-> T.bits, word |-> T.word, scale |-> T.scale,
   hasmin |-> (~T.signed \/ T.bits > 0),
   hasmax |-> (T.bits > 0),
   min |-> IF T.signed /\ T.bits > 0 THEN ZNeg(ZPow2(T.bits - 1)) ELSE ZZero,
   max |-> IF T.bits = 0 THEN ZZero
           ELSE IF T.signed THEN ZSub(ZPow2(T.bits - 1), ZOne) ELSE ZSub(ZPow2(T.bits), ZOne),
   factor |-> ZPow10(T.scale)]

FullNumTypeTable == [nm \in NumTypeNames |-> FullType(NumTypeOf(nm))]

TInRange(T, x) == /\ (T.hasmin => ZLe(T.min, x))
                  /\ (T.hasmax => ZLe(x, T.max))

RangeErr == {"overflow", "underflow"}

-----------------------------------------------------------------------------
(* Rounding.  For integers N, D (D # 0) and a rounding rule,                *)
(*     IsRounded(N, D, rule, w)                                            *)
(* holds iff the integer w is the exact rational N / D rounded to an       *)
(* integer by the rule.  With n = |N|, d = |D|, m = |w|:                   *)
(*   towardZero       m*d <= n < (m+1)*d                                   *)
(*   awayFromZero     (m-1)*d < n <= m*d            (m = 0 iff n = 0)      *)
(*   nearestHalfAway  (2m-1)*d <= 2n < (2m+1)*d     (ties away from zero)  *)
(*   nearestHalfEven  (2m-1)*d <= 2n <= (2m+1)*d, a tie only for even m    *)
(* and w carries the sign of N / D unless it is zero.  For every N, D and  *)
(* rule exactly one w satisfies the relation (law checked in               *)
(* FixedPointLaws), so a result or a witness recorded from the             *)
(* implementation is accepted only if it is THE rounded value.             *)
(***************************************************************************)
RoundingRules == {"towardZero", "awayFromZero", "nearestHalfAway", "nearestHalfEven"}

MDouble(a) == MMulSmall(a, 2)
MEven(a) == a = << >> \/ a[1] % 2 = 0
MOneM == <<1>>

IsRoundedMag(n, d, rule, m) ==
  LET md   == MMul(m, d)
      m1d  == MAdd(md, d)                             \* (m+1)*d
      n2   == MDouble(n)
      up   == MAdd(MDouble(md), d)                    \* (2m+1)*d
      \* (2m-1)*d, only used for m > 0
      down == IF m = << >> THEN << >> ELSE MSub(MDouble(md), d)
  IN CASE rule = "towardZero" -> MCmp(md, n) <= 0 /\ MCmp(n, m1d) < 0
       [] rule = "awayFromZero" ->
            /\ MCmp(n, md) <= 0
            /\ IF m = << >> THEN n = << >> ELSE MCmp(MSub(md, d), n) < 0
       [] rule = "nearestHalfAway" ->
            /\ MCmp(n2, up) < 0
            /\ (m = << >> \/ MCmp(down, n2) <= 0)
       [] rule = "nearestHalfEven" ->
            /\ (MCmp(n2, up) < 0 \/ (n2 = up /\ MEven(m)))
            /\ (m = << >> \/ MCmp(down, n2) < 0 \/ (down = n2 /\ MEven(m)))

IsRounded(N, D, rule, w) ==
  /\ ~ZIsZero(D)
  /\ IsRoundedMag(N.m, D.m, rule, w.m)
  /\ (ZIsZero(w) \/ w.n = (N.n # D.n))

=============================================================================
