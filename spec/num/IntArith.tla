------------------------------ MODULE IntArith ------------------------------
(***************************************************************************)
(* The specified outcome of integer arithmetic in Cadence (properties C11,  *)
(* C12, C13), written from the property statements:                         *)
(*                                                                         *)
(*  C11  checked types (Int8..Int256, UInt8..UInt256, Int, UInt):           *)
(*       + - * / % and unary minus return the exact mathematical result    *)
(*       when it is representable (division truncates toward zero, the     *)
(*       remainder takes the dividend's sign), otherwise they fail with an *)
(*       overflow or underflow error (either is allowed); they never wrap. *)
(*       Division/remainder by zero fails with division-by-zero.           *)
(*       Int is unbounded; UInt fails only when a result is negative.      *)
(*  C12  Word8..Word256: + - * / reduced modulo 2^n, never overflow;       *)
(*       division/remainder by zero fails with division-by-zero.           *)
(*  C13  saturatingAdd/Subtract/Multiply/Divide: the exact result          *)
(*       (truncated as for the plain operator) clamped to [min, max];      *)
(*       the only failure is division by zero.  Also for the fixed-point   *)
(*       types, whose values are integers scaled by 10^scale.              *)
(*                                                                         *)
(* A type is a record [name, signed, bits, word, scale]; bits = 0 means    *)
(* unbounded; scale = 0 for integer types, 8 / 24 for the fixed-point      *)
(* types (a fixed-point value v is represented by the integer v*10^scale). *)
(*                                                                         *)
(* The judgement is RELATIONAL: `ValidArith` decides whether one recorded  *)
(* call  (type, op, a, b) -> (outcome, result)  of the implementation is   *)
(* allowed.  Sums, differences and products are computed exactly; the      *)
(* quotient and the remainder are never computed: a division event carries *)
(* the implementation's quotient AND remainder and the unique-decomposition*)
(* relation  a = q*b + r, |r| < |b|, sign r = sign a  is checked.          *)
(***************************************************************************)
EXTENDS Bignum

RECURSIVE ZPow10(_)
ZPow10(k) == IF k = 0 THEN ZOne ELSE ZMulSmall(ZPow10(k - 1), 10)

\* type descriptor
TY(nm, s, b, w, sc) == [name |-> nm, signed |-> s, bits |-> b, word |-> w, scale |-> sc]

\* descriptor with the derived bounds: min / max (meaningful iff HasMin / HasMax) and the
\* scale factor 10^scale.  TLC does not cache definitions that go through RECURSIVE operators,
\* so users build the table of full descriptors ONCE (e.g. into a state variable) and pass
\* full descriptors to every operator below.
Full(T) ==
  [name |-> T.name, signed |-> T.signed, bits |-> T.bits, word |-> T.word, scale |-> T.scale,
   min |-> IF T.signed /\ T.bits > 0 THEN ZNeg(ZPow2(T.bits - 1)) ELSE ZZero,
   max |-> IF T.bits = 0 THEN ZZero
           ELSE IF T.signed THEN ZSub(ZPow2(T.bits - 1), ZOne) ELSE ZSub(ZPow2(T.bits), ZOne),
   factor |-> ZPow10(T.scale)]

AllTypes == <<
  TY("Int8", TRUE, 8, FALSE, 0), TY("Int16", TRUE, 16, FALSE, 0), TY("Int32", TRUE, 32, FALSE, 0),
  TY("Int64", TRUE, 64, FALSE, 0), TY("Int128", TRUE, 128, FALSE, 0), TY("Int256", TRUE, 256, FALSE, 0),
  TY("Int", TRUE, 0, FALSE, 0),
  TY("UInt8", FALSE, 8, FALSE, 0), TY("UInt16", FALSE, 16, FALSE, 0), TY("UInt32", FALSE, 32, FALSE, 0),
  TY("UInt64", FALSE, 64, FALSE, 0), TY("UInt128", FALSE, 128, FALSE, 0), TY("UInt256", FALSE, 256, FALSE, 0),
  TY("UInt", FALSE, 0, FALSE, 0),
  TY("Word8", FALSE, 8, TRUE, 0), TY("Word16", FALSE, 16, TRUE, 0), TY("Word32", FALSE, 32, TRUE, 0),
  TY("Word64", FALSE, 64, TRUE, 0), TY("Word128", FALSE, 128, TRUE, 0), TY("Word256", FALSE, 256, TRUE, 0),
  TY("Fix64", TRUE, 64, FALSE, 8), TY("UFix64", FALSE, 64, FALSE, 8),
  TY("Fix128", TRUE, 128, FALSE, 24), TY("UFix128", FALSE, 128, FALSE, 24) >>

TypeNames == {AllTypes[i].name : i \in 1..Len(AllTypes)}
IntegerTypeNames == {AllTypes[i].name : i \in {j \in 1..Len(AllTypes) : AllTypes[j].scale = 0}}
TypeOf(nm) == AllTypes[CHOOSE i \in 1..Len(AllTypes) : AllTypes[i].name = nm]
FullTypeTable == [nm \in TypeNames |-> Full(TypeOf(nm))]

HasMin(T) == ~T.signed \/ T.bits > 0
HasMax(T) == T.bits > 0
TMax(T) == T.max      \* meaningful iff HasMax(T)
TMin(T) == T.min      \* meaningful iff HasMin(T)

InRange(T, x) == /\ (HasMin(T) => ZLe(TMin(T), x))
                 /\ (HasMax(T) => ZLe(x, TMax(T)))

Clamp(T, x) == IF HasMin(T) /\ ZLt(x, TMin(T)) THEN TMin(T)
               ELSE IF HasMax(T) /\ ZGt(x, TMax(T)) THEN TMax(T)
               ELSE x

ScaleOf(T) == T.factor

RangeErr == {"overflow", "underflow"}
Outcomes == {"ok", "overflow", "underflow", "divzero", "negshift"}

ArithOps == {"add", "sub", "mul", "divmod", "neg"}
SatOps   == {"satadd", "satsub", "satmul", "satdiv"}

Exact(op, a, b) == CASE op \in {"add", "satadd"} -> ZAdd(a, b)
                     [] op \in {"sub", "satsub"} -> ZSub(a, b)
                     [] op \in {"mul", "satmul"} -> ZMul(a, b)
                     [] op = "neg" -> ZNeg(a)

\* The truncated quotient of in-range operands is representable except for min / -1 of a
\* bounded signed type: |a / b| <= |a| for every b # 0, and |a| is representable unless a = min.
QuotientOutOfRange(T, a, b) ==
  T.signed /\ T.bits > 0 /\ ZEq(b, ZMinusOne) /\ ZEq(a, TMin(T))

(* ---------------------------------------------------------------- C11 *)
ValidChecked(T, exact, out, r) ==
  IF InRange(T, exact) THEN out = "ok" /\ ZEq(r, exact) ELSE out \in RangeErr

\* one event for `a / b` (out, q) and `a % b` (out2, r)
ValidDivMod(T, a, b, out, q, out2, r) ==
  IF ZIsZero(b) THEN out = "divzero" /\ out2 = "divzero"
  ELSE /\ out2 = "ok"                       \* |r| < |b|: the remainder is always representable
       /\ InRange(T, r)
       /\ IF QuotientOutOfRange(T, a, b)
          THEN out \in RangeErr /\ ZIsZero(r)
          ELSE out = "ok" /\ InRange(T, q) /\ ZIsTruncDivMod(a, b, q, r)

(* ---------------------------------------------------------------- C12 *)
ValidWord(T, exact, out, r) == out = "ok" /\ ZEq(r, ZWrap(FALSE, T.bits, exact))

(* ---------------------------------------------------------------- C13 *)
ValidSat(T, exact, out, r) == out = "ok" /\ ZEq(r, Clamp(T, exact))

\* saturatingDivide: (out, q) is the call, (out2, r) is `a % b` recorded as the witness
ValidSatDiv(T, a, b, out, q, out2, r) ==
  IF ZIsZero(b) THEN out = "divzero"
  ELSE IF QuotientOutOfRange(T, a, b) THEN out = "ok" /\ ZEq(q, TMax(T))
  ELSE out = "ok" /\ out2 = "ok" /\ InRange(T, q) /\ ZIsTruncDivMod(a, b, q, r)

(* Fixed-point saturating operations on the scaled integers (S = 10^scale):
     add/sub: clamp(a + b);
     mul:  t = trunc(a*b / S),  div:  t = trunc(a*S / b);   result clamp(t).
   Relationally (no quotient computed), for numerator N and denominator D (D # 0), with
   t = trunc(N / D):
     r = max  is right iff  t >= max  iff  N/D >= max  iff  (D > 0 /\ N >= max*D) \/ (D < 0 /\ N <= max*D)
     r = min  is right iff  t <= min  (symmetrically)
     otherwise min < r < max must be the truncated quotient itself: 0 <= |N - r*D| < |D| with the
     sign of the rest equal to the sign of N/D's fraction, i.e. rest = N - r*D satisfies
     ZIsTruncDivMod(N, D, r, rest). *)
QuotGe(N, D, x) == IF D.n THEN ZLe(N, ZMul(x, D)) ELSE ZGe(N, ZMul(x, D))   \* N/D >= x
QuotLe(N, D, x) == IF D.n THEN ZGe(N, ZMul(x, D)) ELSE ZLe(N, ZMul(x, D))   \* N/D <= x

ValidSatQuot(T, N, D, out, r) ==
  /\ out = "ok"
  /\ InRange(T, r)
  /\ \/ HasMax(T) /\ ZEq(r, TMax(T)) /\ QuotGe(N, D, TMax(T))
     \/ HasMin(T) /\ ZEq(r, TMin(T)) /\ QuotLe(N, D, TMin(T))
     \/ ZIsTruncDivMod(N, D, r, ZSub(N, ZMul(r, D)))

ValidFixSat(T, op, a, b, out, r) ==
  CASE op \in {"satadd", "satsub"} -> ValidSat(T, Exact(op, a, b), out, r)
    [] op = "satmul" -> ValidSatQuot(T, ZMul(a, b), ScaleOf(T), out, r)
    [] op = "satdiv" -> IF ZIsZero(b) THEN out = "divzero"
                        ELSE ValidSatQuot(T, ZMul(a, ScaleOf(T)), b, out, r)

(* ---------------------------------------------------------------- dispatch *)
\* which operations are arithmetic operations of a type in this specification
HasArithOp(T, op) ==
  CASE op \in {"add", "sub", "mul", "divmod"} -> T.scale = 0
    [] op = "neg" -> T.signed /\ ~T.word /\ T.scale = 0
    [] op \in SatOps -> ~T.word          \* which of them a type declares is read from sema by the driver
    [] OTHER -> FALSE

ValidArith(T, op, a, b, out, r, out2, r2) ==
  CASE op \in {"add", "sub", "mul"} ->
         IF T.word THEN ValidWord(T, Exact(op, a, b), out, r) ELSE ValidChecked(T, Exact(op, a, b), out, r)
    [] op = "neg" -> ValidChecked(T, Exact(op, a, b), out, r)
    [] op = "divmod" -> ValidDivMod(T, a, b, out, r, out2, r2)
    [] op \in {"satadd", "satsub", "satmul"} ->
         IF T.scale = 0 THEN ValidSat(T, Exact(op, a, b), out, r) ELSE ValidFixSat(T, op, a, b, out, r)
    [] op = "satdiv" ->
         IF T.scale = 0 THEN ValidSatDiv(T, a, b, out, r, out2, r2) ELSE ValidFixSat(T, op, a, b, out, r)

=============================================================================
