SPECIFICATION Spec
CONSTANTS N = 3
 Extra = {7, 8, 11, 12, 21, 40}
 FullShifts = FALSE
INVARIANT Emit
