SPECIFICATION Spec
CONSTANTS N = 8
 Extra = {}
 FullShifts = FALSE
INVARIANT Emit
