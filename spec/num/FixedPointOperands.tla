------------------------- MODULE FixedPointOperands -------------------------
(***************************************************************************)
(* Spec-defined, boundary-biased operand sets for the fixed-point types    *)
(* (property C15).  For every selected type TLC prints one JSON line       *)
(*   vals     0, +-1 unit, +-2 units, +-1.0 and its neighbours, +-0.5,     *)
(*            +-0.1, 2.0, 3.0, 10.0, min, min+1, max, max-1, max/2,        *)
(*            sqrt(max*F) and its neighbours (squares straddle the range), *)
(*            powers of two and their neighbours                           *)
(*   core     the subset all of whose pairs are exercised                  *)
(*   pairs    pairs whose product a*b/F or quotient a*F/b straddles max or *)
(*            min, or is smaller than one unit (truncates to zero)         *)
(*   triples  multiplyDivide operands: exact ties k/2 units, quarters,     *)
(*            results at / just beyond the bounds, intermediate products   *)
(*            far beyond the type's width, zero divisors                   *)
(* The driver adds VERIF_SEED-seeded random operands; everything it        *)
(* executes is judged by FixedPointJudge, so these sets only steer         *)
(* coverage.                                                               *)
(***************************************************************************)
EXTENDS FixedPoint, Json, TLC

CONSTANTS Sel,        \* set of fixed-point type names
          Dense       \* BOOLEAN: thorough (every exponent) or quick (thinned)

VARIABLE tn

Keep(T, S) == {x \in S : TInRange(T, x)}
PM(S) == S \cup {ZNeg(x) : x \in S}
Around(x) == {ZSub(x, ZOne), x, ZAdd(x, ZOne)}
KeepPairs(T, S) == {p \in S : TInRange(T, p[1]) /\ TInRange(T, p[2])}
KeepTriples(T, S) == {p \in S : TInRange(T, p[1]) /\ TInRange(T, p[2]) /\ TInRange(T, p[3])}

Units(S) == {ZFromInt(v) : v \in S}
F(T) == T.factor
Half(T) == ZMulSmall(ZPow10(T.scale - 1), 5)
Tenth(T) == ZPow10(T.scale - 1)
Whole(T, k) == ZMulSmall(T.factor, k)

SqrtLim(T) == Z(FALSE, MSqrt(ZMul(T.max, T.factor).m))
HalfMax(T) == ZFloorShr(T.max, 1)

Ks(T) == {k \in 1..(T.bits - 1) : Dense \/ k % 16 \in {0, 15} \/ k >= T.bits - 2}

Limits(T) == {T.max, ZSub(T.max, ZOne), T.min, ZAdd(T.min, ZOne)}

Vals(T) ==
  Keep(T, PM(Units({0, 1, 2, 3, 5, 7}))
          \cup PM(Around(F(T))) \cup PM(Around(Half(T))) \cup PM({Tenth(T), Whole(T, 2), Whole(T, 3), Whole(T, 10), Whole(T, 100)})
          \cup PM(Around(ZAdd(F(T), Half(T))))
          \cup Limits(T) \cup PM(Around(HalfMax(T)))
          \cup PM(Around(SqrtLim(T)))
          \cup PM(UNION {Around(ZPow2(k)) : k \in Ks(T)}))

Core(T) ==
  Keep(T, PM(Units({0, 1, 2, 3})) \cup PM({F(T), ZAdd(F(T), ZOne), ZSub(F(T), ZOne), Half(T), Tenth(T), Whole(T, 2), Whole(T, 10)})
          \cup Limits(T) \cup PM({HalfMax(T), ZAdd(HalfMax(T), ZOne)})
          \cup PM(Around(SqrtLim(T))))

SignPairs(T, x, y) ==
  IF T.signed THEN {<<x, y>>, <<ZNeg(x), y>>, <<x, ZNeg(y)>>, <<ZNeg(x), ZNeg(y)>>} ELSE {<<x, y>>}

\* products a*b/F around max (and min): a = 2^i (+-1), b = floor(max*F / 2^i) (+-1)
ProductPairs(T) ==
  LET lim == ZMul(T.max, T.factor)
  IN UNION {UNION {SignPairs(T, x, y) : x \in Around(ZPow2(i)), y \in Around(ZFloorShr(lim, i))} :
              i \in {j \in 1..(T.bits - 2) : Dense \/ j % 6 = 0}}
     \cup UNION {SignPairs(T, x, y) : x \in Around(SqrtLim(T)), y \in Around(SqrtLim(T))}
     \cup UNION {SignPairs(T, x, y) : x \in {T.max, ZSub(T.max, ZOne), HalfMax(T), ZAdd(HalfMax(T), ZOne)},
                                      y \in Around(F(T)) \cup Around(Whole(T, 2)) \cup Units({1, 2, 3})}

\* quotients a*F/b around max: b = F / 2^i (exact, 2^i divides 10^scale for i <= scale), a around max / 2^i
QuotientPairs(T) ==
  UNION {UNION {SignPairs(T, x, y) : x \in Around(ZFloorShr(T.max, i)), y \in Around(ZFloorShr(F(T), i))} :
           i \in {j \in 1..T.scale : Dense \/ j % 3 = 1}}
  \cup UNION {SignPairs(T, x, y) : x \in Limits(T),
                                   y \in Around(F(T)) \cup {Half(T), Tenth(T), ZOne, ZSub(F(T), ZOne)} \cup Around(Whole(T, 2))}
  \cup {<<T.min, ZNeg(F(T))>>, <<T.min, ZMinusOne>>, <<T.min, T.min>>, <<T.max, T.min>>, <<T.min, T.max>>, <<T.max, T.max>>}

\* results below one unit (truncate to zero) and exactly one unit
SubUnitPairs(T) ==
  UNION {SignPairs(T, x, y) : x \in Units({1, 2, 3, 9}), y \in {Half(T), Tenth(T), ZSub(F(T), ZOne), F(T), ZOne, ZAdd(Half(T), ZOne), ZSub(Half(T), ZOne)}}
  \cup UNION {SignPairs(T, x, y) : x \in Units({1, 2, 3}), y \in {Whole(T, 2), Whole(T, 3), Whole(T, 10), T.max, HalfMax(T), ZAdd(F(T), ZOne)}}
  \cup UNION {SignPairs(T, x, y) : x \in {F(T), Half(T)}, y \in {T.max, ZSub(T.max, ZOne), HalfMax(T)}}

\* sums and differences around the bounds
SumPairs(T) ==
  LET xs == Units({0, 1, 2}) \cup {F(T), Half(T)}
  IN UNION {{<<ZSub(T.max, x), x>>, <<ZSub(T.max, x), ZAdd(x, ZOne)>>, <<x, ZSub(T.max, x)>>,
             <<ZAdd(T.min, x), ZNeg(x)>>, <<ZAdd(T.min, x), ZNeg(ZAdd(x, ZOne))>>,
             <<ZAdd(T.min, x), x>>, <<ZAdd(T.min, x), ZAdd(x, ZOne)>>} : x \in xs}
     \cup {<<T.max, T.max>>, <<T.min, T.min>>, <<T.max, T.min>>, <<T.min, T.max>>, <<ZZero, T.min>>}

Pairs(T) == KeepPairs(T, ProductPairs(T) \cup QuotientPairs(T) \cup SubUnitPairs(T) \cup SumPairs(T))

SignTriples(T, x, y, z) ==
  IF T.signed THEN {<<x, y, z>>, <<ZNeg(x), y, z>>, <<x, ZNeg(y), z>>, <<x, y, ZNeg(z)>>, <<ZNeg(x), ZNeg(y), ZNeg(z)>>}
  ELSE {<<x, y, z>>}

Triples(T) ==
  KeepTriples(T,
    \* exact ties k/2 units, quarters and three quarters
    UNION {SignTriples(T, k, F(T), Whole(T, 2)) : k \in Units({1, 2, 3, 4, 5, 7})}
    \cup UNION {SignTriples(T, k, F(T), Whole(T, 4)) : k \in Units({1, 2, 3, 5, 6, 7})}
    \cup UNION {SignTriples(T, k, Half(T), F(T)) : k \in Units({1, 3, 5})}
    \cup UNION {SignTriples(T, k, ZOne, d) : k \in Units({1, 3, 5, 7}), d \in Units({2, 3, 4, 6})}
    \* thirds
    \cup UNION {SignTriples(T, k, F(T), Whole(T, 3)) : k \in Units({1, 2, 4, 5})}
    \* at and just beyond the bounds; intermediate product far beyond the width
    \cup UNION {SignTriples(T, x, y, y) : x \in {T.max, ZSub(T.max, ZOne)}, y \in {T.max, F(T), ZOne, Whole(T, 2)}}
    \cup UNION {SignTriples(T, x, ZAdd(y, ZOne), y) : x \in {T.max, ZSub(T.max, ZOne), HalfMax(T)}, y \in {T.max, F(T), Whole(T, 2), ZSub(T.max, ZOne)}}
    \cup UNION {SignTriples(T, x, y, ZAdd(y, ZOne)) : x \in {T.max, ZSub(T.max, ZOne)}, y \in {ZSub(T.max, ZOne), F(T), Whole(T, 2)}}
    \cup UNION {SignTriples(T, x, y, z) : x \in {T.max, HalfMax(T)}, y \in {Whole(T, 2), Whole(T, 3)}, z \in {Whole(T, 2), Whole(T, 3), Whole(T, 4)}}
    \cup {<<T.min, T.min, T.min>>, <<T.min, T.max, T.max>>, <<T.min, F(T), ZNeg(F(T))>>, <<T.min, ZNeg(F(T)), F(T)>>,
          <<T.min, ZMinusOne, ZOne>>, <<T.min, ZOne, ZMinusOne>>, <<T.max, T.min, T.min>>, <<T.min, T.min, T.max>>}
    \* zero divisor, zero factors
    \cup {<<F(T), F(T), ZZero>>, <<ZZero, ZZero, ZZero>>, <<T.max, T.max, ZZero>>, <<ZZero, T.max, ZOne>>, <<T.max, ZZero, ZOne>>}
    \* sub-unit results
    \cup UNION {SignTriples(T, x, y, z) : x \in Units({1, 2}), y \in Units({1, 3}), z \in {T.max, F(T), ZFromInt(7)}}
    \* 256-bit by 128-bit long division: quotients whose low 64-bit word is 2^64 - 2 with a divisor just above
    \* one factor (found by the seeded random search; kept as fixed triples)
    \cup (IF T.bits = 128
          THEN UNION {SignTriples(T, ZSub(ZPow2(p[1]), ZOne), ZFromDec(p[2]), ZAdd(ZFromDec(p[2]), ZFromInt(p[3]))) :
                        p \in {<<102, "3836030005753378615522236843275493591", 1>>,
                               <<67, "8017132924543464544558133185184056300", 518>>,
                               <<69, "1350186674624000761051862831718666490", 417>>}}
          ELSE {}))

Init == tn \in Sel
Next == UNCHANGED tn
Spec == Init /\ [][Next]_tn

Emit == LET T == FullType(NumTypeOf(tn))
        IN /\ ZIsFloorSqrt(ZMul(T.max, T.factor), SqrtLim(T))                 \* generator sanity
           /\ PrintT(ToJson([t |-> tn, vals |-> Vals(T), core |-> Core(T), pairs |-> Pairs(T), triples |-> Triples(T)]))
=============================================================================
