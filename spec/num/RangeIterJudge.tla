--------------------------- MODULE RangeIterJudge ---------------------------
(***************************************************************************)
(* C21 for the integer types wider than 8 bits: relational validation of   *)
(* events recorded from the real implementation (impl -> spec).            *)
(*                                                                         *)
(* The same statement as RangeIter.tla, on exact integers (Bignum):        *)
(* constructor preconditions, the denoted sequence, iteration yields       *)
(* exactly that sequence, contains(x) <=> x is a member, nothing fails.    *)
(* One event = one range observed on one engine (or on both, when the      *)
(* observations coincide):                                                 *)
(*   t, start, end, has, arg   the constructor call                        *)
(*   ctor    ok | rangector | ...        outcome of the constructor        *)
(*   step    the `step` field of the constructed range                     *)
(*   n       WITNESS: number of members (checked: n >= 1, the n-th element *)
(*           is not beyond end and the (n+1)-th is)                        *)
(*   iter    ok | runaway | overflow | ...   outcome of the for-in loop    *)
(*   seq     the elements the loop yielded                                 *)
(*   cs      contains observations [x, out, r] with WITNESSES q, m of the  *)
(*           decomposition  x - start = q*step + m, |m| < |step|           *)
(* Witnesses are computed by the driver and only accepted when the unique  *)
(* decomposition relation holds - an event with a wrong witness is         *)
(* "malformed" (harness error), never a verdict.                           *)
(***************************************************************************)
EXTENDS ConvertTypes, Json, TLC

CONSTANT TraceFile
Trace == ndJsonDeserialize(TraceFile)

VARIABLES i, tt

Fields == {"k", "t", "start", "end", "has", "arg", "ctor", "step", "n", "iter", "seq", "cs"}

Beyond(x, bound, step) == IF step.n THEN ZLt(x, bound) ELSE ZGt(x, bound)

DefaultStep(s, e) == IF ZLe(s, e) THEN ZOne ELSE ZMinusOne
StepOf(ev) == IF ev.has THEN ev.arg ELSE DefaultStep(ev.start, ev.end)
MovesAway(s, e, st) == (ZLt(s, e) /\ st.n) \/ (ZGt(s, e) /\ ~st.n /\ ~ZIsZero(st))

CtorOK(T, ev) ==
  LET st == StepOf(ev)
  IN TInRange(T, st) /\ ~ZIsZero(st) /\ ~MovesAway(ev.start, ev.end, st)

\* k-th element (k >= 1, native) of the sequence
Elem(ev, k) == ZAdd(ev.start, ZMul(ZFromInt(k - 1), StepOf(ev)))

WFc(T, c) == /\ {"x", "out", "r", "q", "m"} \subseteq DOMAIN c
             /\ IsZ(c.x) /\ IsZ(c.q) /\ IsZ(c.m) /\ c.r \in BOOLEAN
             /\ TInRange(T, c.x)

WF(ev) ==
  /\ Fields \subseteq DOMAIN ev
  /\ ev.t \in IntegerTypeNames
  /\ IsZ(ev.start) /\ IsZ(ev.end) /\ IsZ(ev.arg) /\ IsZ(ev.step)
  /\ ev.has \in BOOLEAN
  /\ ev.n \in 0..1000
  /\ LET T == tt[ev.t]
     IN /\ TInRange(T, ev.start) /\ TInRange(T, ev.end) /\ (ev.has => TInRange(T, ev.arg))
        /\ \A j \in 1..Len(ev.seq) : IsZ(ev.seq[j])
        /\ \A j \in 1..Len(ev.cs) : WFc(T, ev.cs[j])
        \* the witnesses
        /\ (CtorOK(T, ev) =>
              /\ ev.n >= 1
              /\ ~Beyond(Elem(ev, ev.n), ev.end, StepOf(ev))
              /\ Beyond(Elem(ev, ev.n + 1), ev.end, StepOf(ev))
              /\ \A j \in 1..Len(ev.cs) :
                   LET c == ev.cs[j]
                   IN ZIsTruncDivMod(ZSub(c.x, ev.start), StepOf(ev), c.q, c.m))

\* x is a member: on the start side of end, on the end side of start, a whole number of steps away
IsMember(ev, c) ==
  LET st == StepOf(ev)
  IN ~Beyond(c.x, ev.end, st) /\ ~Beyond(ev.start, c.x, st) /\ ZIsZero(c.m)

IterOK(ev) ==
  /\ ev.iter = "ok"
  /\ Len(ev.seq) = ev.n
  /\ \A j \in 1..Len(ev.seq) : ZEq(ev.seq[j], Elem(ev, j))

ContainsOK(ev, c) == c.out = "ok" /\ (c.r <=> IsMember(ev, c))

\* ---- named deviations (see RangeIter.tla) ------------------------------------------------
Last(ev) == Elem(ev, ev.n)

DevIter(T, ev) ==
  IF TInRange(T, ZAdd(Last(ev), StepOf(ev))) THEN "none"
  ELSE IF T.word THEN "DevEagerNextWraps" ELSE "DevEagerNext"

\* the observed loop outcome is exactly what the deviation predicts
DevIterExplains(T, ev) ==
  CASE DevIter(T, ev) = "DevEagerNext" -> ev.iter \in RangeErr
    [] DevIter(T, ev) = "DevEagerNextWraps" ->
         \* the loop continues from the wrapped sum for as long as that is not beyond end
         LET nx(x) == ZWrap(FALSE, T.bits, ZAdd(x, StepOf(ev)))
             len == Len(ev.seq)
         IN /\ ev.iter \in {"ok", "runaway"}
            /\ len > ev.n
            /\ ZEq(ev.seq[1], ev.start)
            /\ \A j \in 1..(len - 1) : ZEq(ev.seq[j + 1], nx(ev.seq[j]))
            /\ \A j \in 1..len : ~Beyond(ev.seq[j], ev.end, StepOf(ev))
            /\ (ev.iter = "ok" => Beyond(nx(ev.seq[len]), ev.end, StepOf(ev)))
    [] OTHER -> FALSE

StrictlyBetween(x, s, e) == (ZLt(s, x) /\ ZLt(x, e)) \/ (ZLt(e, x) /\ ZLt(x, s))

DevContains(T, ev, c) ==
  IF c.out \in RangeErr /\ ~T.word /\ StrictlyBetween(c.x, ev.start, ev.end) /\ ~TInRange(T, ZSub(c.x, ev.start))
  THEN "DevContainsDiff"
  ELSE IF c.out = "ok" /\ c.r /\ ZEq(c.x, ev.end) /\ ~ZEq(Last(ev), ev.end)
  THEN "DevContainsEnd"
  ELSE "none"

\* ---- verdict --------------------------------------------------------------------------------
\* list of problems of one event; each is [what, dev, x, exp]
Problems(ev) ==
  LET T == tt[ev.t]
      none == [n |-> FALSE, m |-> << >>]
  IN IF ev.ctor # "ok"
     THEN IF CtorOK(T, ev) /\ ev.ctor = "rangector"
          THEN <<[what |-> "ctor-rejects", dev |-> "none", x |-> none, exp |-> "constructed"]>>
          ELSE IF ev.ctor # "rangector"
          THEN <<[what |-> "ctor-fails", dev |-> "none", x |-> none, exp |-> IF CtorOK(T, ev) THEN "constructed" ELSE "rangector"]>>
          ELSE << >>
     ELSE IF ~CtorOK(T, ev)
     THEN <<[what |-> "ctor-accepts", dev |-> "none", x |-> none, exp |-> "rangector"]>>
     ELSE (IF ZEq(ev.step, StepOf(ev)) THEN << >>
           ELSE <<[what |-> "step", dev |-> "none", x |-> none, exp |-> "step field = step argument or default"]>>)
          \o (IF IterOK(ev) THEN << >>
              ELSE <<[what |-> "iter", dev |-> IF DevIterExplains(T, ev) THEN DevIter(T, ev) ELSE "none", x |-> none,
                      exp |-> "the n members in order"]>>)
          \o SelectSeq([j \in 1..Len(ev.cs) |->
                          LET c == ev.cs[j]
                          IN IF ContainsOK(ev, c) THEN [what |-> "fine", dev |-> "none", x |-> none, exp |-> ""]
                             ELSE [what |-> "contains", dev |-> DevContains(T, ev, c), x |-> c.x,
                                   exp |-> IF IsMember(ev, c) THEN "true" ELSE "false"]],
                       LAMBDA p : p.what # "fine")

Init == i = 0 /\ tt = FullNumTypeTable
Next == i < Len(Trace) /\ i' = i + 1 /\ UNCHANGED tt
Spec == Init /\ [][Next]_<<i, tt>>

\* always TRUE: rejected events are printed, not model errors
Judged == i = 0 \/ LET ev == Trace[i]
                   IN IF ~WF(ev) THEN PrintT(ToJson([k |-> ev.k, v |-> "malformed", ps |-> << >>]))
                      ELSE LET ps == Problems(ev)
                           IN ps = << >> \/ PrintT(ToJson([k |-> ev.k, v |-> "bad", ps |-> ps]))
=============================================================================
