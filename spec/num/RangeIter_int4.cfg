SPECIFICATION Spec
CONSTANTS
  Lo <- M8
  Hi = 7
  Starts <- S4
  Ends <- S4
  Steps <- S4
  Wraps = FALSE
  PrintRows = FALSE
INVARIANTS TypeOK NeedsNoValueOutsideT YieldsTheSequence StopsAtTheEnd DenotationConsistent RejectedOnlyWhenSpecified Emit
PROPERTY Termination
