------------------------------- MODULE Bignum -------------------------------
(***************************************************************************)
(* Exact integers for a model checker whose native integers have 32 bits.  *)
(*                                                                         *)
(* A MAGNITUDE is a little-endian sequence of limbs in base B = 2^15       *)
(* without most-significant zero limbs (<< >> is zero).  Base 2^15 is the  *)
(* largest power of two for which every intermediate of the schoolbook     *)
(* algorithms,  x*y + carry + acc  <=  (B-1)^2 + 2(B-1)  =  B^2 - 1,       *)
(* stays below 2^31.                                                       *)
(*                                                                         *)
(* An INTEGER ("Z") is a record  [n |-> BOOLEAN, m |-> magnitude] : n is   *)
(* TRUE for negative numbers, zero is [n |-> FALSE, m |-> << >>] (there is *)
(* no negative zero).  This is also the JSON encoding the Go drivers log:  *)
(* {"n":false,"m":[l0,l1,...]}, so a logged operand IS a spec value once   *)
(* IsZ has accepted it.                                                    *)
(*                                                                         *)
(* Naming: M* operators work on magnitudes, Z* on signed integers.         *)
(* Only +, -, *, comparison, multiplication/reduction by powers of two and *)
(* limb-wise bit operations are computed.  General quotients are never     *)
(* computed: division, remainder, right shift (and square roots) are       *)
(* judged RELATIONALLY, with the implementation's logged result as the     *)
(* witness (ZIsTruncDivMod, ZIsFloorShr).                                  *)
(*                                                                         *)
(* Other specification families (fixed point, conversions, literals,       *)
(* ranges) EXTEND this module.                                             *)
(***************************************************************************)
EXTENDS Integers, Sequences, Bitwise

LB == 15                                \* bits per limb
B  == 32768                             \* limb base 2^LB

Min2(x, y) == IF x <= y THEN x ELSE y
Max2(x, y) == IF x >= y THEN x ELSE y

\* 2^k for 0 <= k <= 30 as a native integer
P2(k) == 2^k

-----------------------------------------------------------------------------
(* Magnitudes                                                              *)

IsLimb(x) == x \in 0..(B - 1)

\* well-formedness of a magnitude (used on everything that comes from a log)
IsM(s) == /\ DOMAIN s = 1..Len(s)
          /\ \A i \in 1..Len(s) : IsLimb(s[i])
          /\ (Len(s) > 0 => s[Len(s)] # 0)

RECURSIVE TrimLen(_, _)
TrimLen(s, k) == IF k = 0 THEN 0 ELSE IF s[k] # 0 THEN k ELSE TrimLen(s, k - 1)

\* drop most-significant zero limbs
Trim(s) == LET k == TrimLen(s, Len(s)) IN IF k = Len(s) THEN s ELSE SubSeq(s, 1, k)

LimbAt(s, i) == IF i <= Len(s) THEN s[i] ELSE 0

\* compare: -1, 0, 1
RECURSIVE CmpFrom(_, _, _)
CmpFrom(a, b, i) ==
  IF i = 0 THEN 0
  ELSE IF a[i] < b[i] THEN -1 ELSE IF a[i] > b[i] THEN 1 ELSE CmpFrom(a, b, i - 1)

MCmp(a, b) ==
  IF Len(a) # Len(b) THEN (IF Len(a) < Len(b) THEN -1 ELSE 1) ELSE CmpFrom(a, b, Len(a))

\* carry normalisation of a sequence of non-negative "wide limbs" (each < 2^31 - B)
RECURSIVE Carry(_, _, _, _)
Carry(s, i, c, acc) ==
  IF i > Len(s) THEN (IF c = 0 THEN acc ELSE Append(acc, c))   \* final carry < B by construction
  ELSE LET v == s[i] + c IN Carry(s, i + 1, v \div B, Append(acc, v % B))

MAdd(a, b) ==
  LET n == Max2(Len(a), Len(b))
  IN Carry([i \in 1..n |-> LimbAt(a, i) + LimbAt(b, i)], 1, 0, << >>)

\* a - b for a >= b
RECURSIVE Borrow(_, _, _, _, _)
Borrow(a, b, i, c, acc) ==
  IF i > Len(a) THEN acc
  ELSE LET v == a[i] - LimbAt(b, i) - c
       IN IF v < 0 THEN Borrow(a, b, i + 1, 1, Append(acc, v + B))
                   ELSE Borrow(a, b, i + 1, 0, Append(acc, v))

MSub(a, b) == Trim(Borrow(a, b, 1, 0, << >>))

\* a*d + c with per-limb carry: every intermediate a[i]*d + c < B^2
RECURSIVE MulSmallC(_, _, _, _, _)
MulSmallC(a, d, i, c, acc) ==
  IF i > Len(a) THEN (IF c = 0 THEN acc ELSE Append(acc, c))
  ELSE LET v == a[i] * d + c IN MulSmallC(a, d, i + 1, v \div B, Append(acc, v % B))

MMulSmall(a, d) ==
  IF d = 0 \/ a = << >> THEN << >> ELSE IF d = 1 THEN a ELSE MulSmallC(a, d, 1, 0, << >>)

\* a*d + e for natives 0 <= d, e < B (digit-string conversion)
MMulAddSmall(a, d, e) ==
  IF a = << >> THEN (IF e = 0 THEN << >> ELSE <<e>>) ELSE Trim(MulSmallC(a, d, 1, e, << >>))

Zeros(k) == [i \in 1..k |-> 0]

\* a * B^k
MShiftLimbs(a, k) == IF a = << >> THEN << >> ELSE Zeros(k) \o a

\* Schoolbook product by columns.  A limb product p = a[i]*b[j] < B^2 is split into
\* p % B (column i+j-1) and p \div B (column i+j); a column therefore sums at most
\* 2*Len limbs < B, which stays far below 2^31, and one carry pass normalises the result.
RECURSIVE ColSum(_, _, _, _, _, _)
ColSum(a, b, k, i, hi, acc) ==       \* sum over i..hi of low(a[i]*b[k+1-i]) + high(a[i]*b[k-i])
  IF i > hi THEN acc
  ELSE LET j  == k + 1 - i
           lo == IF j >= 1 /\ j <= Len(b) THEN (a[i] * b[j]) % B ELSE 0
           up == IF j >= 2 /\ j - 1 <= Len(b) THEN (a[i] * b[j - 1]) \div B ELSE 0
       IN ColSum(a, b, k, i + 1, hi, acc + lo + up)

MMul(a, b) ==
  IF a = << >> \/ b = << >> THEN << >>
  ELSE LET n == Len(a) + Len(b)
       IN Trim(Carry([k \in 1..n |-> ColSum(a, b, k, Max2(1, k - Len(b)), Min2(Len(a), k), 0)], 1, 0, << >>))

\* 2^k as a magnitude
MPow2(k) == [i \in 1..(k \div LB + 1) |-> IF i = k \div LB + 1 THEN P2(k % LB) ELSE 0]

\* a * 2^k
MShl(a, k) == MShiftLimbs(MMulSmall(a, P2(k % LB)), k \div LB)

\* a mod 2^k  (the low k bits; no division involved: limbs are cut and one limb is masked)
MLowBits(a, k) ==
  LET full == k \div LB
      rest == k % LB
      n    == Min2(Len(a), IF rest = 0 THEN full ELSE full + 1)
  IN Trim([i \in 1..n |-> IF i = full + 1 THEN a[i] % P2(rest) ELSE a[i]])

\* floor(a / 2^k), computed by dropping limbs and re-aligning bits.  Provided for
\* generators and for cross-checking; judgements of implementation results use the
\* inequality form ZIsFloorShr instead.
MShr(a, k) ==
  LET full == k \div LB
      rest == k % LB
      n    == Len(a) - full
  IN IF n <= 0 THEN << >>
     ELSE IF rest = 0 THEN SubSeq(a, full + 1, Len(a))
     ELSE Trim([i \in 1..n |-> (a[full + i] \div P2(rest))
                               + (LimbAt(a, full + i + 1) % P2(rest)) * P2(LB - rest)])

\* number of significant bits of a native 0 <= x < B
RECURSIVE NatBitLen(_)
NatBitLen(x) == IF x = 0 THEN 0 ELSE 1 + NatBitLen(x \div 2)

\* number of significant bits (0 for zero)
MBitLen(a) == IF a = << >> THEN 0 ELSE LB * (Len(a) - 1) + NatBitLen(a[Len(a)])

\* bit k (0-based) of a
MBit(a, k) == (LimbAt(a, k \div LB + 1) \div P2(k % LB)) % 2

\* limb-wise bit operations, reference definitions (CommunityModules Bitwise works on
\* naturals; limbs are < 2^15).  They are slow in TLC (one recursion step per bit).
MAnd(a, b) == Trim([i \in 1..Min2(Len(a), Len(b)) |-> a[i] & b[i]])
MOr(a, b)  == [i \in 1..Max2(Len(a), Len(b)) |-> LimbAt(a, i) | LimbAt(b, i)]
MXor(a, b) == Trim([i \in 1..Max2(Len(a), Len(b)) |-> LimbAt(a, i) ^^ LimbAt(b, i)])

\* The same operations through 32 x 32 tables on 5-bit digits (a limb is three digits).
\* BitTables is derived from Bitwise; users evaluate it ONCE (into a state variable: TLC does
\* not cache definitions that go through RECURSIVE operators) and pass it to the T-variants.
\* BignumLaws checks that the T-variants agree with the reference definitions.
BitTables == [and |-> [x \in 0..31 |-> [y \in 0..31 |-> x & y]],
              or  |-> [x \in 0..31 |-> [y \in 0..31 |-> x | y]],
              xor |-> [x \in 0..31 |-> [y \in 0..31 |-> x ^^ y]]]

LimbOpT(tab, x, y) == tab[x % 32][y % 32]
                      + 32 * tab[(x \div 32) % 32][(y \div 32) % 32]
                      + 1024 * tab[x \div 1024][y \div 1024]

MAndT(bt, a, b) == Trim([i \in 1..Min2(Len(a), Len(b)) |-> LimbOpT(bt.and, a[i], b[i])])
MOrT(bt, a, b)  == [i \in 1..Max2(Len(a), Len(b)) |-> LimbOpT(bt.or, LimbAt(a, i), LimbAt(b, i))]
MXorT(bt, a, b) == Trim([i \in 1..Max2(Len(a), Len(b)) |-> LimbOpT(bt.xor, LimbAt(a, i), LimbAt(b, i))])

\* native natural -> magnitude (n < 2^31)
RECURSIVE MFromNat(_)
MFromNat(n) == IF n = 0 THEN << >> ELSE <<n % B>> \o MFromNat(n \div B)

\* magnitude -> native natural; only defined below 2^31
MFitsNat(a) == Len(a) <= 2 \/ (Len(a) = 3 /\ a[3] = 1)
MToNat(a) == LimbAt(a, 1) + LimbAt(a, 2) * B + LimbAt(a, 3) * B * B

\* big-endian digit sequence in a small base (2 <= base <= B) -> magnitude
RECURSIVE MFromDigitsAcc(_, _, _, _)
MFromDigitsAcc(ds, base, i, acc) ==
  IF i > Len(ds) THEN acc ELSE MFromDigitsAcc(ds, base, i + 1, MMulAddSmall(acc, base, ds[i]))
MFromDigits(ds, base) == MFromDigitsAcc(ds, base, 1, << >>)

DigitVal(c) ==
  CASE c = "0" -> 0  [] c = "1" -> 1  [] c = "2" -> 2  [] c = "3" -> 3  [] c = "4" -> 4
    [] c = "5" -> 5  [] c = "6" -> 6  [] c = "7" -> 7  [] c = "8" -> 8  [] c = "9" -> 9
    [] c = "a" -> 10 [] c = "b" -> 11 [] c = "c" -> 12 [] c = "d" -> 13 [] c = "e" -> 14
    [] c = "f" -> 15 [] c = "A" -> 10 [] c = "B" -> 11 [] c = "C" -> 12 [] c = "D" -> 13
    [] c = "E" -> 14 [] c = "F" -> 15

\* string of digits (no sign, no prefix) in base 2..16 -> magnitude
MFromString(s, base) == MFromDigits([i \in 1..Len(s) |-> DigitVal(SubSeq(s, i, i))], base)

-----------------------------------------------------------------------------
(* Signed integers                                                         *)

Z(neg, mag) == [n |-> (neg /\ mag # << >>), m |-> mag]
ZZero == [n |-> FALSE, m |-> << >>]
ZOne  == [n |-> FALSE, m |-> <<1>>]
ZMinusOne == [n |-> TRUE, m |-> <<1>>]

IsZ(x) == /\ DOMAIN x = {"n", "m"}
          /\ x.n \in BOOLEAN
          /\ IsM(x.m)
          /\ (x.m = << >> => ~x.n)

ZFromInt(i) == IF i < 0 THEN [n |-> TRUE, m |-> MFromNat(0 - i)] ELSE [n |-> FALSE, m |-> MFromNat(i)]
ZFitsInt(x) == MFitsNat(x.m)
ZToInt(x) == IF x.n THEN 0 - MToNat(x.m) ELSE MToNat(x.m)

\* "hex" / decimal strings with optional leading "-"
ZFromString(s, base) ==
  IF Len(s) > 0 /\ SubSeq(s, 1, 1) = "-"
  THEN Z(TRUE, MFromString(SubSeq(s, 2, Len(s)), base))
  ELSE Z(FALSE, MFromString(s, base))
ZFromHex(s) == ZFromString(s, 16)
ZFromDec(s) == ZFromString(s, 10)

ZIsZero(x) == x.m = << >>
ZSign(x) == IF x.m = << >> THEN 0 ELSE IF x.n THEN -1 ELSE 1
ZNeg(x) == Z(~x.n, x.m)
ZAbs(x) == [n |-> FALSE, m |-> x.m]

ZCmp(x, y) ==
  IF x.n # y.n THEN (IF x.n THEN -1 ELSE 1)
  ELSE IF x.n THEN MCmp(y.m, x.m) ELSE MCmp(x.m, y.m)

ZEq(x, y) == x.n = y.n /\ x.m = y.m
ZLt(x, y) == ZCmp(x, y) < 0
ZLe(x, y) == ZCmp(x, y) <= 0
ZGt(x, y) == ZCmp(x, y) > 0
ZGe(x, y) == ZCmp(x, y) >= 0

ZAdd(x, y) ==
  IF x.n = y.n THEN [n |-> x.n, m |-> MAdd(x.m, y.m)]
  ELSE LET c == MCmp(x.m, y.m)
       IN IF c = 0 THEN ZZero
          ELSE IF c > 0 THEN [n |-> x.n, m |-> MSub(x.m, y.m)]
          ELSE [n |-> y.n, m |-> MSub(y.m, x.m)]

ZSub(x, y) == ZAdd(x, ZNeg(y))
ZMul(x, y) == Z(x.n # y.n, MMul(x.m, y.m))
ZPow2(k) == [n |-> FALSE, m |-> MPow2(k)]
ZShl(x, k) == Z(x.n, MShl(x.m, k))                \* x * 2^k, exact
ZMulSmall(x, d) == Z(x.n, MMulSmall(x.m, d))      \* x * d for a native 0 <= d < B

\* floor(x / 2^k) computed (for generators; judgements use ZIsFloorShr)
ZFloorShr(x, k) ==
  IF ~x.n THEN Z(FALSE, MShr(x.m, k))
  ELSE LET q == MShr(x.m, k)
       IN IF MLowBits(x.m, k) = << >> THEN Z(TRUE, q) ELSE Z(TRUE, MAdd(q, <<1>>))

-----------------------------------------------------------------------------
(* Relational judgements: the spec never computes a quotient.              *)

\* q = a / b truncated toward zero and r = the remainder with the dividend's sign,
\* for b # 0: the unique pair with a = q*b + r, |r| < |b|, r = 0 or sign r = sign a.
ZIsTruncDivMod(a, b, q, r) ==
  /\ ~ZIsZero(b)
  /\ ZEq(a, ZAdd(ZMul(q, b), r))
  /\ MCmp(r.m, b.m) < 0
  /\ (ZIsZero(r) \/ r.n = a.n)

\* r = floor(x / 2^k):  r * 2^k <= x < (r + 1) * 2^k
ZIsFloorShr(x, k, r) ==
  /\ ZLe(ZShl(r, k), x)
  /\ ZLt(x, ZShl(ZAdd(r, ZOne), k))

\* s = floor(sqrt(x)) for x >= 0:  s*s <= x < (s+1)*(s+1)
ZIsFloorSqrt(x, s) ==
  /\ ~s.n
  /\ ZLe(ZMul(s, s), x)
  /\ ZLt(x, ZMul(ZAdd(s, ZOne), ZAdd(s, ZOne)))

\* floor(sqrt(x)) by bit construction from the top (used only to generate boundary operands;
\* the result is re-checked with ZIsFloorSqrt by an ASSUME of the using module)
RECURSIVE SqrtBits(_, _, _)
SqrtBits(x, r, k) ==
  IF k < 0 THEN r
  ELSE LET c == MAdd(r, MPow2(k))
       IN IF MCmp(MMul(c, c), x) <= 0 THEN SqrtBits(x, c, k - 1) ELSE SqrtBits(x, r, k - 1)
MSqrt(x) == IF x = << >> THEN << >> ELSE SqrtBits(x, << >>, MBitLen(x) \div 2)

-----------------------------------------------------------------------------
(* Two's complement at a width of w bits.                                  *)

\* the residue of x modulo 2^w, as a magnitude in 0 .. 2^w - 1
ZResidue(x, w) ==
  LET low == MLowBits(x.m, w)
  IN IF ~x.n \/ low = << >> THEN low ELSE MSub(MPow2(w), low)

\* the signed (or unsigned) integer whose w-bit two's-complement pattern is u, 0 <= u < 2^w
ZFromResidue(signed, w, u) ==
  IF signed /\ MBit(u, w - 1) = 1 THEN [n |-> TRUE, m |-> MSub(MPow2(w), u)]
  ELSE [n |-> FALSE, m |-> u]

\* reduction of an exact integer into a w-bit type (wrap-around)
ZWrap(signed, w, x) == ZFromResidue(signed, w, ZResidue(x, w))

\* a width that holds x and y in two's complement with at least one spare sign bit
\* (bit operations of the unbounded type are the operations on the infinite sign-extended
\* patterns; on that width they coincide)
ZCommonWidth(x, y) == LB * (Max2(Len(x.m), Len(y.m)) + 1)

ZBitOp(op, signed, w, x, y) ==
  LET ux == ZResidue(x, w)
      uy == ZResidue(y, w)
      u  == CASE op = "and" -> MAnd(ux, uy)
              [] op = "or"  -> MOr(ux, uy)
              [] op = "xor" -> MXor(ux, uy)
  IN ZFromResidue(signed, w, u)

\* the same with bit tables (bt = BitTables, evaluated once by the caller)
ZBitOpT(bt, op, signed, w, x, y) ==
  LET ux == ZResidue(x, w)
      uy == ZResidue(y, w)
      u  == CASE op = "and" -> MAndT(bt, ux, uy)
              [] op = "or"  -> MOrT(bt, ux, uy)
              [] op = "xor" -> MXorT(bt, ux, uy)
  IN ZFromResidue(signed, w, u)

=============================================================================
