-------------------------- MODULE ConvertTypesEmit --------------------------
(* Prints the specification's numeric type table (ConvertTypes) as JSON, for the
   comparison with the declarations of sema. *)
EXTENDS ConvertTypes, Json, TLC
VARIABLE x
Init == x = 0
Next == UNCHANGED x
Spec == Init /\ [][Next]_x
Emit == PrintT(ToJson([types |-> FullNumTypeTable, rules |-> RoundingRules]))
=============================================================================
