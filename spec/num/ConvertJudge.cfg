SPECIFICATION Spec
CONSTANT TraceFile = "trace.ndjson"
INVARIANT Judged
