------------------------------ MODULE BigMeter ------------------------------
(***************************************************************************)
(* C32: for every arithmetic and bitwise operation on arbitrary-precision   *)
(* and 128/256-bit integers, the memory metered before the operation is at  *)
(* least the size of the result it produces:                                *)
(*            metered  >=  8 * words(result)                                *)
(* (a word is a 64-bit big.Word; metered = sum of the BigInt memory usages  *)
(* the operation reported to the memory gauge).                             *)
(*                                                                         *)
(* The operand space is described by DESCRIPTORS [w, kind, neg]: w = word   *)
(* length of the magnitude, kind = "max" (2^(64w) - 1, all ones), "min"     *)
(* (2^(64(w-1)), smallest w-word value) or "rnd" (seeded random w-word      *)
(* value), neg = sign.  Word lengths are deliberately ASYMMETRIC (1, 2, 3   *)
(* against 11, 12, 21, 40 words, every sign combination): an estimate that  *)
(* is keyed to the wrong operand is only wrong when the lengths differ a    *)
(* lot.  TLC enumerates the descriptor space exhaustively                   *)
(* (MC_BigMeterEnum), the Go driver materialises the operands, performs the *)
(* real operations with a recording gauge and logs (metered, words(result)),*)
(* and TLC judges every event (MC_BigMeterJudge).                           *)
(*                                                                         *)
(* Sanity relations (Consistent) tie the log to the descriptors and to the  *)
(* mathematical size bounds of each operation; an event that breaks them is *)
(* a harness error, not a verdict.                                          *)
(*                                                                         *)
(* Named deviations: the two known metering defects are stated as exact     *)
(* formulas; a rejected event is a KNOWN finding only if the metered amount *)
(* equals the deviant formula, otherwise it is a violation.                 *)
(***************************************************************************)
EXTENDS Bignum

MT(nm, s, b) == [name |-> nm, signed |-> s, bits |-> b]
MeterTypes == {MT("Int", TRUE, 0), MT("UInt", FALSE, 0),
               MT("Int128", TRUE, 128), MT("Int256", TRUE, 256),
               MT("UInt128", FALSE, 128), MT("UInt256", FALSE, 256),
               MT("Word128", FALSE, 128), MT("Word256", FALSE, 256)}
MeterTypeNames == {T.name : T \in MeterTypes}
MType(nm) == CHOOSE T \in MeterTypes : T.name = nm

Kinds == {"max", "min", "rnd"}
ZeroDesc == [w |-> 0, kind |-> "max", neg |-> FALSE]

\* descriptors of the values of type T with a word length in `sizes`
Descs(T, sizes) ==
  LET ws == {w \in sizes : w >= 1 /\ (T.bits > 0 => w <= T.bits \div 64)}
  IN {ZeroDesc} \cup
     {d \in [w : ws, kind : Kinds, neg : BOOLEAN] :
        /\ (d.neg => T.signed)
        \* a signed w-word type holds magnitudes below 2^(64w-1) (and -2^(64w-1), not generated)
        /\ (T.signed /\ T.bits > 0 /\ d.w = T.bits \div 64) => d.kind # "max"}

BinOps == {"add", "sub", "mul", "div", "mod", "and", "or", "xor"}
ShiftOps == {"shl", "shr"}
OpsOf(T) == BinOps \cup ShiftOps \cup (IF T.signed THEN {"neg"} ELSE {})

\* shift amounts (bits); Full = every amount up to 4096 (the unbounded types) / width + 1
Amounts(T, full) ==
  LET top == IF T.bits = 0 THEN 4096 ELSE T.bits + 1
  IN {k \in 0..top : full \/ k <= 72 \/ k % 64 \in {0, 1, 63} \/ (k % 64 \in {7, 8, 9} /\ k < 1100)
                          \/ k \in {4095, 4096}}

(* ---------------------------------------------------------------- judgement *)
(* An event carries, besides the descriptors: for the arithmetic and bitwise operations the
   operands az, bz and the result rz as integers (Bignum encoding); for the shifts the bit length
   `abits` of the left operand.  The size of the result is DERIVED HERE:
     - and, or, xor, +, -, unary minus of the unbounded types: the exact result is recomputed
       with Bignum and must equal rz; * likewise while the operands are short;
     - otherwise rz is the implementation's result (its value is the business of C11-C14);
       words = ceil(bitlen(rz) / 64);
     - a << n has bitlen(a) + n bits; a >> n has bitlen(a) - n bits for a >= 0, and for a < 0
       (floor) that or one bit more, at least one bit.
   The driver's own count (len(result.Bits())) must agree with the derived size. *)
Eight(wds) == MFromNat(8 * wds)
WordLen(m) == (MBitLen(m) + 63) \div 64
CeilWords(bitlen) == IF bitlen <= 0 THEN 0 ELSE (bitlen + 63) \div 64

IsShift(e) == e.op \in ShiftOps

\* the exact result, where this module recomputes it
Recomputed(e) == /\ MType(e.t).bits = 0
                 /\ \/ e.op \in {"and", "or", "xor", "add", "sub", "neg"}
                    \/ e.op = "mul" /\ Len(e.az.m) + Len(e.bz.m) <= 40
ExactResult(bt, e) ==
  CASE e.op \in {"and", "or", "xor"} -> ZBitOpT(bt, e.op, TRUE, ZCommonWidth(e.az, e.bz), e.az, e.bz)
    [] e.op = "add" -> ZAdd(e.az, e.bz)
    [] e.op = "sub" -> ZSub(e.az, e.bz)
    [] e.op = "mul" -> ZMul(e.az, e.bz)
    [] e.op = "neg" -> ZNeg(e.az)

\* size of the result in words, derived by the model (only for e.out = "ok")
ModelWords(e) ==
  IF ~IsShift(e) THEN WordLen(e.rz.m)
  ELSE IF MType(e.t).bits > 0 THEN e.words              \* fixed widths wrap: bounded by the width below
  ELSE IF e.abits = 0 THEN 0
  ELSE IF e.op = "shl" THEN CeilWords(e.abits + e.n)
  ELSE IF ~e.a.neg THEN CeilWords(e.abits - e.n)
  ELSE \* floor of a negative value: |result| = ceil(|a| / 2^n) has abits - n or abits - n + 1 bits, >= 1
       LET lo == CeilWords(Max2(e.abits - e.n, 1))
           hi == CeilWords(Max2(e.abits - e.n + 1, 1))
       IN IF e.words \in {lo, hi} THEN e.words ELSE -1

\* the property
Valid(e) == e.out = "ok" => MCmp(e.metered.m, Eight(ModelWords(e))) >= 0

\* mathematical upper bound of words(result) of the exact operation
MaxWords(e) ==
  LET wa == e.wa
      wb == e.wb
  IN CASE e.op \in {"add", "sub", "or", "xor", "and"} -> Max2(wa, wb) + 1
       [] e.op = "mul" -> wa + wb
       [] e.op = "div" -> IF wa < wb THEN 0 ELSE wa - wb + 1
       [] e.op = "mod" -> Min2(wa, wb)
       [] e.op = "neg" -> wa
       [] e.op = "shl" -> IF wa = 0 THEN 0 ELSE wa + e.n \div 64 + 1
       [] e.op = "shr" -> wa

Fields == {"k", "t", "op", "a", "b", "n", "wa", "wb", "out", "metered", "words", "cmp", "az", "bz", "rz", "abits"}

\* the logged operand is the value its descriptor describes (as far as the pattern is fixed)
MatchesDesc(d, z) ==
  /\ z.n = (d.neg /\ d.w > 0)
  /\ WordLen(z.m) = d.w
  /\ CASE d.w = 0 -> TRUE
       [] d.kind = "max" -> MBitLen(z.m) = 64 * d.w
       [] d.kind = "min" -> MBitLen(z.m) = 64 * (d.w - 1) + 1
       [] OTHER -> MBitLen(z.m) < 64 * d.w

Consistent(bt, e) ==
  /\ Fields \subseteq DOMAIN e
  /\ e.t \in MeterTypeNames
  /\ LET T == MType(e.t)
     IN /\ e.op \in OpsOf(T)
        /\ IsZ(e.metered) /\ ~e.metered.n
        /\ e.wa = e.a.w                                     \* the operand has the described word length
        /\ (e.op \in BinOps => e.wb = e.b.w)
        /\ (IsShift(e) => e.n >= 0 /\ e.abits >= 0 /\ CeilWords(e.abits) = e.wa)
        /\ (~IsShift(e) => /\ IsZ(e.az) /\ IsZ(e.bz) /\ IsZ(e.rz)
                           /\ MatchesDesc(e.a, e.az)
                           /\ (e.op \in BinOps => MatchesDesc(e.b, e.bz)))
        /\ e.words >= 0
        /\ (e.out = "ok" =>
              /\ (~IsShift(e) /\ Recomputed(e) => ZEq(e.rz, ExactResult(bt, e)))
              /\ e.words = ModelWords(e)                    \* the driver's count agrees with the derived size
              \* size bounds: exact arithmetic for the unbounded types, the width for the others (which wrap or fail)
              /\ e.words <= (IF T.bits = 0 THEN MaxWords(e) ELSE T.bits \div 64))

(* ---------------------------------------------------------------- deviations *)
Two64 == MPow2(64)
\* 8*x modulo 2^64 for a possibly negative native x (the implementation converts a negative
\* int to uint64)
Wrap64(x) == IF x >= 0 THEN MFromNat(8 * x) ELSE MSub(Two64, MFromNat(8 * (0 - x)))

Unbounded(e) == MType(e.t).bits = 0

\* DevShrBitsAsBytes: right shift of a non-negative operand by n > 0 bits is metered
\* |a| - n/8 + 4 words: the shift in BITS is divided by the number of BYTES in a word (8)
\* instead of the number of bits (64), so the estimate shrinks 8 times too fast.
DevShrBitsAsBytes(e) ==
  /\ e.op = "shr" /\ Unbounded(e) /\ ~e.a.neg /\ e.n > 0
  /\ e.metered.m = Wrap64(e.wa - e.n \div 8 + 4)

\* DevModQuotientEstimate: the remainder is metered with the estimate of the QUOTIENT,
\* |a| - |b| + 5 words, whenever a >= b (signed comparison) and |b| >= 2 words.
DevModQuotientEstimate(e) ==
  /\ e.op = "mod" /\ Unbounded(e) /\ e.cmp >= 0 /\ e.wb >= 2 /\ e.wb < 100
  /\ e.metered.m = Wrap64(e.wa - e.wb + 5)

Deviation(e) == IF DevShrBitsAsBytes(e) THEN "DevShrBitsAsBytes"
                ELSE IF DevModQuotientEstimate(e) THEN "DevModQuotientEstimate"
                ELSE "none"

SignOf(d) == IF d.w = 0 THEN "zero" ELSE IF d.neg THEN "neg" ELSE "pos"
Class(e) == IF e.op \in ShiftOps THEN SignOf(e.a) \o (IF e.n = 0 THEN ",n=0" ELSE ",n>0")
            ELSE SignOf(e.a) \o "," \o SignOf(e.b) \o (IF e.wa >= e.wb THEN ",wa>=wb" ELSE ",wa<wb")
=============================================================================
