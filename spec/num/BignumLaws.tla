---- MODULE BignumLaws ----
(* Model-level self-check of Bignum against TLC's native integers on a set of small and
   limb-boundary values, plus a few fixed multi-limb identities. Run by every num check. *)
EXTENDS Bignum, TLC

S == {-70000, -65537, -65536, -32769, -32768, -32767, -1025, -256, -255, -129, -128, -127, -3, -2, -1,
      0, 1, 2, 3, 5, 127, 128, 129, 255, 256, 1000, 32767, 32768, 32769, 40000, 65535, 65536, 65537, 70000}
NatS == {x \in S : x >= 0}
TruncDiv(a, b) == LET q == (IF a < 0 THEN 0 - a ELSE a) \div (IF b < 0 THEN 0 - b ELSE b)
                  IN IF (a < 0) # (b < 0) THEN 0 - q ELSE q
FloorDiv(a, d) == a \div d
F(x) == ZFromInt(x)

ASSUME \A x \in S : IsZ(F(x)) /\ ZToInt(F(x)) = x
ASSUME \A x, y \in S : ZToInt(ZAdd(F(x), F(y))) = x + y /\ IsZ(ZAdd(F(x), F(y)))
ASSUME \A x, y \in S : ZToInt(ZSub(F(x), F(y))) = x - y /\ IsZ(ZSub(F(x), F(y)))
Small(x) == x < 40000 /\ x > -40000
ASSUME \A x, y \in S : (Small(x) /\ Small(y)) => ZToInt(ZMul(F(x), F(y))) = x * y
ASSUME \A x, y \in S : ZCmp(F(x), F(y)) = (IF x < y THEN -1 ELSE IF x > y THEN 1 ELSE 0)
ASSUME \A x, y \in S : y # 0 => ZIsTruncDivMod(F(x), F(y), F(TruncDiv(x, y)), F(x - TruncDiv(x, y) * y))
ASSUME \A x, y \in S : y # 0 => ~ZIsTruncDivMod(F(x), F(y), F(TruncDiv(x, y) + 1), F(x - (TruncDiv(x, y) + 1) * y))
ASSUME \A x \in S, k \in {0, 1, 7, 8, 14, 15, 16, 17, 30, 31, 40} :
          /\ ZIsFloorShr(F(x), k, IF k > 30 THEN (IF x < 0 THEN F(-1) ELSE F(0)) ELSE F(FloorDiv(x, 2^k)))
          /\ ZEq(ZFloorShr(F(x), k), IF k > 30 THEN (IF x < 0 THEN F(-1) ELSE F(0)) ELSE F(FloorDiv(x, 2^k)))
          /\ ~ZIsFloorShr(F(x), k, ZAdd(ZFloorShr(F(x), k), ZOne))
ASSUME \A x \in S, w \in {8, 15, 16, 17, 30} :
          /\ MToNat(ZResidue(F(x), w)) = x % (2^w)
          /\ ZToInt(ZWrap(FALSE, w, F(x))) = x % (2^w)
          /\ ZToInt(ZWrap(TRUE, w, F(x))) = ((x + 2^(w-1)) % (2^w)) - 2^(w-1)
ASSUME \A x, y \in NatS : /\ MToNat(MAnd(F(x).m, F(y).m)) = (x & y)
                          /\ MToNat(MOr(F(x).m, F(y).m)) = (x | y)
                          /\ MToNat(MXor(F(x).m, F(y).m)) = (x ^^ y)
                          /\ IsM(MAnd(F(x).m, F(y).m)) /\ IsM(MOr(F(x).m, F(y).m)) /\ IsM(MXor(F(x).m, F(y).m))
\* bit identities on signed values at a common width: a + b = (a & b) + (a | b),  a ^ b = (a | b) - (a & b)
ASSUME \A x, y \in S : LET w == ZCommonWidth(F(x), F(y))
                       IN /\ ZEq(ZAdd(F(x), F(y)), ZAdd(ZBitOp("and", TRUE, w, F(x), F(y)), ZBitOp("or", TRUE, w, F(x), F(y))))
                          /\ ZEq(ZBitOp("xor", TRUE, w, F(x), F(y)), ZSub(ZBitOp("or", TRUE, w, F(x), F(y)), ZBitOp("and", TRUE, w, F(x), F(y))))
ASSUME \A x \in NatS : MBitLen(F(x).m) = (CHOOSE k \in 0..31 : (IF k = 0 THEN x = 0 ELSE 2^(k-1) <= x) /\ (k = 31 \/ x < 2^k))
ASSUME \A x \in NatS : ZIsFloorSqrt(F(x), Z(FALSE, MSqrt(F(x).m)))
\* table-driven bit operations = reference definitions
BT == BitTables
ASSUME \A x, y \in NatS : /\ MAndT(BT, F(x).m, F(y).m) = MAnd(F(x).m, F(y).m)
                          /\ MOrT(BT, F(x).m, F(y).m) = MOr(F(x).m, F(y).m)
                          /\ MXorT(BT, F(x).m, F(y).m) = MXor(F(x).m, F(y).m)
ASSUME \A x \in {0, 1, 31, 32, 1023, 1024, 21845, 32767}, y \in {0, 1, 31, 32, 1023, 1024, 10922, 32767} :
          /\ LimbOpT(BT.and, x, y) = (x & y) /\ LimbOpT(BT.or, x, y) = (x | y) /\ LimbOpT(BT.xor, x, y) = (x ^^ y)
ASSUME \A x, y \in S : \A op \in {"and", "or", "xor"} :
          ZEq(ZBitOpT(BT, op, TRUE, 40, F(x), F(y)), ZBitOp(op, TRUE, 40, F(x), F(y)))
\* multi-limb identities
ASSUME ZEq(ZFromHex("ffffffffffffffffffffffffffffffff"), ZSub(ZPow2(128), ZOne))
ASSUME ZEq(ZFromDec("-340282366920938463463374607431768211456"), ZNeg(ZPow2(128)))
ASSUME ZEq(ZMul(ZSub(ZPow2(128), ZOne), ZSub(ZPow2(128), ZOne)), ZAdd(ZSub(ZPow2(256), ZPow2(129)), ZOne))
ASSUME ZEq(ZMul(ZFromDec("-123456789012345678901234567890"), ZFromDec("987654321098765432109876543210")),
           ZFromDec("-121932631137021795226185032733622923332237463801111263526900"))
ASSUME ZIsFloorSqrt(ZSub(ZPow2(127), ZOne), Z(FALSE, MSqrt(MSub(MPow2(127), <<1>>))))
ASSUME ZEq(Z(FALSE, MSqrt(MSub(MPow2(127), <<1>>))), ZFromDec("13043817825332782212"))
ASSUME ZEq(ZWrap(TRUE, 128, ZPow2(127)), ZNeg(ZPow2(127)))
ASSUME ZEq(ZWrap(TRUE, 128, ZShl(ZFromDec("-2658455991569831745807614120560689151"), 15)), ZFromInt(32768))
ASSUME ZEq(ZFloorShr(ZFromDec("-123456789012345678901234567890"), 64), ZFromDec("-6692605943"))
ASSUME ZIsFloorShr(ZFromDec("-123456789012345678901234567890"), 64, ZFromDec("-6692605943"))
ASSUME PrintT("BignumLaws checked")
VARIABLE dummy
Init == dummy = 0
Next == UNCHANGED dummy
====
