SPECIFICATION Spec
CONSTANTS
  Lo = 0
  Hi = 15
  Starts <- U4
  Ends <- U4
  Steps <- U4
  Wraps = FALSE
  PrintRows = FALSE
INVARIANTS TypeOK NeedsNoValueOutsideT YieldsTheSequence StopsAtTheEnd DenotationConsistent RejectedOnlyWhenSpecified Emit
PROPERTY Termination
