INIT Init
NEXT Next
