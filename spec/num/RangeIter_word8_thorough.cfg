SPECIFICATION Spec
CONSTANTS
  Lo = 0
  Hi = 255
  Starts <- U8t
  Ends <- U8t
  Steps <- U8ts
  Wraps = TRUE
  PrintRows = TRUE
INVARIANTS TypeOK NeedsNoValueOutsideT YieldsTheSequence StopsAtTheEnd DenotationConsistent RejectedOnlyWhenSpecified Emit

