--------------------------- MODULE FixedPointJudge ---------------------------
(***************************************************************************)
(* Relational trace validation (impl -> spec) for C15.  The driver         *)
(* executes the real fixed-point operations (interpreter value methods and *)
(* Cadence scripts on the interpreter and on the VM) and logs one event    *)
(* per distinct observation:                                               *)
(*   k, t (type), op, rule ("" when none was passed), a, b, c (operands;   *)
(*   c = 0 unless op = muldiv), out (ok | overflow | underflow | divzero | *)
(*   other:...), r (result when ok), w, w2 (witnesses, see FixedPoint).    *)
(* Every event that is not accepted is printed as JSON for the check.      *)
(***************************************************************************)
EXTENDS FixedPoint, Json, TLC

CONSTANT TraceFile
Trace == ndJsonDeserialize(TraceFile)

VARIABLES i, tt

Fields == {"k", "t", "op", "rule", "a", "b", "c", "out", "r", "w", "w2"}

WF(e) ==
  /\ Fields \subseteq DOMAIN e
  /\ e.t \in FixedTypeNames
  /\ e.op \in FxOps
  /\ e.rule \in RoundingRules \cup {""}
  /\ (e.rule # "" => e.op = "muldiv")
  /\ IsZ(e.a) /\ IsZ(e.b) /\ IsZ(e.c) /\ IsZ(e.r) /\ IsZ(e.w) /\ IsZ(e.w2)
  /\ LET T == tt[e.t]
     IN /\ TInRange(T, e.a) /\ TInRange(T, e.b) /\ TInRange(T, e.c)
        /\ (e.out # "ok" => ZIsZero(e.r))
        \* the witnesses
        /\ (~DividesByZero(e.op, e.b, e.c) =>
              /\ FxExact(T, e.op, e.rule, e.a, e.b, e.c, e.w)
              /\ (e.op = "mod" => IsRounded(ZMul(e.a, T.factor), e.b, "towardZero", e.w2))
              /\ (e.op = "muldiv" => IsRounded(ZMul(e.a, e.b), e.c, "towardZero", e.w2)))

Valid(e) == FxValid(tt[e.t], e.op, e.rule, e.a, e.b, e.c, e.out, e.r, e.w, e.w2)

SignName(x) == IF x.n THEN "neg" ELSE IF ZIsZero(x) THEN "zero" ELSE "pos"

\* semantic class of the case, for reports and known-finding matchers
Class(e) ==
  LET T == tt[e.t]
  IN IF DividesByZero(e.op, e.b, e.c) THEN "divzero"
     ELSE IF e.op = "mod" THEN (IF TInRange(T, e.w2) THEN "quotient-in-range" ELSE "quotient-out-of-range")
     ELSE IF ~TInRange(T, e.w) THEN "result-out-of-range"
     ELSE IF ZIsZero(e.w) /\ e.op \in {"mul", "div", "muldiv"} /\ ~ZIsZero(e.a) /\ ~ZIsZero(e.b) THEN "sub-unit-result"
     ELSE IF ZEq(e.w, T.max) \/ ZEq(e.w, T.min) THEN "result-at-bound"
     ELSE "result-in-range"

Verdict(e) == IF ~WF(e) THEN "malformed" ELSE IF Valid(e) THEN "ok" ELSE "bad"

Report(e, v) ==
  IF v = "bad"
  THEN PrintT(ToJson([k |-> e.k, v |-> v, cls |-> Class(e), dev |-> FxDeviation(tt[e.t], e.op, e.out, e.r, e.w, e.w2),
                      exp |-> FxExpected(tt[e.t], e.op, e.a, e.b, e.c, e.w, e.w2)]))
  ELSE PrintT(ToJson([k |-> e.k, v |-> v, cls |-> "", dev |-> "none", exp |-> [out |-> "", r |-> ZZero]]))

Init == i = 0 /\ tt = FullNumTypeTable
Next == i < Len(Trace) /\ i' = i + 1 /\ UNCHANGED tt
Spec == Init /\ [][Next]_<<i, tt>>

\* always TRUE: a rejected event is printed, not a model error
Judged == i = 0 \/ LET e == Trace[i]
                       v == Verdict(e)
                   IN v = "ok" \/ Report(e, v)
=============================================================================
