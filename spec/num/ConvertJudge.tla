----------------------------- MODULE ConvertJudge -----------------------------
(***************************************************************************)
(* Relational trace validation (impl -> spec) for C16.  One event per      *)
(* distinct observation of a conversion call in a script:                  *)
(*   k, s (source type), u (target type), rule ("" when none was passed),  *)
(*   a (scaled source), out (ok | overflow | underflow | other:...),       *)
(*   r (scaled result when ok), w (witness: the exact rounded value).      *)
(***************************************************************************)
EXTENDS Convert, Json, TLC

CONSTANT TraceFile
Trace == ndJsonDeserialize(TraceFile)

VARIABLES i, tt

Fields == {"k", "s", "u", "rule", "a", "out", "r", "w"}

WF(e) ==
  /\ Fields \subseteq DOMAIN e
  /\ e.s \in NumTypeNames /\ e.u \in NumTypeNames
  /\ e.rule \in RoundingRules \cup {""}
  /\ IsZ(e.a) /\ IsZ(e.r) /\ IsZ(e.w)
  /\ TInRange(tt[e.s], e.a)
  /\ (e.out # "ok" => ZIsZero(e.r))
  /\ CvExact(tt[e.s], tt[e.u], e.rule, e.a, e.w)

Valid(e) == CvValid(tt[e.s], tt[e.u], e.rule, e.a, e.out, e.r, e.w)

Kind(T) == IF T.scale > 0 THEN (IF T.bits = 64 THEN "fixed64" ELSE "fixed128")
           ELSE IF T.word THEN "word" ELSE IF T.bits = 0 THEN "bigint" ELSE "int"

\* semantic class of the case, for reports and matchers
Class(e) ==
  LET S == tt[e.s]
      U == tt[e.u]
  IN (IF e.a.n THEN "negative" ELSE IF ZIsZero(e.a) THEN "zero" ELSE "positive")
     \o (IF Lossless(S, U, e.a, e.w) THEN ",lossless" ELSE ",lossy")
     \o (IF U.word THEN ",wraps" ELSE IF ~TInRange(U, e.w) THEN ",out-of-range"
         ELSE IF ZEq(e.w, U.max) \/ ZEq(e.w, U.min) THEN ",at-bound" ELSE ",in-range")

Verdict(e) == IF ~WF(e) THEN "malformed" ELSE IF Valid(e) THEN "ok" ELSE "bad"

Report(e, v) ==
  IF v = "bad"
  THEN PrintT(ToJson([k |-> e.k, v |-> v, cls |-> Class(e), sk |-> Kind(tt[e.s]), uk |-> Kind(tt[e.u]),
                      dev |-> Deviation(tt[e.s], tt[e.u], e.rule, e.a, e.out, e.r, e.w),
                      exp |-> CvExpected(tt[e.s], tt[e.u], e.rule, e.a, e.w)]))
  ELSE PrintT(ToJson([k |-> e.k, v |-> v, cls |-> "", sk |-> "", uk |-> "", dev |-> "none", exp |-> [out |-> "", r |-> ZZero]]))

Init == i = 0 /\ tt = FullNumTypeTable
Next == i < Len(Trace) /\ i' = i + 1 /\ UNCHANGED tt
Spec == Init /\ [][Next]_<<i, tt>>

Judged == i = 0 \/ LET e == Trace[i]
                       v == Verdict(e)
                   IN v = "ok" \/ Report(e, v)
=============================================================================
