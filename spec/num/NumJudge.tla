------------------------------ MODULE NumJudge ------------------------------
(***************************************************************************)
(* Relational trace validation (impl -> spec) for C11-C14.                  *)
(* The Go driver executes the real operations (interpreter value methods,   *)
(* and Cadence scripts on the interpreter and on the VM) and logs one       *)
(* NDJSON event per distinct observation:                                   *)
(*   k     global event number                                              *)
(*   t     type name, op  operation                                         *)
(*   a, b  operands (Z records; b is 0 for unary operations)                *)
(*   out   outcome: ok | overflow | underflow | divzero | negshift | other:* *)
(*   r     result when ok (0 otherwise)                                     *)
(*   out2, r2   second observation of the event: the remainder `a % b` for  *)
(*         op = divmod (a / b is (out, r)) and for op = satdiv (witness)    *)
(* This module walks the trace (one state per event) and judges every       *)
(* event with `Verdict`; everything that is not "ok" is printed as JSON     *)
(* together with the spec's classification, for the check to report.        *)
(***************************************************************************)
EXTENDS Bits, Json, TLC

CONSTANT TraceFile
Trace == ndJsonDeserialize(TraceFile)

VARIABLES i,           \* number of the event being judged
          tt,          \* table of full type descriptors, computed once in Init
          bt           \* bit-operation tables (Bignum!BitTables), computed once in Init

Fields == {"k", "t", "op", "a", "b", "out", "r", "out2", "r2"}

WF(e) == /\ Fields \subseteq DOMAIN e
         /\ e.t \in TypeNames
         /\ e.op \in (ArithOps \cup SatOps \cup BitOps \cup ShiftOps)
         /\ IsZ(e.a) /\ IsZ(e.b) /\ IsZ(e.r) /\ IsZ(e.r2)
         /\ InRange(tt[e.t], e.a)
         /\ InRange(tt[e.t], e.b)
         /\ (e.out # "ok" => ZIsZero(e.r))
         /\ (e.out2 # "ok" => ZIsZero(e.r2))

Judgeable(e) ==
  LET T == tt[e.t]
  IN IF e.op \in (ArithOps \cup SatOps) THEN HasArithOp(T, e.op)
     ELSE BitsJudgeable(T, e.op, e.a, e.b)

Valid(e) ==
  LET T == tt[e.t]
  IN IF e.op \in (ArithOps \cup SatOps)
     THEN ValidArith(T, e.op, e.a, e.b, e.out, e.r, e.out2, e.r2)
     ELSE ValidBits(bt, T, e.op, e.a, e.b, e.out, e.r)

Verdict(e) == IF ~WF(e) THEN "malformed"
              ELSE IF ~Judgeable(e) THEN "unjudgeable"
              ELSE IF Valid(e) THEN "ok" ELSE "bad"

SignName(x) == IF x.n THEN "neg" ELSE IF ZIsZero(x) THEN "zero" ELSE "pos"

\* semantic class of the operands, for reports and known-finding matchers
AmountClass(T, b) ==
  IF b.n THEN "amount<0"
  ELSE IF ~FitsIn64(b) THEN "amount>=2^64"
  ELSE IF T.bits > 0 /\ ZGe(b, ZFromInt(T.bits)) THEN "amount>=width"
  ELSE "amount<width"

Class(e) ==
  LET T == tt[e.t]
  IN IF e.op \in ShiftOps THEN AmountClass(T, e.b) \o "," \o SignName(e.a)
     ELSE SignName(e.a) \o "," \o SignName(e.b)

Deviation(e) ==
  IF e.op \in (BitOps \cup ShiftOps)
  THEN BitsDeviation(tt[e.t], e.op, e.a, e.b, e.out, e.r)
  ELSE "none"

\* what the specification expects, for reports (only evaluated for rejected events); where the
\* outcome is specified by a relation on the implementation's own witnesses it says so
Expected(e) ==
  LET T == tt[e.t]
      val(x) == [out |-> "ok", r |-> x]
      err(s) == [out |-> s, r |-> ZZero]
  IN CASE e.op \in {"add", "sub", "mul", "neg"} ->
            LET x == Exact(e.op, e.a, e.b)
            IN IF T.word THEN val(ZWrap(FALSE, T.bits, x))
               ELSE IF InRange(T, x) THEN val(x) ELSE err("overflow or underflow")
       [] e.op \in {"satadd", "satsub", "satmul"} /\ T.scale = 0 -> val(Clamp(T, Exact(e.op, e.a, e.b)))
       [] e.op \in {"divmod", "satdiv"} /\ ZIsZero(e.b) -> err("divzero")
       [] e.op = "satdiv" /\ T.scale = 0 /\ QuotientOutOfRange(T, e.a, e.b) -> val(TMax(T))
       [] e.op = "divmod" /\ QuotientOutOfRange(T, e.a, e.b) -> err("overflow or underflow (remainder 0)")
       [] e.op \in BitOps -> val(ZBitOpT(bt, e.op, T.signed, WidthFor(T, e.a, e.b), e.a, e.b))
       [] e.op \in ShiftOps /\ e.b.n -> err("negshift")
       [] e.op = "shl" /\ T.bits > 0 -> val(ShlBounded(T, e.a, e.b))
       [] e.op = "shr" /\ (T.bits > 0 \/ FitsIn64(e.b)) ->
            val(IF ZGe(e.b, ZFromInt(IF T.bits > 0 THEN T.bits ELSE MBitLen(e.a.m) + 1)) THEN SignFill(e.a)
                ELSE ZFloorShr(e.a, ZToInt(e.b)))
       [] OTHER -> err("(specified by a relation, see IntArith/Bits)")

Report(e, v) ==
  IF v = "bad" THEN PrintT(ToJson([k |-> e.k, v |-> v, cls |-> Class(e), dev |-> Deviation(e), exp |-> Expected(e)]))
  ELSE PrintT(ToJson([k |-> e.k, v |-> v, cls |-> "", dev |-> "none", exp |-> [out |-> "", r |-> ZZero]]))

Init == i = 0 /\ tt = FullTypeTable /\ bt = BitTables
Next == i < Len(Trace) /\ i' = i + 1 /\ UNCHANGED <<tt, bt>>
Spec == Init /\ [][Next]_<<i, tt, bt>>

\* always TRUE: a rejected event is printed, not a model error
Judged == i = 0 \/ LET e == Trace[i]
                       v == Verdict(e)
                   IN v = "ok" \/ Report(e, v)
=============================================================================
