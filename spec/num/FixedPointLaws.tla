---------------------------- MODULE FixedPointLaws ----------------------------
(***************************************************************************)
(* Laws of the rounding relation ConvertTypes!IsRounded, checked by TLC on *)
(* small numbers against native integer arithmetic: for every numerator,   *)
(* denominator and rule EXACTLY ONE integer satisfies the relation, and it *)
(* is the rounded quotient (computed here natively with \div).  This is    *)
(* what makes recorded witnesses safe: a witness is accepted only if it is *)
(* THE rounded value.                                                      *)
(***************************************************************************)
EXTENDS ConvertTypes, TLC

CONSTANTS NMax, DMax      \* numerators -NMax..NMax, denominators -DMax..DMax without 0

VARIABLE x
Init == x = 0
Next == UNCHANGED x
Spec == Init /\ [][Next]_x

NAbs(v) == IF v < 0 THEN 0 - v ELSE v
\* native rounding of n / d (d # 0)
NRound(n, d, rule) ==
  LET an == NAbs(n)
      ad == NAbs(d)
      q  == an \div ad
      rm == an % ad
      up == CASE rule = "towardZero" -> FALSE
              [] rule = "awayFromZero" -> rm # 0
              [] rule = "nearestHalfAway" -> 2 * rm >= ad
              [] rule = "nearestHalfEven" -> 2 * rm > ad \/ (2 * rm = ad /\ q % 2 = 1)
      m  == IF up THEN q + 1 ELSE q
  IN IF (n < 0) # (d < 0) THEN 0 - m ELSE m

Ns == (0 - NMax)..NMax
NDs == ((0 - DMax)..DMax) \ {0}
Ws == (0 - NMax - 2)..(NMax + 2)

ASSUME \A n \in Ns, d \in NDs, rule \in RoundingRules :
         /\ IsRounded(ZFromInt(n), ZFromInt(d), rule, ZFromInt(NRound(n, d, rule)))
         /\ \A w \in Ws : IsRounded(ZFromInt(n), ZFromInt(d), rule, ZFromInt(w)) => w = NRound(n, d, rule)

\* multi-limb operands: ties and near-ties around 2^40 / 2^20
Big == {ZAdd(ZMul(ZPow2(40), ZFromInt(k)), ZFromInt(j)) : k \in {1, 3}, j \in {0 - 1, 0, 1}}
ASSUME \A N \in Big, rule \in RoundingRules :
         LET D == ZPow2(21)
             cands == {ZAdd(ZMulSmall(ZPow2(19), k), ZFromInt(j)) : k \in {1, 3}, j \in {0 - 1, 0, 1, 2}} \cup {ZPow2(18), ZPow2(20)}
         IN \A w1 \in cands, w2 \in cands : (IsRounded(N, D, rule, w1) /\ IsRounded(N, D, rule, w2)) => ZEq(w1, w2)

\* the conversion never "rounds" a value that is representable
ASSUME \A n \in Ns, rule \in RoundingRules : IsRounded(ZMulSmall(ZFromInt(n), 10), ZFromInt(10), rule, ZFromInt(n))

ASSUME PrintT("FixedPointLaws checked")
=============================================================================
