------------------------------ MODULE Operands ------------------------------
(***************************************************************************)
(* Spec-defined operand sets for the wide integer types (impl -> spec      *)
(* direction of C11-C14).  For every selected type TLC prints one JSON     *)
(* line  [t, vals, core, pairs, amounts]:                                  *)
(*   vals    Boundary(T): 0, +-1, +-2, a few small constants, min, min+1,  *)
(*           max, max-1, 2^k and 2^k +- 1 (and their negatives) for the    *)
(*           exponents Ks(T), floor(sqrt(max)) and its neighbours          *)
(*   core    the subset all of whose PAIRS are exercised                   *)
(*   must    pairs at the limits, executed by every run: sums              *)
(*           max - x + (x | x+1), min + x - (x | x+1), squares around      *)
(*           sqrt(max), min / -1, all pairs of {min, min+1, -1, 0, 1,      *)
(*           max-1, max}                                                   *)
(*   pairs   products 2^i * 2^(w-i) with +-1 perturbations around max+1    *)
(*           (sampled by seed in the quick tier)                           *)
(*   shiftmust  (operand, amount) pairs every run shifts left and right     *)
(*   amounts shift amounts: 0 .. width+1, around 2^63 / 2^64, the type's   *)
(*           maximum, negative amounts                                     *)
(* The driver adds VERIF_SEED-seeded random operands; everything it        *)
(* executes is judged by NumJudge, so the sets only steer coverage.        *)
(***************************************************************************)
EXTENDS Bits, Json, TLC, FiniteSets

CONSTANTS Sel,        \* set of type names
          Dense       \* BOOLEAN: every exponent (thorough) or the thinned set (quick)

VARIABLE tn

\* nominal width used to generate exponents (the unbounded types get a multi-word range)
WidthOf(T) == IF T.bits > 0 THEN T.bits ELSE 200
\* largest exponent w with 2^w - 1 <= max
TopExp(T) == IF T.bits = 0 THEN 200 ELSE IF T.signed THEN T.bits - 1 ELSE T.bits

Ks(T) == {k \in 1..(WidthOf(T) + 1) :
            Dense \/ k <= 10 \/ k % 8 \in {0, 1, 7} \/ k >= TopExp(T) - 2
                  \/ k \in {31, 32, 33, 62, 63, 64, 65, 127, 128, 129}}

Keep(T, S) == {x \in S : InRange(T, x)}
PM(S) == S \cup {ZNeg(x) : x \in S}
Around(x) == {ZSub(x, ZOne), x, ZAdd(x, ZOne)}

Small == {ZFromInt(v) : v \in {0, 1, 2, 3, 7, 10, 100, 127, 128, 255, 256}}

SqrtMax(T) == Z(FALSE, MSqrt(IF T.bits = 0 THEN MPow2(200) ELSE T.max.m))

Limits(T) == (IF HasMax(T) THEN {T.max, ZSub(T.max, ZOne)} ELSE {})
             \cup (IF HasMin(T) THEN {T.min, ZAdd(T.min, ZOne)} ELSE {})

(* Machine-word boundaries.  The types wider than 64 bits - above all the unbounded Int and UInt -
   are implemented on big integers, where fast paths for operands or results that fit a machine
   word are natural; such a path is wrong exactly around 2^63 and 2^64, although the TYPE has no
   boundary there.  For these types the operand sets therefore also contain 2^63 / 2^64 as if they
   were limits: floor(sqrt(2^63)), floor(sqrt(2^64)) and neighbours, and pairs whose product, sum,
   difference or quotient straddles 2^63 or 2^64 (both signs); WordShiftPairs does the same for the
   shifts. *)
WordTyped(T) == T.scale = 0 /\ (T.bits = 0 \/ T.bits > 64)
WordLimits == {63, 64}
WordSqrt(w) == Z(FALSE, MSqrt(MPow2(w)))
WordVals(T) ==
  IF ~WordTyped(T) THEN {}
  ELSE PM(UNION {Around(WordSqrt(w)) : w \in WordLimits})

\* fixed-point types (values are integers scaled by F = 10^scale): 1.0, its neighbours, 0.1, 10.0,
\* the largest whole number
FixSmall(T) ==
  IF T.scale = 0 THEN {}
  ELSE Around(T.factor) \cup {ZPow10(T.scale - 1), ZMulSmall(T.factor, 10), ZMulSmall(T.factor, 2),
                              ZSub(T.factor, ZPow10(T.scale - 1))}

Boundary(T) ==
  Keep(T, PM(Small) \cup PM(FixSmall(T)) \cup WordVals(T)
          \cup PM(UNION {Around(ZPow2(k)) : k \in Ks(T)})
          \cup Limits(T)
          \cup PM(Around(SqrtMax(T))))

Core(T) ==
  Keep(T, PM({ZFromInt(v) : v \in {0, 1, 2, 3, 10, 255}}) \cup PM(FixSmall(T))
          \cup Limits(T)
          \cup PM(Around(SqrtMax(T)))
          \cup PM(UNION {Around(ZPow2(k)) : k \in {7, 8, 15, 16, 31, 32, 63, 64, TopExp(T) - 1, TopExp(T)}}))

\* exponent splits for products around 2^TopExp
Splits(T) == {i \in 1..(TopExp(T) - 1) : Dense \/ i <= 4 \/ i % 8 \in {0, 1, 7} \/ i >= TopExp(T) - 4
                                          \/ 2 * i \in {TopExp(T) - 1, TopExp(T), TopExp(T) + 1}}

SignPairs(T, x, y) == IF T.signed THEN {<<x, y>>, <<ZNeg(x), y>>, <<x, ZNeg(y)>>, <<ZNeg(x), ZNeg(y)>>} ELSE {<<x, y>>}
InT(T, S) == {p \in S : InRange(T, p[1]) /\ InRange(T, p[2])}

ProductPairsAt(T, I) ==
  UNION {UNION {SignPairs(T, x, y) : x \in Around(ZPow2(i)), y \in Around(ZPow2(TopExp(T) - i))} : i \in I}
ProductPairs(T) == ProductPairsAt(T, Splits(T))
\* three splits (2 * 2^(w-1), the middle, 2^(w-1) * 2) belong to the pairs every run executes
MustSplits(T) == {1, TopExp(T) \div 2, TopExp(T) - 1} \cap (1..(TopExp(T) - 1))

SumPairs(T) ==
  LET xs == {ZFromInt(v) : v \in {0, 1, 2, 100, 255}} \cup {ZPow2(k) : k \in {15, 31, 63} \cap (1..(TopExp(T) - 2))}
  IN (IF HasMax(T) THEN UNION {{<<ZSub(T.max, x), x>>, <<ZSub(T.max, x), ZAdd(x, ZOne)>>, <<x, ZSub(T.max, x)>>} : x \in xs} ELSE {})
     \cup (IF HasMin(T) THEN UNION {{<<ZAdd(T.min, x), ZNeg(x)>>, <<ZAdd(T.min, x), ZNeg(ZAdd(x, ZOne))>>,
                                     <<ZAdd(T.min, x), x>>, <<ZAdd(T.min, x), ZAdd(x, ZOne)>>} : x \in xs} ELSE {})

SquarePairs(T) ==
  LET s == SqrtMax(T) IN UNION {SignPairs(T, x, y) : x \in Around(s), y \in Around(s)}

DivPairs(T) ==
  (IF HasMin(T) THEN {<<T.min, ZMinusOne>>, <<T.min, ZOne>>, <<ZAdd(T.min, ZOne), ZMinusOne>>, <<T.min, T.min>>, <<T.min, ZZero>>} ELSE {})
  \cup (IF HasMax(T) THEN {<<T.max, ZMinusOne>>, <<T.max, T.max>>, <<T.max, ZSub(T.max, ZOne)>>, <<ZSub(T.max, ZOne), T.max>>}
        \cup (IF HasMin(T) THEN {<<T.max, T.min>>, <<T.min, T.max>>} ELSE {}) ELSE {})

\* fixed point: products a*b/F around max, i.e. a*b around max*F: a = 2^i (+-1), b = floor(max*F / 2^i) (+-1)
\* (a power-of-two quotient is a limb shift, see Bignum!MShr); quotients a*F/b around max: b just below 1.0
FixPairs(T) ==
  IF T.scale = 0 THEN {}
  ELSE LET lim == ZMul(T.max, T.factor)
           s   == Z(FALSE, MSqrt(lim.m))
       IN UNION {UNION {SignPairs(T, x, y) : x \in Around(ZPow2(i)), y \in Around(ZFloorShr(lim, i))} :
                   i \in {j \in 1..(T.bits - 2) : Dense \/ j % 4 = 0}}
          \cup UNION {SignPairs(T, x, y) : x \in Around(s), y \in Around(s)}
          \cup UNION {SignPairs(T, x, y) : x \in {T.max, ZSub(T.max, ZOne), ZFloorShr(T.max, 1), ZAdd(ZFloorShr(T.max, 1), ZOne)},
                                           y \in Around(T.factor) \cup Around(ZMulSmall(T.factor, 2)) \cup {ZOne, ZFromInt(2), ZFromInt(3)}}

\* pairs around the machine-word boundaries 2^63 and 2^64 (see WordTyped)
WordPairsAt(T, w) ==
  LET W2 == ZPow2(w)
      xs == {ZFromInt(v) : v \in {0, 1, 2, 255}}
      s  == WordSqrt(w)
  IN \* products: 2^i * 2^(w-i) with +-1 perturbations, and the squares around sqrt(2^w)
     UNION {UNION {SignPairs(T, x, y) : x \in Around(ZPow2(i)), y \in Around(ZPow2(w - i))} : i \in {1, 31, 32, w - 1}}
     \cup UNION {SignPairs(T, x, y) : x \in Around(s), y \in Around(s)}
     \* sums and differences: (2^w - x) + (x | x+1),  (2^w + x) - (x | x+1),  and the mirrored negative ones
     \cup UNION {{<<ZSub(W2, x), x>>, <<ZSub(W2, x), ZAdd(x, ZOne)>>, <<x, ZSub(W2, x)>>,
                  <<ZNeg(ZSub(W2, x)), ZNeg(x)>>, <<ZNeg(ZSub(W2, x)), ZNeg(ZAdd(x, ZOne))>>,
                  <<ZAdd(W2, x), x>>, <<ZAdd(W2, x), ZAdd(x, ZOne)>>, <<ZSub(W2, x), ZNeg(x)>>, <<ZSub(W2, x), ZNeg(ZAdd(x, ZOne))>>,
                  <<ZNeg(ZSub(W2, x)), x>>, <<ZNeg(ZSub(W2, x)), ZAdd(x, ZOne)>>, <<x, ZAdd(W2, x)>>} : x \in xs}
     \* quotients: (2^(w+i) +- 1) / (2^i +- 1) is 2^w or just below / above
     \cup UNION {UNION {SignPairs(T, x, y) : x \in Around(ZPow2(w + i)), y \in Around(ZPow2(i))} : i \in {1, 32, 64}}
     \cup UNION {SignPairs(T, x, y) : x \in Around(W2), y \in {ZOne, ZFromInt(2), ZFromInt(3)}}

WordPairs(T) == IF WordTyped(T) THEN UNION {WordPairsAt(T, w) : w \in WordLimits} ELSE {}

\* shifts <<a, n>>: a * 2^n and floor(a / 2^n) straddling 2^63 / 2^64, both signs
WordShiftPairs(T) ==
  IF ~WordTyped(T) THEN {}
  ELSE LET sg(x) == IF T.signed THEN {x, ZNeg(x)} ELSE {x}
       IN InT(T, UNION {UNION {{<<a, ZFromInt(w - k)>> : a \in UNION {sg(x) : x \in Around(ZPow2(k))}}
                               \cup {<<a, ZFromInt(k)>> : a \in UNION {sg(x) : x \in Around(ZPow2(w + k))}}
                               : k \in {0, 1, 31, 32, 62, 63}} : w \in WordLimits})

\* every pair of the limits and of 0, +-1
LimitPairs(T) == LET L == Keep(T, Limits(T) \cup {ZMinusOne, ZZero, ZOne}) IN L \X L

\* pairs every run executes for every binary operation (small sets around the limits) ...
MustPairs(T) == InT(T, SumPairs(T) \cup SquarePairs(T) \cup DivPairs(T) \cup LimitPairs(T)
                          \cup ProductPairsAt(T, MustSplits(T)) \cup WordPairs(T))
\* ... and the large families, which the quick tier samples by seed
Pairs(T) == InT(T, ProductPairs(T) \cup FixPairs(T))

\* shift amounts; for the unbounded types amounts in (MaxExactShift, 2^64) are excluded (see Bits)
Amounts(T) ==
  LET w == WidthOf(T)
      small == {ZFromInt(k) : k \in {j \in 0..(w + 2) : Dense \/ j <= 17 \/ j % 8 \in {0, 1, 7} \/ j >= w - 2
                                                         \/ j \in 62..66 \/ j \in 126..130}}
      big == UNION {Around(ZPow2(k)) : k \in {63, 64}} \cup {ZPow2(100)} \cup Limits(T)
      mid == IF T.bits = 0 THEN {ZFromInt(k) : k \in {255, 256, 257, 1000, 4095, 4096, 8191, 8192}} ELSE {}
      neg == {ZMinusOne, ZFromInt(-2), ZFromInt(-64)}
  IN {b \in Keep(T, small \cup big \cup mid \cup neg) : BitsJudgeable(T, "shl", ZZero, b)}

Init == tn \in Sel
Next == UNCHANGED tn
Spec == Init /\ [][Next]_tn

Sorted(S) == S       \* ToJson prints a set as an array; the driver sorts

Emit == LET T == Full(TypeOf(tn))
        IN /\ ZIsFloorSqrt(IF T.bits = 0 THEN ZPow2(200) ELSE T.max, SqrtMax(T))     \* generator sanity
           /\ PrintT(ToJson([t |-> tn, vals |-> Boundary(T), core |-> Core(T),
                             must |-> MustPairs(T), pairs |-> Pairs(T), amounts |-> Amounts(T),
                             shiftmust |-> WordShiftPairs(T),
                             \* the spec's type table, compared with sema's declarations by the check
                             signed |-> T.signed, bits |-> T.bits, word |-> T.word, scale |-> T.scale,
                             hasmin |-> HasMin(T), hasmax |-> HasMax(T), min |-> T.min, max |-> T.max]))
=============================================================================
