------------------------------- MODULE Convert -------------------------------
(***************************************************************************)
(* Numeric conversions of Cadence (property C16), written from the         *)
(* property statement.                                                     *)
(*                                                                         *)
(* A source value of type S is the exact rational  a / 10^ss  (a: scaled   *)
(* integer, ss: S's scale, 0 for integer types).  Converting it to the     *)
(* target type U (scale su) by  U(x)  or  U(x, rounding: rule) :           *)
(*                                                                         *)
(*  * the exact value in U's units is  a * 10^su / 10^ss ;  excess         *)
(*    fractional digits are truncated toward zero, or rounded by the rule  *)
(*    when one is passed:  w = round_rule(a * 10^su / 10^ss)               *)
(*    (for ss <= su nothing is lost: w = a * 10^(su-ss));                  *)
(*  * U is not a Word type:  the result is w when w is in U's range,       *)
(*    otherwise the conversion fails with an overflow or underflow error   *)
(*    (either kind is accepted);                                           *)
(*  * U is a Word type (n bits):  the conversion never fails, the result   *)
(*    is the integer part reduced modulo 2^n:  w mod 2^n.                  *)
(*                                                                         *)
(* As everywhere in this family the rounded value is a WITNESS recorded    *)
(* with the event and accepted only if it satisfies the uniquely solvable  *)
(* relation ConvertTypes!IsRounded.                                        *)
(*                                                                         *)
(* Named deviations (Dev...) are the exact formulas of the defects found in *)
(* the pinned implementation; a rejected event is a KNOWN finding only if  *)
(* one of them predicts the observed outcome exactly.                      *)
(***************************************************************************)
EXTENDS ConvertTypes

EffRule(rule) == IF rule = "" THEN "towardZero" ELSE rule

\* numerator and denominator of the exact value in the target's units
Num(S, U, a) == ZMul(a, U.factor)
Den(S) == S.factor

\* witness relation: w is the exact value rounded to U's scale
CvExact(S, U, rule, a, w) == IsRounded(Num(S, U, a), Den(S), EffRule(rule), w)

\* does a rounding rule apply to this conversion?  (only fixed-point targets have fractional digits to round;
\* which conversion functions accept a rule is read from sema by the driver)
CvValid(S, U, rule, a, out, r, w) ==
  IF U.word THEN out = "ok" /\ ZEq(r, ZWrap(FALSE, U.bits, w))
  ELSE IF TInRange(U, w) THEN out = "ok" /\ ZEq(r, w)
  ELSE out \in RangeErr

CvExpected(S, U, rule, a, w) ==
  IF U.word THEN [out |-> "ok", r |-> ZWrap(FALSE, U.bits, w)]
  ELSE IF TInRange(U, w) THEN [out |-> "ok", r |-> w]
  ELSE [out |-> "overflow or underflow", r |-> ZZero]

\* is the source value a whole number of target units?  (then nothing is truncated or rounded)
Lossless(S, U, a, w) == ZEq(ZMul(w, Den(S)), Num(S, U, a))

-----------------------------------------------------------------------------
(* Named deviations                                                        *)

\* what an outcome-predicting deviation returns
Pred(U, x) == IF U.word THEN [out |-> "ok", r |-> ZWrap(FALSE, U.bits, x)]
              ELSE IF TInRange(U, x) THEN [out |-> "ok", r |-> x]
              ELSE [out |-> "range", r |-> ZZero]

Matches(p, out, r) == IF p.out = "range" THEN out \in RangeErr ELSE out = p.out /\ ZEq(r, p.r)

\* DevFloor: the quotient is rounded toward minus infinity instead of toward zero: for a negative source
\* with lost digits the result is one unit lower (w - 1), then range-checked / wrapped as usual
\* (so a source just below U's minimum, whose truncation is the minimum, fails).
DevFloorApplies(S, U, rule, a, w) == rule = "" /\ a.n /\ ~Lossless(S, U, a, w)
DevFloorPred(S, U, a, w) == Pred(U, ZSub(w, ZOne))

\* DevRangeBeforeTruncate: the range check is made on the untruncated source value (U's maximum scaled to S's
\* units): a positive value that exceeds U's maximum by less than one unit of U fails although its truncation
\* is the maximum.
DevRangeFirstApplies(S, U, rule, a, w) ==
  /\ rule = "" /\ ~U.word /\ S.scale > U.scale
  /\ ~a.n /\ U.hasmax /\ ZEq(w, U.max)
  /\ ~Lossless(S, U, a, w)

\* DevRoundToZeroFails: with an explicit rounding rule, a non-zero source whose rounded result is zero fails
\* with an underflow error (the implementation treats the total loss of a non-zero value as an error).
DevRoundToZeroApplies(S, U, rule, a, w) == rule # "" /\ ~ZIsZero(a) /\ ZIsZero(w)

Deviation(S, U, rule, a, out, r, w) ==
  IF DevFloorApplies(S, U, rule, a, w) /\ Matches(DevFloorPred(S, U, a, w), out, r) THEN "DevFloor"
  ELSE IF DevRangeFirstApplies(S, U, rule, a, w) /\ out \in RangeErr THEN "DevRangeBeforeTruncate"
  ELSE IF DevRoundToZeroApplies(S, U, rule, a, w) /\ out = "underflow" THEN "DevRoundToZeroFails"
  ELSE "none"

=============================================================================
