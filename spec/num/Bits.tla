-------------------------------- MODULE Bits --------------------------------
(***************************************************************************)
(* Bitwise operations and shifts (property C14), from the statement:        *)
(*   &, | and ^ compute the bitwise operation on the two's-complement      *)
(*   representation at the type's width (for the unbounded types: on the   *)
(*   infinitely sign-extended patterns);                                   *)
(*   x << n = x * 2^n truncated to the width (exact for Int / UInt);       *)
(*   x >> n = floor(x / 2^n) for every non-negative n;                     *)
(*   a negative shift amount fails;                                        *)
(*   the unbounded types MAY instead fail with an overflow error when n    *)
(*   does not fit in 64 bits.                                              *)
(* The shift amount has the operand's type, so it ranges up to the type's  *)
(* maximum (2^255 - 1 for Int256).                                         *)
(*                                                                         *)
(* floor(x / 2^n) is judged by the inequality r*2^n <= x < (r+1)*2^n; for  *)
(* amounts n >= the number of bits of |x| the quotient is 0 or -1 by       *)
(* |x| < 2^n, so no power of two of astronomical size is ever built.       *)
(*                                                                         *)
(* Named deviations: the two known defects of the pinned tree are stated   *)
(* here as predicates on a rejected event.  A rejected event is a KNOWN    *)
(* finding only if one of them explains the observed result exactly; every *)
(* other rejected event is a violation.                                    *)
(***************************************************************************)
EXTENDS IntArith

BitOps   == {"and", "or", "xor"}
ShiftOps == {"shl", "shr"}

\* unbounded types: left shifts are judged only up to this amount (the driver never asks for
\* more below 2^64: the result would not fit in memory)
MaxExactShift == 8192

Z64 == ZPow2(64)
FitsIn64(b) == ZLt(b, Z64)

WidthFor(T, a, b) == IF T.bits > 0 THEN T.bits ELSE ZCommonWidth(a, b)

\* bt = BitTables, evaluated once by the caller (see Bignum)
ValidBitOp(bt, T, op, a, b, out, r) ==
  out = "ok" /\ ZEq(r, ZBitOpT(bt, op, T.signed, WidthFor(T, a, b), a, b))

\* the specified value of a << n for a bounded type and 0 <= n
ShlBounded(T, a, b) ==
  IF ZGe(b, ZFromInt(T.bits)) THEN ZZero                      \* every bit is shifted out
  ELSE ZWrap(T.signed, T.bits, ZShl(a, ZToInt(b)))

ValidShl(T, a, b, out, r) ==
  IF b.n THEN out = "negshift"
  ELSE IF T.bits > 0 THEN out = "ok" /\ ZEq(r, ShlBounded(T, a, b))
  ELSE IF FitsIn64(b) THEN out = "ok" /\ ZEq(r, ZShl(a, ZToInt(b)))
  ELSE \/ out = "overflow"                                    \* permitted by the statement
       \/ out = "ok" /\ ZIsZero(a) /\ ZIsZero(r)              \* 0 * 2^n = 0 is the only exact result that exists in memory

\* floor(a / 2^n) for n at least the bit length of |a|
SignFill(a) == IF a.n THEN ZMinusOne ELSE ZZero

ValidShr(T, a, b, out, r) ==
  IF b.n THEN out = "negshift"
  ELSE LET len == IF T.bits > 0 THEN T.bits ELSE MBitLen(a.m) + 1        \* |a| < 2^len
           val == IF ZGe(b, ZFromInt(len)) THEN ZEq(r, SignFill(a))     \* |a| < 2^len <= 2^n
                  ELSE ZIsFloorShr(a, ZToInt(b), r)
       IN IF T.bits = 0 /\ ~FitsIn64(b)
          THEN out = "overflow" \/ (out = "ok" /\ val)
          ELSE out = "ok" /\ val /\ InRange(T, r)

\* events this module can judge
BitsJudgeable(T, op, a, b) ==
  /\ T.scale = 0
  /\ (op = "shl" /\ T.bits = 0 /\ ~b.n /\ FitsIn64(b)) => (ZFitsInt(b) /\ ZToInt(b) <= MaxExactShift)

ValidBits(bt, T, op, a, b, out, r) ==
  CASE op \in BitOps -> ValidBitOp(bt, T, op, a, b, out, r)
    [] op = "shl" -> ValidShl(T, a, b, out, r)
    [] op = "shr" -> ValidShr(T, a, b, out, r)

(* ------------------------------------------------------------ deviations *)
\* DevShrHugeAmountZero: for the 128/256-bit signed types a right shift by an amount that does
\* not fit in 64 bits returns 0 regardless of the sign of the operand (floor gives -1).
DevShrHugeAmountZero(T, op, a, b, out, r) ==
  /\ op = "shr" /\ T.signed /\ T.bits >= 128
  /\ ~b.n /\ ~FitsIn64(b) /\ a.n
  /\ out = "ok" /\ ZIsZero(r)

\* DevShlMinimalByteSign: for the 128/256-bit signed types the truncated pattern u of a left
\* shift is converted back to a signed value by looking at the top bit of its MINIMAL
\* big-endian byte string instead of bit (width-1): whenever the bit length of u is a positive
\* multiple of 8 below the width, the result is u - 2^bitlen(u) instead of u.
DevShlMinimalByteSign(T, op, a, b, out, r) ==
  /\ op = "shl" /\ T.signed /\ T.bits >= 128
  /\ ~b.n /\ ZLt(b, ZFromInt(T.bits)) /\ out = "ok"
  /\ LET u == ZResidue(ZShl(a, ZToInt(b)), T.bits)
         l == MBitLen(u)
     IN l > 0 /\ l % 8 = 0 /\ l < T.bits /\ ZEq(r, [n |-> TRUE, m |-> MSub(MPow2(l), u)])

BitsDeviation(T, op, a, b, out, r) ==
  IF DevShrHugeAmountZero(T, op, a, b, out, r) THEN "DevShrHugeAmountZero"
  ELSE IF DevShlMinimalByteSign(T, op, a, b, out, r) THEN "DevShlMinimalByteSign"
  ELSE "none"

=============================================================================
