SPECIFICATION Spec
CONSTANTS
  Lo = 0
  Hi = 255
  Starts <- U8q
  Ends <- U8q
  Steps <- U8qs
  Wraps = FALSE
  PrintRows = TRUE
INVARIANTS TypeOK NeedsNoValueOutsideT YieldsTheSequence StopsAtTheEnd DenotationConsistent RejectedOnlyWhenSpecified Emit

