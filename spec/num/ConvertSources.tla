--------------------------- MODULE ConvertSources ---------------------------
(***************************************************************************)
(* Spec-defined source values for the conversions (property C16): for      *)
(* every (source type S, target type U) pair the values of S at and around *)
(* U's bounds, expressed in S's units:                                     *)
(*   bound, bound +- 1 and 2 units of S, bound +- one unit of U, +- half a *)
(*   unit of U (rounding ties) and its neighbours, +- (one unit of U - 1), *)
(*   bound +- 1.0 and +- 0.5;                                              *)
(* for Word targets also 2^n, 2*2^n, -1, -2^n and their neighbours;        *)
(* plus general values of S: 0, +-1 unit, +-1.0, +-0.5, +-1.5, +-2.5       *)
(* (ties to even), +-0.99..9, min, max.                                    *)
(* When S is coarser than U (integer source, fixed-point target) U's       *)
(* bounds are not values of S: the integer parts of the fixed-point bounds *)
(* are given as decimal constants and verified by an ASSUME against the    *)
(* type table (relationally, no division).                                 *)
(* TLC prints one JSON line per source type:  [s, per |-> [U |-> values]]. *)
(* The driver adds seeded random sources; every executed conversion is     *)
(* judged by ConvertJudge, so these sets only steer coverage.              *)
(***************************************************************************)
EXTENDS Convert, Json, TLC

CONSTANTS Sel,        \* set of source type names
          Dense       \* BOOLEAN: thorough (wider neighbourhoods) or quick

VARIABLE sn

Keep(T, X) == {x \in X : TInRange(T, x)}
PM(X) == X \cup {ZNeg(x) : x \in X}
Nb(x, u, ds) == {ZAdd(x, ZMul(ZFromInt(d), u)) : d \in ds}
Ds == IF Dense THEN (0 - 2)..2 ELSE (0 - 1)..1

\* integer parts of the fixed-point bounds (verified below)
IntPartMax(nm) == CASE nm = "Fix64" -> ZFromDec("92233720368")
                    [] nm = "UFix64" -> ZFromDec("184467440737")
                    [] nm = "Fix128" -> ZFromDec("170141183460469")
                    [] nm = "UFix128" -> ZFromDec("340282366920938")
IntPartMin(nm) == CASE nm = "Fix64" -> ZFromDec("-92233720368")
                    [] nm = "Fix128" -> ZFromDec("-170141183460469")
                    [] OTHER -> ZZero

ASSUME \A nm \in FixedTypeNames :
         LET T == FullType(NumTypeOf(nm))
         IN /\ ZIsTruncDivMod(T.max, T.factor, IntPartMax(nm), ZSub(T.max, ZMul(IntPartMax(nm), T.factor)))
            /\ ZIsTruncDivMod(T.min, T.factor, IntPartMin(nm), ZSub(T.min, ZMul(IntPartMin(nm), T.factor)))

\* values of S around the real number  b / 10^U.scale
AroundBound(S, U, b, ipart) ==
  IF S.scale >= U.scale
  THEN LET tu   == ZPow10(S.scale - U.scale)        \* one unit of U in units of S
           x    == ZMul(b, tu)
           one  == S.factor
       IN Nb(x, ZOne, Ds)
          \cup (IF S.scale > U.scale
                THEN LET h == ZMulSmall(ZPow10(S.scale - U.scale - 1), 5)          \* half a unit of U
                     IN Nb(x, tu, {0 - 1, 1}) \cup UNION {Nb(ZAdd(x, y), ZOne, Ds) : y \in PM({h})}
                        \cup PM({ZSub(tu, ZOne)}) \cup {ZAdd(x, ZSub(tu, ZOne)), ZSub(x, ZSub(tu, ZOne))}
                ELSE {})
          \cup (IF S.scale > 0
                THEN Nb(x, one, {0 - 1, 1}) \cup Nb(x, ZMulSmall(ZPow10(S.scale - 1), 5), {0 - 1, 1})
                ELSE {})
  ELSE IF S.scale = 0 THEN Nb(ipart, ZOne, Ds \cup {0 - 1, 0, 1})
  ELSE {}

General(S) ==
  LET one  == S.factor
      half == IF S.scale > 0 THEN ZMulSmall(ZPow10(S.scale - 1), 5) ELSE ZZero
  IN PM({ZZero, ZOne, ZFromInt(2)})
     \cup (IF S.scale > 0
           THEN PM(Nb(one, ZOne, {0 - 1, 0, 1})) \cup PM(Nb(half, ZOne, Ds))
                \cup PM({ZAdd(one, half), ZAdd(ZMulSmall(one, 2), half), ZAdd(ZMulSmall(one, 3), half), ZMulSmall(one, 2)})
           ELSE {})
     \cup (IF S.hasmin THEN {S.min, ZAdd(S.min, ZOne)} ELSE {})
     \cup (IF S.hasmax THEN {S.max, ZSub(S.max, ZOne)} ELSE {})

Sources(S, U) ==
  Keep(S, General(S)
          \cup (IF U.hasmin THEN AroundBound(S, U, U.min, IF U.scale > 0 THEN IntPartMin(U.name) ELSE U.min) ELSE {})
          \cup (IF U.hasmax THEN AroundBound(S, U, U.max, IF U.scale > 0 THEN IntPartMax(U.name) ELSE U.max) ELSE {})
          \cup (IF U.word
                THEN LET p == ZPow2(U.bits)
                     IN UNION {AroundBound(S, U, b, b) : b \in {p, ZAdd(p, p), ZAdd(ZAdd(p, p), ZFromInt(5)), ZMinusOne, ZNeg(p), ZSub(ZNeg(p), ZOne)}}
                ELSE {}))

Init == sn \in Sel
Next == UNCHANGED sn
Spec == Init /\ [][Next]_sn

Emit == LET tab == FullNumTypeTable
            S == tab[sn]
        IN PrintT(ToJson([s |-> sn, per |-> [un \in NumTypeNames |-> Sources(S, tab[un])]]))
=============================================================================
