SPECIFICATION Spec
CONSTANTS NMax = 45
 DMax = 9
