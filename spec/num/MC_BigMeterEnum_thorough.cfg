SPECIFICATION Spec
CONSTANTS N = 16
 Extra = {21, 39, 40, 41, 42, 99, 100, 101}
 FullShifts = TRUE
INVARIANT Emit
