SPECIFICATION Spec
CONSTANTS NMax = 21
 DMax = 6
