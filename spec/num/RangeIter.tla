------------------------------ MODULE RangeIter ------------------------------
(***************************************************************************)
(* InclusiveRange<T>(start, end, step) for an integer element type T whose *)
(* values are the integers Lo..Hi  (property C21).                         *)
(*                                                                         *)
(* DENOTATION.  A successfully constructed range denotes the finite        *)
(* arithmetic sequence  start, start+step, start+2*step, ...  of the       *)
(* values that are not beyond `end` in the direction of `step`.  `end` is  *)
(* a member only when the step reaches it.                                 *)
(*                                                                         *)
(* CONSTRUCTION.  Without a step argument the step is +1 when start <= end *)
(* and -1 otherwise (which an unsigned type cannot represent: the          *)
(* construction fails).  An explicit step must be non-zero and must not    *)
(* move away from `end`.                                                   *)
(*                                                                         *)
(* ITERATION is specified as a state machine: an iterator that yields the  *)
(* members in order and stops after the last one.  The history variable    *)
(* `touched` records every integer the iterator computes in a step; the    *)
(* invariant                                                               *)
(* NeedsNoValueOutsideT states that all of them are values of T: the       *)
(* specified iterator never needs  last + step  (which may exceed Hi, or   *)
(* fall below Lo) to find out that it is done, so iteration of a range     *)
(* that ends at T's minimum or maximum terminates without error.           *)
(*                                                                         *)
(* MEMBERSHIP.  contains(x) is TRUE exactly for the members; it is total.  *)
(*                                                                         *)
(* The module is instantiated by TLC for small types exhaustively (every   *)
(* start/end/step of a 4-bit-like signed and unsigned type) and for the    *)
(* 8-bit types over boundary-biased parameter sets; the terminal states    *)
(* are printed as JSON rows - the table the real implementation is         *)
(* compared with (for-in result list and contains on every value of the    *)
(* type, interpreter and VM).                                              *)
(*                                                                         *)
(* Named deviations (DevIter etc.) describe the defects found in the pinned *)
(* implementation; a disagreement is a KNOWN finding only when the         *)
(* implementation's outcome is exactly the one the deviation predicts.     *)
(***************************************************************************)
EXTENDS Integers, Sequences, FiniteSets, TLC, Json

CONSTANTS Lo, Hi,            \* T = Lo..Hi, Lo <= 0 < Hi
          Starts, Ends,      \* explored arguments (subsets of T)
          Steps,             \* explored explicit step arguments (subset of T)
          Wraps,             \* BOOLEAN: T's + wraps around (Word types); only used by the deviations
          PrintRows          \* BOOLEAN: print the table rows

ASSUME /\ Lo \in Int /\ Hi \in Int /\ Lo <= 0 /\ 0 < Hi
       /\ Starts \subseteq Lo..Hi /\ Ends \subseteq Lo..Hi /\ Steps \subseteq Lo..Hi

T == Lo..Hi
Abs(x) == IF x < 0 THEN 0 - x ELSE x

-----------------------------------------------------------------------------
(* Construction                                                            *)

DefaultStep(start, end) == IF start <= end THEN 1 ELSE 0 - 1

\* has = an explicit step argument `arg` was passed
StepOf(start, end, has, arg) == IF has THEN arg ELSE DefaultStep(start, end)

MovesAway(start, end, step) == (start < end /\ step < 0) \/ (start > end /\ step > 0)

CtorOK(start, end, has, arg) ==
  LET step == StepOf(start, end, has, arg)
  IN /\ step \in T                       \* -1 is not a value of an unsigned type
     /\ step # 0
     /\ ~MovesAway(start, end, step)

-----------------------------------------------------------------------------
(* Denotation                                                              *)

\* x lies beyond `bound` when walking in the direction of step
Beyond(x, bound, step) == IF step > 0 THEN x > bound ELSE x < bound

Count(start, end, step) ==
  IF Beyond(start, end, step) THEN 0 ELSE (Abs(end - start) \div Abs(step)) + 1

SeqOf(start, end, step) == [k \in 1..Count(start, end, step) |-> start + (k - 1) * step]

Members(start, end, step) ==
  {x \in T : /\ ~Beyond(x, end, step)
             /\ ~Beyond(start, x, step)
             /\ (Abs(x - start) % Abs(step)) = 0}

Contains(start, end, step, x) == x \in Members(start, end, step)

Last(start, end, step) == start + (Count(start, end, step) - 1) * step

-----------------------------------------------------------------------------
(* The iterator                                                            *)

VARIABLES start, end, has, arg,     \* the arguments (fixed by Init)
          phase,                    \* "new" | "iter" | "done" | "rejected"
          cur,                      \* the next value to yield (phase = "iter")
          out,                      \* the values yielded so far
          touched                   \* every integer computed by the iterator in its last step

vars == <<start, end, has, arg, phase, cur, out, touched>>

step == StepOf(start, end, has, arg)

Init == /\ start \in Starts /\ end \in Ends
        /\ \/ has = FALSE /\ arg = 0
           \/ has = TRUE /\ arg \in Steps
        /\ phase = "new" /\ cur = 0 /\ out = << >> /\ touched = {}

Construct ==
  /\ phase = "new"
  /\ IF CtorOK(start, end, has, arg)
     THEN phase' = "iter" /\ cur' = start /\ touched' = {start}
     ELSE phase' = "rejected" /\ UNCHANGED <<cur, touched>>
  /\ UNCHANGED <<start, end, has, arg, out>>

\* Is there another member after cur?  For step > 0:  cur + step <= end, evaluated as
\* end >= Lo + step  (so that end - step is a value of T)  and  cur <= end - step.
\* Symmetrically for step < 0 with Hi.  Returns <<answer, set of computed integers>>.
More ==
  IF step > 0
  THEN IF end >= Lo + step THEN <<cur <= end - step, {Lo + step, end - step}>>
                           ELSE <<FALSE, {Lo + step}>>
  ELSE IF end <= Hi + step THEN <<cur >= end - step, {Hi + step, end - step}>>
                           ELSE <<FALSE, {Hi + step}>>

Yield ==
  /\ phase = "iter"
  /\ out' = Append(out, cur)
  /\ LET m == More
     IN IF m[1]
        THEN /\ cur' = cur + step
             /\ touched' = m[2] \cup {cur + step}
             /\ phase' = "iter"
        ELSE /\ phase' = "done"
             /\ touched' = m[2]
             /\ cur' = cur
  /\ UNCHANGED <<start, end, has, arg>>

Finished == phase \in {"done", "rejected"} /\ UNCHANGED vars

Next == Construct \/ Yield \/ Finished

Spec == Init /\ [][Next]_vars /\ WF_vars(Construct \/ Yield)

-----------------------------------------------------------------------------
(* Properties of the specified iterator                                    *)

TypeOK == /\ start \in T /\ end \in T /\ has \in BOOLEAN /\ arg \in T
          /\ phase \in {"new", "iter", "done", "rejected"}
          /\ cur \in T

\* the iterator never needs a value outside T
NeedsNoValueOutsideT == touched \subseteq T

\* what has been yielded is always a prefix of the denoted sequence, and cur is the next element
\* (stated locally, so that it is cheap to evaluate in every state:  element k is start + (k-1)*step)
YieldsTheSequence ==
  phase = "iter" =>
    /\ cur = start + Len(out) * step
    /\ ~Beyond(cur, end, step)
    /\ Len(out) < Count(start, end, step)
    /\ (Len(out) > 0 => out[Len(out)] = cur - step)

\* ... and when the iterator stops it has yielded exactly the denoted sequence
StopsAtTheEnd == phase = "done" => out = SeqOf(start, end, step)

\* the two formulations of the denotation agree, the sequence is non-empty, starts at start,
\* is strictly monotone in the direction of step and finite
DenotationConsistent ==
  phase = "done" =>
    LET s  == SeqOf(start, end, step)
        ms == Members(start, end, step)
    IN /\ Len(s) >= 1 /\ s[1] = start
       /\ {s[i] : i \in 1..Len(s)} = ms
       /\ \A i \in 1..(Len(s) - 1) : s[i + 1] - s[i] = step
       /\ ~Beyond(s[Len(s)], end, step) /\ Beyond(s[Len(s)] + step, end, step)
       /\ (end \in ms <=> s[Len(s)] = end)
       /\ s[Len(s)] = Last(start, end, step)

RejectedOnlyWhenSpecified == phase = "rejected" => ~CtorOK(start, end, has, arg)

\* iteration terminates
Termination == <>(phase \in {"done", "rejected"})

-----------------------------------------------------------------------------
(* Named deviations of the pinned implementation (known findings)          *)

\* DevEagerNext: the implementation computes  last + step  eagerly, with the type's own `+`,
\* before it yields `last`.  For a checked type this fails (overflow/underflow) exactly when
\* last + step is not a value of T, and then the whole loop fails; for a wrapping (Word) type
\* the sum wraps around to a value that is not beyond `end`, so the loop continues from there
\* (often for ever).
EagerNextLeavesT(s, e, st) == (Last(s, e, st) + st) \notin T

DevIter(s, e, st) ==
  IF ~EagerNextLeavesT(s, e, st) THEN "none"
  ELSE IF Wraps THEN "DevEagerNextWraps" ELSE "DevEagerNext"

\* what the wrapping variant yields: it goes on from the wrapped sum while that is not beyond end
\* (cut off after IterCap elements - the driver's loop stops there and reports "runaway")
IterCap == 301
Wrap(x) == Lo + ((x - Lo) % (Hi - Lo + 1))
RECURSIVE DevWrapRun(_, _, _, _, _)
DevWrapRun(x, e, st, k, acc) ==
  IF k = 0 \/ Beyond(x, e, st) THEN acc ELSE DevWrapRun(Wrap(x + st), e, st, k - 1, Append(acc, x))
DevWrapSeq(s, e, st) == DevWrapRun(s, e, st, IterCap, << >>)

\* DevContainsDiff: contains(x) computes  x - start  with the type's checked `-` for every x
\* strictly between start and end; it fails exactly when that difference is not a value of T.
StrictlyBetween(x, s, e) == (s < x /\ x < e) \/ (e < x /\ x < s)
DevContainsFails(s, e, st) == {x \in T : StrictlyBetween(x, s, e) /\ (x - s) \notin T}

\* DevContainsEnd: contains(end) is answered TRUE without looking at the step.
DevContainsEnd(s, e, st) == Last(s, e, st) # e

-----------------------------------------------------------------------------
(* The table: one JSON row per terminal state                              *)

Row == [lo |-> Lo, hi |-> Hi, s |-> start, e |-> end, h |-> has, p |-> arg,
        ok |-> (phase = "done"),
        step |-> IF phase = "done" THEN step ELSE 0,
        seq |-> out,
        mem |-> IF phase = "done" THEN Members(start, end, step) ELSE {},
        devIter |-> IF phase = "done" THEN DevIter(start, end, step) ELSE "none",
        devSeq |-> IF phase = "done" /\ DevIter(start, end, step) = "DevEagerNextWraps"
                   THEN DevWrapSeq(start, end, step) ELSE << >>,
        devFail |-> IF phase = "done" THEN DevContainsFails(start, end, step) ELSE {},
        devEnd |-> IF phase = "done" THEN DevContainsEnd(start, end, step) ELSE FALSE]

\* always TRUE; prints the row of every terminal state once
Emit == (PrintRows /\ phase \in {"done", "rejected"}) => PrintT(ToJson(Row))
=============================================================================
