SPECIFICATION Spec
CONSTANT LogFile = "order.log.ndjson"
INVARIANT Judged
