--------------------------- MODULE Trace_CcfOrder ---------------------------
(* Judging recorded orders (impl -> spec, C42). The driver extracts, from real deterministic CCF
   encodings, the emitted order of dictionary keys (raw encoded key bytes), composite field names,
   intersection members, entitlement-set members and type definitions, and logs one record
   [rule, keys, what] per encoding. Every record must be sorted by its rule; a record that is not is
   printed (the check reports it). *)
EXTENDS ByteOrder
CONSTANT LogFile
Log == ndJsonDeserialize(LogFile)
VARIABLE i
Init == i = 0
Next == i < Len(Log) /\ i' = i + 1
Spec == Init /\ [][Next]_i
Sorted(e) == WeaklySorted(e.rule, e.keys)
\* always TRUE: an unsorted record is printed, not a model error
Judged == i = 0 \/ Sorted(Log[i]) \/ PrintT(ToJson([bad |-> i, what |-> Log[i].what, rule |-> Log[i].rule, keys |-> Log[i].keys]))
=============================================================================
