---------------------------- MODULE MC_JsonCdc ----------------------------
(* The bounded universe of values and types for JsonCdc (C41/C43), shared by CCF (C42), the
   storage codec (C44) and argument validation (C29): every value kind and every type kind,
   nested to depth 2, with boundary numbers; Seed rotates the representatives that are nested,
   Full switches from "constructors over representatives" to "constructors over everything". *)
EXTENDS JsonCdc, CdcSyntax
CONSTANTS Seed, Full

\* built-in type names of the language (sema: simple, numeric, path, account, entitlement types)
MCPrimSeq == <<
  "Int", "Int8", "Int16", "Int32", "Int64", "Int128", "Int256",
  "UInt", "UInt8", "UInt16", "UInt32", "UInt64", "UInt128", "UInt256",
  "Word8", "Word16", "Word32", "Word64", "Word128", "Word256",
  "Fix64", "UFix64", "Fix128", "UFix128",
  "Bool", "String", "Character", "Address", "Void", "Never", "Type",
  "Any", "AnyStruct", "AnyResource", "AnyStructAttachment", "AnyResourceAttachment", "HashableStruct", "Storable",
  "Number", "SignedNumber", "Integer", "SignedInteger", "FixedSizeUnsignedInteger", "FixedPoint", "SignedFixedPoint",
  "Path", "CapabilityPath", "StoragePath", "PublicPath", "PrivatePath",
  "Block", "DeployedContract", "StringBuilder",
  "Account", "Account.Storage", "Account.Contracts", "Account.Keys", "Account.Inbox", "Account.Capabilities",
  "Account.StorageCapabilities", "Account.AccountCapabilities",
  "StorageCapabilityController", "AccountCapabilityController",
  "Mutate", "Insert", "Remove", "Identity",
  "Storage", "SaveValue", "LoadValue", "CopyValue", "BorrowValue",
  "Contracts", "AddContract", "UpdateContract", "RemoveContract",
  "Keys", "AddKey", "RevokeKey",
  "Inbox", "PublishInboxCapability", "UnpublishInboxCapability", "ClaimInboxCapability",
  "Capabilities", "StorageCapabilities", "AccountCapabilities", "PublishCapability", "UnpublishCapability",
  "GetStorageCapabilityController", "IssueStorageCapabilityController",
  "GetAccountCapabilityController", "IssueAccountCapabilityController",
  "CapabilitiesMapping", "AccountMapping" >>
MCPrimNames == {MCPrimSeq[i] : i \in 1..Len(MCPrimSeq)}

Loc == "A.0000000000000001.C"
Q(n) == Loc \o "." \o n

\* nominal types: one definition per type ID
TS     == Comp("Struct", Q("S"), <<Fld("a", P("Int")), Fld("b", P("String"))>>, <<>>, <<>>)
TSInit == Comp("Struct", Q("SInit"), <<Fld("x", P("UFix64"))>>, << <<Par("from", "y", OptT(P("Int"))), Par("", "z", P("Bool"))>> >>, <<>>)
TNode  == Comp("Struct", Q("Node"), <<Fld("next", OptT(RecT(Q("Node")))), Fld("id", P("UInt8"))>>, <<>>, <<>>)
TH     == Comp("Struct", Q("H"), <<Fld("x", P("AnyStruct"))>>, <<>>, <<>>)
TZ     == Comp("Struct", Q("Z"), <<Fld("zz", P("Int")), Fld("b", P("Bool")), Fld("aaa", P("String")), Fld("a", P("Int8"))>>, <<>>, <<>>)
TSLoc  == Comp("Struct", "S.test.Foo", <<Fld("v", P("Word8"))>>, <<>>, <<>>)
TR     == Comp("Resource", Q("R"), <<Fld("uuid", P("UInt64")), Fld("n", P("Int"))>>, <<>>, <<>>)
TRH    == Comp("Resource", Q("RH"), <<Fld("uuid", P("UInt64")), Fld("x", P("AnyResource"))>>, <<>>, <<>>)
TEv    == Comp("Event", Q("Ev"), <<Fld("z", P("Int")), Fld("a", P("String"))>>, << <<Par("", "z", P("Int")), Par("with", "a", P("String"))>> >>, <<>>)
TEvH   == Comp("Event", Q("EvH"), <<Fld("x", P("AnyStruct"))>>, << <<Par("", "x", P("AnyStruct"))>> >>, <<>>)
TEv0   == Comp("Event", "flow.AccountCreated", <<Fld("address", P("Address"))>>, << <<Par("", "address", P("Address"))>> >>, <<>>)
TC     == Comp("Contract", Loc, <<Fld("total", P("UFix64"))>>, <<>>, <<>>)
TE     == Comp("Enum", Q("E"), <<Fld("rawValue", P("UInt8"))>>, <<>>, << P("UInt8") >>)
TA     == Comp("Attachment", Q("A"), <<Fld("n", P("Int"))>>, <<>>, << P("AnyStruct") >>)
THash  == Comp("Enum", "HashAlgorithm", <<Fld("rawValue", P("UInt8"))>>, <<>>, << P("UInt8") >>)   \* native type: no location
\* composite types with the SAME qualified name C.S at other addresses, declared with other field orders / counts:
\* every type definition is encoded (and, in deterministic mode, sorted) on its own
TS02   == Comp("Struct", "A.0000000000000002.C.S", <<Fld("b", P("String")), Fld("a", P("Int"))>>, <<>>, <<>>)
TS03   == Comp("Struct", "A.0000000000000003.C.S", <<Fld("zz", P("Bool")), Fld("a", P("Int")), Fld("m", P("UInt8"))>>, <<>>, <<>>)
TR02   == Comp("Resource", "A.0000000000000002.C.R", <<Fld("n", P("Int")), Fld("uuid", P("UInt64")), Fld("extra", P("String"))>>, <<>>, <<>>)
TEv02  == Comp("Event", "A.0000000000000002.C.Ev", <<Fld("a", P("String")), Fld("z", P("Int"))>>, << <<Par("", "a", P("String")), Par("with", "z", P("Int"))>> >>, <<>>)
TSI    == Comp("StructInterface", Q("SI"), <<>>, <<>>, <<>>)
TSI2   == Comp("StructInterface", Q("SI2"), <<Fld("f", P("Int"))>>, <<>>, <<>>)
TRI    == Comp("ResourceInterface", Q("RI"), <<>>, <<>>, <<>>)
TCI    == Comp("ContractInterface", Q("CI"), <<>>, <<>>, <<>>)
Nominals == {TS02, TS03, TR02, TEv02, THash, TS, TSInit, TNode, TH, TZ, TSLoc, TR, TRH, TEv, TEvH, TEv0, TC, TE, TA, TSI, TSI2, TRI, TCI}

E1 == Q("E1")
E2 == Q("E22")
MapM == Q("M")
Auths == {Unauth, [k |-> "map", id |-> MapM], [k |-> "conj", ents |-> <<E1>>],
          [k |-> "conj", ents |-> <<E2, E1>>], [k |-> "disj", ents |-> <<E2, E1>>]}

IntTypeSeq == <<"Int", "Int8", "Int16", "Int32", "Int64", "Int128", "Int256",
                "UInt", "UInt8", "UInt16", "UInt32", "UInt64", "UInt128", "UInt256",
                "Word8", "Word16", "Word32", "Word64", "Word128", "Word256">>

\* boundary values per integer type: min, max, then interior values
IntVals == [
  Int    |-> <<"-100000000000000000000000000000000000000000000000000000000000000000000000000000001",
               "100000000000000000000000000000000000000000000000000000000000000000000000000000001", "0", "-1", "18446744073709551616">>,
  Int8   |-> <<"-128", "127", "0", "-1", "5">>,
  Int16  |-> <<"-32768", "32767", "0", "-1", "300">>,
  Int32  |-> <<"-2147483648", "2147483647", "0", "-1", "70000">>,
  Int64  |-> <<"-9223372036854775808", "9223372036854775807", "0", "-1", "4294967296">>,
  Int128 |-> <<"-170141183460469231731687303715884105728", "170141183460469231731687303715884105727", "0", "-1", "18446744073709551616">>,
  Int256 |-> <<"-57896044618658097711785492504343953926634992332820282019728792003956564819968",
               "57896044618658097711785492504343953926634992332820282019728792003956564819967", "0", "-1", "340282366920938463463374607431768211456">>,
  UInt   |-> <<"0", "100000000000000000000000000000000000000000000000000000000000000000000000000000001", "1", "255", "18446744073709551616">>,
  UInt8  |-> <<"0", "255", "1", "23", "24">>,
  UInt16 |-> <<"0", "65535", "1", "255", "256">>,
  UInt32 |-> <<"0", "4294967295", "1", "65535", "65536">>,
  UInt64 |-> <<"0", "18446744073709551615", "1", "4294967295", "4294967296">>,
  UInt128 |-> <<"0", "340282366920938463463374607431768211455", "1", "18446744073709551615", "18446744073709551616">>,
  UInt256 |-> <<"0", "115792089237316195423570985008687907853269984665640564039457584007913129639935", "1",
                "340282366920938463463374607431768211455", "340282366920938463463374607431768211456">>,
  Word8  |-> <<"0", "255", "1", "23", "24">>,
  Word16 |-> <<"0", "65535", "1", "255", "256">>,
  Word32 |-> <<"0", "4294967295", "1", "65535", "65536">>,
  Word64 |-> <<"0", "18446744073709551615", "1", "4294967295", "4294967296">>,
  Word128 |-> <<"0", "340282366920938463463374607431768211455", "1", "18446744073709551615", "18446744073709551616">>,
  Word256 |-> <<"0", "115792089237316195423570985008687907853269984665640564039457584007913129639935", "1",
                "340282366920938463463374607431768211455", "340282366920938463463374607431768211456">> ]

FixSeq == [
  Fix64   |-> <<Fx("Fix64", TRUE, "92233720368", "54775808"), Fx("Fix64", FALSE, "92233720368", "54775807"),
                Fx("Fix64", FALSE, "0", ""), Fx("Fix64", TRUE, "0", "00000001"), Fx("Fix64", FALSE, "1", "5")>>,
  UFix64  |-> <<Fx("UFix64", FALSE, "0", ""), Fx("UFix64", FALSE, "184467440737", "09551615"),
                Fx("UFix64", FALSE, "0", "00000001"), Fx("UFix64", FALSE, "1", "5"), Fx("UFix64", FALSE, "10", "01")>>,
  Fix128  |-> <<Fx("Fix128", TRUE, "170141183460469", "231731687303715884105728"),
                Fx("Fix128", FALSE, "170141183460469", "231731687303715884105727"),
                Fx("Fix128", FALSE, "0", ""), Fx("Fix128", TRUE, "0", "000000000000000000000001"), Fx("Fix128", FALSE, "1", "5")>>,
  UFix128 |-> <<Fx("UFix128", FALSE, "0", ""), Fx("UFix128", FALSE, "340282366920938", "463463374607431768211455"),
                Fx("UFix128", FALSE, "0", "000000000000000000000001"), Fx("UFix128", FALSE, "1", "5"), Fx("UFix128", FALSE, "10", "01")>> ]
FixTypeSeq == <<"Fix64", "UFix64", "Fix128", "UFix128">>
MCFixUniverse == (UNION {{FixSeq[t][i] : i \in 1..5} : t \in FixedTypes}) \cup {Fx("UFix64", FALSE, "1000", "")}
MCAddrUniverse == {"0000000000000000", "0000000000000001", "ffffffffffffffff", "00000000000000ab"}

Pick(s, off) == s[((Seed + off) % Len(s)) + 1]

\* Repeated nominal types inside ONE embedded type. JSON-Cadence writes the first occurrence of a composite or
\* interface type in full and every later occurrence - enclosing (recursion) or sibling - as its type ID; RecT(tid)
\* is such a later occurrence. For every nominal kind: a self-recursive type, the same type at sibling positions,
\* and mutual recursion between an interface and a composite.
NomKinds == <<"Struct", "Resource", "Contract", "Event", "Attachment", "StructInterface", "ResourceInterface", "ContractInterface">>
RTid(k) == Q("Rec" \o k)
RecFields(k) == LET r == RecT(RTid(k)) IN
  <<Fld("self", OptT(r)), Fld("arr", VArr(r)), Fld("d", DictT(P("String"), r)), Fld("ref", RefT(Unauth, r))>>
  \o (IF k \in InterfaceKinds THEN <<Fld("i", InterT(<<r>>))>> ELSE <<>>)
RecInits(k) == << <<Par("", "p", P("Int")), Par("with", "q", VArr(P("String")))>> >>
\* the type referring to itself from an INITIALIZER parameter (kept apart: see known finding C41-self-reference-in-initializer)
RecInitType(k) == Comp(k, Q("RecInit" \o k), <<Fld("f", P("Int"))>>, << <<Par("", "p", OptT(RecT(Q("RecInit" \o k)))), Par("with", "q", P("Int"))>> >>, <<>>)
RecType(k) == Comp(k, RTid(k), RecFields(k), RecInits(k), IF k = "Attachment" THEN << P("AnyStruct") >> ELSE <<>>)
RecEnum == Comp("Enum", Q("RecEnum"), <<Fld("rawValue", P("UInt8")), Fld("other", OptT(RecT(Q("RecEnum"))))>>, <<>>, << P("UInt8") >>)
RecNominals == {RecType(NomKinds[i]) : i \in 1..Len(NomKinds)} \cup {RecEnum}
\* a small type of each kind for the sibling positions
Small(k) == Comp(k, Q("Sm" \o k), IF k \in {"Enum"} THEN <<Fld("rawValue", P("UInt8"))>> ELSE <<Fld("f", P("Int"))>>,
                 IF k = "Event" THEN << <<Par("", "f", P("Int"))>> >> ELSE <<>>,
                 IF k = "Enum" THEN << P("UInt8") >> ELSE IF k = "Attachment" THEN << P("AnyStruct") >> ELSE <<>>)
AllKinds == NomKinds \o <<"Enum">>
Sib(t) == LET r == RecT(t.tid) IN
  {FunT("impure", <<>>, <<Par("", "a", t)>>, r),
   FunT("view", <<>>, <<Par("", "a", RefT(Unauth, t)), Par("", "b", OptT(r))>>, VArr(r)),
   DictT(t, r), DictT(P("String"), DictT(t, VArr(r))),
   Comp("Struct", Q("Pair" \o t.ck), <<Fld("x", t), Fld("y", r), Fld("z", OptT(r))>>, <<>>, <<>>),
   CapT(<< RefT(Unauth, DictT(P("String"), VArr(t))) >>), OptT(CArr(DictT(t, r), 2))}
  \cup (IF t.ck \in InterfaceKinds
        THEN {InterT(<<t, Small(IF t.ck = "StructInterface" THEN "ResourceInterface" ELSE "StructInterface")>>),
              Comp("Struct", Q("TwoI" \o t.ck), <<Fld("x", InterT(<<t>>)), Fld("y", InterT(<<r>>))>>, <<>>, <<>>),
              FunT("impure", <<>>, <<Par("", "a", RefT(Unauth, InterT(<<t>>)))>>, RefT(Unauth, InterT(<<r>>)))}
        ELSE {})
SibTypes == UNION {Sib(Small(AllKinds[i])) : i \in 1..Len(AllKinds)}
\* mutual recursion interface <-> composite
MutSI == Comp("StructInterface", Q("MutI"), <<Fld("c", OptT(Comp("Struct", Q("MutC"), <<Fld("i", InterT(<<RecT(Q("MutI"))>>)), Fld("again", OptT(RecT(Q("MutC"))))>>, <<>>, <<>>)))>>, <<>>, <<>>)
MutR  == Comp("Resource", Q("MutR"), <<Fld("i", OptT(InterT(<<Comp("ResourceInterface", Q("MutRI"), <<Fld("r", OptT(RecT(Q("MutR")))), Fld("me", OptT(InterT(<<RecT(Q("MutRI"))>>)))>>, <<>>, <<>>)>>)))>>, <<>>, <<>>)
MutCI == Comp("ContractInterface", Q("MutCI"), <<Fld("c", RefT(Unauth, Comp("Contract", Q("MutCC"), <<Fld("i", RefT(Unauth, RecT(Q("MutCI"))))>>, <<>>, <<>>)))>>, <<>>, <<>>)
\* a type first written in a field and referred to from an initializer parameter of the same nominal type
PairInit == Comp("Struct", Q("PairInit"), <<Fld("x", Small("Struct"))>>, << <<Par("", "x", RecT(Q("SmStruct")))>> >>, <<>>)
RecTypes == RecNominals \cup SibTypes \cup {MutSI, MutR, MutCI} \cup {RecInitType("Struct"), RecInitType("StructInterface"), RecInitType("Event"), PairInit}
               \cup {OptT(t) : t \in RecNominals} \cup {VArr(t) : t \in {MutSI, MutR, MutCI}}
RecValues == {CapV("3", "0000000000000001", RefT(Unauth, t)) : t \in RecNominals \cup {MutSI, MutR, MutCI}}
             \cup {FunV(t) : t \in {x \in SibTypes : x.k = "fun"}}
             \cup {Some(TypeV(t)) : t \in {MutSI, RecType("ResourceInterface"), RecType("Struct")}}
             \cup {Arr(VArr(P("Type")), <<TypeV(RecType("StructInterface")), TypeV(RecType("StructInterface"))>>),
                   CompV(TH, <<TypeV(MutR)>>), Dict(DictT(P("String"), P("Type")), <<KV(Str("$s:a"), TypeV(RecType("ContractInterface")))>>)}

-----------------------------------------------------------------------------
(* type universe *)
T0 == {P(n) : n \in MCPrimNames} \cup Nominals

Con(t) == {OptT(t), VArr(t), CArr(t, 3), DictT(P("String"), t), RefT(Unauth, t), CapT(<<t>>),
           FunT("impure", <<>>, <<Par("", "a", t)>>, P("Void")), FunT("view", <<>>, <<>>, t)}

ExtraT == {DictT(P("Int"), P("String")), DictT(P("Address"), OptT(P("UFix64"))), DictT(TE, P("Int")), DictT(P("Path"), TS),
           CArr(P("UInt8"), 0), CArr(P("Bool"), 255),
           InterT(<<TSI>>), InterT(<<TSI2, TSI>>), InterT(<<TRI>>),
           CapT(<<>>), CapT(<< RefT([k |-> "conj", ents |-> <<E1>>], TR) >>),
           FunT("impure", << [name |-> "T", bound |-> <<>>] >>, <<Par("", "x", P("Int"))>>, P("Never")),
           FunT("view", << [name |-> "T", bound |-> << P("AnyStruct") >>], [name |-> "U", bound |-> << RefT(Unauth, P("Any")) >>] >>,
                <<Par("lbl", "x", P("Int")), Par("", "y", OptT(P("String")))>>, VArr(P("Int"))),
           FunT("impure", <<>>, <<Par("", "a", P("Int")), Par("", "b", P("String"))>>, P("Void")),   \* fun(a: Int, b: String): no labels
           FunT("impure", <<>>, <<Par("", "f", FunT("view", <<>>, <<>>, P("Void")))>>, FunT("impure", <<>>, <<>>, P("Int")))}
          \cup {RangeT(P(IntTypeSeq[i])) : i \in 1..Len(IntTypeSeq)}
          \cup {RefT(a, t) : a \in Auths, t \in {P("Int"), TR, P("Account"), InterT(<<TRI>>)}}

T1 == (UNION {Con(t) : t \in T0}) \cup ExtraT

\* representatives of depth-1 types that get nested once more
T1Rep == (UNION {Con(t) : t \in {P(Pick(MCPrimSeq, 0)), P(Pick(MCPrimSeq, 7)), TNode, TEv, Pick(<<TS, TR, TE, TSI, TA, TC, TSInit>>, 0)}}) \cup ExtraT
T2 == UNION {Con(t) : t \in (IF Full THEN T1 ELSE T1Rep)}

TypeUniverse == T0 \cup T1 \cup T2 \cup RecTypes

-----------------------------------------------------------------------------
(* value universe *)
IntLeaves == UNION {{Num(IntTypeSeq[n], IntVals[IntTypeSeq[n]][i]) : i \in 1..5} : n \in 1..Len(IntTypeSeq)}
SimpleLeaves == {[k |-> "void"], BoolV(TRUE), BoolV(FALSE), NilV,
                 Str("$s:empty"), Str("$s:ascii"), Str("$s:esc"), Str("$s:uni"), Str("$s:nfd"),
                 Chr("$c:a"), Chr("$c:eacute"), Chr("$c:flag"), Chr("$c:newline"), Chr("$c:nfd"),
                 PathV("storage", "foo"), PathV("public", "bar_1"), PathV("private", "p"), PathV("storage", "a")}
                \cup {Addr(h) : h \in MCAddrUniverse}
RangeLeaves == {Range("Int", "1", "10", "2"), Range("Int", "10", "-10", "-5"), Range("UInt8", "0", "255", "1"),
                Range("Int256", "0", "340282366920938463463374607431768211456", "18446744073709551616"),
                Range("Word64", "5", "5", "1"), Range("Int8", "-128", "127", "127")}
CompLeaves == {CompV(TS, <<Num("Int", "42"), Str("$s:ascii")>>), CompV(TS, <<Num("Int", "-1"), Str("$s:uni")>>),
               CompV(TSInit, <<Fx("UFix64", FALSE, "1", "5")>>),
               CompV(TNode, <<NilV, Num("UInt8", "1")>>),
               CompV(TNode, <<Some(CompV(TNode, <<NilV, Num("UInt8", "2")>>)), Num("UInt8", "1")>>),
               CompV(TZ, <<Num("Int", "1"), BoolV(TRUE), Str("$s:a"), Num("Int8", "-8")>>),
               CompV(TSLoc, <<Num("Word8", "255")>>),
               CompV(TR, <<Num("UInt64", "7"), Num("Int", "3")>>),
               CompV(TEv, <<Num("Int", "9"), Str("$s:esc")>>),
               CompV(TEv0, <<Addr("0000000000000001")>>),
               CompV(TC, <<Fx("UFix64", FALSE, "1000", "")>>),
               CompV(TE, <<Num("UInt8", "0")>>), CompV(TE, <<Num("UInt8", "1")>>), CompV(THash, <<Num("UInt8", "3")>>),
               CompV(TA, <<Num("Int", "4")>>),
               \* a struct value with one attachment: exported as an extra, unnamed field value
               CompV(TS, <<Num("Int", "42"), Str("$s:ascii"), CompV(TA, <<Num("Int", "4")>>)>>)}
\* one value holding composites of same-named types from different addresses (array, dictionary, struct field, nested)
VS01 == CompV(TS, <<Num("Int", "1"), Str("$s:a")>>)
VS02 == CompV(TS02, <<Str("$s:b"), Num("Int", "2")>>)
VS03 == CompV(TS03, <<BoolV(TRUE), Num("Int", "3"), Num("UInt8", "7")>>)
VR01 == CompV(TR, <<Num("UInt64", "7"), Num("Int", "3")>>)
VR02 == CompV(TR02, <<Num("Int", "4"), Num("UInt64", "8"), Str("$s:ab")>>)
AnyS == P("AnyStruct")
SameNameValues ==
  {Arr(VArr(AnyS), <<VS01, VS02>>), Arr(VArr(AnyS), <<VS02, VS01>>), Arr(VArr(AnyS), <<VS03, VS01, VS02>>), Arr(VArr(AnyS), <<VS02, VS03>>),
   Arr(VArr(AnyS), <<VS01, VS03>>), Arr(CArr(AnyS, 2), <<VS03, VS02>>),
   Dict(DictT(P("String"), AnyS), <<KV(Str("$s:a"), VS01), KV(Str("$s:b"), VS02)>>),
   Dict(DictT(P("String"), AnyS), <<KV(Str("$s:a"), VS02), KV(Str("$s:b"), VS03), KV(Str("$s:ab"), VS01)>>),
   CompV(TH, << Arr(VArr(AnyS), <<VS02, VS01>>) >>),
   CompV(TH, << CompV(TH, << Arr(VArr(AnyS), <<VS01, VS03>>) >>) >>),
   Arr(VArr(AnyS), <<CompV(TH, <<VS02>>), CompV(TH, <<VS01>>)>>),
   Some(Arr(VArr(OptT(AnyS)), <<Some(VS03), NilV, Some(VS01)>>)),
   Arr(VArr(P("AnyResource")), <<VR01, VR02>>), Arr(VArr(P("AnyResource")), <<VR02, VR01>>),
   CompV(TRH, <<Num("UInt64", "1"), Arr(VArr(P("AnyResource")), <<VR02, VR01>>)>>),
   Arr(VArr(AnyS), <<CompV(TEv, <<Num("Int", "9"), Str("$s:a")>>), CompV(TEv02, <<Str("$s:b"), Num("Int", "8")>>)>>),
   Arr(VArr(AnyS), <<CompV(TEv02, <<Str("$s:b"), Num("Int", "8")>>), CompV(TEv, <<Num("Int", "9"), Str("$s:a")>>)>>),
   Arr(VArr(AnyS), <<TypeV(TS02), VS01>>), TypeV(DictT(P("String"), VArr(TS03)))}

CapLeaves == {CapV("0", "0000000000000001", RefT(Unauth, P("Int"))),
              CapV("18446744073709551615", "ffffffffffffffff", RefT([k |-> "conj", ents |-> <<E2, E1>>], TR)),
              CapV("5", "00000000000000ab", RefT(Unauth, InterT(<<TSI2, TSI>>))),
              CapV("6", "0000000000000001", RefT([k |-> "map", id |-> MapM], TNode)),
              CapV("7", "0000000000000001", RefT(Unauth, P("Account")))}
FunTypes == {t \in T1 \cup ExtraT : t.k = "fun"}
FunLeaves == {FunV(t) : t \in {FunT("view", <<>>, <<>>, P("Int")), FunT("impure", <<>>, <<Par("", "a", TS)>>, P("Void"))}}
TypeLeaves == {TypeV(t) : t \in TypeUniverse}

Leaves == IntLeaves \cup MCFixUniverse \cup SimpleLeaves \cup RangeLeaves \cup CompLeaves \cup CapLeaves \cup FunLeaves
          \cup {VS02, VS03, VR02}

Hashable(v) == v.k \in {"bool", "str", "chr", "addr", "num", "fix", "path", "type"} \/ (v.k = "comp" /\ v.t.ck = "Enum")
AnyOf(v) == IF IsResource(v) THEN P("AnyResource") ELSE P("AnyStruct")
Other(v) == IF IsResource(v) THEN CompV(TR, <<Num("UInt64", "8"), Num("Int", "0")>>) ELSE Str("$s:b")

Wrap(v) ==
  {Some(v),
   Arr(VArr(TypeOf(v)), <<v>>),
   Arr(VArr(AnyOf(v)), <<v, Other(v)>>),
   Arr(CArr(TypeOf(v), 2), <<v, v>>),
   Arr(VArr(TypeOf(v)), <<>>),
   Dict(DictT(P("String"), TypeOf(v)), <<KV(Str("$s:b"), v), KV(Str("$s:a"), v)>>),
   Dict(DictT(P("Int"), AnyOf(v)), <<KV(Num("Int", "1"), v)>>),
   IF IsResource(v) THEN CompV(TRH, <<Num("UInt64", "1"), v>>) ELSE CompV(TH, <<v>>)}
  \cup (IF Hashable(v) THEN {Dict(DictT(TypeOf(v), P("Bool")), <<KV(v, BoolV(TRUE))>>)} ELSE {})
  \cup (IF IsResource(v) THEN {} ELSE {CompV(TEvH, <<v>>)})

\* one representative leaf per value kind for the second nesting level
RepLeaves == {Num(Pick(IntTypeSeq, 0), IntVals[Pick(IntTypeSeq, 0)][(Seed % 5) + 1]),
              FixSeq[Pick(FixTypeSeq, 0)][(Seed % 5) + 1],
              Pick(<<Str("$s:uni"), Str("$s:esc"), Str("$s:empty")>>, 0), Pick(<<Chr("$c:flag"), Chr("$c:a")>>, 0),
              BoolV(TRUE), NilV, [k |-> "void"], Addr("00000000000000ab"), PathV("public", "bar_1"),
              Range("Int", "1", "10", "2"),
              CompV(TS, <<Num("Int", "42"), Str("$s:ascii")>>), CompV(TR, <<Num("UInt64", "7"), Num("Int", "3")>>),
              CompV(TE, <<Num("UInt8", "1")>>), CompV(TZ, <<Num("Int", "1"), BoolV(TRUE), Str("$s:a"), Num("Int8", "-8")>>),
              CompV(TNode, <<Some(CompV(TNode, <<NilV, Num("UInt8", "2")>>)), Num("UInt8", "1")>>),
              CapV("5", "00000000000000ab", RefT(Unauth, InterT(<<TSI2, TSI>>))),
              TypeV(OptT(TNode)), TypeV(Pick(<<P("Int"), TR, RefT(Unauth, TS)>>, 0)),
              FunV(FunT("view", <<>>, <<>>, P("Int")))}

L1 == UNION {Wrap(v) : v \in Leaves \cup {TypeV(P("Int")), TypeV(OptT(TNode))}}
L1Rep == UNION {Wrap(v) : v \in RepLeaves}
L2 == UNION {Wrap(v) : v \in (IF Full THEN L1 ELSE L1Rep)}

MCStoredTids == {Q("S"), Q("SInit"), Q("Node"), Q("H"), Q("Z"), Q("E")}

\* storage-only value kinds (C44), encoded directly with the storage codec:
\* capability controllers, published values, capability values, and the deprecated link / path-capability values
RefInt == RefT(Unauth, P("Int"))
MCStorageOnly == {
  [k |-> "sctl", id |-> "3", t |-> RefInt, path |-> PathV("storage", "foo")],
  [k |-> "sctl", id |-> "18446744073709551615", t |-> RefT([k |-> "conj", ents |-> <<E2, E1>>], TR), path |-> PathV("storage", "a")],
  [k |-> "actl", id |-> "4", t |-> RefT(Unauth, P("Account"))],
  [k |-> "actl", id |-> "5", t |-> RefT([k |-> "conj", ents |-> <<"Storage">>], P("Account"))],
  [k |-> "published", recipient |-> "0000000000000002", cap |-> CapV("7", "0000000000000001", RefInt)],
  [k |-> "capv", cap |-> CapV("7", "0000000000000001", RefInt)],
  [k |-> "capv", cap |-> CapV("0", "ffffffffffffffff", RefT(Unauth, InterT(<<TSI2, TSI>>)))],
  [k |-> "capv", cap |-> CapV("9", "0000000000000001", RefT(Unauth, VArr(OptT(TNode))))],
  [k |-> "pathlink", t |-> RefInt, path |-> PathV("storage", "foo")],
  [k |-> "acctlink"],
  [k |-> "pathcap", addr |-> "0000000000000001", path |-> PathV("public", "bar_1"), t |-> <<RefInt>>],
  [k |-> "pathcap", addr |-> "0000000000000001", path |-> PathV("private", "p"), t |-> <<>>]}

\* Dictionaries with several keys per hashable key kind, the key sets chosen across the boundaries where the encoded
\* key changes length or sign (so that "shorter first" and "bytewise" orders of the encoded keys differ), presented
\* in both orders, and nested in an optional, an array, a struct field, an event and another dictionary.
IdxStr == <<"1", "2", "3", "4">>
Rv(s) == [i \in 1..Len(s) |-> s[Len(s) + 1 - i]]
KD(kt, keys) == Dict(DictT(kt, P("Int")), [i \in 1..Len(keys) |-> KV(keys[i], Num("Int", IdxStr[i]))])
NumKeys(t, ss) == [i \in 1..Len(ss) |-> Num(t, ss[i])]
KeySets == {
  <<P("Int8"), NumKeys("Int8", <<"-1", "24">>)>>, <<P("Int8"), NumKeys("Int8", <<"-25", "23">>)>>,
  <<P("Int16"), NumKeys("Int16", <<"-257", "255">>)>>, <<P("Int16"), NumKeys("Int16", <<"-1", "256", "24">>)>>,
  <<P("Int32"), NumKeys("Int32", <<"0", "65536", "-1">>)>>, <<P("Int64"), NumKeys("Int64", <<"-1", "4294967296">>)>>,
  <<P("Int"), NumKeys("Int", <<"-1", "24">>)>>, <<P("Int"), NumKeys("Int", <<"-1", "256">>)>>,
  <<P("Int"), NumKeys("Int", <<"-18446744073709551616", "18446744073709551617">>)>>, <<P("Int"), NumKeys("Int", <<"-257", "255", "0">>)>>,
  <<P("Int128"), NumKeys("Int128", <<"-1", "256">>)>>, <<P("Int256"), NumKeys("Int256", <<"-1", "18446744073709551616">>)>>,
  <<P("UInt8"), NumKeys("UInt8", <<"23", "24", "255">>)>>, <<P("UInt64"), NumKeys("UInt64", <<"4294967296", "1">>)>>,
  <<P("UInt"), NumKeys("UInt", <<"255", "256", "0">>)>>, <<P("Word16"), NumKeys("Word16", <<"255", "256">>)>>,
  <<P("UInt128"), NumKeys("UInt128", <<"1", "18446744073709551616">>)>>,
  <<P("Fix64"), <<FixSeq["Fix64"][4], FixSeq["Fix64"][5]>>>>, <<P("UFix64"), <<FixSeq["UFix64"][3], FixSeq["UFix64"][2]>>>>,
  <<P("Fix128"), <<FixSeq["Fix128"][4], FixSeq["Fix128"][5]>>>>, <<P("UFix128"), <<FixSeq["UFix128"][3], FixSeq["UFix128"][2]>>>>,
  <<P("Address"), <<Addr("0000000000000001"), Addr("ffffffffffffffff"), Addr("00000000000000ab")>>>>,
  <<P("Path"), <<PathV("storage", "foo"), PathV("public", "p")>>>>, <<P("Path"), <<PathV("private", "p"), PathV("storage", "a"), PathV("public", "bar_1")>>>>,
  <<P("StoragePath"), <<PathV("storage", "foo"), PathV("storage", "a")>>>>,
  <<P("String"), <<Str("$s:b"), Str("$s:ab")>>>>, <<P("String"), <<Str("$s:long"), Str("$s:empty"), Str("$s:B"), Str("$s:uni")>>>>,
  <<P("Character"), <<Chr("$c:a"), Chr("$c:flag"), Chr("$c:eacute")>>>>,
  <<P("Bool"), <<BoolV(TRUE), BoolV(FALSE)>>>>,
  <<TE, <<CompV(TE, <<Num("UInt8", "1")>>), CompV(TE, <<Num("UInt8", "0")>>)>>>>,
  <<P("Type"), <<TypeV(VArr(P("String"))), TypeV(P("Int"))>>>>,
  \* heterogeneous key sets under an abstract key type: every key carries its own inline type
  <<P("HashableStruct"), <<Str("$s:b"), Num("Int", "1")>>>>,
  <<P("HashableStruct"), <<Num("Int8", "-1"), Str("$s:ab"), BoolV(TRUE), Addr("0000000000000001")>>>>,
  <<P("HashableStruct"), <<PathV("public", "p"), Num("UInt64", "24"), Chr("$c:a")>>>>,
  <<P("AnyStruct"), <<Str("$s:a"), Num("Int", "-1")>>>>,
  <<P("Integer"), <<Num("Int8", "-1"), Num("UInt16", "256"), Num("Int", "24")>>>>,
  <<P("SignedNumber"), <<FixSeq["Fix64"][4], Num("Int", "1")>>>> }
KeyDicts == UNION {{KD(ks[1], ks[2]), KD(ks[1], Rv(ks[2]))} : ks \in KeySets}
NestK(d) == {Some(d), Arr(VArr(TypeOf(d)), <<d, d>>), CompV(TH, <<d>>), CompV(TEvH, <<d>>),
             Dict(DictT(P("String"), TypeOf(d)), <<KV(Str("$s:b"), d), KV(Str("$s:ab"), d)>>),
             Arr(VArr(P("AnyStruct")), <<Str("$s:a"), d>>)}
KeyDictValues == KeyDicts \cup UNION {NestK(d) : d \in KeyDicts}

ASSUME PrintT(ToJson([storageonly |-> MCStorageOnly]))

MCUniverse == Leaves \cup TypeLeaves \cup L1 \cup L2 \cup SameNameValues \cup KeyDictValues \cup RecValues
=============================================================================
