---------------------------- MODULE MC_CcfOrder ----------------------------
(* Universe of CcfOrder: sets of 2..MaxN names (composite fields, intersection members, entitlement
   set members; length-first order) and sets of 2..3 dictionary keys per key kind (bytewise order of
   the CBOR-encoded key). Every permutation of every set is an initial state. *)
EXTENDS CcfOrder
CONSTANT MaxN

\* "B" "a" "b" "z" "aa" "ab" "ba" "Bz" "aaa" "BBB" - lengths 1..3, upper case sorts before lower case
Names == {<<66>>, <<97>>, <<98>>, <<122>>, <<97, 97>>, <<97, 98>>, <<98, 97>>, <<66, 122>>, <<97, 97, 97>>, <<66, 66, 66>>}
Subs(S, lo, hi) == {T \in SUBSET S : Cardinality(T) >= lo /\ Cardinality(T) <= hi}
\* with MaxN = 3 (quick tier) the two longest names are left out
NamesFor == IF MaxN <= 3 THEN Names \ {<<97, 97, 97>>, <<98, 97>>} ELSE Names
NameItems(cat) == {[cat |-> cat, rule |-> "lenfirst", set |-> T, amap |-> {}] : T \in Subs(NamesFor, 2, MaxN)}

KeyItems(kind, K) == {[cat |-> "dict:" \o kind, rule |-> "bytewise", set |-> {CborKey(k) : k \in T},
                       amap |-> {[enc |-> CborKey(k), key |-> k] : k \in T}] : T \in Subs(K, 2, 3)}

UintKeys == {[kind |-> "uint", n |-> n] : n \in {0, 23, 24, 255, 256, 65535, 65536}}
SintKeys == {[kind |-> "sint", n |-> n] : n \in {-257, -256, -25, -24, -1, 0, 24, 256}}
Txt24 == [i \in 1..24 |-> 97]
TextKeys == {[kind |-> "text", bs |-> b] : b \in {<<>>, <<97>>, <<98>>, <<66>>, <<97, 98>>, <<98, 97>>, <<97, 98, 99>>, Txt24}}
BoolKeys == {[kind |-> "bool", b |-> TRUE], [kind |-> "bool", b |-> FALSE]}
BigKeys == {[kind |-> "big", neg |-> FALSE, mag |-> <<>>], [kind |-> "big", neg |-> FALSE, mag |-> <<1>>],
            [kind |-> "big", neg |-> FALSE, mag |-> <<255>>], [kind |-> "big", neg |-> FALSE, mag |-> <<1, 0>>],
            [kind |-> "big", neg |-> TRUE, mag |-> <<>>], [kind |-> "big", neg |-> TRUE, mag |-> <<255>>],
            [kind |-> "big", neg |-> TRUE, mag |-> <<1, 0>>],
            [kind |-> "big", neg |-> FALSE, mag |-> <<1, 0, 0, 0, 0, 0, 0, 0, 0>>]}
AddrKeys == {[kind |-> "addr", bs |-> <<0, 0, 0, 0, 0, 0, 0, 1>>], [kind |-> "addr", bs |-> <<0, 0, 0, 0, 0, 0, 1, 0>>],
             [kind |-> "addr", bs |-> <<255, 0, 0, 0, 0, 0, 0, 0>>]}

MCItems == NameItems("fields") \cup NameItems("inter") \cup NameItems("ents") \cup NameItems("typedefs")
           \cup KeyItems("uint", UintKeys) \cup KeyItems("sint", SintKeys) \cup KeyItems("text", TextKeys)
           \cup KeyItems("bool", BoolKeys) \cup KeyItems("big", BigKeys) \cup KeyItems("addr", AddrKeys)

\* the two rules are different relations (otherwise a swap of sorters would go unnoticed)
ASSUME \E a, b \in NamesFor : LenFirstLT(a, b) /\ BytewiseLT(b, a)
=============================================================================
