------------------------------ MODULE ByteOrder ------------------------------
(* Order relations on byte strings used by CCF's deterministic encoding, and the CBOR encoding of
   dictionary-key values (shared by CcfOrder - the encoder/decoder model - and Trace_CcfOrder - the
   judge of recorded orders). See CcfOrder.tla for the explanation. *)
EXTENDS Naturals, Integers, Sequences, FiniteSets, TLC, Json

Byte == 0..255

RECURSIVE BytewiseLT(_, _)
BytewiseLT(a, b) ==
  IF a = <<>> THEN b # <<>>
  ELSE IF b = <<>> THEN FALSE
  ELSE IF Head(a) # Head(b) THEN Head(a) < Head(b)
  ELSE BytewiseLT(Tail(a), Tail(b))
BytewiseLE(a, b) == a = b \/ BytewiseLT(a, b)

LenFirstLT(a, b) == Len(a) < Len(b) \/ (Len(a) = Len(b) /\ BytewiseLT(a, b))
LenFirstLE(a, b) == a = b \/ LenFirstLT(a, b)

\* the two rules, by name
LT(rule, a, b) == IF rule = "bytewise" THEN BytewiseLT(a, b) ELSE LenFirstLT(a, b)

StrictlySorted(rule, s) == \A i \in 1..(Len(s) - 1) : LT(rule, s[i], s[i + 1])
\* what the decoder enforces for dictionary keys: non-decreasing (uniqueness of keys is left to the runtime)
WeaklySorted(rule, s) == \A i \in 1..(Len(s) - 1) : ~LT(rule, s[i + 1], s[i])

SeqSet(s) == {s[i] : i \in 1..Len(s)}
Orderings(S) == {s \in [1..Cardinality(S) -> S] : \A i, j \in 1..Cardinality(S) : i # j => s[i] # s[j]}
Least(rule, S) == CHOOSE x \in S : \A y \in S : x = y \/ LT(rule, x, y)
RECURSIVE Canon(_, _)
Canon(rule, S) == IF S = {} THEN <<>> ELSE LET m == Least(rule, S) IN <<m>> \o Canon(rule, S \ {m})

-----------------------------------------------------------------------------
(* CBOR encodings of the key values of the model *)
RECURSIVE BE(_)
BE(n) == IF n < 256 THEN <<n>> ELSE BE(n \div 256) \o <<n % 256>>
Pad(bs, n) == [i \in 1..(n - Len(bs)) |-> 0] \o bs
CborHead(mt, n) ==
  IF n < 24 THEN <<mt * 32 + n>>
  ELSE IF n < 256 THEN <<mt * 32 + 24, n>>
  ELSE IF n < 65536 THEN <<mt * 32 + 25>> \o Pad(BE(n), 2)
  ELSE <<mt * 32 + 26>> \o Pad(BE(n), 4)
\* key records: [kind |-> "uint"|"sint", n |-> Int]  [kind |-> "text", bs |-> bytes]  [kind |-> "bool", b |-> BOOLEAN]
\*              [kind |-> "big", neg |-> BOOLEAN, mag |-> bytes of |n| (n >= 0) or of -1-n (n < 0), no leading zeros]
\*              [kind |-> "addr", bs |-> 8 bytes]
CborKey(key) ==
  CASE key.kind = "uint" -> CborHead(0, key.n)
    [] key.kind = "sint" -> IF key.n >= 0 THEN CborHead(0, key.n) ELSE CborHead(1, (-1) - key.n)
    [] key.kind = "text" -> CborHead(3, Len(key.bs)) \o key.bs
    [] key.kind = "bool" -> IF key.b THEN <<245>> ELSE <<244>>
    [] key.kind = "big"  -> <<IF key.neg THEN 195 ELSE 194>> \o CborHead(2, Len(key.mag)) \o key.mag
    [] key.kind = "addr" -> CborHead(2, 8) \o key.bs

=============================================================================
