------------------------- MODULE MC_ArgValidation -------------------------
(* Parameter types and correct witnesses for ArgValidation (C29). *)
EXTENDS ArgValidation

PrimWitness(n) ==
  CASE n \in SignedInts \cup UnsignedInts -> Num(n, "5")
    [] n \in SignedFix \cup UnsignedFix -> Fx(n, FALSE, "1", "5")
    [] n = "String" -> Str("$s:uni")
    [] n = "Character" -> Chr("$c:eacute")
    [] n = "Bool" -> BoolV(TRUE)
    [] n = "Address" -> Addr("0000000000000001")
    [] n = "Void" -> [k |-> "void"]
    [] n = "Type" -> TypeV(P("Int"))
    [] n \in {"StoragePath", "Path"} -> PathV("storage", "foo")
    [] n \in {"PublicPath", "CapabilityPath"} -> PathV("public", "foo")
    [] n = "PrivatePath" -> PathV("private", "foo")
    [] n \in {"Integer", "SignedInteger", "Number", "SignedNumber"} -> Num("Int8", "-5")
    [] n = "FixedSizeUnsignedInteger" -> Num("Word16", "5")
    [] n \in {"FixedPoint", "SignedFixedPoint"} -> Fx("Fix64", TRUE, "1", "5")
    [] n = "HashableStruct" -> Str("$s:ascii")
    [] n = "AnyStruct" -> CompV(DS, <<Num("Int", "1"), Str("$s:ascii")>>)

RECURSIVE MCWitness(_)
MCWitness(t) ==
  CASE t.k = "prim" -> PrimWitness(t.n)
    [] t.k = "opt" -> Some(MCWitness(t.t))
    [] t.k = "varr" -> Arr(t, <<MCWitness(t.t), MCWitness(t.t)>>)
    [] t.k = "carr" -> Arr(t, [i \in 1..t.size |-> MCWitness(t.t)])
    [] t.k = "dict" -> Dict(t, <<KV(MCWitness(t.key), MCWitness(t.t))>>)
    [] t.k = "range" -> Range(t.t.n, "1", "10", "2")
    [] t.k = "inter" -> CompV(DT, <<Num("Int", "3")>>)
    [] t.k = "cap" -> CapV("1", "0000000000000001", t.t[1])
    [] t.k = "comp" ->
         (CASE t.tid = Q("S") -> CompV(DS, <<Num("Int", "1"), Str("$s:ascii")>>)
            [] t.tid = Q("S2") -> CompV(DS2, <<Num("Int", "1")>>)
            [] t.tid = Q("H") -> CompV(DH, << Arr(VArr(P("AnyStruct")), <<Num("Int", "1"), CompV(DS2, <<Num("Int", "2")>>)>>) >>)
            [] t.tid = Q("N") -> CompV(DN, <<Some(CompV(DN, <<NilV, Num("UInt8", "2")>>)), Num("UInt8", "1")>>)
            [] t.tid = Q("T") -> CompV(DT, <<Num("Int", "3")>>)
            [] t.tid = Q("E") -> CompV(DE, <<Num("UInt8", "1")>>)
            [] t.tid = Q("K") -> CompV(DK, << Dict(DictT(DE, P("Int")), <<KV(CompV(DE, <<Num("UInt8", "0")>>), Num("Int", "5"))>>),
                                             Arr(VArr(DS2), <<CompV(DS2, <<Num("Int", "1")>>)>>) >>))

ImportableTypes ==
  {P(n) : n \in {"Int", "Int8", "UInt8", "UInt64", "Word8", "Int256", "UFix64", "Fix64", "Fix128", "Integer", "SignedInteger",
                 "FixedSizeUnsignedInteger", "Number", "FixedPoint", "String", "Character", "Bool", "Address",
                 "Path", "StoragePath", "PublicPath", "CapabilityPath", "Type", "AnyStruct", "HashableStruct"}}
  \cup {OptT(P("Int")), OptT(OptT(P("Int"))), OptT(DS),
        VArr(P("Int")), CArr(P("Int"), 2), VArr(P("AnyStruct")), VArr(P("Integer")), VArr(VArr(P("Int"))), VArr(OptT(P("Int"))),
        VArr(DS), VArr(DE), VArr(InterT(<<DSI>>)),
        DictT(P("String"), P("Int")), DictT(P("Int"), P("String")), DictT(P("String"), VArr(P("Int"))),
        DictT(P("String"), P("AnyStruct")), DictT(P("Address"), DS),
        DS, DS2, DH, DN, DT, DE, InterT(<<DSI>>), RangeT(P("Int")), RangeT(P("UInt8")),
        CapT(<< RefT(Unauth, P("Int")) >>), OptT(CapT(<< RefT(Unauth, P("Int")) >>)),
        \* composites in every container position: dictionary key (enum), dictionary value, array element, optional,
        \* struct field, and two levels deep
        DictT(DE, P("Int")), DictT(DE, DS), DictT(P("String"), DictT(DE, P("String"))), VArr(DictT(DE, P("Int"))),
        OptT(DictT(DE, DS2)), DictT(DE, VArr(DE)), DictT(P("String"), DE), DictT(P("String"), OptT(DS)), OptT(DE),
        VArr(OptT(DS)), VArr(VArr(DS2)), DictT(P("Int"), DictT(P("String"), DS2)), DK, VArr(DK), DictT(P("HashableStruct"), P("Int")),
        CArr(DE, 2), DictT(P("String"), DN), VArr(DN), OptT(OptT(DS2))}
NonImportableTypes ==
  {DR, P("AnyResource"), RefT(Unauth, P("Int")), FunT("impure", <<>>, <<>>, P("Void")), VArr(DR)}
MCParamTypes == ImportableTypes \cup NonImportableTypes
=============================================================================
