----------------------------- MODULE CdcSyntax -----------------------------
(* Constructors for the abstract syntax of Cadence types and values (see JsonCdc.tla). *)
EXTENDS Naturals, Sequences

P(n) == [k |-> "prim", n |-> n]
OptT(t) == [k |-> "opt", t |-> t]
VArr(t) == [k |-> "varr", t |-> t]
CArr(t, n) == [k |-> "carr", t |-> t, size |-> n]
DictT(key, t) == [k |-> "dict", key |-> key, t |-> t]
RangeT(t) == [k |-> "range", t |-> t]
Unauth == [k |-> "unauth"]
RefT(a, t) == [k |-> "ref", auth |-> a, t |-> t]
InterT(ts) == [k |-> "inter", types |-> ts]
CapT(s) == [k |-> "cap", t |-> s]
Fld(id, t) == [id |-> id, t |-> t]
Par(l, id, t) == [label |-> l, id |-> id, t |-> t]
FunT(purity, tps, ps, r) == [k |-> "fun", purity |-> purity, tparams |-> tps, params |-> ps, ret |-> r]
Comp(ck, tid, fields, inits, aux) == [k |-> "comp", ck |-> ck, tid |-> tid, fields |-> fields, inits |-> inits, aux |-> aux]
RecT(tid) == [k |-> "rec", tid |-> tid]


Num(t, s) == [k |-> "num", t |-> t, s |-> s]
Fx(t, neg, ip, fp) == [k |-> "fix", t |-> t, neg |-> neg, ip |-> ip, fp |-> fp]

Str(a) == [k |-> "str", s |-> a]
Chr(a) == [k |-> "chr", s |-> a]
Addr(h) == [k |-> "addr", h |-> h]
BoolV(b) == [k |-> "bool", b |-> b]
NilV == [k |-> "opt", v |-> <<>>]
Some(v) == [k |-> "opt", v |-> <<v>>]
Arr(t, vs) == [k |-> "arr", t |-> t, vs |-> vs]
Dict(t, ps) == [k |-> "dict", t |-> t, ps |-> ps]
KV(key, v) == [key |-> key, v |-> v]
Range(t, a, b, c) == [k |-> "range", t |-> RangeT(P(t)), start |-> Num(t, a), end |-> Num(t, b), step |-> Num(t, c)]
CompV(t, vs) == [k |-> "comp", t |-> t, vs |-> vs]
PathV(d, id) == [k |-> "path", dom |-> d, id |-> id]
TypeV(t) == [k |-> "type", t |-> <<t>>]
CapV(id, addr, t) == [k |-> "cap", id |-> id, addr |-> addr, t |-> <<t>>]
FunV(t) == [k |-> "fun", t |-> t]

=============================================================================
