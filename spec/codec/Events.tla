------------------------------- MODULE Events -------------------------------
(* Events delivered to the host (property C48).

   An event declaration is a list of fields (name, declared type); an emit site evaluates one
   argument expression per field and delivers a payload
        [tid |-> event type ID, names |-> field names IN DECLARATION ORDER, vals |-> values]
   to the host. Sites of the model:
     stmt      emit statement in a contract function (event of an imported contract, emitted through it)
     script    event declared by the executing script itself (type ID has the script's location: "$LOC")
     pre/post  emit as a function pre-/post-condition
     ifacepre  emit as a pre-condition inherited from a struct interface
     destroy   default destruction event `ResourceDestroyed` of a resource; the arguments are the
               DEFAULT expressions of its parameters, evaluated on the resource being destroyed:
               a literal ("lit"), a field `self.f` ("field"), a member of a struct field `self.s.v` ("deep")
     nested    a resource owning two inner resources: all three destruction events are delivered
     attach    an attachment with a destruction event whose defaults read `base.f`, destroyed with its base
     array     destroying an array of two resources
     refs      emit statement whose arguments are references: the same reference value in several fields and
               container elements of one event, and separately created references to the same target
   The order in which the events of ONE destroy statement reach the host is not fixed by the property;
   the model emits pending events in any order and the conformance check compares bags.

   Field specs give, per declared type, the Cadence source of the type and of an argument
   expression, the abstract value (JsonCdc syntax) the host must receive, the ID of the declared
   type and the ID of the value's dynamic type. *)
EXTENDS CdcSyntax, Naturals, Sequences, FiniteSets, TLC, Json

Loc == "A.0000000000000001.C"
Q(n) == Loc \o "." \o n
TSx == Comp("Struct", Q("S"), <<Fld("a", P("Int"))>>, <<>>, <<>>)

\* [ty: source of declared type, tyid: its type ID, expr: argument source, val: expected value, dyn: dynamic type ID,
\*  pure: usable in a condition (view context), prim: allowed as a parameter of a default destruction event]
FS(ty, tyid, expr, val, dyn, pure, prim) == [ty |-> ty, tyid |-> tyid, expr |-> expr, val |-> val, dyn |-> dyn, pure |-> pure, prim |-> prim]
PlainSpecs == <<
  FS("Int", "Int", "42", Num("Int", "42"), "Int", TRUE, TRUE),
  FS("Int", "Int", "-170141183460469231731687303715884105729", Num("Int", "-170141183460469231731687303715884105729"), "Int", TRUE, TRUE),
  FS("String", "String", "\"hi\"", Str("hi"), "String", TRUE, TRUE),
  FS("Bool", "Bool", "true", BoolV(TRUE), "Bool", TRUE, TRUE),
  FS("UInt8", "UInt8", "200", Num("UInt8", "200"), "UInt8", TRUE, TRUE),
  FS("UFix64", "UFix64", "1.5", Fx("UFix64", FALSE, "1", "5"), "UFix64", TRUE, TRUE),
  FS("Fix64", "Fix64", "-0.25", Fx("Fix64", TRUE, "0", "25"), "Fix64", TRUE, TRUE),
  FS("Address", "Address", "0x1", Addr("0000000000000001"), "Address", TRUE, TRUE),
  FS("Character", "Character", "\"x\"", Chr("x"), "Character", TRUE, TRUE),
  FS("StoragePath", "StoragePath", "/storage/foo", PathV("storage", "foo"), "StoragePath", TRUE, TRUE),
  FS("Int?", "(Int)?", "nil", NilV, "(Never)?", TRUE, TRUE),
  FS("Int?", "(Int)?", "7", Some(Num("Int", "7")), "(Int)?", TRUE, TRUE),
  FS("Word64", "Word64", "18446744073709551615", Num("Word64", "18446744073709551615"), "Word64", TRUE, TRUE),
  FS("Int256", "Int256", "-5", Num("Int256", "-5"), "Int256", TRUE, TRUE),
  FS("[Int]", "[Int]", "[1, 2]", Arr(VArr(P("Int")), <<Num("Int", "1"), Num("Int", "2")>>), "[Int]", TRUE, FALSE),
  FS("{String: Int}", "{String:Int}", "{\"k\": 2}", Dict(DictT(P("String"), P("Int")), <<KV(Str("k"), Num("Int", "2"))>>), "{String:Int}", TRUE, FALSE),
  FS("Type", "Type", "Type<Int>()", TypeV(P("Int")), "Type", TRUE, FALSE),
  FS("[Int?]", "[(Int)?]", "[1, nil]", Arr(VArr(OptT(P("Int"))), <<Some(Num("Int", "1")), NilV>>), "[(Int)?]", TRUE, FALSE),
  FS("[[Int]; 2]", "[[Int];2]", "[[1], []]", Arr(CArr(VArr(P("Int")), 2), <<Arr(VArr(P("Int")), <<Num("Int", "1")>>), Arr(VArr(P("Int")), <<>>)>>), "[[Int];2]", TRUE, FALSE),
  FS("S", Q("S"), "S(a: 2)", CompV(TSx, <<Num("Int", "2")>>), Q("S"), FALSE, FALSE),
  FS("[S]", "[" \o Q("S") \o "]", "[S(a: 3)]", Arr(VArr(TSx), <<CompV(TSx, <<Num("Int", "3")>>)>>), "[" \o Q("S") \o "]", FALSE, FALSE),
  FS("Integer", "Integer", "5 as UInt16", Num("UInt16", "5"), "UInt16", TRUE, FALSE),
  FS("{Int: [String]}", "{Int:[String]}", "{1: [\"a\"]}", Dict(DictT(P("Int"), VArr(P("String"))), <<KV(Num("Int", "1"), Arr(VArr(P("String")), <<Str("a")>>))>>), "{Int:[String]}", TRUE, FALSE)
>>
\* Reference-typed parameters (site "refs"). The emitting function first binds  let s = S(a: 2)  let r = &s as &S
\* let r2 = &s as &S ; a reference is delivered as the value it refers to. `r` is ONE reference value used in several
\* fields / elements of the same event, `r2` a separately created reference to the same target: every occurrence
\* must be present in the payload.
RS == CompV(TSx, <<Num("Int", "2")>>)
RefTid == "&" \o Q("S")
RefArrT == VArr(RefT(Unauth, TSx))
RefSpecs == <<
  FS("&S", RefTid, "r", RS, Q("S"), FALSE, FALSE),
  FS("&S", RefTid, "r2", RS, Q("S"), FALSE, FALSE),
  FS("[&S]", "[" \o RefTid \o "]", "[r, r]", Arr(RefArrT, <<RS, RS>>), "[" \o RefTid \o "]", FALSE, FALSE),
  FS("[&S]", "[" \o RefTid \o "]", "[r, r2, r]", Arr(RefArrT, <<RS, RS, RS>>), "[" \o RefTid \o "]", FALSE, FALSE),
  FS("{String: &S}", "{String:" \o RefTid \o "}", "{\"k\": r, \"j\": r}",
     Dict(DictT(P("String"), RefT(Unauth, TSx)), <<KV(Str("k"), RS), KV(Str("j"), RS)>>), "{String:" \o RefTid \o "}", FALSE, FALSE),
  FS("&S?", "(" \o RefTid \o ")?", "r", Some(RS), "(" \o Q("S") \o ")?", FALSE, FALSE),
  FS("&S?", "(" \o RefTid \o ")?", "nil", NilV, "(Never)?", FALSE, FALSE),
  FS("[&S?]", "[(" \o RefTid \o ")?]", "[r, nil, r]", Arr(VArr(OptT(RefT(Unauth, TSx))), <<Some(RS), NilV, Some(RS)>>), "[(" \o RefTid \o ")?]", FALSE, FALSE)
>>
Specs == PlainSpecs \o RefSpecs
NPlain == Len(PlainSpecs)
IsRefSpec(i) == i > NPlain
NSpecs == Len(Specs)
FieldNames == <<"zz", "a", "m">>       \* declaration order is not alphabetical

Sites == {"stmt", "script", "pre", "post", "ifacepre", "destroy", "nested", "attach", "array", "refs"}
CondSites == {"pre", "post", "ifacepre"}
DestroySites == {"destroy", "nested", "attach", "array"}
ArgKinds == {"lit", "field", "deep"}

\* a configuration: site, the specs of the event's fields (indexes into Specs), how each default argument is written
CONSTANT Configs
OkConfig(c) ==
  /\ c.site \in Sites
  /\ Len(c.fields) \in 1..3 /\ Len(c.kinds) = Len(c.fields)
  /\ \A i \in 1..Len(c.fields) :
       /\ c.fields[i] \in 1..NSpecs
       /\ (c.site \in CondSites \cup {"script"} => Specs[c.fields[i]].pure)   \* the script site has no struct S in scope
       /\ (c.site \in DestroySites => Specs[c.fields[i]].prim /\ c.kinds[i] \in ArgKinds)
       /\ (c.site = "attach" => c.kinds[i] # "deep")    \* `base.s.v` is not an admissible default argument
       /\ (c.site \notin DestroySites => c.kinds[i] = "lit")
       /\ (IsRefSpec(c.fields[i]) => c.site = "refs")

EventTid(c) ==
  CASE c.site = "script" -> "$LOC.Ev"
    [] c.site \in {"destroy", "nested", "array"} -> Q("R.ResourceDestroyed")
    [] c.site = "attach" -> Q("A.ResourceDestroyed")
    [] OTHER -> Q("Ev")
MainPayload(c) == [tid |-> EventTid(c),
                   names |-> [i \in 1..Len(c.fields) |-> FieldNames[i]],
                   tyids |-> [i \in 1..Len(c.fields) |-> Specs[c.fields[i]].tyid],
                   dyns |-> [i \in 1..Len(c.fields) |-> Specs[c.fields[i]].dyn],
                   vals |-> [i \in 1..Len(c.fields) |-> Specs[c.fields[i]].val]]
InnerPayload(n) == [tid |-> Q("Inner.ResourceDestroyed"), names |-> <<"n", "lit">>, tyids |-> <<"Int", "String">>,
                    dyns |-> <<"Int", "String">>, vals |-> <<Num("Int", n), Str("in")>>]
BasePayload == [tid |-> Q("R.ResourceDestroyed"), names |-> <<"k">>, tyids |-> <<"Int">>, dyns |-> <<"Int">>, vals |-> <<Num("Int", "1")>>]

\* the events one execution of the configuration's program must deliver (as a set of distinct payloads)
Expected(c) ==
  CASE c.site = "nested" -> {MainPayload(c), InnerPayload("1"), InnerPayload("2")}
    [] c.site = "attach" -> {MainPayload(c), BasePayload}
    [] c.site = "array"  -> {MainPayload(c), InnerPayload("1")}     \* [<- R, <- Inner(1)]
    [] OTHER -> {MainPayload(c)}

-----------------------------------------------------------------------------
VARIABLES cfg, pending, delivered
vars == <<cfg, pending, delivered>>
Init == cfg \in Configs /\ pending = Expected(cfg) /\ delivered = <<>>
Deliver == \E p \in pending : pending' = pending \ {p} /\ delivered' = Append(delivered, p) /\ UNCHANGED cfg
Next == Deliver
Spec == Init /\ [][Next]_vars

ConfigOK == OkConfig(cfg)
\* every payload lists exactly the declared fields, in declaration order, one value per field
PayloadShape == \A i \in 1..Len(delivered) :
                  /\ Len(delivered[i].names) = Len(delivered[i].vals)
                  /\ Len(delivered[i].names) = Len(delivered[i].tyids)
                  /\ (delivered[i].tid = EventTid(cfg) => delivered[i].names = SubSeq(FieldNames, 1, Len(cfg.fields)))
\* whatever the order, exactly the expected events are delivered, each once
AllDelivered == pending = {} => ({delivered[i] : i \in 1..Len(delivered)} = Expected(cfg) /\ Len(delivered) = Cardinality(Expected(cfg)))

Row == [site |-> cfg.site,
        fields |-> [i \in 1..Len(cfg.fields) |->
                      [name |-> FieldNames[i], ty |-> Specs[cfg.fields[i]].ty, expr |-> Specs[cfg.fields[i]].expr, kind |-> cfg.kinds[i]]],
        expected |-> Expected(cfg)]
EmitRow == delivered = <<>> => PrintT(ToJson(Row))
=============================================================================
