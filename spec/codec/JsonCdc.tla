------------------------------ MODULE JsonCdc ------------------------------
(* JSON-Cadence (JSON-CDC), the interchange format of Cadence values (properties C41, C43;
   the value/type universe is shared with C42, C44 and C29).

   The module defines
     - the abstract syntax of exportable Cadence values and of the types embedded in them;
     - JsonOf(v) / JsonOfType(t): the JSON-Cadence document of a value, as an abstract JSON
       tree (records = objects, sequences = arrays, Null = JSON null, JStr(s) = the JSON
       string s where the format allows a string or an object);
     - Erase(v): v without the static type information that JSON-Cadence does not carry
       (element types of containers, declared field types / initializers / raw type of the
       type of a composite VALUE; types that are the *payload* of a value - type values,
       capability borrow types, function types - are carried in full);
     - FromJson(j): the value a conforming decoder reads from a document;
     - the round trip  orig --Encode--> enc --Decode--> dec --ReEncode--> done  as a state
       machine whose invariants say that decoding loses exactly Erase and that re-encoding
       is stable.

   Abstract syntax (records; "k" is the kind).
   Types   [k|->"prim", n|->name]            [k|->"opt", t|->T]      [k|->"varr", t|->T]
           [k|->"carr", t|->T, size|->n]     [k|->"dict", key|->K, t|->V]
           [k|->"range", t|->T]              [k|->"ref", auth|->A, t|->T]
           [k|->"inter", types|-><<T..>>]    [k|->"cap", t|-><<>> or <<T>>]
           [k|->"fun", purity|->"view"|"impure", tparams|-><<[name, bound|-><<>>|<<T>>]..>>,
                       params|-><<[label,id,t]..>>, ret|->T]
           [k|->"comp", ck|->kind, tid|->type ID, fields|-><<[id,t]..>>,
                        inits|-><< <<[label,id,t]..>> ..>>, aux|-><<>>|<<T>>]   (aux: raw type of an
                        enum, base type of an attachment)
           [k|->"rec", tid|->type ID]        reference to an enclosing composite/interface type
           [k|->"none"]                      no static type (only after Erase)
   Auth    [k|->"unauth"] [k|->"map", id|->tid] [k|->"conj"|"disj", ents|-><<tid..>>]
   Values  [k|->"void"] [k|->"opt", v|-><<>>|<<V>>] [k|->"bool", b|->BOOLEAN] [k|->"str", s|->atom]
           [k|->"chr", s|->atom] [k|->"addr", h|->16 hex digits] [k|->"num", t|->type, s|->decimal]
           [k|->"fix", t|->type, neg|->BOOLEAN, ip|->digits, fp|->digits without trailing zeros]
           [k|->"arr", t|->T, vs|-><<V..>>] [k|->"dict", t|->T, ps|-><<[key|->V, v|->V]..>>]
           [k|->"range", t|->T, start|->V, end|->V, step|->V] [k|->"comp", t|->T, vs|-><<V..>>]
           [k|->"path", dom|->domain, id|->identifier] [k|->"type", t|-><<>>|<<T>>]
           [k|->"cap", id|->decimal, addr|->hex, t|-><<>>|<<T>>] [k|->"fun", t|->T]
   Strings and characters are symbolic atoms ("$s:uni", ...): the format copies them verbatim, so
   the driver substitutes the real text on both sides. "$tid" stands for the type ID string of a
   function or intersection type, which this module does not compute (C45 does). *)
EXTENDS Naturals, Sequences, FiniteSets, TLC, Json

Null == [null_ |-> TRUE]
NoneT == [k |-> "none"]

Map(s, F(_)) == [i \in 1..Len(s) |-> F(s[i])]

-----------------------------------------------------------------------------
(* Types *)

NominalKinds == {"Struct", "Resource", "Event", "Contract", "Enum", "Attachment",
                 "StructInterface", "ResourceInterface", "ContractInterface"}

RECURSIVE JsonOfType(_)
JParam(p) == [label |-> p.label, id |-> p.id, type |-> JsonOfType(p.t)]
JField(f) == [id |-> f.id, type |-> JsonOfType(f.t)]
JStr(s) == [str_ |-> s]    \* a JSON string in a position where an object may also occur
JOptType(s) == IF s = <<>> THEN JStr("") ELSE JsonOfType(s[1])
JEnt(kind, id) == [kind |-> kind, typeID |-> id, type |-> Null, fields |-> Null, initializers |-> Null]
JAuth(a) ==
  CASE a.k = "unauth" -> [kind |-> "Unauthorized", entitlements |-> Null]
    [] a.k = "map"    -> [kind |-> "EntitlementMapAuthorization",
                          entitlements |-> << JEnt("EntitlementMap", a.id) >>]
    [] a.k = "conj"   -> [kind |-> "EntitlementConjunctionSet",
                          entitlements |-> [i \in 1..Len(a.ents) |-> JEnt("Entitlement", a.ents[i])]]
    [] a.k = "disj"   -> [kind |-> "EntitlementDisjunctionSet",
                          entitlements |-> [i \in 1..Len(a.ents) |-> JEnt("Entitlement", a.ents[i])]]

JsonOfType(t) ==
  CASE t.k = "prim"  -> [kind |-> t.n]
    [] t.k = "opt"   -> [kind |-> "Optional", type |-> JsonOfType(t.t)]
    [] t.k = "varr"  -> [kind |-> "VariableSizedArray", type |-> JsonOfType(t.t)]
    [] t.k = "carr"  -> [kind |-> "ConstantSizedArray", type |-> JsonOfType(t.t), size |-> t.size]
    [] t.k = "dict"  -> [kind |-> "Dictionary", key |-> JsonOfType(t.key), value |-> JsonOfType(t.t)]
    [] t.k = "range" -> [kind |-> "InclusiveRange", element |-> JsonOfType(t.t)]
    [] t.k = "ref"   -> [kind |-> "Reference", type |-> JsonOfType(t.t), authorization |-> JAuth(t.auth)]
    [] t.k = "inter" -> [kind |-> "Intersection", typeID |-> "$tid",
                         types |-> [i \in 1..Len(t.types) |-> JsonOfType(t.types[i])]]
    [] t.k = "cap"   -> [kind |-> "Capability", type |-> JOptType(t.t)]
    [] t.k = "fun"   -> [kind |-> "Function", typeID |-> "$tid",
                         typeParameters |-> [i \in 1..Len(t.tparams) |->
                             [name |-> t.tparams[i].name,
                              typeBound |-> IF t.tparams[i].bound = <<>> THEN Null
                                            ELSE JsonOfType(t.tparams[i].bound[1])]],
                         parameters |-> [i \in 1..Len(t.params) |-> JParam(t.params[i])],
                         return |-> JsonOfType(t.ret),
                         purity |-> IF t.purity = "view" THEN "view" ELSE ""]
    [] t.k = "comp"  -> [kind |-> t.ck, typeID |-> t.tid, type |-> JOptType(t.aux),
                         fields |-> [i \in 1..Len(t.fields) |-> JField(t.fields[i])],
                         \* an event type always shows exactly one initializer (its parameter list)
                         initializers |-> IF t.ck = "Event" /\ t.inits = <<>> THEN << <<>> >>
                                          ELSE [i \in 1..Len(t.inits) |->
                                                 [j \in 1..Len(t.inits[i]) |-> JParam(t.inits[i][j])]]]
    [] t.k = "rec"   -> JStr(t.tid)

(* The decoder's reading of a type document. PrimNames is the set of built-in type names. *)
CONSTANT PrimNames

RECURSIVE TypeFromJson(_)
IsStr(j) == "str_" \in DOMAIN j
ParamFromJson(p) == [label |-> p.label, id |-> p.id, t |-> TypeFromJson(p.type)]
OptTypeFromJson(j) == IF IsStr(j) /\ j.str_ = "" THEN <<>> ELSE << TypeFromJson(j) >>
AuthFromJson(a) ==
  CASE a.kind = "Unauthorized" -> [k |-> "unauth"]
    [] a.kind = "EntitlementMapAuthorization" -> [k |-> "map", id |-> a.entitlements[1].typeID]
    [] a.kind = "EntitlementConjunctionSet" ->
         [k |-> "conj", ents |-> [i \in 1..Len(a.entitlements) |-> a.entitlements[i].typeID]]
    [] a.kind = "EntitlementDisjunctionSet" ->
         [k |-> "disj", ents |-> [i \in 1..Len(a.entitlements) |-> a.entitlements[i].typeID]]
TypeFromJson(j) ==
  IF IsStr(j) THEN [k |-> "rec", tid |-> j.str_]
  ELSE CASE j.kind \in PrimNames -> [k |-> "prim", n |-> j.kind]
    [] j.kind = "Optional" -> [k |-> "opt", t |-> TypeFromJson(j.type)]
    [] j.kind = "VariableSizedArray" -> [k |-> "varr", t |-> TypeFromJson(j.type)]
    [] j.kind = "ConstantSizedArray" -> [k |-> "carr", t |-> TypeFromJson(j.type), size |-> j.size]
    [] j.kind = "Dictionary" -> [k |-> "dict", key |-> TypeFromJson(j.key), t |-> TypeFromJson(j.value)]
    [] j.kind = "InclusiveRange" -> [k |-> "range", t |-> TypeFromJson(j.element)]
    [] j.kind = "Reference" -> [k |-> "ref", auth |-> AuthFromJson(j.authorization), t |-> TypeFromJson(j.type)]
    [] j.kind = "Intersection" -> [k |-> "inter", types |-> [i \in 1..Len(j.types) |-> TypeFromJson(j.types[i])]]
    [] j.kind = "Capability" -> [k |-> "cap", t |-> OptTypeFromJson(j.type)]
    [] j.kind = "Function" ->
         [k |-> "fun", purity |-> IF j.purity = "view" THEN "view" ELSE "impure",
          tparams |-> [i \in 1..Len(j.typeParameters) |->
                         [name |-> j.typeParameters[i].name,
                          bound |-> IF j.typeParameters[i].typeBound = Null THEN <<>>
                                    ELSE << TypeFromJson(j.typeParameters[i].typeBound) >>]],
          params |-> [i \in 1..Len(j.parameters) |-> ParamFromJson(j.parameters[i])],
          ret |-> TypeFromJson(j.return)]
    [] j.kind \in NominalKinds ->
         [k |-> "comp", ck |-> j.kind, tid |-> j.typeID, aux |-> OptTypeFromJson(j.type),
          fields |-> [i \in 1..Len(j.fields) |-> [id |-> j.fields[i].id, t |-> TypeFromJson(j.fields[i].type)]],
          inits |-> IF j.kind = "Event" /\ j.initializers = << <<>> >> THEN <<>>
                    ELSE [i \in 1..Len(j.initializers) |->
                           [n \in 1..Len(j.initializers[i]) |-> ParamFromJson(j.initializers[i][n])]]]

-----------------------------------------------------------------------------
(* Values *)

IntegerTypes == {"Int", "Int8", "Int16", "Int32", "Int64", "Int128", "Int256",
                 "UInt", "UInt8", "UInt16", "UInt32", "UInt64", "UInt128", "UInt256",
                 "Word8", "Word16", "Word32", "Word64", "Word128", "Word256"}
FixedTypes == {"Fix64", "UFix64", "Fix128", "UFix128"}
Scale(t) == IF t \in {"Fix64", "UFix64"} THEN 8 ELSE 24
Zeros == "000000000000000000000000"
(* canonical text of a fixed-point number: optional sign, integer digits, ".", exactly Scale digits *)
FixText(v) == (IF v.neg THEN "-" ELSE "") \o v.ip \o "." \o v.fp \o SubSeq(Zeros, 1, Scale(v.t) - Len(v.fp))

CompKindOfValue == {"Struct", "Resource", "Event", "Contract", "Enum", "Attachment"}

(* A composite value may carry more values than its type declares fields: the attachments of the
   value, exported as trailing values without a name. *)
FieldName(t, i) == IF i <= Len(t.fields) THEN t.fields[i].id ELSE ""

RECURSIVE JsonOf(_)
JsonOf(v) ==
  CASE v.k = "void"  -> [type |-> "Void"]
    [] v.k = "opt"   -> [type |-> "Optional", value |-> IF v.v = <<>> THEN Null ELSE JsonOf(v.v[1])]
    [] v.k = "bool"  -> [type |-> "Bool", value |-> v.b]
    [] v.k = "str"   -> [type |-> "String", value |-> v.s]
    [] v.k = "chr"   -> [type |-> "Character", value |-> v.s]
    [] v.k = "addr"  -> [type |-> "Address", value |-> "0x" \o v.h]
    [] v.k = "num"   -> [type |-> v.t, value |-> v.s]
    [] v.k = "fix"   -> [type |-> v.t, value |-> FixText(v)]
    [] v.k = "arr"   -> [type |-> "Array", value |-> [i \in 1..Len(v.vs) |-> JsonOf(v.vs[i])]]
    [] v.k = "dict"  -> [type |-> "Dictionary",
                         value |-> [i \in 1..Len(v.ps) |-> [key |-> JsonOf(v.ps[i].key), value |-> JsonOf(v.ps[i].v)]]]
    [] v.k = "range" -> [type |-> "InclusiveRange",
                         value |-> [start |-> JsonOf(v.start), end |-> JsonOf(v.end), step |-> JsonOf(v.step)]]
    [] v.k = "comp"  -> [type |-> v.t.ck,
                         value |-> [id |-> v.t.tid,
                                    fields |-> [i \in 1..Len(v.vs) |->
                                                  [name |-> FieldName(v.t, i), value |-> JsonOf(v.vs[i])]]]]
    [] v.k = "path"  -> [type |-> "Path", value |-> [domain |-> v.dom, identifier |-> v.id]]
    [] v.k = "type"  -> [type |-> "Type", value |-> [staticType |-> JOptType(v.t)]]
    [] v.k = "cap"   -> [type |-> "Capability",
                         value |-> [id |-> v.id, address |-> "0x" \o v.addr, borrowType |-> JOptType(v.t)]]
    [] v.k = "fun"   -> [type |-> "Function", value |-> [functionType |-> JsonOfType(v.t)]]

(* What JSON-Cadence keeps of the type of a composite value: kind, type ID, field names in order. *)
EraseCompType(t, n) == [k |-> "comp", ck |-> t.ck, tid |-> t.tid, aux |-> <<>>, inits |-> <<>>,
                        fields |-> [i \in 1..n |-> [id |-> FieldName(t, i), t |-> NoneT]]]

RECURSIVE Erase(_)
Erase(v) ==
  CASE v.k = "opt"   -> [k |-> "opt", v |-> IF v.v = <<>> THEN <<>> ELSE << Erase(v.v[1]) >>]
    [] v.k = "arr"   -> [k |-> "arr", t |-> NoneT, vs |-> [i \in 1..Len(v.vs) |-> Erase(v.vs[i])]]
    [] v.k = "dict"  -> [k |-> "dict", t |-> NoneT,
                         ps |-> [i \in 1..Len(v.ps) |-> [key |-> Erase(v.ps[i].key), v |-> Erase(v.ps[i].v)]]]
    [] v.k = "range" -> [k |-> "range", t |-> NoneT, start |-> Erase(v.start), end |-> Erase(v.end), step |-> Erase(v.step)]
    [] v.k = "comp"  -> [k |-> "comp", t |-> EraseCompType(v.t, Len(v.vs)), vs |-> [i \in 1..Len(v.vs) |-> Erase(v.vs[i])]]
    [] OTHER -> v

(* What CCF carries (C42/C43). CCF encodes a value by its static type; the static types are given
   by type definitions that carry kind, type ID and - for composites - the field list. Initializers,
   the raw type of an enum, the base type of an attachment and the members of interfaces are not
   part of a static type (types are equal nominally). Types that are the payload of a type value
   or function value are carried in full. CcfView(v) is v with its static types so reduced. *)
InterfaceKinds == {"StructInterface", "ResourceInterface", "ContractInterface"}
RECURSIVE StaticT(_)
StaticT(t) ==
  CASE t.k = "comp" -> [k |-> "comp", ck |-> t.ck, tid |-> t.tid, aux |-> <<>>, inits |-> <<>>,
                        fields |-> IF t.ck \in InterfaceKinds THEN <<>>
                                   ELSE [i \in 1..Len(t.fields) |-> [id |-> t.fields[i].id, t |-> StaticT(t.fields[i].t)]]]
    [] t.k \in {"opt", "varr", "range"} -> [t EXCEPT !.t = StaticT(t.t)]
    [] t.k = "carr" -> [t EXCEPT !.t = StaticT(t.t)]
    [] t.k = "dict" -> [t EXCEPT !.key = StaticT(t.key), !.t = StaticT(t.t)]
    [] t.k = "ref"  -> [t EXCEPT !.t = StaticT(t.t)]
    [] t.k = "inter" -> [t EXCEPT !.types = [i \in 1..Len(t.types) |-> StaticT(t.types[i])]]
    [] t.k = "cap"  -> [t EXCEPT !.t = IF t.t = <<>> THEN <<>> ELSE << StaticT(t.t[1]) >>]
    [] OTHER -> t
RECURSIVE CcfView(_)
CcfView(v) ==
  CASE v.k = "opt"   -> [k |-> "opt", v |-> IF v.v = <<>> THEN <<>> ELSE << CcfView(v.v[1]) >>]
    [] v.k = "arr"   -> [k |-> "arr", t |-> StaticT(v.t), vs |-> [i \in 1..Len(v.vs) |-> CcfView(v.vs[i])]]
    [] v.k = "dict"  -> [k |-> "dict", t |-> StaticT(v.t),
                         ps |-> [i \in 1..Len(v.ps) |-> [key |-> CcfView(v.ps[i].key), v |-> CcfView(v.ps[i].v)]]]
    [] v.k = "range" -> [v EXCEPT !.t = StaticT(v.t)]
    [] v.k = "comp"  -> [k |-> "comp", t |-> StaticT(v.t), vs |-> [i \in 1..Len(v.vs) |-> CcfView(v.vs[i])]]
    [] v.k = "cap"   -> [v EXCEPT !.t = IF v.t = <<>> THEN <<>> ELSE << StaticT(v.t[1]) >>]
    [] OTHER -> v

(* Universe-dependent inverses of the two textual encodings (CHOOSE the value with that text). *)
CONSTANTS FixUniverse, AddrUniverse
FixFromText(t, s) == CHOOSE f \in FixUniverse : f.t = t /\ FixText(f) = s
AddrFromText(s) == CHOOSE h \in AddrUniverse : "0x" \o h = s

RECURSIVE FromJson(_)
FromJson(j) ==
  CASE j.type = "Void" -> [k |-> "void"]
    [] j.type = "Optional" -> [k |-> "opt", v |-> IF j.value = Null THEN <<>> ELSE << FromJson(j.value) >>]
    [] j.type = "Bool" -> [k |-> "bool", b |-> j.value]
    [] j.type = "String" -> [k |-> "str", s |-> j.value]
    [] j.type = "Character" -> [k |-> "chr", s |-> j.value]
    [] j.type = "Address" -> [k |-> "addr", h |-> AddrFromText(j.value)]
    [] j.type \in IntegerTypes -> [k |-> "num", t |-> j.type, s |-> j.value]
    [] j.type \in FixedTypes -> FixFromText(j.type, j.value)
    [] j.type = "Array" -> [k |-> "arr", t |-> NoneT, vs |-> [i \in 1..Len(j.value) |-> FromJson(j.value[i])]]
    [] j.type = "Dictionary" ->
         [k |-> "dict", t |-> NoneT,
          ps |-> [i \in 1..Len(j.value) |-> [key |-> FromJson(j.value[i].key), v |-> FromJson(j.value[i].value)]]]
    [] j.type = "InclusiveRange" ->
         [k |-> "range", t |-> NoneT, start |-> FromJson(j.value.start), end |-> FromJson(j.value.end),
          step |-> FromJson(j.value.step)]
    [] j.type \in CompKindOfValue ->
         [k |-> "comp",
          t |-> [k |-> "comp", ck |-> j.type, tid |-> j.value.id, aux |-> <<>>, inits |-> <<>>,
                 fields |-> [i \in 1..Len(j.value.fields) |-> [id |-> j.value.fields[i].name, t |-> NoneT]]],
          vs |-> [i \in 1..Len(j.value.fields) |-> FromJson(j.value.fields[i].value)]]
    [] j.type = "Path" -> [k |-> "path", dom |-> j.value.domain, id |-> j.value.identifier]
    [] j.type = "Type" -> [k |-> "type", t |-> OptTypeFromJson(j.value.staticType)]
    [] j.type = "Capability" ->
         [k |-> "cap", id |-> j.value.id, addr |-> AddrFromText(j.value.address), t |-> OptTypeFromJson(j.value.borrowType)]
    [] j.type = "Function" -> [k |-> "fun", t |-> TypeFromJson(j.value.functionType)]

-----------------------------------------------------------------------------
(* Static type of a value (used to build well-typed containers, and by CCF which encodes by
   static type). nil has type Never?. *)
PathType(d) == CASE d = "storage" -> "StoragePath" [] d = "public" -> "PublicPath" [] d = "private" -> "PrivatePath"
RECURSIVE TypeOf(_)
TypeOf(v) ==
  CASE v.k = "void" -> [k |-> "prim", n |-> "Void"]
    [] v.k = "opt"  -> [k |-> "opt", t |-> IF v.v = <<>> THEN [k |-> "prim", n |-> "Never"] ELSE TypeOf(v.v[1])]
    [] v.k = "bool" -> [k |-> "prim", n |-> "Bool"]
    [] v.k = "str"  -> [k |-> "prim", n |-> "String"]
    [] v.k = "chr"  -> [k |-> "prim", n |-> "Character"]
    [] v.k = "addr" -> [k |-> "prim", n |-> "Address"]
    [] v.k \in {"num", "fix"} -> [k |-> "prim", n |-> v.t]
    [] v.k \in {"arr", "dict", "range", "comp", "fun"} -> v.t
    [] v.k = "path" -> [k |-> "prim", n |-> PathType(v.dom)]
    [] v.k = "type" -> [k |-> "prim", n |-> "Type"]
    [] v.k = "cap"  -> [k |-> "cap", t |-> v.t]

(* resource-kinded values cannot sit in AnyStruct containers *)
RECURSIVE IsResource(_)
IsResource(v) ==
  CASE v.k = "comp" -> v.t.ck = "Resource"
    [] v.k = "opt"  -> v.v # <<>> /\ IsResource(v.v[1])
    [] v.k = "arr"  -> \E i \in 1..Len(v.vs) : IsResource(v.vs[i])
    [] v.k = "dict" -> \E i \in 1..Len(v.ps) : IsResource(v.ps[i].v)
    [] OTHER -> FALSE

-----------------------------------------------------------------------------
(* Storable values (C44): what can be written to account storage through an entry-point argument
   wrapped into a struct. StoredTids are the composite types the storage contract declares. *)
CONSTANT StoredTids
RECURSIVE StorableV(_)
StorableV(v) ==
  CASE v.k \in {"bool", "str", "chr", "addr", "num", "fix", "path", "range"} -> TRUE
    [] v.k = "type" -> v.t # <<>>
    [] v.k = "opt"  -> v.v = <<>> \/ StorableV(v.v[1])
    [] v.k = "arr"  -> \A i \in 1..Len(v.vs) : StorableV(v.vs[i])
    [] v.k = "dict" -> \A i \in 1..Len(v.ps) : StorableV(v.ps[i].key) /\ StorableV(v.ps[i].v)
    [] v.k = "comp" -> /\ v.t.tid \in StoredTids /\ v.t.ck \in {"Struct", "Enum"}
                       /\ Len(v.vs) = Len(v.t.fields) /\ \A i \in 1..Len(v.vs) : StorableV(v.vs[i])
    [] OTHER -> FALSE     \* void, functions; capabilities and resources are stored by the fixed programs of the check

-----------------------------------------------------------------------------
(* The round trip as a state machine over a universe of values. *)
CONSTANT Universe
VARIABLES stage, val, doc, dec, doc2
vars == <<stage, val, doc, dec, doc2>>
Nil == [k |-> "nil_"]

Init == stage = "orig" /\ val \in Universe /\ doc = Nil /\ dec = Nil /\ doc2 = Nil
Encode == stage = "orig" /\ stage' = "enc" /\ doc' = JsonOf(val) /\ UNCHANGED <<val, dec, doc2>>
Decode == stage = "enc" /\ stage' = "dec" /\ dec' = FromJson(doc) /\ UNCHANGED <<val, doc, doc2>>
ReEncode == stage = "dec" /\ stage' = "done" /\ doc2' = JsonOf(dec) /\ UNCHANGED <<val, doc, dec>>
Next == Encode \/ Decode \/ ReEncode
Spec == Init /\ [][Next]_vars

(* decoding loses exactly the erased information *)
DecodeIsErase == stage \in {"dec", "done"} => dec = Erase(val)
(* re-encoding the decoded value gives the same document *)
ReEncodeStable == stage = "done" => doc2 = doc
(* Erase is a projection and does not change the document *)
EraseIdempotent == stage = "orig" => Erase(Erase(val)) = Erase(val) /\ JsonOf(Erase(val)) = JsonOf(val)
(* C43: the common content of the two decodings. Common(v) is what both formats carry; the JSON-Cadence
   decoding (Erase(val)) and the CCF decoding (CcfView(val)) have the same common content. The only
   thing JSON-Cadence carries and CCF does not is the member detail of nominal types inside a
   capability's borrow type, which does not take part in (nominal) type equality. *)
Common(v) == Erase(CcfView(v))
CommonContent == stage = "orig" => Common(Erase(val)) = Common(val) /\ Common(CcfView(val)) = Common(val)
                                   /\ CcfView(CcfView(val)) = CcfView(val)

(* the table handed to the conformance driver *)
Row == [v |-> val, json |-> doc, er |-> dec, cc |-> CcfView(val), x |-> Common(val), st |-> StorableV(val)]
EmitRow == stage = "done" => PrintT(ToJson(Row))
=============================================================================
