------------------------------ MODULE CcfOrder ------------------------------
(* Canonical orders of CCF (property C42, "Deterministic CCF Encoding Requirements").

   Two order relations on byte strings (sequences of 0..255):
     BytewiseLE  - lexicographic order of the bytes (a proper prefix comes first); CCF sorts the
                   key-value pairs of a dict-value by the *encoded bytes of the key* with it;
     LenFirstLE  - shorter first, equal lengths bytewise; CCF sorts composite fields by name,
                   intersection members and type definitions by Cadence type ID, and the members of
                   an entitlement set by type ID with it.
   A deterministic encoder must emit a set in the unique strictly sorted order whatever order the set
   is presented in (permutation invariance); a strict decoder accepts a sequence iff it is sorted.

   The encoder is modelled as a selection sort: it repeatedly moves the least remaining element to
   the output. TLC explores it from every permutation of every set of the universe and checks that
   the output is always sorted, that the final output does not depend on the permutation, and that
   the decoder's acceptance predicate holds for exactly one permutation of each set.

   For dictionary keys the module also gives the CBOR encoding of the key values of the model
   (unsigned / signed integers, text, booleans, big integers, addresses), so that the order of the
   keys - not only its sortedness - is predicted. *)
EXTENDS ByteOrder

-----------------------------------------------------------------------------
(* The universe: items [cat, rule, set] where set is a set of byte strings (names / type-ID suffixes /
   encoded keys); for dictionaries `keys` maps each encoded key back to the abstract key. *)
CONSTANT Items
VARIABLES item, input, rest, out
vars == <<item, input, rest, out>>

Init == /\ item \in Items
        /\ input \in Orderings(item.set)
        /\ rest = item.set
        /\ out = <<>>
EmitLeast == /\ rest # {}
             /\ LET m == Least(item.rule, rest) IN out' = Append(out, m) /\ rest' = rest \ {m}
             /\ UNCHANGED <<item, input>>
Next == EmitLeast
Spec == Init /\ [][Next]_vars

OutputSorted == StrictlySorted(item.rule, out)
PermutationInvariant == rest = {} => out = Canon(item.rule, item.set)
\* the strict decoder accepts exactly the canonical presentation
AcceptIffCanonical == out = <<>> => (StrictlySorted(item.rule, input) <=> input = Canon(item.rule, item.set))
\* for distinct elements the decoder's weak test is the same as the strict one
WeakIsStrict == out = <<>> => (WeaklySorted(item.rule, input) <=> StrictlySorted(item.rule, input))
\* length-first order does not depend on a common prefix (type IDs share "A.<address>.<contract>.")
PrefixInvariant == out = <<>> => \A a, b \in item.set : LenFirstLT(<<65, 46>> \o a, <<65, 46>> \o b) <=> LenFirstLT(a, b)
\* the two rules differ: some pair is ordered differently (checked on the universe, not per state)

\* A second presentation for the composite-field category: another composite type with the SAME qualified name at
\* another address, declared in the reverse order with one more (longest) field. Every type definition of a message
\* is sorted on its own, so its canonical order is that of its own field set.
ExtraName == <<122, 122, 122, 122>>
Rev(s) == [i \in 1..Len(s) |-> s[Len(s) + 1 - i]]
Other == [input |-> Append(Rev(input), ExtraName), canon |-> Canon(item.rule, item.set \cup {ExtraName})]
OtherSorted == rest = {} => StrictlySorted(item.rule, Other.canon) /\ SeqSet(Other.canon) = SeqSet(Other.input)

Row == [cat |-> item.cat, rule |-> item.rule, input |-> input, canon |-> out, amap |-> item.amap,
        accept |-> StrictlySorted(item.rule, input), other |-> Other]
EmitRow == rest = {} => PrintT(ToJson(Row))

=============================================================================
