SPECIFICATION TSpec
CONSTANTS
  ParamTypes <- MCParamTypes
  Witness <- MCWitness
  MaxSteps = 1
  LogFile = "args.log.ndjson"
INVARIANT Judged
