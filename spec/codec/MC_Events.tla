----------------------------- MODULE MC_Events -----------------------------
(* Configurations for Events (C48): every site x every admissible field spec (and, for destruction
   events, every way of writing the default argument), plus two- and three-field events whose
   partner specs rotate with Seed (Full: every ordered pair). *)
EXTENDS Events
CONSTANTS Seed, Full

KindSeq == <<"lit", "field", "deep">>
KindFor(s, n) == IF s \in DestroySites THEN KindSeq[((n + Seed) % 3) + 1] ELSE "lit"
Nxt(i, off) == ((i + Seed + off) % NSpecs) + 1

Singles == {[site |-> s, fields |-> <<i>>, kinds |-> <<k>>] : s \in Sites, i \in 1..NSpecs, k \in ArgKinds}
Partners(i) == IF Full THEN (1..NSpecs) \ {i} ELSE {Nxt(i, 0), Nxt(i, 5)} \ {i}
Pairs == UNION {{[site |-> s, fields |-> <<i, j>>, kinds |-> <<KindFor(s, i), KindFor(s, j + 1)>>] : j \in Partners(i), s \in Sites} : i \in 1..NSpecs}
Triples == UNION {{[site |-> s, fields |-> <<i, Nxt(i, o), Nxt(i, o + 3)>>, kinds |-> <<KindFor(s, i), KindFor(s, i + 1), KindFor(s, i + 2)>>]
                     : s \in Sites, o \in (IF Full THEN {0, 1, 2, 7} ELSE {1})} : i \in 1..NSpecs}
Distinct(c) == \A a, b \in 1..Len(c.fields) : a # b => c.fields[a] # c.fields[b]
\* reference parameters: every single, every ordered pair WITH repetition (the same reference in two fields), and
\* triples reference / plain / reference (Full: every triple of reference specs)
RefIdx == (NPlain + 1)..NSpecs
Lit(n) == [i \in 1..n |-> "lit"]
RefConfigs ==
  {[site |-> "refs", fields |-> <<i>>, kinds |-> Lit(1)] : i \in RefIdx}
  \cup {[site |-> "refs", fields |-> <<i, j>>, kinds |-> Lit(2)] : i \in RefIdx, j \in RefIdx}
  \cup {[site |-> "refs", fields |-> <<i, (Nxt(i, 0) % NPlain) + 1, j>>, kinds |-> Lit(3)] : i \in RefIdx, j \in RefIdx}
  \cup (IF Full THEN {[site |-> "refs", fields |-> <<i, j, k>>, kinds |-> Lit(3)] : i \in RefIdx, j \in RefIdx, k \in RefIdx} ELSE {})
MCConfigs == {c \in Singles \cup Pairs \cup Triples : OkConfig(c) /\ Distinct(c)} \cup {c \in RefConfigs : OkConfig(c)}
=============================================================================
