----------------------------- MODULE MC_Events -----------------------------
(* Configurations for Events (C48): every site x every admissible field spec (and, for destruction
   events, every way of writing the default argument), plus two- and three-field events whose
   partner specs rotate with Seed (Full: every ordered pair). *)
EXTENDS Events
CONSTANTS Seed, Full

KindSeq == <<"lit", "field", "deep">>
KindFor(s, n) == IF s \in DestroySites THEN KindSeq[((n + Seed) % 3) + 1] ELSE "lit"
Nxt(i, off) == ((i + Seed + off) % NSpecs) + 1

Singles == {[site |-> s, fields |-> <<i>>, kinds |-> <<k>>] : s \in Sites, i \in 1..NSpecs, k \in ArgKinds}
Partners(i) == IF Full THEN (1..NSpecs) \ {i} ELSE {Nxt(i, 0), Nxt(i, 5)} \ {i}
Pairs == UNION {{[site |-> s, fields |-> <<i, j>>, kinds |-> <<KindFor(s, i), KindFor(s, j + 1)>>] : j \in Partners(i), s \in Sites} : i \in 1..NSpecs}
Triples == UNION {{[site |-> s, fields |-> <<i, Nxt(i, o), Nxt(i, o + 3)>>, kinds |-> <<KindFor(s, i), KindFor(s, i + 1), KindFor(s, i + 2)>>]
                     : s \in Sites, o \in (IF Full THEN {0, 1, 2, 7} ELSE {1})} : i \in 1..NSpecs}
Distinct(c) == \A a, b \in 1..Len(c.fields) : a # b => c.fields[a] # c.fields[b]
MCConfigs == {c \in Singles \cup Pairs \cup Triples : OkConfig(c) /\ Distinct(c)}
=============================================================================
