--------------------------- MODULE ArgValidation ---------------------------
(* Validation of entry-point arguments (property C29).

   A script  `fun main(a: T)`  receives an encoded argument. The runtime either rejects it with a
   user error or passes a value that is importable and whose run-time type is a subtype of T.
   This module defines, over the abstract values/types of JsonCdc,
     Importable(T)   - T may be the type of an entry-point parameter;
     Conforms(v, T)  - the *content* of v is a well-formed importable value of a subtype of T:
                       deep (element types, field set and field types of composites against the
                       DECLARED type with that type ID, known type IDs, distinct dictionary keys);
                       the static types an encoding may attach to containers are not consulted
                       (JSON-Cadence does not carry them; the value's type is re-derived on import);
     Subtype(U, T)   - the subtyping relation on the fragment, used to judge the run-time types
                       the scripts report (trace judge, Trace_ArgValidation);
   and the argument generator as a state machine: from the correct witness of a parameter type,
   each action corrupts the argument in one way (wrong top type, wrong nested element, missing /
   extra / retyped field, wrong or unknown type ID, non-importable value, wrong length, duplicate
   key, nil for non-optional). TLC enumerates (T, argument) and prints the predicted verdict.

   Declared program (deployed at 0x1 by the driver, see harness/cmd/codec/args.go):
     contract C {
       struct S  { a: Int; b: String }        struct S2 { a: Int }
       struct H  { x: AnyStruct }             struct N  { next: N?; id: UInt8 }
       struct interface SI {}                 struct T: SI { f: Int }
       enum E: UInt8 { case x; case y }       resource R { n: Int }
       struct K  { m: {E: Int}; l: [S2] }
     } *)
EXTENDS CdcSyntax, Naturals, Sequences, FiniteSets, TLC, Json

Loc == "A.0000000000000001.C"
Q(n) == Loc \o "." \o n
NoneT == [k |-> "none"]

\* declared types (field lists as declared; initializers are irrelevant here)
DS  == Comp("Struct", Q("S"), <<Fld("a", P("Int")), Fld("b", P("String"))>>, <<>>, <<>>)
DS2 == Comp("Struct", Q("S2"), <<Fld("a", P("Int"))>>, <<>>, <<>>)
DH  == Comp("Struct", Q("H"), <<Fld("x", P("AnyStruct"))>>, <<>>, <<>>)
DN  == Comp("Struct", Q("N"), <<Fld("next", OptT(RecT(Q("N")))), Fld("id", P("UInt8"))>>, <<>>, <<>>)
DSI == Comp("StructInterface", Q("SI"), <<>>, <<>>, <<>>)
DT  == Comp("Struct", Q("T"), <<Fld("f", P("Int"))>>, <<>>, <<>>)
DE  == Comp("Enum", Q("E"), <<Fld("rawValue", P("UInt8"))>>, <<>>, << P("UInt8") >>)
DR  == Comp("Resource", Q("R"), <<Fld("uuid", P("UInt64")), Fld("n", P("Int"))>>, <<>>, <<>>)
DK  == Comp("Struct", Q("K"), <<Fld("m", DictT(DE, P("Int"))), Fld("l", VArr(DS2))>>, <<>>, <<>>)
Declared == {DS, DS2, DH, DN, DSI, DT, DE, DR, DK}
Decl(tid) == CHOOSE d \in Declared : d.tid = tid
IsDeclared(tid) == \E d \in Declared : d.tid = tid
Implements == {<<Q("T"), Q("SI")>>}     \* struct T: SI

\* ---------------------------------------------------------------- source text of a type
SizeText(n) == CASE n = 0 -> "0" [] n = 1 -> "1" [] n = 2 -> "2" [] n = 3 -> "3"
NameOfTid(tid) == CHOOSE n \in {"S", "S2", "H", "N", "SI", "T", "E", "R", "K"} : Q(n) = tid
RECURSIVE Src(_)
Src(t) ==
  CASE t.k = "prim"  -> t.n
    [] t.k = "opt"   -> IF t.t.k = "ref" THEN "(" \o Src(t.t) \o ")?" ELSE Src(t.t) \o "?"
    [] t.k = "varr"  -> "[" \o Src(t.t) \o "]"
    [] t.k = "carr"  -> "[" \o Src(t.t) \o "; " \o SizeText(t.size) \o "]"
    [] t.k = "dict"  -> "{" \o Src(t.key) \o ": " \o Src(t.t) \o "}"
    [] t.k = "range" -> "InclusiveRange<" \o Src(t.t) \o ">"
    [] t.k = "ref"   -> "&" \o Src(t.t)
    [] t.k = "inter" -> "{" \o Src(t.types[1]) \o "}"
    [] t.k = "cap"   -> "Capability<" \o Src(t.t[1]) \o ">"
    [] t.k = "fun"   -> "fun(): Void"
    [] t.k = "comp"  -> "C." \o NameOfTid(t.tid)

\* ---------------------------------------------------------------- type classes
SignedInts == {"Int", "Int8", "Int16", "Int32", "Int64", "Int128", "Int256"}
UnsignedInts == {"UInt", "UInt8", "UInt16", "UInt32", "UInt64", "UInt128", "UInt256",
                 "Word8", "Word16", "Word32", "Word64", "Word128", "Word256"}
FixedUnsigned == {"UInt8", "UInt16", "UInt32", "UInt64", "UInt128", "UInt256",
                  "Word8", "Word16", "Word32", "Word64", "Word128", "Word256"}
SignedFix == {"Fix64", "Fix128"}
UnsignedFix == {"UFix64", "UFix128"}
Concrete == SignedInts \cup UnsignedInts \cup SignedFix \cup UnsignedFix \cup
            {"String", "Character", "Bool", "Address", "Void", "Type", "StoragePath", "PublicPath", "PrivatePath"}
\* primitive supertypes: the set of concrete primitive types below each
Below(n) ==
  CASE n = "Integer" -> SignedInts \cup UnsignedInts
    [] n = "SignedInteger" -> SignedInts
    [] n = "FixedSizeUnsignedInteger" -> FixedUnsigned
    [] n = "FixedPoint" -> SignedFix \cup UnsignedFix
    [] n = "SignedFixedPoint" -> SignedFix
    [] n = "Number" -> SignedInts \cup UnsignedInts \cup SignedFix \cup UnsignedFix
    [] n = "SignedNumber" -> SignedInts \cup SignedFix
    [] n = "Path" -> {"StoragePath", "PublicPath", "PrivatePath"}
    [] n = "CapabilityPath" -> {"PublicPath", "PrivatePath"}
    [] n \in Concrete -> {n}
    [] OTHER -> {}
AbstractPrims == {"Integer", "SignedInteger", "FixedSizeUnsignedInteger", "FixedPoint", "SignedFixedPoint", "Number",
                  "SignedNumber", "Path", "CapabilityPath"}
HashablePrims == (SignedInts \cup UnsignedInts \cup SignedFix \cup UnsignedFix \cup
                  {"String", "Character", "Bool", "Address", "Type", "StoragePath", "PublicPath", "PrivatePath"})

\* ---------------------------------------------------------------- subtyping on the fragment
IsResourceType(t) == (t.k = "comp" /\ t.ck = "Resource") \/ (t.k = "prim" /\ t.n = "AnyResource")
RECURSIVE HasResource(_)
HasResource(t) ==
  CASE IsResourceType(t) -> TRUE
    [] t.k \in {"opt", "varr", "carr"} -> HasResource(t.t)
    [] t.k = "dict" -> HasResource(t.t)
    [] OTHER -> FALSE
RECURSIVE IsHashableT(_)
IsHashableT(t) ==
  CASE t.k = "prim" -> t.n \in HashablePrims \/ t.n \in AbstractPrims \/ t.n = "HashableStruct" \/ t.n = "Never"
    [] t.k = "opt" -> IsHashableT(t.t)
    [] t.k = "comp" -> t.ck = "Enum"
    [] OTHER -> FALSE

RECURSIVE Subtype(_, _)
Subtype(u, t) ==
  \/ u = t
  \/ (u.k = "prim" /\ u.n = "Never")
  \/ (t.k = "prim" /\ t.n = "AnyStruct" /\ ~HasResource(u) /\ ~(u.k = "prim" /\ u.n \in {"AnyResource", "Any"}))
  \/ (t.k = "prim" /\ t.n = "AnyResource" /\ HasResource(u))
  \/ (t.k = "prim" /\ t.n = "HashableStruct" /\ IsHashableT(u))
  \/ (t.k = "prim" /\ u.k = "prim" /\ u.n \in Below(t.n))
  \/ (t.k = "prim" /\ u.k = "prim" /\ t.n \in AbstractPrims /\ u.n \in AbstractPrims /\ Below(u.n) \subseteq Below(t.n))
  \/ (t.k = "opt" /\ (IF u.k = "opt" THEN Subtype(u.t, t.t) ELSE Subtype(u, t.t)))
  \/ (t.k = "varr" /\ u.k = "varr" /\ Subtype(u.t, t.t))
  \/ (t.k = "carr" /\ u.k = "carr" /\ u.size = t.size /\ Subtype(u.t, t.t))
  \/ (t.k = "dict" /\ u.k = "dict" /\ Subtype(u.key, t.key) /\ Subtype(u.t, t.t))
  \/ (t.k = "range" /\ u.k = "range" /\ Subtype(u.t, t.t))
  \/ (t.k = "comp" /\ u.k = "comp" /\ u.tid = t.tid)
  \/ (t.k = "inter" /\ u.k = "comp" /\ \A i \in 1..Len(t.types) : <<u.tid, t.types[i].tid>> \in Implements)
  \/ (t.k = "inter" /\ u.k = "inter" /\ \A i \in 1..Len(t.types) : \E j \in 1..Len(u.types) : u.types[j].tid = t.types[i].tid)
  \/ (t.k = "cap" /\ u.k = "cap" /\ (t.t = <<>> \/ (u.t # <<>> /\ u.t[1] = t.t[1])))

\* ---------------------------------------------------------------- importability
RECURSIVE ImportableIn(_, _)
ImportableIn(t, seen) ==
  CASE t.k = "prim" -> t.n \in Concrete \/ t.n \in AbstractPrims \/ t.n \in {"AnyStruct", "HashableStruct", "Never"}
    [] t.k \in {"opt", "varr", "carr", "range"} -> ImportableIn(t.t, seen)
    [] t.k = "dict" -> ImportableIn(t.key, seen) /\ ImportableIn(t.t, seen)
    [] t.k = "comp" -> /\ t.ck \in {"Struct", "Enum", "StructInterface"}
                       /\ (t.tid \in seen \/ \A i \in 1..Len(Decl(t.tid).fields) :
                                                 ImportableIn(Decl(t.tid).fields[i].t, seen \cup {t.tid}))
    [] t.k = "rec"  -> TRUE
    [] t.k = "inter" -> \A i \in 1..Len(t.types) : ImportableIn(t.types[i], seen)
    [] t.k = "cap" -> TRUE  \* a capability TYPE may be declared; no capability VALUE is importable (see WellFormed)
    [] OTHER -> FALSE       \* references, functions, resources, accounts
Importable(t) == ImportableIn(t, {})
RECURSIVE HasCap(_)
HasCap(t) == CASE t.k = "cap" -> TRUE [] t.k \in {"opt", "varr", "carr"} -> HasCap(t.t) [] OTHER -> FALSE

\* ---------------------------------------------------------------- conformance of an argument
Unrec(t) == IF t.k = "rec" THEN Decl(t.tid) ELSE t

\* canonical identity of a key, to detect duplicates (only scalar keys occur)
RECURSIVE KeyId(_)
KeyId(v) == CASE v.k = "num" -> <<v.t, v.s>> [] v.k = "str" -> <<"s", v.s>> [] v.k = "bool" -> <<"b", v.b>>
              [] v.k = "addr" -> <<"a", v.h>>
              [] v.k = "comp" /\ Len(v.vs) = 1 -> <<"e", v.t.tid, KeyId(v.vs[1])>>     \* an enum key is identified by type and raw value
              [] OTHER -> <<"?", v.k>>

\* Cadence type names of the static types of scalar values
PrimOf(v) == CASE v.k = "num" -> v.t [] v.k = "fix" -> v.t [] v.k = "str" -> "String" [] v.k = "chr" -> "Character"
               [] v.k = "bool" -> "Bool" [] v.k = "addr" -> "Address" [] v.k = "void" -> "Void" [] v.k = "type" -> "Type"
               [] v.k = "path" -> (CASE v.dom = "storage" -> "StoragePath" [] v.dom = "public" -> "PublicPath" [] v.dom = "private" -> "PrivatePath")
               [] OTHER -> "?"

\* A repeated dictionary key is tolerated (CCF: "checking is delegated to the runtime"): one entry per key survives -
\* the last one when the argument is JSON-Cadence, the first one after CCF's sort - and the entries it shadows are
\* only checked shallowly. The model therefore asks for SOME entry per distinct key to conform.
KeyIds(ps) == {KeyId(ps[i].key) : i \in 1..Len(ps)}

HashableValue(v) == v.k \in {"num", "fix", "str", "chr", "bool", "addr", "path", "type"} \/ (v.k = "comp" /\ v.t.ck = "Enum")

RECURSIVE Conforms(_, _), ConformsU(_, _), WellFormed(_)
\* a value on its own: importable, and every composite inside matches its declaration
WellFormed(v) ==
  CASE v.k \in {"num", "fix", "str", "chr", "bool", "addr", "void", "type", "path"} -> TRUE
    [] v.k = "opt"  -> v.v = <<>> \/ WellFormed(v.v[1])
    [] v.k = "arr"  -> \A i \in 1..Len(v.vs) : WellFormed(v.vs[i])
    [] v.k = "dict" -> \A kid \in KeyIds(v.ps) : \E i \in 1..Len(v.ps) :
                          /\ KeyId(v.ps[i].key) = kid /\ WellFormed(v.ps[i].key) /\ WellFormed(v.ps[i].v)
                          /\ HashableValue(v.ps[i].key)
    [] v.k = "range" -> /\ v.start.k = "num" /\ v.end.k = "num" /\ v.step.k = "num"
                        /\ v.start.t = v.end.t /\ v.start.t = v.step.t
    [] v.k = "comp" -> /\ IsDeclared(v.t.tid)
                       /\ Decl(v.t.tid).ck = v.t.ck
                       /\ v.t.ck \in {"Struct", "Enum"}
                       /\ LET d == Decl(v.t.tid) IN
                          /\ Len(v.vs) = Len(d.fields)
                          /\ Len(v.t.fields) = Len(d.fields)
                          /\ {v.t.fields[i].id : i \in 1..Len(v.t.fields)} = {d.fields[i].id : i \in 1..Len(d.fields)}
                          /\ \A i \in 1..Len(v.vs) : \E j \in 1..Len(d.fields) :
                                 d.fields[j].id = v.t.fields[i].id /\ Conforms(v.vs[i], Unrec(d.fields[j].t))
    [] OTHER -> FALSE      \* capabilities, functions: not importable
Conforms(v, t) == ConformsU(v, Unrec(t))
ConformsU(v, t) ==
  /\ WellFormed(v)
  /\ CASE t.k = "prim" /\ t.n \in {"AnyStruct"} -> TRUE
       [] t.k = "prim" /\ t.n = "HashableStruct" -> v.k \in {"num", "fix", "str", "chr", "bool", "addr", "path", "type"}
                                                   \/ (v.k = "comp" /\ v.t.ck = "Enum")
                                                   \/ (v.k = "opt" /\ (v.v = <<>> \/ Conforms(v.v[1], t)))
       [] t.k = "prim" -> PrimOf(v) \in Below(t.n)
       [] t.k = "opt"  -> IF v.k = "opt" THEN v.v = <<>> \/ Conforms(v.v[1], t.t) ELSE Conforms(v, t.t)
       [] t.k = "varr" -> v.k = "arr" /\ \A i \in 1..Len(v.vs) : Conforms(v.vs[i], t.t)
       [] t.k = "carr" -> v.k = "arr" /\ Len(v.vs) = t.size /\ \A i \in 1..Len(v.vs) : Conforms(v.vs[i], t.t)
       [] t.k = "dict" -> v.k = "dict" /\ \A kid \in KeyIds(v.ps) : \E i \in 1..Len(v.ps) :
                              KeyId(v.ps[i].key) = kid /\ Conforms(v.ps[i].key, t.key) /\ Conforms(v.ps[i].v, t.t)
       [] t.k = "range" -> v.k = "range" /\ Conforms(v.start, t.t) /\ (t.t.k = "prim" /\ t.t.n \in Concrete => v.start.t = t.t.n)
       [] t.k = "comp" -> v.k = "comp" /\ v.t.tid = t.tid
       [] t.k = "inter" -> v.k = "comp" /\ \A i \in 1..Len(t.types) : <<v.t.tid, t.types[i].tid>> \in Implements
       [] OTHER -> FALSE

\* ---------------------------------------------------------------- the argument generator
CONSTANTS ParamTypes,      \* parameter types of the model
          Witness(_),      \* a correct argument for an importable parameter type
          MaxSteps
VARIABLES ptype, arg, how, steps
vars == <<ptype, arg, how, steps>>

WrongFor(t) == IF t.k = "prim" /\ t.n \in {"String", "Character", "AnyStruct", "HashableStruct"} THEN Num("Int", "7") ELSE Str("$s:ascii")
Sibling(v) ==    \* same kind, different type: Int8 for Int, UFix64 for Fix64 ...
  CASE v.k = "num" -> Num(IF v.t = "Int8" THEN "Int16" ELSE "Int8", "5")
    [] v.k = "fix" -> Fx(IF v.t = "UFix64" THEN "Fix64" ELSE "UFix64", FALSE, "1", "5")
    [] v.k = "path" -> PathV(IF v.dom = "storage" THEN "public" ELSE "storage", v.id)
    [] v.k = "str" -> Chr("$c:a")
    [] OTHER -> BoolV(TRUE)
ResourceValue == CompV(DR, <<Num("UInt64", "1"), Num("Int", "1")>>)
CapValue == CapV("1", "0000000000000001", RefT(Unauth, P("Int")))

\* all one-step corruptions of v, as [v, how] records; w is the wrong leaf to plant
RECURSIVE Corrupt(_)
ReplaceAt(s, i, x) == [s EXCEPT ![i] = x]
RemoveAt(s, i) == [j \in 1..(Len(s) - 1) |-> IF j < i THEN s[j] ELSE s[j + 1]]
Corrupt(v) ==
  {[v |-> Str("$s:ascii"), how |-> "leaf:string"], [v |-> Num("Int", "7"), how |-> "leaf:int"],
   [v |-> Sibling(v), how |-> "leaf:sibling-type"], [v |-> NilV, how |-> "leaf:nil"],
   [v |-> ResourceValue, how |-> "leaf:resource"], [v |-> CapValue, how |-> "leaf:capability"],
   [v |-> TypeV(FunT("impure", <<>>, <<>>, P("Void"))), how |-> "leaf:function-type-value"]}
  \cup
  (CASE v.k = "opt" /\ v.v # <<>> -> {[v |-> Some(c.v), how |-> c.how] : c \in Corrupt(v.v[1])}
     [] v.k = "arr" ->
          (UNION {{[v |-> [v EXCEPT !.vs = ReplaceAt(v.vs, i, c.v)], how |-> "element:" \o c.how] : c \in Corrupt(v.vs[i])} : i \in 1..Len(v.vs)})
          \cup {[v |-> [v EXCEPT !.vs = Append(v.vs, Num("Int", "7"))], how |-> "array:extra-element"]}
          \cup (IF v.vs = <<>> THEN {} ELSE {[v |-> [v EXCEPT !.vs = RemoveAt(v.vs, 1)], how |-> "array:drop-element"],
                                              [v |-> [v EXCEPT !.vs = <<>>], how |-> "array:emptied"]})
     [] v.k = "dict" ->
          (UNION {{[v |-> [v EXCEPT !.ps = ReplaceAt(v.ps, i, KV(v.ps[i].key, c.v))], how |-> "dictvalue:" \o c.how] : c \in Corrupt(v.ps[i].v)} : i \in 1..Len(v.ps)})
          \cup (UNION {{[v |-> [v EXCEPT !.ps = ReplaceAt(v.ps, i, KV(c.v, v.ps[i].v))], how |-> "dictkey:" \o c.how] :
                           c \in Corrupt(v.ps[i].key)} : i \in 1..Len(v.ps)})
          \cup (IF v.ps = <<>> THEN {} ELSE {[v |-> [v EXCEPT !.ps = Append(v.ps, v.ps[1])], how |-> "dict:duplicate-key"]})
     [] v.k = "comp" ->
          (UNION {{[v |-> [v EXCEPT !.vs = ReplaceAt(v.vs, i, c.v)], how |-> "field:" \o c.how] : c \in Corrupt(v.vs[i])} : i \in 1..Len(v.vs)})
          \cup {[v |-> [v EXCEPT !.vs = RemoveAt(v.vs, Len(v.vs)), !.t.fields = RemoveAt(v.t.fields, Len(v.t.fields))], how |-> "composite:missing-field"],
                [v |-> [v EXCEPT !.vs = Append(v.vs, Num("Int", "7")), !.t.fields = Append(v.t.fields, Fld("zzz", P("Int")))], how |-> "composite:extra-field"],
                [v |-> [v EXCEPT !.t.fields = ReplaceAt(v.t.fields, 1, Fld("renamed", v.t.fields[1].t))], how |-> "composite:renamed-field"],
                [v |-> [v EXCEPT !.t.tid = Q("Nope")], how |-> "composite:unknown-type-id"],
                [v |-> [v EXCEPT !.t.tid = IF v.t.tid = Q("S2") THEN Q("T") ELSE Q("S2")], how |-> "composite:other-type-id"],
                [v |-> [v EXCEPT !.t.ck = IF v.t.ck = "Struct" THEN "Resource" ELSE "Struct"], how |-> "composite:other-kind"]}
          \cup (IF Len(v.vs) < 2 THEN {} ELSE
                {[v |-> [v EXCEPT !.vs = <<v.vs[2], v.vs[1]>> \o SubSeq(v.vs, 3, Len(v.vs)),
                                  !.t.fields = <<v.t.fields[2], v.t.fields[1]>> \o SubSeq(v.t.fields, 3, Len(v.t.fields))], how |-> "composite:fields-reordered"],
                 [v |-> [v EXCEPT !.vs = <<v.vs[2], v.vs[1]>> \o SubSeq(v.vs, 3, Len(v.vs))], how |-> "composite:values-swapped"]})
     [] v.k = "range" -> {[v |-> [v EXCEPT !.end = Sibling(v.end)], how |-> "range:mixed-member-types"]}
     [] OTHER -> {})

Init == /\ ptype \in ParamTypes
        /\ arg = IF Importable(ptype) THEN Witness(ptype) ELSE Witness(P("Int"))
        /\ how = "correct"
        /\ steps = 0
Step == /\ steps < MaxSteps
        /\ \E c \in Corrupt(arg) : arg' = c.v /\ how' = (IF how = "correct" THEN c.how ELSE how \o " + " \o c.how)
        /\ steps' = steps + 1
        /\ UNCHANGED ptype
Next == Step
Spec == Init /\ [][Next]_vars

\* the witness of an importable parameter type conforms; nothing conforms to a non-importable one ...
WitnessConforms == (steps = 0 /\ Importable(ptype) /\ ~HasCap(ptype)) => Conforms(arg, ptype)
\* conformance implies the run-time type is a subtype: every value conforming to T also conforms to every supertype in the universe
ConformsUpward == \A t \in ParamTypes : (Conforms(arg, ptype) /\ Subtype(ptype, t) /\ Importable(t)) => Conforms(arg, t)
\* Subtype is reflexive and transitive on the parameter types
SubtypePreorder == steps = 0 => \A t, u \in ParamTypes : (Subtype(ptype, t) /\ Subtype(t, u)) => Subtype(ptype, u)

Row == [t |-> ptype, src |-> Src(ptype), arg |-> arg, how |-> how,
        importable |-> Importable(ptype), conforms |-> Importable(ptype) /\ Conforms(arg, ptype),
        resource |-> HasResource(ptype)]
EmitRow == PrintT(ToJson(Row))
=============================================================================
