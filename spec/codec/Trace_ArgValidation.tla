------------------------ MODULE Trace_ArgValidation ------------------------
(* Judging the run-time types reported by scripts that accepted an argument (impl -> spec, C29):
   every record [t, rt] of the log (parameter type, type returned by `a.getType()` inside the script,
   both as abstract types) must satisfy Subtype(rt, t). The module re-uses the variables of
   ArgValidation as a cursor over the log. *)
EXTENDS MC_ArgValidation
CONSTANT LogFile
Log == ndJsonDeserialize(LogFile)
TInit == steps = 0 /\ ptype = NoneT /\ arg = NoneT /\ how = "judge"
TNext == /\ steps < Len(Log) /\ steps' = steps + 1
         /\ ptype' = Log[steps'].t /\ arg' = Log[steps'].rt /\ how' = how
TSpec == TInit /\ [][TNext]_vars
\* always TRUE: a rejected record is printed, not a model error
Judged == steps = 0 \/ Subtype(arg, ptype)
          \/ PrintT(ToJson([bad |-> steps, src |-> Log[steps].src, how |-> Log[steps].how, rtid |-> Log[steps].rtid,
                            engine |-> Log[steps].engine, codec |-> Log[steps].codec]))
=============================================================================
