SPECIFICATION Spec
CONSTANTS
  Alpha <- AllBytes
  FirstAlpha <- Boundary
  N = 3
INVARIANTS JudgeCompact
