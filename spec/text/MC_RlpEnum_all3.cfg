SPECIFICATION Spec
CONSTANTS
  Alpha <- AllBytes
  N = 3
INVARIANTS JudgeCompact
