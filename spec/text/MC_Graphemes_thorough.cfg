SPECIFICATION Spec
CONSTANTS
  Alphas = {"Full", "Marks6", "Emoji6", "Hangul5", "Lines5"}
  N = 5
  NFull = 3
  RankLen = 2
  LawLen = 4
INVARIANTS Judge LawsHold
