SPECIFICATION Spec
CONSTANTS
  Alphas = {"Full", "Marks6", "Emoji6", "Hangul6", "Lines6"}
  N = 5
  NFull = 3
  RankLen = 2
  LawLen = 4
INVARIANTS Judge LawsHold
