---------------------------- MODULE MC_RlpCases ----------------------------
(* Generated cases: each line of cases.ndjson is [t |-> item tree, e |-> bytes, m |-> <<mutants>>].
   `e` is what the (untrusted) generator believes the canonical encoding of t to be; the model
   requires e = Enc(t), checks the round-trip law on t, and prints the table rows of the
   encoding and of every mutant (header rewritten with other length forms, leading zeros,
   off-by-one and extreme lengths up to 2^64-1, truncations, extensions). One TLC state per input. *)
EXTENDS Rlp, Json
Cases == TLCEval(ndJsonDeserialize("cases.ndjson"))      \* evaluated once (a cfg override `Cases <- ...` would re-read the file on every use)
VARIABLES k, j, b
\* (0, 0) is a start state that fans out to one state per case and then one per input, so that
\* all the evaluation happens in parallel on TLC's worker threads (deep recursion needs their large stacks)
Init == k = 0 /\ j = 0 /\ b = << >>
Next == \/ /\ k = 0 /\ k' \in 1..Len(Cases) /\ j' = Len(Cases[k'].m) + 1 /\ b' = << >>      \* pick a case
        \/ /\ k > 0 /\ j = Len(Cases[k].m) + 1 /\ k' = k                                   \* pick one of its inputs
           /\ j' \in 0..Len(Cases[k].m)
           /\ b' = IF j' = 0 THEN Enc(Cases[k].t) ELSE Cases[k].m[j']
IsInput == k > 0 /\ j <= Len(Cases[k].m)
Spec == Init /\ [][Next]_<<k, j, b>>
GeneratorAgrees == IsInput => Cases[k].e = Enc(Cases[k].t)
RoundTrips == (IsInput /\ j = 0) => RoundTrip(Cases[k].t)
Judge == IsInput => LET s == DecodeString(b)  l == DecodeList(b)  d == Deep(b) IN
                    LawsOf(b, s, l, d) /\ PrintT(ToJson(RowOf(b, s, l, d)))
=============================================================================
