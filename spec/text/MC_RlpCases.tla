---------------------------- MODULE MC_RlpCases ----------------------------
(* Generated cases: each line of cases.ndjson is [t |-> item tree, e |-> bytes, m |-> <<mutants>>].
   `e` is what the (untrusted) generator believes the canonical encoding of t to be; the model
   requires e = Enc(t), checks the round-trip law on t, and prints the table rows of the
   encoding and of every mutant (header rewritten with other length forms, leading zeros,
   off-by-one and extreme lengths up to 2^64-1, truncations, extensions). One TLC state per input. *)
EXTENDS Rlp, Json
Cases == ndJsonDeserialize("cases.ndjson")
VARIABLES k, j, b
\* (k, j) = (0, 0) is a start state that fans out to one state per input, so that all the
\* evaluation happens on TLC's worker threads (deep recursion needs their large stacks)
Init == k = 0 /\ j = 0 /\ b = << >>
Next == /\ k = 0
        /\ k' \in 1..Len(Cases)
        /\ j' \in 0..Len(Cases[k'].m)
        /\ b' = IF j' = 0 THEN Enc(Cases[k'].t) ELSE Cases[k'].m[j']
Spec == Init /\ [][Next]_<<k, j, b>>
GeneratorAgrees == k > 0 => Cases[k].e = Enc(Cases[k].t)
RoundTrips == (k > 0 /\ j = 0) => RoundTrip(Cases[k].t)
LawsHold == k > 0 => Laws(b)
Emit == k > 0 => PrintT(ToJson(Row(b)))
=============================================================================
