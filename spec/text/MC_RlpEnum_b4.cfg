SPECIFICATION Spec
CONSTANTS
  Alpha <- Boundary
  FirstAlpha <- Boundary
  N = 4
INVARIANTS Judge
