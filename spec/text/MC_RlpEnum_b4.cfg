SPECIFICATION Spec
CONSTANTS
  Alpha <- Boundary
  N = 4
INVARIANTS Judge
