SPECIFICATION Spec
CONSTANTS
  Alpha <- Marks
  N = 4
  Repl <- ReplMarks
INVARIANTS Judge
