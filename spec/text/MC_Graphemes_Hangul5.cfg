SPECIFICATION Spec
CONSTANTS
  Alpha <- Hangul
  N = 5
  Repl <- ReplHangul
INVARIANTS Judge
