SPECIFICATION Spec
CONSTANTS
  Mode = "u16"
  M16 = {0, 1, 2, 3, 5, 127, 128, 255, 256, 257, 511, 512, 513, 1000, 32767, 32768, 32769, 40000, 65534, 65535}
INVARIANTS Judge Uniform
