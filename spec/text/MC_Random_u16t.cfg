SPECIFICATION Spec
CONSTANTS
  Mode = "u16"
  M16 = {0, 1, 2, 3, 255, 256, 257, 511, 513, 32767, 32768, 32769, 65534, 65535}
INVARIANTS Judge Uniform
