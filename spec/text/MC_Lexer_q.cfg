SPECIFICATION LSpec
CONSTANTS
  Alphabet <- MCAlphabet
  MaxLen = 3
INVARIANTS LTypeOK PosIsFunctionOfOffset WalkAgrees Covered
