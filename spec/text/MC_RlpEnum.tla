---------------------------- MODULE MC_RlpEnum ----------------------------
(* Table of the RLP decoder over all byte strings of length <= N over Alpha: one TLC state
   per input; the laws of Rlp.tla are invariants, and every state prints its table row. *)
EXTENDS Rlp, Json
CONSTANTS Alpha, FirstAlpha, N          \* FirstAlpha: the bytes allowed in first position (Alpha elsewhere)
VARIABLE b
Boundary == {0, 1, 127, 128, 129, 130, 131, 183, 184, 185, 191, 192, 193, 194, 195, 247, 248, 249, 255}
AllBytes == 0..255
Init == b = << >>
Next == Len(b) < N /\ \E a \in (IF Len(b) = 0 THEN FirstAlpha ELSE Alpha) : b' = Append(b, a)
Spec == Init /\ [][Next]_b
\* one invariant: the laws hold for this input, and its table row is printed (decoders evaluated once)
Judge == LET s == DecodeString(b)  l == DecodeList(b)  d == Deep(b) IN
         LawsOf(b, s, l, d) /\ PrintT(ToJson(RowOf(b, s, l, d)))
JudgeCompact == LET s == DecodeString(b)  l == DecodeList(b)  d == Deep(b)  r == RowOf(b, s, l, d) IN
         LawsOf(b, s, l, d) /\ PrintT(ToJson(<<r[1], r[2], r[3], r[4]>>))
=============================================================================
