---------------------------- MODULE MC_RlpEnum ----------------------------
(* Table of the RLP decoder over all byte strings of length <= N over Alpha: one TLC state
   per input; the laws of Rlp.tla are invariants, and every state prints its table row. *)
EXTENDS Rlp, Json
CONSTANTS Alpha, N
VARIABLE b
Boundary == {0, 1, 127, 128, 129, 130, 131, 183, 184, 185, 191, 192, 193, 194, 195, 247, 248, 249, 255}
AllBytes == 0..255
Init == b = << >>
Next == Len(b) < N /\ \E a \in Alpha : b' = Append(b, a)
Spec == Init /\ [][Next]_b
LawsHold == Laws(b)
Emit == PrintT(ToJson(Row(b)))
EmitCompact == PrintT(ToJson(CompactRow(b)))
=============================================================================
