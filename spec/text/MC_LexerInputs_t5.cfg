SPECIFICATION Spec
CONSTANTS
  Frags <- QuickFrags
  MaxLen = 5
INVARIANTS TypeOK Emit
