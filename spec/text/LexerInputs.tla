---- MODULE LexerInputs ----
(* C37 -- the model universe of comment / line-break layouts fed to the real lexer.

   An input is a sequence of FRAGMENTS: block-comment delimiters, a line break, a word, a blank, a line-comment
   opener (thorough: also the doc-comment opener and a multi-byte character).  TLC enumerates every sequence
   up to MaxLen that contains a comment opener: block comments in every position relative to line breaks
   (`/*\n*/`, `/* x\n*/`, `/*\n\n*/`, nested `/*/*\n*/\n*/`, `*/` in column 0 followed by a token on the same
   line, comment content ending at the end of the input with and without a trailing line break, line comments
   followed by block comments, unbalanced delimiters ...).  The driver lexes each sequence twice: as it is
   (the input ends there) and followed by "\nx y\nz" (tokens on two later lines), so that a position that drifts
   after a comment is seen on every later token.  The position oracle is Lexer.tla (Trace_Lexer.tla): line and
   column are recomputed from the bytes of the input, never from the lexer. *)
EXTENDS Naturals, Sequences, TLC, Json
CONSTANTS Frags, MaxLen
Openers == {"/*", "//", "/**"}
VARIABLE s
Init == s = <<>>
Next == Len(s) < MaxLen /\ \E f \in Frags : s' = Append(s, f)
Spec == Init /\ [][Next]_s
HasComment == \E i \in 1..Len(s) : s[i] \in Openers
Emit == HasComment => PrintT(ToJson([frags |-> s]))
TypeOK == s \in Seq(Frags) /\ Len(s) <= MaxLen
====
