------------------------------- MODULE NumText -------------------------------
(* Textual and byte encodings of numbers, property C17.

   Strings are sequences of one-character strings. `fromString` is an acceptance automaton that is
   parameterised ONLY by the class of the type (signed?, fixed-point?) -- this is the property: which
   strings are accepted never depends on the width -- followed by the value fold, the scale rule
   (at most `scale` fractional digits) and the range check, which are the only width-dependent parts.
   Sign rule per class (the reference says no more than "invalid input gives nil"; taken from the
   fixed-width parsers): signed types accept one leading "+" or "-"; unsigned integers accept no sign;
   unsigned fixed-point accepts "+" only. No underscores, spaces, prefixes; fixed-point needs digits on
   both sides of the point.

   Values are [neg, d] with d the decimal digits of the (scaled) magnitude (Dec.tla / NumTypes.tla). *)
EXTENDS NumTypes

Digits == <<"0", "1", "2", "3", "4", "5", "6", "7", "8", "9">>
DigitSet == {"0", "1", "2", "3", "4", "5", "6", "7", "8", "9"}
IsDigit(c) == c \in DigitSet
DigitVal(c) == CASE c = "0" -> 0 [] c = "1" -> 1 [] c = "2" -> 2 [] c = "3" -> 3 [] c = "4" -> 4
                 [] c = "5" -> 5 [] c = "6" -> 6 [] c = "7" -> 7 [] c = "8" -> 8 [] c = "9" -> 9

ClassOf(ti) == [signed |-> ti.signed, fixed |-> ti.fixed]
SignOK(cl, c) == IF cl.signed THEN c = "+" \/ c = "-" ELSE cl.fixed /\ c = "+"
Step(cl, st, c) ==
  CASE st = "start" -> IF IsDigit(c) THEN "int" ELSE IF SignOK(cl, c) THEN "sign" ELSE "rej"
    [] st = "sign"  -> IF IsDigit(c) THEN "int" ELSE "rej"
    [] st = "int"   -> IF IsDigit(c) THEN "int" ELSE IF c = "." /\ cl.fixed THEN "dot" ELSE "rej"
    [] st = "dot"   -> IF IsDigit(c) THEN "frac" ELSE "rej"
    [] st = "frac"  -> IF IsDigit(c) THEN "frac" ELSE "rej"
    [] OTHER        -> "rej"
RECURSIVE RunA(_, _, _, _)
RunA(cl, s, i, st) == IF i > Len(s) \/ st = "rej" THEN st ELSE RunA(cl, s, i + 1, Step(cl, st, s[i]))
Accepts(cl, s) == RunA(cl, s, 1, "start") = (IF cl.fixed THEN "frac" ELSE "int")

\* the parts of an accepted string: sign, integer digits, fractional digits
PointAt(s) == IF \E i \in 1..Len(s) : s[i] = "." THEN CHOOSE i \in 1..Len(s) : s[i] = "." ELSE Len(s) + 1
Parts(s) == LET signed == s[1] = "+" \/ s[1] = "-"
                p == PointAt(s)
                first == IF signed THEN 2 ELSE 1
            IN [neg |-> s[1] = "-",
                i |-> [k \in 1..(p - first) |-> DigitVal(s[first + k - 1])],
                f |-> [k \in 1..(Len(s) - p) |-> DigitVal(s[p + k])]]
Zeros(n) == [k \in 1..n |-> 0]
Nil == [ok |-> FALSE]
Some(v) == [ok |-> TRUE, neg |-> v.neg, d |-> v.d]

\* T.fromString(s)
FromString(ti, s) ==
  IF ~Accepts(ClassOf(ti), s) THEN Nil
  ELSE LET p == Parts(s) IN
       IF ti.fixed /\ Len(p.f) > ti.scale THEN Nil
       ELSE LET d == Strip(p.i \o p.f \o Zeros(ti.scale - Len(p.f))) IN
            IF InRange(ti, p.neg /\ Len(d) > 0, d) THEN Some(Val(p.neg, d)) ELSE Nil

\* why a string is nil for a type (description only, used to name a disagreeing case):
\*   "ok" | "syntax" | "scale" | "range" | "range:int-part-at-bound" | "range:int-part-at-bound,short-fraction"
\* the last two: the integer part equals the integer part of the bound on that side, so the fraction decides
FromStringWhy(ti, s) ==
  IF ~Accepts(ClassOf(ti), s) THEN "syntax"
  ELSE LET p == Parts(s) IN
       IF ti.fixed /\ Len(p.f) > ti.scale THEN "scale"
       ELSE LET d == Strip(p.i \o p.f \o Zeros(ti.scale - Len(p.f)))
                neg == p.neg /\ Len(d) > 0 IN
            IF InRange(ti, neg, d) THEN "ok"
            ELSE IF ~ti.fixed \/ ti.bits = 0 \/ (neg /\ ~ti.signed) THEN "range"
            ELSE LET b == IF neg THEN MinMag(ti) ELSE MaxMag(ti)
                     bi == SubSeq(b, 1, Len(b) - ti.scale) IN
                 IF Eq(p.i, bi) THEN (IF Len(p.f) < ti.scale THEN "range:int-part-at-bound,short-fraction" ELSE "range:int-part-at-bound")
                 ELSE "range"

\* x.toString() (NumToString): minus sign, decimal digits; fixed point: integer part, point, exactly `scale` fractional digits
Chars(d) == [k \in 1..Len(d) |-> Digits[d[k] + 1]]
NumToString(ti, v) ==
  LET d == Strip(v.d)
      sign == IF v.neg /\ Len(d) > 0 THEN <<"-">> ELSE << >>
  IN IF ~ti.fixed THEN sign \o (IF Len(d) = 0 THEN <<"0">> ELSE Chars(d))
     ELSE LET padded == Zeros(IF Len(d) > ti.scale THEN 0 ELSE ti.scale + 1 - Len(d)) \o d         \* at least one integer digit
              n == Len(padded)
          IN sign \o Chars(SubSeq(padded, 1, n - ti.scale)) \o <<".">> \o Chars(SubSeq(padded, n - ti.scale + 1, n))

\* ------------------------------------------------------------------ big-endian bytes
Size(ti) == ti.bits \div 8                           \* 0 = arbitrary precision
Compl(bs) == [k \in 1..Len(bs) |-> 255 - bs[k]]
\* two's complement value of a full-width (or, for Int, any-length) byte string
Signed2c(bs) == IF Len(bs) > 0 /\ bs[1] >= 128 THEN Val(TRUE, Inc1(FromBytes(Compl(bs)))) ELSE Val(FALSE, FromBytes(bs))
FromBigEndianBytes(ti, bs) ==
  IF Size(ti) # 0 /\ Len(bs) > Size(ti) THEN Nil                                   \* nil exactly for over-long input
  ELSE LET word == IF Size(ti) = 0 THEN bs ELSE Zeros(Size(ti) - Len(bs)) \o bs     \* the bytes given are the low-order bytes
       IN Some(IF ti.signed THEN Signed2c(word) ELSE Val(FALSE, FromBytes(word)))
\* The property fixes the round trip and the nil rule only. For a signed sized type and an input SHORTER than the
\* type there are two readings -- the missing high-order bytes are zero (above), or the input is a shorter two's
\* complement number (sign taken from its own first byte). Both are allowed outcomes; they differ only when the
\* first given byte is >= 0x80.
FromBigEndianBytesAlt(ti, bs) ==
  IF ti.signed /\ Size(ti) # 0 /\ Len(bs) < Size(ti) /\ Len(bs) > 0 /\ bs[1] >= 128 THEN Some(Signed2c(bs)) ELSE FromBigEndianBytes(ti, bs)
\* x.toBigEndianBytes(): exactly Size bytes for sized types; minimal two's complement / magnitude for Int / UInt
RECURSIVE PadTo(_, _, _)
PadTo(bs, n, fill) == IF Len(bs) >= n THEN bs ELSE PadTo(<<fill>> \o bs, n, fill)
Neg2c(mag, n) ==                                     \* two's complement of -mag on n bytes (mag > 0, fits)
  Compl(PadTo(ToBytes(Pred(mag)), n, 0))
MinimalSigned(v) ==
  IF ~v.neg THEN LET m == ToBytes(v.d) IN IF Len(m) = 0 THEN <<0>> ELSE IF m[1] >= 128 THEN <<0>> \o m ELSE m
  ELSE LET m == ToBytes(Pred(v.d))                   \* -x = ~(x-1)
           c == Compl(m)
       IN IF Len(c) = 0 THEN <<255>> ELSE IF c[1] < 128 THEN <<255>> \o c ELSE c
ToBigEndianBytes(ti, v) ==
  IF Size(ti) = 0 THEN (IF ti.signed THEN MinimalSigned(v) ELSE LET m == ToBytes(v.d) IN IF Len(m) = 0 THEN <<0>> ELSE m)
  ELSE IF v.neg THEN Neg2c(v.d, Size(ti)) ELSE PadTo(ToBytes(v.d), Size(ti), 0)

\* ------------------------------------------------------------------ laws
StringRoundTrip(ti, v) == FromString(ti, NumToString(ti, v)) = Some(v)
BytesRoundTrip(ti, v)  == FromBigEndianBytes(ti, ToBigEndianBytes(ti, v)) = Some(v)
\* acceptance depends on the class only (by construction; stated so that TLC evaluates it on every enumerated string)
WidthIndependent(s) == \A t1, t2 \in TypeNames :
                          ClassOf(TypeInfo[t1]) = ClassOf(TypeInfo[t2]) => (Accepts(ClassOf(TypeInfo[t1]), s) <=> Accepts(ClassOf(TypeInfo[t2]), s))

\* ------------------------------------------------------------------ addresses, hex, paths
HexDigits == <<"0", "1", "2", "3", "4", "5", "6", "7", "8", "9", "a", "b", "c", "d", "e", "f">>
RECURSIVE HexOf(_)
HexOf(bs) == IF Len(bs) = 0 THEN << >> ELSE <<HexDigits[(bs[1] \div 16) + 1], HexDigits[(bs[1] % 16) + 1]>> \o HexOf(Tail(bs))
AddressText(bs8) == <<"0", "x">> \o HexOf(bs8)                       \* 0x + 16 hex digits
PathText(domain, ident) == <<"/">> \o domain \o <<"/">> \o ident
=============================================================================
