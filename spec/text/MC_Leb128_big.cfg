SPECIFICATION Spec
CONSTANTS
  Mode = "big"
  Chunks = 0
INVARIANTS Judge
