--------------------------------- MODULE Dec ---------------------------------
(* Exact natural numbers as decimal digit sequences (most significant digit first, no leading zeros, the
   empty sequence is zero), for a model checker whose integers have 32 bits. Private helper of the text
   family (NumText, Literals); all intermediate products stay below 2^31 for multipliers <= 65536.
   (spec/num/Bignum.tla, base 2^15 limbs, is written concurrently; this module exists so that the text
   specifications can state values exactly as the decimal digits one reads in the source text.) *)
EXTENDS Naturals, Sequences

Front(s) == SubSeq(s, 1, Len(s) - 1)
RECURSIVE Strip(_)
Strip(d) == IF Len(d) = 0 THEN d ELSE IF d[1] = 0 THEN Strip(Tail(d)) ELSE d
RECURSIVE DigitsOf(_)
DigitsOf(n) == IF n = 0 THEN << >> ELSE DigitsOf(n \div 10) \o <<n % 10>>     \* small natural -> digits
\* three-way comparison encoded in 0 (less), 1 (equal), 2 (greater) to stay in the naturals
RECURSIVE CmpL(_, _)
CmpL(a, b) == IF Len(a) = 0 THEN 1 ELSE IF a[1] < b[1] THEN 0 ELSE IF a[1] > b[1] THEN 2 ELSE CmpL(Tail(a), Tail(b))
Cmp(x, y) == LET a == Strip(x)  b == Strip(y) IN
             IF Len(a) < Len(b) THEN 0 ELSE IF Len(a) > Len(b) THEN 2 ELSE CmpL(a, b)
Le(x, y) == Cmp(x, y) # 2
Lt(x, y) == Cmp(x, y) = 0
Eq(x, y) == Cmp(x, y) = 1

\* d * m + c   (m <= 65536, c < 2^16)
RECURSIVE MSA(_, _, _)
MSA(d, m, carry) == IF Len(d) = 0 THEN DigitsOf(carry)
                    ELSE LET cur == d[Len(d)] * m + carry IN MSA(Front(d), m, cur \div 10) \o <<cur % 10>>
MulAdd(d, m, c) == Strip(MSA(d, m, c))
RECURSIVE Pow2(_)
Pow2(k) == IF k < 8 THEN DigitsOf(CASE k = 0 -> 1 [] k = 1 -> 2 [] k = 2 -> 4 [] k = 3 -> 8 [] k = 4 -> 16 [] k = 5 -> 32 [] k = 6 -> 64 [] OTHER -> 128)
           ELSE MulAdd(Pow2(k - 8), 256, 0)
RECURSIVE Pow10(_)
Pow10(k) == IF k = 0 THEN <<1>> ELSE Pow10(k - 1) \o <<0>>
RECURSIVE Dec1(_)
Dec1(d) == IF d[Len(d)] = 0 THEN Dec1(Front(d)) \o <<9>> ELSE Front(d) \o <<d[Len(d)] - 1>>      \* d # 0; may leave a leading zero
Pred(d) == Strip(Dec1(d))
RECURSIVE Inc1(_)
Inc1(d) == IF Len(d) = 0 THEN <<1>> ELSE IF d[Len(d)] = 9 THEN Inc1(Front(d)) \o <<0>> ELSE Front(d) \o <<d[Len(d)] + 1>>
\* long division by a small m: [q, r]
RECURSIVE DS(_, _, _, _)
DS(d, i, m, r) == IF i > Len(d) THEN [q |-> << >>, r |-> r]
                  ELSE LET cur == r * 10 + d[i]  rest == DS(d, i + 1, m, cur % m) IN [q |-> <<cur \div m>> \o rest.q, r |-> rest.r]
DivSmall(d, m) == LET x == DS(d, 1, m, 0) IN [q |-> Strip(x.q), r |-> x.r]

\* bytes (big-endian, unsigned) <-> digits
RECURSIVE FromBytes(_)
FromBytes(bs) == IF Len(bs) = 0 THEN << >> ELSE MulAdd(FromBytes(Front(bs)), 256, bs[Len(bs)])
RECURSIVE ToBytes(_)
ToBytes(d) == IF Len(Strip(d)) = 0 THEN << >> ELSE LET x == DivSmall(Strip(d), 256) IN ToBytes(x.q) \o <<x.r>>      \* minimal, big-endian
=============================================================================
