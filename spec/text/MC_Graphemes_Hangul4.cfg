SPECIFICATION Spec
CONSTANTS
  Alpha <- Hangul
  N = 4
  Repl <- ReplHangul
INVARIANTS Judge
