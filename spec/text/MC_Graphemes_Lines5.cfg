SPECIFICATION Spec
CONSTANTS
  Alpha <- Lines
  N = 5
  Repl <- ReplLines
INVARIANTS Judge
