------------------------------- MODULE NumTypes -------------------------------
(* The numeric types of Cadence as the text family needs them: signedness, integer / fixed point, width
   (0 = arbitrary precision), decimal scale; ranges as exact decimal numbers (Dec.tla).
   A value is [neg, d]: sign and magnitude digits; for fixed-point types the magnitude is the *scaled*
   integer (value * 10^scale). Zero is never negative. *)
EXTENDS Dec, TLC

T(s, f, b, sc) == [signed |-> s, fixed |-> f, bits |-> b, scale |-> sc]      \* bits = 0: arbitrary precision
TypeInfo == [
  Int8 |-> T(TRUE, FALSE, 8, 0), Int16 |-> T(TRUE, FALSE, 16, 0), Int32 |-> T(TRUE, FALSE, 32, 0), Int64 |-> T(TRUE, FALSE, 64, 0),
  Int128 |-> T(TRUE, FALSE, 128, 0), Int256 |-> T(TRUE, FALSE, 256, 0), Int |-> T(TRUE, FALSE, 0, 0),
  UInt8 |-> T(FALSE, FALSE, 8, 0), UInt16 |-> T(FALSE, FALSE, 16, 0), UInt32 |-> T(FALSE, FALSE, 32, 0), UInt64 |-> T(FALSE, FALSE, 64, 0),
  UInt128 |-> T(FALSE, FALSE, 128, 0), UInt256 |-> T(FALSE, FALSE, 256, 0), UInt |-> T(FALSE, FALSE, 0, 0),
  Word8 |-> T(FALSE, FALSE, 8, 0), Word16 |-> T(FALSE, FALSE, 16, 0), Word32 |-> T(FALSE, FALSE, 32, 0), Word64 |-> T(FALSE, FALSE, 64, 0),
  Word128 |-> T(FALSE, FALSE, 128, 0), Word256 |-> T(FALSE, FALSE, 256, 0),
  Fix64 |-> T(TRUE, TRUE, 64, 8), UFix64 |-> T(FALSE, TRUE, 64, 8), Fix128 |-> T(TRUE, TRUE, 128, 24), UFix128 |-> T(FALSE, TRUE, 128, 24)]
TypeNames == DOMAIN TypeInfo

\* largest magnitude on the positive / negative side
\* the powers of two that bound the sized types, written out (TLC would otherwise recompute these long digit
\* sequences at every use); the ASSUME makes TLC verify each of them against Dec!Pow2 once at start-up
PowerOfTwo(k) == CASE
                k = 7 -> <<1, 2, 8>>
             [] k = 8 -> <<2, 5, 6>>
             [] k = 15 -> <<3, 2, 7, 6, 8>>
             [] k = 16 -> <<6, 5, 5, 3, 6>>
             [] k = 31 -> <<2, 1, 4, 7, 4, 8, 3, 6, 4, 8>>
             [] k = 32 -> <<4, 2, 9, 4, 9, 6, 7, 2, 9, 6>>
             [] k = 63 -> <<9, 2, 2, 3, 3, 7, 2, 0, 3, 6, 8, 5, 4, 7, 7, 5, 8, 0, 8>>
             [] k = 64 -> <<1, 8, 4, 4, 6, 7, 4, 4, 0, 7, 3, 7, 0, 9, 5, 5, 1, 6, 1, 6>>
             [] k = 127 -> <<1, 7, 0, 1, 4, 1, 1, 8, 3, 4, 6, 0, 4, 6, 9, 2, 3, 1, 7, 3, 1, 6, 8, 7, 3, 0, 3, 7, 1, 5, 8, 8, 4, 1, 0, 5, 7, 2, 8>>
             [] k = 128 -> <<3, 4, 0, 2, 8, 2, 3, 6, 6, 9, 2, 0, 9, 3, 8, 4, 6, 3, 4, 6, 3, 3, 7, 4, 6, 0, 7, 4, 3, 1, 7, 6, 8, 2, 1, 1, 4, 5, 6>>
             [] k = 255 -> <<5, 7, 8, 9, 6, 0, 4, 4, 6, 1, 8, 6, 5, 8, 0, 9, 7, 7, 1, 1, 7, 8, 5, 4, 9, 2, 5, 0, 4, 3, 4, 3, 9, 5, 3, 9, 2, 6, 6, 3, 4, 9, 9, 2, 3, 3, 2, 8, 2, 0, 2, 8, 2, 0, 1, 9, 7, 2, 8, 7, 9, 2, 0, 0, 3, 9, 5, 6, 5, 6, 4, 8, 1, 9, 9, 6, 8>>
             [] k = 256 -> <<1, 1, 5, 7, 9, 2, 0, 8, 9, 2, 3, 7, 3, 1, 6, 1, 9, 5, 4, 2, 3, 5, 7, 0, 9, 8, 5, 0, 0, 8, 6, 8, 7, 9, 0, 7, 8, 5, 3, 2, 6, 9, 9, 8, 4, 6, 6, 5, 6, 4, 0, 5, 6, 4, 0, 3, 9, 4, 5, 7, 5, 8, 4, 0, 0, 7, 9, 1, 3, 1, 2, 9, 6, 3, 9, 9, 3, 6>>
BoundExponents == {7, 8, 15, 16, 31, 32, 63, 64, 127, 128, 255, 256}
ASSUME \A k \in BoundExponents : PowerOfTwo(k) = Pow2(k)
MaxMag(ti) == IF ti.signed THEN Pred(PowerOfTwo(ti.bits - 1)) ELSE Pred(PowerOfTwo(ti.bits))
MinMag(ti) == IF ti.signed THEN PowerOfTwo(ti.bits - 1) ELSE << >>
InRange(ti, neg, d) ==
  LET z == Len(Strip(d)) = 0 IN
  IF ti.bits = 0 THEN ti.signed \/ ~neg \/ z
  ELSE IF neg /\ ~z THEN Le(d, MinMag(ti)) ELSE Le(d, MaxMag(ti))
Val(neg, d) == [neg |-> neg /\ Len(Strip(d)) > 0, d |-> Strip(d)]
=============================================================================
