------------------------------- MODULE NumTypes -------------------------------
(* The numeric types of Cadence as the text family needs them: signedness, integer / fixed point, width
   (0 = arbitrary precision), decimal scale; ranges as exact decimal numbers (Dec.tla).
   A value is [neg, d]: sign and magnitude digits; for fixed-point types the magnitude is the *scaled*
   integer (value * 10^scale). Zero is never negative. *)
EXTENDS Dec, TLC

T(s, f, b, sc) == [signed |-> s, fixed |-> f, bits |-> b, scale |-> sc]      \* bits = 0: arbitrary precision
TypeInfo == [
  Int8 |-> T(TRUE, FALSE, 8, 0), Int16 |-> T(TRUE, FALSE, 16, 0), Int32 |-> T(TRUE, FALSE, 32, 0), Int64 |-> T(TRUE, FALSE, 64, 0),
  Int128 |-> T(TRUE, FALSE, 128, 0), Int256 |-> T(TRUE, FALSE, 256, 0), Int |-> T(TRUE, FALSE, 0, 0),
  UInt8 |-> T(FALSE, FALSE, 8, 0), UInt16 |-> T(FALSE, FALSE, 16, 0), UInt32 |-> T(FALSE, FALSE, 32, 0), UInt64 |-> T(FALSE, FALSE, 64, 0),
  UInt128 |-> T(FALSE, FALSE, 128, 0), UInt256 |-> T(FALSE, FALSE, 256, 0), UInt |-> T(FALSE, FALSE, 0, 0),
  Word8 |-> T(FALSE, FALSE, 8, 0), Word16 |-> T(FALSE, FALSE, 16, 0), Word32 |-> T(FALSE, FALSE, 32, 0), Word64 |-> T(FALSE, FALSE, 64, 0),
  Word128 |-> T(FALSE, FALSE, 128, 0), Word256 |-> T(FALSE, FALSE, 256, 0),
  Fix64 |-> T(TRUE, TRUE, 64, 8), UFix64 |-> T(FALSE, TRUE, 64, 8), Fix128 |-> T(TRUE, TRUE, 128, 24), UFix128 |-> T(FALSE, TRUE, 128, 24)]
TypeNames == DOMAIN TypeInfo

\* largest magnitude on the positive / negative side
\* (tabulated once per (signed, bits): the powers of two are long digit sequences)
Widths == {8, 16, 32, 64, 128, 256}
MaxTab == TLCEval([sg \in BOOLEAN |-> [b \in Widths |-> IF sg THEN Pred(Pow2(b - 1)) ELSE Pred(Pow2(b))]])
MinTab == TLCEval([b \in Widths |-> Pow2(b - 1)])
MaxMag(ti) == MaxTab[ti.signed][ti.bits]
MinMag(ti) == IF ti.signed THEN MinTab[ti.bits] ELSE << >>
InRange(ti, neg, d) ==
  LET z == Len(Strip(d)) = 0 IN
  IF ti.bits = 0 THEN ti.signed \/ ~neg \/ z
  ELSE IF neg /\ ~z THEN Le(d, MinMag(ti)) ELSE Le(d, MaxMag(ti))
Val(neg, d) == [neg |-> neg /\ Len(Strip(d)) > 0, d |-> Strip(d)]
=============================================================================
