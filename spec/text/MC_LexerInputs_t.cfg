SPECIFICATION Spec
CONSTANTS
  Frags <- ThoroughFrags
  MaxLen = 5
INVARIANTS TypeOK Emit
