SPECIFICATION Spec
CONSTANTS
  Mode = "int"
  N = 6
INVARIANTS Judge
