SPECIFICATION Spec
CONSTANTS
  Alpha <- Emoji
  N = 6
  Repl <- ReplEmoji
INVARIANTS Judge
