SPECIFICATION Spec
CONSTANTS
  Alpha <- Lines
  N = 4
  Repl <- ReplLines
INVARIANTS Judge
