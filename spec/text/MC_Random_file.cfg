SPECIFICATION Spec
CONSTANTS
  Mode = "file"
  M16 = {}
INVARIANTS Judge
