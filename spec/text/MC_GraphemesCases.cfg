SPECIFICATION Spec
CONSTANTS
  RankLen = 0
  LawLen = 5
INVARIANTS WellFormed Judge LawsHold
