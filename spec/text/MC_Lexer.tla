---- MODULE MC_Lexer ----
EXTENDS Lexer
\* a, LF, CR, the 2-byte sequence C3 A9, pieces of E2 82 AC and F0 9F 98 80, an invalid byte
MCAlphabet == {97, 10, 13, 195, 169, 226, 130, 240, 159, 255}
====
