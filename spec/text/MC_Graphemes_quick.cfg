SPECIFICATION Spec
CONSTANTS
  Alphas = {"Full", "Marks5", "Emoji5", "Hangul5", "Lines5"}
  N = 4
  NFull = 3
  RankLen = 2
  LawLen = 4
INVARIANTS Judge LawsHold
