SPECIFICATION Spec
CONSTANTS
  Mode = "native"
  Chunks = 256
INVARIANTS Judge
