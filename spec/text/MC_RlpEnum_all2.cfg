SPECIFICATION Spec
CONSTANTS
  Alpha <- AllBytes
  FirstAlpha <- AllBytes
  N = 2
INVARIANTS Judge
