SPECIFICATION Spec
CONSTANTS
  Alpha <- AllBytes
  N = 2
INVARIANTS LawsHold Emit
