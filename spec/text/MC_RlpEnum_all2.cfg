SPECIFICATION Spec
CONSTANTS
  Alpha <- AllBytes
  N = 2
INVARIANTS Judge
