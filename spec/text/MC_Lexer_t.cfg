SPECIFICATION LSpec
CONSTANTS
  Alphabet <- MCAlphabet
  MaxLen = 4
INVARIANTS LTypeOK PosIsFunctionOfOffset WalkAgrees Covered
