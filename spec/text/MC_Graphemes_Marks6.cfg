SPECIFICATION Spec
CONSTANTS
  Alpha <- Marks
  N = 6
  Repl <- ReplMarks
INVARIANTS Judge
