SPECIFICATION Spec
CONSTANTS
  Alphas = {"Full", "Marks5", "Emoji5"}
  N = 2
  NFull = 2
  RankLen = 1
INVARIANTS Judge LawsHold
