SPECIFICATION Spec
CONSTANTS
  Mode = "file"
  N = 0
INVARIANTS Judge
