SPECIFICATION Spec
CONSTANTS
  Mode = "u16"
  M16 = {257, 32769, 65535}
INVARIANTS Judge Uniform
