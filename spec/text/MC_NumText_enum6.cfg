SPECIFICATION Spec
CONSTANTS
  Mode = "enum"
  N = 6
INVARIANTS Judge
