------------------------------ MODULE Random ------------------------------
(* revertibleRandom<T>(modulo: m) as rejection sampling, property C47.

   Numbers are big-endian byte sequences, so the same definitions are exact for every width
   (8 ... 256 bits) although TLC's integers have 32 bits.

   The sampler for a modulus M > 0:  max = M - 1;  nb = number of significant bytes of max;
   a draw takes the next nb bytes of the random source (big-endian), keeps the low
   BitLen(max) bits, and is accepted iff the kept value is <= max; a rejected draw is
   discarded and the next nb bytes are drawn. The source handed to the code is finite:
   `stream` followed by zeros (the host contract excludes a source that is 0xff for ever),
   so Run terminates: a draw of zeros is always accepted.

   What makes the result exactly uniform is proved on the model by counting (Uniform...): for a
   fixed M every value below M is produced by the same number of draws, so with uniformly
   random source bytes every value below M is equally likely, whatever the rejected draws were. *)
EXTENDS Naturals, Sequences, FiniteSets, TLC

RECURSIVE Strip(_)
Strip(bs) == IF Len(bs) = 0 THEN bs ELSE IF bs[1] = 0 THEN Strip(Tail(bs)) ELSE bs   \* drop leading zeros
Front(bs) == SubSeq(bs, 1, Len(bs) - 1)
RECURSIVE Dec(_)
Dec(bs) == IF bs[Len(bs)] = 0 THEN Dec(Front(bs)) \o <<255>> ELSE Front(bs) \o <<bs[Len(bs)] - 1>>   \* bs # 0
IsZero(bs) == \A i \in 1..Len(bs) : bs[i] = 0
RECURSIVE BitLen8(_)
BitLen8(x) == IF x = 0 THEN 0 ELSE 1 + BitLen8(x \div 2)
RECURSIVE Pow2(_)
Pow2(k) == IF k = 0 THEN 1 ELSE 2 * Pow2(k - 1)
RECURSIVE Leq(_, _)
Leq(a, b) == IF Len(a) = 0 THEN TRUE                       \* equal lengths, lexicographic = numeric
             ELSE IF a[1] # b[1] THEN a[1] < b[1] ELSE Leq(Tail(a), Tail(b))
Pad(bs, size) == [i \in 1..size |-> IF i <= size - Len(bs) THEN 0 ELSE bs[i - (size - Len(bs))]]

\* ------------------------------------------------------------------ the sampler
Sampler(M) == LET mx == Strip(Dec(M)) IN
              [max |-> mx, nb |-> Len(mx), bits |-> IF Len(mx) = 0 THEN 0 ELSE 8 * (Len(mx) - 1) + BitLen8(mx[1]),
               top |-> IF Len(mx) = 0 THEN 1 ELSE Pow2(BitLen8(mx[1]))]
Take(stream, pos, n) == [i \in 1..n |-> IF pos + i <= Len(stream) THEN stream[pos + i] ELSE 0]
Masked(sp, raw) == IF sp.nb = 0 THEN << >> ELSE <<raw[1] % sp.top>> \o Tail(raw)
Accepts(sp, raw) == Leq(Masked(sp, raw), sp.max)

\* the state machine: one Draw action per request to the source
\*   st = [pos, reads (sizes of the requests so far), done, val]
StartSt == [pos |-> 0, reads |-> << >>, done |-> FALSE, val |-> << >>]
DrawSt(sp, stream, st) ==
  LET raw == Take(stream, st.pos, sp.nb) IN
  [pos |-> st.pos + sp.nb, reads |-> Append(st.reads, sp.nb), done |-> Accepts(sp, raw), val |-> Masked(sp, raw)]
RECURSIVE RunFrom(_, _, _)
RunFrom(sp, stream, st) == IF st.done THEN st ELSE RunFrom(sp, stream, DrawSt(sp, stream, st))

\* outcome of revertibleRandom<T>(modulo: M) for a type of `size` bytes on `stream`
RunWith(sp, size, stream) == LET r == RunFrom(sp, stream, StartSt) IN
                             [res |-> "ok", reads |-> r.reads, val |-> Pad(r.val, size)]
Run(size, M, stream) ==
  IF IsZero(M) THEN [res |-> "error:zero-modulo", reads |-> << >>, val |-> << >>]
  ELSE RunWith(Sampler(M), size, stream)
\* revertibleRandom<T>(): the next `size` bytes, big-endian
RunNoModulo(size, stream) == [res |-> "ok", reads |-> <<size>>, val |-> Take(stream, 0, size)]

\* ------------------------------------------------------------------ properties of the model
\* numeric value of a short sequence (used only for the 8/16-bit counting arguments)
RECURSIVE Num(_)
Num(bs) == IF Len(bs) = 0 THEN 0 ELSE Num(Front(bs)) * 256 + bs[Len(bs)]
Below(val, M) == Leq(val, Dec(M))                      \* val < M  (same length, M # 0)

\* every accepted value is below the modulus (r = Run(size, M, stream))
Bounded(M, r) == r.res = "ok" => Below(r.val, M)
\* every request has the sampler's size, a rejected draw consumes exactly one request
ReadsUniformSize(sp, r) == r.res = "ok" => \A i \in 1..Len(r.reads) : r.reads[i] = sp.nb

\* 8-bit: every value below m has the same, non-zero number of accepting first draws
\* (TLCEval forces TLC to tabulate a function once instead of re-evaluating its body at every application)
FirstDraws8(m) == LET sp == Sampler(<<m>>) IN TLCEval([d \in 0..255 |-> DrawSt(sp, <<d>>, StartSt)])
Uniform8(m) == LET r == FirstDraws8(m)
                   out == TLCEval([d \in 0..255 |-> IF r[d].done THEN Num(r[d].val) ELSE 256])     \* 256 = rejected
                   hist == TLCEval([v \in 0..255 |-> Cardinality({d \in 0..255 : out[d] = v})])
               IN /\ \A v \in 0..(m - 1) : hist[v] = hist[0]
                  /\ hist[0] > 0
                  /\ \A v \in m..255 : hist[v] = 0
                  /\ 2 * m * hist[0] >= 256                       \* at least half of the draws are accepted
\* 16-bit, first step: an accepted draw yields the draw's low `bits` bits, a draw is accepted iff those are < m
LowBits16(sp, m, hi, lo) ==
                        LET r == DrawSt(sp, IF sp.nb = 2 THEN <<hi, lo>> ELSE IF sp.nb = 1 THEN <<lo>> ELSE << >>, StartSt)
                            low == (IF sp.nb = 2 THEN hi * 256 + lo ELSE IF sp.nb = 1 THEN lo ELSE 0) % Pow2(sp.bits)
                        IN (r.done <=> low < m) /\ (r.done => Num(r.val) = low)
\* second step (counting): each value of `bits` low bits occurs in the same number of nb-byte draws
CountLow(nb, bits, v) == Cardinality({d \in 0..(Pow2(8 * nb) - 1) : d % Pow2(bits) = v})
=============================================================================
