SPECIFICATION Spec
CONSTANTS
  Mode = "native"
  Chunks = 8192
INVARIANTS Judge
