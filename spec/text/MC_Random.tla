---------------------------- MODULE MC_Random ----------------------------
(* Model checking of Random.tla and the behaviours handed to the implementation.
   One TLC state per case (type size, modulus, source stream); its invariants check the model's
   properties on that case and print the expected behaviour: [ty, M, stream, res, reads, val].
   Mode "u8": every modulus 0..255 x every first byte x a few second bytes; uniformity by counting for every m.
   Mode "u16": boundary moduli x all 65536 first draws.   Mode "file": cases.ndjson (wider types). *)
EXTENDS Random, Json
CONSTANTS Mode, M16
VARIABLES ph, a, b, c          \* ph: 0 start, 1 modulus chosen, 2 case; (a, b, c) the case parameters
vars == <<ph, a, b, c>>
Cases == TLCEval(IF Mode = "file" THEN ndJsonDeserialize("cases.ndjson") ELSE << >>)
Second(m) == {0, 255}                                \* second bytes: always accepted, rejected unless max has all bits set

Init == ph = 0 /\ a = 0 /\ b = 0 /\ c = 0
Next ==
  \/ /\ ph = 0 /\ ph' = 1 /\ b' = 0 /\ c' = 0
     /\ a' \in CASE Mode = "u8" -> 0..255 [] Mode = "u16" -> M16 [] OTHER -> 1..Len(Cases)
  \/ /\ ph = 1 /\ ph' = 2 /\ a' = a
     /\ CASE Mode = "u8"  -> b' \in 0..255 /\ c' \in Second(a)
          [] Mode = "u16" -> b' \in 0..255 /\ c' \in 0..255
          [] OTHER        -> b' = 0 /\ c' = 0
Spec == Init /\ [][Next]_vars

\* the case of this state: [ty, size, M, stream, nomod]
Case == CASE Mode = "u8"  -> [ty |-> "UInt8",  size |-> 1, M |-> <<a>>, stream |-> <<b, c>>, nomod |-> FALSE]
          [] Mode = "u16" -> [ty |-> "UInt16", size |-> 2, M |-> <<a \div 256, a % 256>>, stream |-> <<b, c, 255, 255, 0, 1>>, nomod |-> FALSE]
          [] OTHER        -> Cases[a]

Judge == ph = 2 =>
  LET cs == Case
      zero == IsZero(cs.M)
      sp == IF cs.nomod \/ zero THEN [nb |-> 0] ELSE Sampler(cs.M)
      r  == IF cs.nomod THEN RunNoModulo(cs.size, cs.stream)
            ELSE IF zero THEN Run(cs.size, cs.M, cs.stream) ELSE RunWith(sp, cs.size, cs.stream)
  IN
  /\ (cs.nomod \/ zero) \/ Bounded(cs.M, r)
  /\ (cs.nomod \/ zero) \/ ReadsUniformSize(sp, r)
  /\ (Mode = "u16" /\ a > 0) => LowBits16(sp, a, b, c)
  /\ PrintT(ToJson(<<cs.ty, cs.M, cs.stream, r.res, r.reads, r.val, cs.nomod>>))
\* per modulus (on the case with an all-zero stream, so that the work is spread over TLC's workers)
Uniform == (ph = 2 /\ b = 0 /\ c = 0) =>
  /\ (Mode = "u8" /\ a > 0) => Uniform8(a)
  /\ (Mode = "u16" /\ a > 0) =>
        LET sp == Sampler(<<a \div 256, a % 256>>) IN
        \A v \in {x \in {0, 1, a \div 2, a - 1} : x < a} : CountLow(sp.nb, sp.bits, v) = Pow2(8 * sp.nb - sp.bits)
\* no-modulo path on one byte: the identity, hence a bijection
NoModuloBijective == ph = 0 => Cardinality({RunNoModulo(1, <<d>>).val : d \in 0..255}) = 256
=============================================================================
