---------------------------- MODULE MC_Leb128 ----------------------------
(* Mode "native": every n in 0..(Chunks * 256 - 1), as n and -n: laws of Leb128.tla, agreement of the native and
   the big-number formulation, and one printed row per chunk of 256 values:
       <<"N", first n, << <<UEnc(n), SEnc(n), SEnc(-n)>> ... >> >>.
   Mode "big": 2^k + d for k in 0..64, d in -2..2, as positive and negative numbers, plus the values listed in
   cases.ndjson (seeded random 64-bit values): laws on big numbers and one row per value
       <<"B", neg, magnitude bytes, UEncB (0 when negative), SEncB>>.
   Two fan-out levels so that the work is spread over TLC's workers. *)
EXTENDS Leb128, Json
CONSTANTS Mode, Chunks
VARIABLES ph, a, b
vars == <<ph, a, b>>
Cases == TLCEval(IF Mode = "big" THEN ndJsonDeserialize("cases.ndjson") ELSE << >>)
Groups == IF Mode = "native" THEN (Chunks + 31) \div 32 ELSE 66 + (Len(Cases) + 31) \div 32
Init == ph = 0 /\ a = 0 /\ b = 0
Next == \/ ph = 0 /\ ph' = 1 /\ a' \in 0..(Groups - 1) /\ b' = 0
        \/ /\ ph = 1 /\ ph' = 2 /\ a' = a
           /\ b' \in IF Mode = "native" THEN {x \in 0..31 : a * 32 + x < Chunks}
                     ELSE IF a <= 64 THEN 0..9                                   \* k = a, (d, sign) = b
                     ELSE IF a = 65 THEN {0}
                     ELSE {x \in 0..31 : (a - 66) * 32 + x + 1 <= Len(Cases)}
Spec == Init /\ [][Next]_vars

\* ---- native chunk
ChunkStart == (a * 32 + b) * 256
NativeJudge ==
  LET s == ChunkStart IN
  /\ \A n \in s..(s + 255) : ULaws(n) /\ SLaws(n) /\ SLaws(-n) /\ AgreeOn(n)
  /\ PrintT(ToJson(<<"N", s, [i \in 1..256 |-> <<UEnc(s + i - 1), SEnc(s + i - 1), SEnc(-(s + i - 1))>>]>>))

\* ---- big values
Pow2Bytes(k) == <<Pow(2, k % 8)>> \o [i \in 1..(k \div 8) |-> 0]
RECURSIVE AddSmall(_, _)
AddSmall(bs, d) == IF d = 0 THEN bs ELSE IF d > 0 THEN AddSmall(Inc(bs), d - 1)
                   ELSE IF Len(Strip(bs)) = 0 THEN << >> ELSE AddSmall(DecB(bs), d + 1)
BigValue == IF a <= 64 THEN [neg |-> b >= 5, mag |-> Strip(AddSmall(Pow2Bytes(a), (b % 5) - 2))]
            ELSE IF a = 65 THEN [neg |-> FALSE, mag |-> << >>]
            ELSE LET c == Cases[(a - 66) * 32 + b + 1] IN [neg |-> c.neg, mag |-> Strip(c.mag)]
BigJudge ==
  LET v == BigValue  neg == v.neg /\ Len(v.mag) > 0 IN
  /\ BLaws(neg, v.mag)
  /\ PrintT(ToJson(<<"B", neg, v.mag, IF neg THEN 0 ELSE UEncB(v.mag), SEncB(neg, v.mag)>>))
Judge == ph = 2 => IF Mode = "native" THEN NativeJudge ELSE BigJudge
=============================================================================
