SPECIFICATION Spec
CONSTANTS
  Mode = "enum"
  N = 5
INVARIANTS Judge
