---- MODULE Lexer ----
(* C37 -- positions of a token stream over a byte input.

   The input is a sequence of bytes b (offsets 0..n-1 are b[1]..b[n]).  The specification
   defines, from the input alone,

     RuneLen(b, o)   the width of the code point starting at offset o (UTF-8 as in RFC 3629;
                     a byte that does not start a well-formed sequence is a unit of width 1),
     Line(b, o)      1 + number of line feeds before o,
     Col(b, o)       number of code points between the start of o's line and o,

   and the *ideal lexer*: a state machine that walks over the input token by token
   (pos, line, col), where a token is any non-empty run of whole code points.  Its invariant
   PosIsFunctionOfOffset says that the incrementally maintained (line, col) equals
   (Line(b,pos), Col(b,pos)) whatever the tokenisation was -- which is the property's
   "each token's line and column match its byte offset, whatever text was lexed earlier":
   nothing but the bytes before the offset enters.  MC_Lexer.cfg checks it for every byte string
   up to a small length over an alphabet with ASCII, LF, CR, 2/3/4-byte sequences, stray
   continuation bytes and invalid bytes, and every tokenisation.

   Trace_Lexer.tla uses the same definitions to judge token streams, parse errors and checker
   errors recorded from the real lexer / parser / checker. *)
EXTENDS Naturals, Sequences, FiniteSets

Byte(b, o) == b[o + 1]                      \* offset -> byte (offsets are 0-based)
N(b) == Len(b)
InR(x, lo, hi) == lo <= x /\ x <= hi
Cont(b, o) == o < N(b) /\ InR(Byte(b, o), 128, 191)

\* width of the code point at offset o (0 <= o < n)
RuneLen(b, o) ==
  LET c == Byte(b, o) IN
  IF c < 128 THEN 1
  ELSE IF InR(c, 194, 223) THEN (IF Cont(b, o + 1) THEN 2 ELSE 1)
  ELSE IF c = 224 THEN (IF o + 1 < N(b) /\ InR(Byte(b, o + 1), 160, 191) /\ Cont(b, o + 2) THEN 3 ELSE 1)
  ELSE IF InR(c, 225, 236) \/ InR(c, 238, 239) THEN (IF Cont(b, o + 1) /\ Cont(b, o + 2) THEN 3 ELSE 1)
  ELSE IF c = 237 THEN (IF o + 1 < N(b) /\ InR(Byte(b, o + 1), 128, 159) /\ Cont(b, o + 2) THEN 3 ELSE 1)
  ELSE IF c = 240 THEN (IF o + 1 < N(b) /\ InR(Byte(b, o + 1), 144, 191) /\ Cont(b, o + 2) /\ Cont(b, o + 3) THEN 4 ELSE 1)
  ELSE IF InR(c, 241, 243) THEN (IF Cont(b, o + 1) /\ Cont(b, o + 2) /\ Cont(b, o + 3) THEN 4 ELSE 1)
  ELSE IF c = 244 THEN (IF o + 1 < N(b) /\ InR(Byte(b, o + 1), 128, 143) /\ Cont(b, o + 2) /\ Cont(b, o + 3) THEN 4 ELSE 1)
  ELSE 1

LF == 10

\* ---- the direct definition: positions as a function of the offset
RECURSIVE StartsFrom(_, _)
StartsFrom(b, o) == IF o >= N(b) THEN {} ELSE {o} \cup StartsFrom(b, o + RuneLen(b, o))
Starts(b) == StartsFrom(b, 0)                                  \* offsets at which a code point starts
Line(b, o) == 1 + Cardinality({i \in 0..(o - 1) : i < N(b) /\ Byte(b, i) = LF})
LineStart(b, o) == LET nls == {i \in 0..(o - 1) : i < N(b) /\ Byte(b, i) = LF}
                   IN IF nls = {} THEN 0 ELSE 1 + CHOOSE m \in nls : \A k \in nls : k <= m
Col(b, o) == Cardinality({i \in Starts(b) : LineStart(b, o) <= i /\ i < o})

\* ---- the incremental definition: advance (line, col) over the bytes [o, e]
RECURSIVE Adv(_, _, _, _, _)
Adv(b, o, e, line, col) ==
  IF o > e \/ o >= N(b) THEN <<o, line, col>>
  ELSE IF Byte(b, o) = LF THEN Adv(b, o + 1, e, line + 1, 0)
  ELSE Adv(b, o + RuneLen(b, o), e, line, col + 1)

\* position of offset o computed by walking from the start (what the trace specification uses)
LineColAt(b, o) == LET r == Adv(b, 0, o - 1, 1, 0) IN <<r[2], r[3]>>

\* start offset of the last code point of the non-empty range [o, e]
RECURSIVE LastStart(_, _, _)
LastStart(b, o, e) == LET w == RuneLen(b, o) IN IF o + w > e THEN o ELSE LastStart(b, o + w, e)

\* ------------------------------------------------------------- the ideal lexer
CONSTANTS Alphabet, MaxLen
VARIABLES inp, pos, line, col, hist    \* hist: number of inputs lexed before (the pooled lexer's history)
lvars == <<inp, pos, line, col, hist>>
Inputs == UNION {[1..k -> Alphabet] : k \in 0..MaxLen}
LInit == inp \in Inputs /\ pos = 0 /\ line = 1 /\ col = 0 /\ hist = 0
\* a token: a non-empty run of whole code points starting at pos
Token == /\ pos < N(inp)
         /\ \E e \in pos..(N(inp) - 1) :
              LET r == Adv(inp, pos, e, line, col) IN
              /\ r[1] = e + 1                     \* ends at a code-point boundary
              /\ pos' = r[1] /\ line' = r[2] /\ col' = r[3]
         /\ UNCHANGED <<inp, hist>>
\* the next Lex call on the (pooled) lexer: everything is reset, whatever came before
Relex == /\ pos = N(inp) /\ hist < 1
         /\ inp' \in UNION {[1..k -> Alphabet] : k \in 0..2} /\ pos' = 0 /\ line' = 1 /\ col' = 0 /\ hist' = hist + 1
LNext == Token \/ Relex
LSpec == LInit /\ [][LNext]_lvars

PosIsFunctionOfOffset == line = Line(inp, pos) /\ col = Col(inp, pos)
WalkAgrees == LineColAt(inp, pos) = <<line, col>>
Covered == pos <= N(inp) /\ (pos < N(inp) => ENABLED Token)
LTypeOK == pos \in 0..N(inp) /\ line >= 1 /\ col >= 0
====
