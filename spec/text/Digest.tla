------------------------------- MODULE Digest -------------------------------
(* Compile determinism as a relation on a recorded trace (property C35): every event is
   [prog, digest, part digests, proc, round, count] -- `count` compilations of corpus program `prog` in operating-system
   process `proc` that all gave this digest (the recorder merges equal outcomes of one process; `round` is the first of them);
   programs are single scripts/contracts or members of a bundle of programs that import each other ("bundle/program"); the compiler is deterministic on the trace iff the digest (of bytecode, constants, function
   order, type table, globals) is a function of the program: equal prog => equal digest and equal parts.
   TLC evaluates the relation; there is no state to explore. *)
EXTENDS Naturals, Sequences, FiniteSets, TLC, Json
Trace == TLCEval(ndJsonDeserialize("trace.ndjson"))
Progs == {Trace[i].prog : i \in 1..Len(Trace)}
EventsOf == TLCEval([p \in Progs |-> {i \in 1..Len(Trace) : Trace[i].prog = p}])
FirstOf == TLCEval([p \in Progs |-> CHOOSE i \in EventsOf[p] : \A j \in EventsOf[p] : i <= j])
Bad == {i \in 1..Len(Trace) : LET f == Trace[FirstOf[Trace[i].prog]] IN Trace[i].digest # f.digest \/ Trace[i].parts # f.parts}
\* every program was compiled in at least MinProcs processes and MinRuns times in total (otherwise nothing was compared)
RECURSIVE SumCounts(_)
SumCounts(S) == IF S = {} THEN 0 ELSE LET i == CHOOSE x \in S : TRUE IN Trace[i].count + SumCounts(S \ {i})
Compared(p) == [procs |-> Cardinality({Trace[i].proc : i \in EventsOf[p]}), runs |-> SumCounts(EventsOf[p])]
CONSTANTS MinProcs, MinRuns
VARIABLE x
Init == x = 0
Next == UNCHANGED x
Functional == /\ PrintT(ToJson([bad |-> Bad, events |-> Len(Trace), programs |-> Cardinality(Progs)]))
              /\ \A p \in Progs : Compared(p).procs >= MinProcs /\ Compared(p).runs >= MinRuns
\* (the set Bad is the verdict about the code: the check reports every event in it; the invariant itself only
\*  fails when the trace does not contain enough compilations to compare, which is a harness error)
=============================================================================
