------------------------------- MODULE Digest -------------------------------
(* Compile determinism as a relation on a recorded trace (property C35): every event is
   [prog, digest, part digests, proc, round] -- one compilation of corpus program `prog` in operating-system
   process `proc`; the compiler is deterministic on the trace iff the digest (of bytecode, constants, function
   order, type table, globals) is a function of the program: equal prog => equal digest and equal parts.
   TLC evaluates the relation; there is no state to explore. *)
EXTENDS Naturals, Sequences, FiniteSets, TLC, Json
Trace == TLCEval(ndJsonDeserialize("trace.ndjson"))
Progs == {Trace[i].prog : i \in 1..Len(Trace)}
First(p) == CHOOSE i \in 1..Len(Trace) : Trace[i].prog = p /\ \A j \in 1..(i - 1) : Trace[j].prog # p
Bad == {i \in 1..Len(Trace) : LET f == Trace[First(Trace[i].prog)] IN Trace[i].digest # f.digest \/ Trace[i].parts # f.parts}
\* every program was compiled in at least MinProcs processes and MinRuns times in total (otherwise nothing was compared)
Compared(p) == [procs |-> Cardinality({Trace[i].proc : i \in {j \in 1..Len(Trace) : Trace[j].prog = p}}),
                runs  |-> Cardinality({j \in 1..Len(Trace) : Trace[j].prog = p})]
CONSTANTS MinProcs, MinRuns
VARIABLE x
Init == x = 0
Next == UNCHANGED x
Functional == /\ PrintT(ToJson([bad |-> Bad, events |-> Len(Trace), programs |-> Cardinality(Progs)]))
              /\ \A p \in Progs : Compared(p).procs >= MinProcs /\ Compared(p).runs >= MinRuns
\* (the set Bad is the verdict about the code: the check reports every event in it; the invariant itself only
\*  fails when the trace does not contain enough compilations to compare, which is a harness error)
=============================================================================
