SPECIFICATION Spec
CONSTANTS
  Alpha <- Lines
  N = 6
  Repl <- ReplLines
INVARIANTS Judge
