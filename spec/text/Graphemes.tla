----------------------------- MODULE Graphemes -----------------------------
(* Strings as sequences of extended grapheme clusters of their NFC form (property C19).

   Written from the Unicode definitions (UAX #29 "Grapheme Cluster Boundaries", rules GB3-GB13
   and GB999; UAX #15 canonical decomposition followed by canonical composition) and from the
   property statement, over a small alphabet of code-point SYMBOLS, one or two per class that
   the rules distinguish:

     symbol  code point  class
       b     U+0062      Base          (letter that composes with nothing in the alphabet)
       E e   U+0045/65   Base          (compose with M to D / d;  toLower(E) = e)
       D d   U+00C9/E9   Precomposed   (canonically E+M / e+M;    toLower(D) = d)
       M     U+0301      Extend        (combining acute, combining class 230)
       S     U+FE0F      Extend        (variation selector 16, combining class 0: a starter)
       Z     U+200D      ZWJ
       P     U+1F600     ExtPict       (emoji)
       R     U+1F1E6     RI            (regional indicator)
       C F   U+000D/0A   CR, LF
       L V T U+1100/1161/11A8          (Hangul jamo)
       G H   U+AC00/AC01 LV, LVT       (Hangul syllables, canonically L+V / L+V+T)

   A string SOURCE is a sequence of symbols.  The VALUE of a string is Norm(source); all
   operations are defined on Chars(source) = Clusters(Norm(source)), the sequence of grapheme
   clusters (each a non-empty sequence of symbols) of the normalized source.

   The driver (harness/cmd/strings) maps every symbol to the code point above; that the code
   point really has the stated class, decomposition and combining class is validated by the
   driver against golang.org/x/text/unicode/norm and github.com/rivo/uniseg on every row
   (a mismatch is a harness error, never a verdict about the code). *)
EXTENDS Integers, Sequences, FiniteSets, TLC

AllSyms == {"b", "E", "e", "D", "d", "M", "S", "Z", "P", "R", "C", "F", "L", "V", "T", "G", "H"}

CPOf(x) == CASE x = "b" -> 98      [] x = "E" -> 69      [] x = "e" -> 101   [] x = "D" -> 201   [] x = "d" -> 233
           [] x = "M" -> 769     [] x = "S" -> 65039   [] x = "Z" -> 8205  [] x = "P" -> 128512
           [] x = "R" -> 127462  [] x = "C" -> 13      [] x = "F" -> 10
           [] x = "L" -> 4352    [] x = "V" -> 4449    [] x = "T" -> 4520  [] x = "G" -> 44032 [] x = "H" -> 44033

ClassOf(x) == CASE x \in {"b", "E", "e"} -> "Base" [] x \in {"D", "d"} -> "Precomposed"
              [] x \in {"M", "S"} -> "Extend"    [] x = "Z" -> "ZWJ"  [] x = "P" -> "ExtPict" [] x = "R" -> "RI"
              [] x = "C" -> "CR" [] x = "F" -> "LF"
              [] x = "L" -> "L"  [] x = "V" -> "V"  [] x = "T" -> "T" [] x = "G" -> "LV" [] x = "H" -> "LVT"

\* the same as tables (TLC evaluates a constant function once; applying it is a lookup)
CPTable == [x \in AllSyms |-> CPOf(x)]
ClassTable == [x \in AllSyms |-> ClassOf(x)]
CP(x) == CPTable[x]
Class(x) == ClassTable[x]

\* ------------------------------------------------------------------ sequences of sequences
RECURSIVE Flat(_)
Flat(ss) == IF ss = << >> THEN << >> ELSE Head(ss) \o Flat(Tail(ss))
Last(q) == q[Len(q)]
Front(q) == SubSeq(q, 1, Len(q) - 1)

\* ------------------------------------------------------------------ UAX #29: cluster boundaries
Ctl(c) == c \in {"CR", "LF"}
\* GB11 context: an ExtPict, then only Extend, up to (not including) position i (which holds the ZWJ)
PictBefore(s, i) == \E j \in 1..(i - 1) : /\ Class(s[j]) = "ExtPict"
                                          /\ \A k \in (j + 1)..(i - 1) : Class(s[k]) = "Extend"
\* GB12/GB13 context: the run of RI ending at position i has odd length
RIRunStart(s, i) == CHOOSE j \in 1..i : /\ \A k \in j..i : Class(s[k]) = "RI"
                                        /\ (j = 1 \/ Class(s[j - 1]) # "RI")
OddRIRun(s, i) == ((i - RIRunStart(s, i) + 1) % 2) = 1

\* is there a cluster boundary between s[i] and s[i+1] (1 <= i < Len(s))?  First applicable rule decides.
IsBreak(s, i) ==
  LET a == Class(s[i])  b == Class(s[i + 1]) IN
  IF a = "CR" /\ b = "LF" THEN FALSE                                          \* GB3   CR x LF
  ELSE IF Ctl(a) \/ Ctl(b) THEN TRUE                                          \* GB4, GB5
  ELSE IF a = "L" /\ b \in {"L", "V", "LV", "LVT"} THEN FALSE                 \* GB6
  ELSE IF a \in {"LV", "V"} /\ b \in {"V", "T"} THEN FALSE                    \* GB7
  ELSE IF a \in {"LVT", "T"} /\ b = "T" THEN FALSE                            \* GB8
  ELSE IF b \in {"Extend", "ZWJ"} THEN FALSE                                  \* GB9   x (Extend | ZWJ)
  ELSE IF a = "ZWJ" /\ b = "ExtPict" /\ PictBefore(s, i) THEN FALSE           \* GB11  ExtPict Extend* ZWJ x ExtPict
  ELSE IF a = "RI" /\ b = "RI" /\ OddRIRun(s, i) THEN FALSE                   \* GB12, GB13
  ELSE TRUE                                                                   \* GB999

\* the clusters are the runs between consecutive boundaries
BreakSet(s) == {i \in 1..(Len(s) - 1) : IsBreak(s, i)}
RECURSIVE CutAt(_, _, _, _)
CutAt(s, B, p, e) ==                  \* p: start of the open cluster, e: position being looked at
  IF p > Len(s) THEN << >>
  ELSE IF e = Len(s) \/ e \in B THEN <<SubSeq(s, p, e)>> \o CutAt(s, B, e + 1, e + 1)
  ELSE CutAt(s, B, p, e + 1)
Clusters(s) == CutAt(s, BreakSet(s), 1, 1)

\* the same segmentation as a left-to-right state machine (what an iterator implements):
\* state = clusters so far (the last one is still open), emoji-sequence state, parity of the RI run
SegStep(st, x) ==
  LET c == Class(x)
      a == IF st.cl = << >> THEN "sot" ELSE Class(Last(Last(st.cl)))
      join == /\ a # "sot"
              /\ \/ a = "CR" /\ c = "LF"
                 \/ /\ ~Ctl(a) /\ ~Ctl(c)
                    /\ \/ a = "L" /\ c \in {"L", "V", "LV", "LVT"}
                       \/ a \in {"LV", "V"} /\ c \in {"V", "T"}
                       \/ a \in {"LVT", "T"} /\ c = "T"
                       \/ c \in {"Extend", "ZWJ"}
                       \/ st.pict = "zwj" /\ c = "ExtPict"
                       \/ a = "RI" /\ c = "RI" /\ st.ri = 1
  IN [cl   |-> IF join THEN Append(Front(st.cl), Append(Last(st.cl), x)) ELSE Append(st.cl, <<x>>),
      pict |-> IF c = "ExtPict" THEN "pict"
               ELSE IF st.pict = "pict" /\ c = "Extend" /\ join THEN "pict"
               ELSE IF st.pict = "pict" /\ c = "ZWJ" /\ join THEN "zwj"
               ELSE "no",
      ri   |-> IF c = "RI" THEN (IF a = "RI" THEN 1 - st.ri ELSE 1) ELSE 0]
RECURSIVE SegRun(_, _)
SegRun(st, s) == IF s = << >> THEN st ELSE SegRun(SegStep(st, Head(s)), Tail(s))
ClustersSM(s) == SegRun([cl |-> << >>, pict |-> "no", ri |-> 0], s).cl

\* offsets (in symbols, from o) of the boundaries of the cluster sequence cs
RECURSIVE Offsets(_, _)
Offsets(cs, o) == IF cs = << >> THEN {o} ELSE {o} \cup Offsets(Tail(cs), o + Len(Head(cs)))

\* ------------------------------------------------------------------ UAX #15: NFC
DecompOf(x) == CASE x = "D" -> <<"E", "M">> [] x = "d" -> <<"e", "M">>
               [] x = "G" -> <<"L", "V">> [] x = "H" -> <<"L", "V", "T">> [] OTHER -> <<x>>
DecompTable == [x \in AllSyms |-> DecompOf(x)]
Decomp(x) == DecompTable[x]
CCC(x) == IF x = "M" THEN 230 ELSE 0                 \* canonical combining class
\* primary composite of a starter and a following character ("" = none)
Primary(a, c) == CASE a = "E" /\ c = "M" -> "D" [] a = "e" /\ c = "M" -> "d"
                   [] a = "L" /\ c = "V" -> "G" [] a = "G" /\ c = "T" -> "H" [] OTHER -> ""
RECURSIVE DecompAll(_)
DecompAll(s) == IF s = << >> THEN << >> ELSE Decomp(Head(s)) \o DecompAll(Tail(s))
\* Canonical ordering (sorting runs of non-starters by combining class) is the identity here: M is the
\* only symbol with a non-zero class.
\* Canonical composition: c combines with the last starter out[st] unless blocked (some character
\* between them has class 0 or a class >= that of c).
RECURSIVE Compose(_, _, _)
Compose(out, st, rest) ==
  IF rest = << >> THEN out
  ELSE LET c == Head(rest)
           blocked == \E k \in (st + 1)..Len(out) : CCC(out[k]) = 0 \/ CCC(out[k]) >= CCC(c)
           p == IF st = 0 THEN "" ELSE Primary(out[st], c)
       IN IF st > 0 /\ ~blocked /\ p # ""
          THEN Compose([out EXCEPT ![st] = p], st, Tail(rest))
          ELSE Compose(Append(out, c), IF CCC(c) = 0 THEN Len(out) + 1 ELSE st, Tail(rest))
Norm(s) == Compose(<< >>, 0, DecompAll(s))

\* ------------------------------------------------------------------ string values and their operations
\* A string VALUE is the sequence of characters (grapheme clusters) of the normalized source:
Chars(src) == Clusters(Norm(src))
\* Below a, b, h (haystack), n (needle), r are values: sequences of clusters.  Text(a) is the normalized
\* symbol sequence the value stands for.  Operations that can fail come as a pair: XFails(..) and the
\* result X(..) when it does not fail.
Text(a) == Flat(a)
Length(a) == Len(a)
CharAtFails(a, i) == i < 0 \/ i >= Len(a)                                               \* a[i]
CharAt(a, i) == a[i + 1]
\* a.slice(from:upTo:) fails exactly for out-of-range or reversed bounds
SliceFails(a, from, upTo) == from < 0 \/ upTo < 0 \/ from > Len(a) \/ upTo > Len(a) \/ from > upTo
Slice(a, from, upTo) == SubSeq(a, from + 1, upTo)
Concat(a, b) == Chars(Text(a) \o Text(b))
\* ordering: lexicographic by code point on the normalized form (= byte order of UTF-8)
RECURSIVE LessCP(_, _)
LessCP(v, w) == IF w = << >> THEN FALSE ELSE IF v = << >> THEN TRUE
                ELSE IF CP(Head(v)) # CP(Head(w)) THEN CP(Head(v)) < CP(Head(w)) ELSE LessCP(Tail(v), Tail(w))
Equal(a, b) == Text(a) = Text(b)
Less(a, b) == LessCP(Text(a), Text(b))
Cmp(a, b) == IF Equal(a, b) THEN 0 ELSE IF Less(a, b) THEN -1 ELSE 1

\* substrings: the needle occurs at character index i (0-based) when its characters are the
\* characters i .. i+k-1 of the string.  Needles are non-empty.
OccursAt(h, n, i) == i + Len(n) <= Len(h) /\ SubSeq(h, i + 1, i + Len(n)) = n
Occurrences(h, n) == {i \in 0..(Len(h) - Len(n)) : OccursAt(h, n, i)}
Contains(h, n) == \E i \in 0..(Len(h) - Len(n)) : OccursAt(h, n, i)                     \* h.contains(n)
\* first occurrence at or after character index `from` (-1: none)
RECURSIVE NextOcc(_, _, _)
NextOcc(h, n, from) == IF from + Len(n) > Len(h) THEN -1
                       ELSE IF OccursAt(h, n, from) THEN from ELSE NextOcc(h, n, from + 1)
IndexOf(h, n) == NextOcc(h, n, 0)                                                       \* h.index(of: n)
\* split: left-to-right, non-overlapping occurrences; the parts are the character runs between them
RECURSIVE SplitFrom(_, _, _)
SplitFrom(h, n, from) == LET i == NextOcc(h, n, from) IN
  IF i < 0 THEN <<SubSeq(h, from + 1, Len(h))>>
  ELSE <<SubSeq(h, from + 1, i)>> \o SplitFrom(h, n, i + Len(n))
Split(h, n) == SplitFrom(h, n, 0)                                   \* h.split(separator: n): a sequence of values
Count(h, n) == Len(Split(h, n)) - 1                                \* h.count(n)
RECURSIVE JoinText(_, _)
JoinText(parts, sep) == IF Len(parts) = 0 THEN << >> ELSE IF Len(parts) = 1 THEN Text(parts[1])
                        ELSE Text(parts[1]) \o Text(sep) \o JoinText(Tail(parts), sep)
Join(parts, sep) == Chars(JoinText(parts, sep))                    \* String.join(parts, separator: sep)
ReplaceAll(h, n, r) == IF Contains(h, n) THEN Join(Split(h, n), r) ELSE h    \* h.replaceAll(of: n, with: r)
Lower(x) == IF x = "E" THEN "e" ELSE IF x = "D" THEN "d" ELSE x
ToLower(a) == LET v == Text(a) IN Chars([i \in 1..Len(v) |-> Lower(v[i])])

\* UTF-8
Utf8Of(c) == IF c < 128 THEN <<c>>
             ELSE IF c < 2048 THEN <<192 + (c \div 64), 128 + (c % 64)>>
             ELSE IF c < 65536 THEN <<224 + (c \div 4096), 128 + ((c \div 64) % 64), 128 + (c % 64)>>
             ELSE <<240 + (c \div 262144), 128 + ((c \div 4096) % 64), 128 + ((c \div 64) % 64), 128 + (c % 64)>>
RECURSIVE Utf8Text(_)
Utf8Text(v) == IF v = << >> THEN << >> ELSE Utf8Of(CP(Head(v))) \o Utf8Text(Tail(v))
Utf8(a) == Utf8Text(Text(a))                                       \* a.utf8
\* hexadecimal: String.encodeHex(bytes) is two lower-case digits per byte; a.decodeHex() fails unless the text
\* is an even number of hex digits.  Hex digits of the alphabet: b, E, e.
HexVal(x) == CASE x = "b" -> 11 [] x \in {"E", "e"} -> 14 [] OTHER -> -1
RECURSIVE DecodePairs(_)
DecodePairs(v) == IF v = << >> THEN << >> ELSE <<16 * HexVal(v[1]) + HexVal(v[2])>> \o DecodePairs(SubSeq(v, 3, Len(v)))
DecodeHexFails(a) == LET v == Text(a) IN (Len(v) % 2) = 1 \/ \E i \in 1..Len(v) : HexVal(v[i]) < 0
DecodeHex(a) == DecodePairs(Text(a))
HexDigit(d) == SubSeq("0123456789abcdef", d + 1, d + 1)
RECURSIVE EncodeHex(_)
EncodeHex(bs) == IF bs = << >> THEN "" ELSE HexDigit(Head(bs) \div 16) \o HexDigit(Head(bs) % 16) \o EncodeHex(Tail(bs))

\* ------------------------------------------------------------------ laws (checked by TLC on every enumerated source)
SegmentationLaws(s) ==
  LET cs == Clusters(s) IN
  /\ Flat(cs) = s /\ \A i \in 1..Len(cs) : cs[i] # << >>                  \* a partition into non-empty runs
  /\ ClustersSM(s) = cs                                                    \* state machine = rule form
  /\ \A i \in 1..Len(cs) : \A j \in i..Len(cs) :                          \* every run of clusters stands on its own
        Clusters(Flat(SubSeq(cs, i, j))) = SubSeq(cs, i, j)
NormLaws(s) ==
  LET v == Norm(s)  a == Clusters(v) IN
  /\ Norm(v) = v /\ Chars(v) = a                                          \* stable under re-normalization
  /\ DecompAll(v) = DecompAll(s)                                           \* canonically equivalent to the source
  /\ \A k \in 0..Len(s) : Norm(Norm(SubSeq(s, 1, k)) \o Norm(SubSeq(s, k + 1, Len(s)))) = v
  /\ \A i \in 0..Len(a) : \A j \in i..Len(a) : Chars(Text(Slice(a, i, j))) = Slice(a, i, j)   \* slices are values
\* the same occurrences, found the way a byte search finds them: the needle's symbols at an offset
\* where the string has a boundary, ending at a boundary
OccOffsets(h, n) == LET v == Text(h)  w == Text(n)  B == Offsets(h, 0) IN
  {o \in 0..(Len(v) - Len(w)) : SubSeq(v, o + 1, o + Len(w)) = w /\ o \in B /\ (o + Len(w)) \in B}
OffsetOfChar(h, i) == Len(Flat(SubSeq(h, 1, i)))
NeedleLaws(h, n) ==                   \* h, n values, n non-empty
  /\ Contains(h, n) <=> IndexOf(h, n) >= 0
  /\ Contains(h, n) <=> Count(h, n) > 0
  /\ Contains(h, n) => IndexOf(h, n) \in Occurrences(h, n) /\ \A i \in Occurrences(h, n) : IndexOf(h, n) <= i
  /\ {OffsetOfChar(h, i) : i \in Occurrences(h, n)} = OccOffsets(h, n)
  /\ JoinText(Split(h, n), n) = Text(h)
  /\ ReplaceAll(h, n, n) = h
=============================================================================
