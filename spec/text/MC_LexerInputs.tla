---- MODULE MC_LexerInputs ----
EXTENDS LexerInputs
QuickFrags == {"/*", "*/", "\n", "x", " ", "//"}
ThoroughFrags == {"/*", "*/", "\n", "x", " ", "//", "/**"}
====
