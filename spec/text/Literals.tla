------------------------------- MODULE Literals -------------------------------
(* Numeric, string and character literals, property C40. Written from the grammar (docs/cadence.ebnf:
   DecimalLiteral, BinaryLiteral, OctalLiteral, HexadecimalLiteral, PositiveFixedPointLiteral,
   EscapedCharacter) and the property statement.

   An integer literal is  [-] prefix body : prefix "" (base 10), 0b, 0o, 0x; body = digits of the base and
   underscores, not starting or ending with an underscore (a decimal body starts with a digit). It denotes the
   fold of its digits in the base (underscores and leading zeros do not matter) and is accepted for an integer
   type exactly when that value, with the sign, is in the type's range.
   A fixed-point literal is  [-] body . body  (decimal bodies); it denotes the exact decimal value and is
   accepted exactly when it has at most `scale` fractional digits and the value is in range.
   Values are exact decimal digit sequences (Dec.tla); for fixed-point the scaled magnitude. *)
EXTENDS NumTypes

HexVal(c) == CASE c = "0" -> 0 [] c = "1" -> 1 [] c = "2" -> 2 [] c = "3" -> 3 [] c = "4" -> 4 [] c = "5" -> 5 [] c = "6" -> 6
               [] c = "7" -> 7 [] c = "8" -> 8 [] c = "9" -> 9 [] c = "a" -> 10 [] c = "b" -> 11 [] c = "c" -> 12 [] c = "d" -> 13
               [] c = "e" -> 14 [] c = "f" -> 15 [] c = "A" -> 10 [] c = "B" -> 11 [] c = "C" -> 12 [] c = "D" -> 13 [] c = "E" -> 14
               [] c = "F" -> 15 [] OTHER -> 99
BaseOf(prefix) == CASE prefix = << >> -> 10 [] prefix = <<"0", "b">> -> 2 [] prefix = <<"0", "o">> -> 8 [] prefix = <<"0", "x">> -> 16 [] OTHER -> 0
ValidBody(base, body) ==
  /\ base # 0 /\ Len(body) > 0 /\ body[1] # "_" /\ body[Len(body)] # "_"
  /\ \A i \in 1..Len(body) : body[i] = "_" \/ HexVal(body[i]) < base
DigitsIn(body) == SelectSeq(body, LAMBDA c : c # "_")
RECURSIVE Fold(_, _)
Fold(base, ds) == IF Len(ds) = 0 THEN << >> ELSE MulAdd(Fold(base, SubSeq(ds, 1, Len(ds) - 1)), base, HexVal(ds[Len(ds)]))
IntValue(base, body) == Fold(base, DigitsIn(body))

IntLiteral(ti, neg, prefix, body) ==
  LET base == BaseOf(prefix)  valid == ValidBody(base, body) IN
  IF ~valid THEN [valid |-> FALSE, accept |-> FALSE, d |-> << >>]
  ELSE LET d == IntValue(base, body) IN [valid |-> TRUE, accept |-> InRange(ti, neg /\ Len(d) > 0, d), d |-> d]

Zeros(n) == [k \in 1..n |-> 0]
DecDigits(body) == [k \in 1..Len(DigitsIn(body)) |-> HexVal(DigitsIn(body)[k])]
FixedLiteral(ti, neg, ip, fp) ==
  LET valid == ValidBody(10, ip) /\ ValidBody(10, fp) IN
  IF ~valid THEN [valid |-> FALSE, accept |-> FALSE, d |-> << >>, why |-> "syntax"]
  ELSE LET id == DecDigits(ip)  fd == DecDigits(fp) IN
       IF Len(fd) > ti.scale THEN [valid |-> TRUE, accept |-> FALSE, d |-> << >>, why |-> "scale"]
       ELSE LET d == Strip(id \o fd \o Zeros(ti.scale - Len(fd)))
                n == neg /\ Len(d) > 0 IN
            IF InRange(ti, n, d) THEN [valid |-> TRUE, accept |-> TRUE, d |-> d, why |-> "ok"]
            ELSE LET b == IF n THEN MinMag(ti) ELSE MaxMag(ti)
                     bi == IF Len(b) > ti.scale THEN SubSeq(b, 1, Len(b) - ti.scale) ELSE << >>
                     atBound == (~n \/ ti.signed) /\ Eq(id, bi) IN
                 [valid |-> TRUE, accept |-> FALSE, d |-> d,
                  why |-> IF atBound THEN (IF Len(fd) < ti.scale THEN "range:int-part-at-bound,short-fraction" ELSE "range:int-part-at-bound")
                          ELSE "range"]

\* ------------------------------------------------------------------ string / character escapes
\* the content of a string literal as tokens: [c |-> code point] an ordinary character, [e |-> letter] a simple
\* escape \0 \\ \t \n \r \" \', [u |-> hex digits] a \u{...} escape. Decoding is a transducer to code points.
RECURSIVE HexNum(_)
HexNum(hs) == IF Len(hs) = 0 THEN 0 ELSE HexNum(SubSeq(hs, 1, Len(hs) - 1)) * 16 + HexVal(hs[Len(hs)])
IsScalar(n) == n <= 1114111 /\ ~(n >= 55296 /\ n <= 57343)
TokenOK(t) == IF "c" \in DOMAIN t THEN TRUE
              ELSE IF "e" \in DOMAIN t THEN t.e \in {"0", "\\", "t", "n", "r", "\"", "'"}
              ELSE /\ Len(t.u) >= 1 /\ Len(t.u) <= 8 /\ (\A i \in 1..Len(t.u) : HexVal(t.u[i]) < 16)
                   /\ Len(Strip([i \in 1..Len(t.u) |-> HexVal(t.u[i])])) <= 6 /\ IsScalar(HexNum(t.u))
TokenCode(t) == IF "c" \in DOMAIN t THEN t.c ELSE IF "e" \in DOMAIN t THEN
                  (CASE t.e = "0" -> 0 [] t.e = "\\" -> 92 [] t.e = "t" -> 9 [] t.e = "n" -> 10 [] t.e = "r" -> 13 [] t.e = "\"" -> 34 [] OTHER -> 39)
                ELSE HexNum(t.u)
\* description of the first bad token (only used to name a disagreeing case)
TokenWhy(t) == IF TokenOK(t) THEN "ok"
               ELSE IF "e" \in DOMAIN t THEN "unknown-escape"
               ELSE IF Len(t.u) = 0 THEN "empty-unicode-escape"
               ELSE IF \E i \in 1..Len(t.u) : HexVal(t.u[i]) >= 16 THEN "non-hex-digit"
               ELSE IF Len(t.u) > 8 THEN "too-many-digits"
               ELSE IF Len(Strip([i \in 1..Len(t.u) |-> HexVal(t.u[i])])) > 6 \/ HexNum(t.u) > 1114111 THEN "beyond-10FFFF"
               ELSE "surrogate"
StringLiteral(toks) == IF \A i \in 1..Len(toks) : TokenOK(toks[i])
                       THEN [valid |-> TRUE, cps |-> [i \in 1..Len(toks) |-> TokenCode(toks[i])], why |-> "ok"]
                       ELSE [valid |-> FALSE, cps |-> << >>,
                             why |-> TokenWhy(toks[CHOOSE i \in 1..Len(toks) : ~TokenOK(toks[i]) /\ \A j \in 1..(i - 1) : TokenOK(toks[j])])]
=============================================================================
