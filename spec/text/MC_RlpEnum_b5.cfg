SPECIFICATION Spec
CONSTANTS
  Alpha <- Boundary
  N = 5
INVARIANTS Judge
