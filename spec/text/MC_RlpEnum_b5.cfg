SPECIFICATION Spec
CONSTANTS
  Alpha <- Boundary
  FirstAlpha <- Boundary
  N = 5
INVARIANTS Judge
