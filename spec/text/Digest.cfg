INIT Init
NEXT Next
CONSTANTS
  MinProcs = 3
  MinRuns = 9
INVARIANT Functional
