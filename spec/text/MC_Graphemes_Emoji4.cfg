SPECIFICATION Spec
CONSTANTS
  Alpha <- Emoji
  N = 4
  Repl <- ReplEmoji
INVARIANTS Judge
