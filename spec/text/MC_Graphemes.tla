--------------------------- MODULE MC_Graphemes ---------------------------
(* Exhaustive table: one TLC state per (alphabet, string source of at most MaxLen(alphabet) symbols).
   Every state prints its row (Judge); the laws of the specification are an invariant of every state
   whose source has at most LawLen symbols (LawsHold). *)
EXTENDS GraphemesTable
CONSTANTS Alphas,            \* names of the alphabets to enumerate
          N, NFull,          \* maximal source length over a class-focused alphabet / over the full alphabet
          LawLen             \* the laws are checked on sources up to this length
VARIABLES al, s
MaxLen(a) == IF a = "Full" THEN NFull ELSE N
Init == al \in Alphas /\ s = << >>
Next == Len(s) < MaxLen(al) /\ \E x \in SymsOf(al) : s' = Append(s, x) /\ al' = al
Spec == Init /\ [][Next]_<<al, s>>
Judge == PrintT(ToJson(Row(al, s)))
LawsHold == Len(s) <= LawLen => Laws(al, s)
=============================================================================
