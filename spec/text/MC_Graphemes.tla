--------------------------- MODULE MC_Graphemes ---------------------------
(* The table of Graphemes.tla: one TLC state per (alphabet, string source of at most MaxLen(alphabet)
   symbols).  The state prints its table row: the value, its characters, every index and slice
   (with failures), utf8 / toLower / hex, and for every needle (every contiguous fragment of the
   source and of the value - aligned or not with the character boundaries - plus every single
   symbol of a class-focused alphabet) the predicted contains / index / count / split /
   replaceAll (= join of the split) / comparison / concatenation.  The laws of the specification
   are a second invariant over the same states.  Symbols are single letters, so symbol sequences
   print as short strings.

   Rows of the full alphabet up to RankLen symbols also carry the rank of the value in the total
   order of all such values (ordering and equality of every pair follow from the ranks; that the
   ranks represent Less/Equal exactly is an assumption checked by TLC at start-up). *)
EXTENDS Graphemes, Json
CONSTANTS Alphas,            \* names of the alphabets to enumerate
          N, NFull,          \* maximal source length over a class-focused alphabet / over the full alphabet
          RankLen            \* sources of the full alphabet up to this length are ranked
VARIABLES al, s

RECURSIVE Str(_)
Str(q) == IF q = << >> THEN "" ELSE Head(q) \o Str(Tail(q))
StrAll(qs) == [i \in 1..Len(qs) |-> Str(qs[i])]

\* alphabets: the full one and class-focused ones (6 and 5 symbols)
SymsOf(a) == CASE a = "Full" -> AllSyms
               [] a = "Marks6"  -> {"b", "E", "e", "d", "M", "S"}     \* NFC pairs, marks, a class-0 mark
               [] a = "Emoji6"  -> {"b", "P", "Z", "S", "R", "M"}     \* emoji ZWJ sequences, flags
               [] a = "Hangul6" -> {"L", "V", "T", "G", "H", "M"}     \* jamo / syllable composition
               [] a = "Lines6"  -> {"C", "F", "b", "M", "Z", "R"}     \* CR LF against extenders
               [] a = "Marks5"  -> {"b", "E", "d", "M", "S"}
               [] a = "Emoji5"  -> {"b", "P", "Z", "S", "R"}
               [] a = "Hangul5" -> {"L", "V", "T", "G", "M"}
               [] a = "Lines5"  -> {"C", "F", "b", "M", "R"}
\* replacement / separator sources used with replaceAll and join
ReplOf(a) == CASE a = "Full" -> << << >>, <<"M">> >>
               [] a \in {"Marks6", "Marks5"}   -> << << >>, <<"M">>, <<"e">> >>
               [] a \in {"Emoji6", "Emoji5"}   -> << << >>, <<"Z">>, <<"R">> >>
               [] a \in {"Hangul6", "Hangul5"} -> << << >>, <<"V">>, <<"T">> >>
               [] a \in {"Lines6", "Lines5"}   -> << << >>, <<"F">>, <<"M">> >>
MaxLen(a) == IF a = "Full" THEN NFull ELSE N
ReplVals == [a \in Alphas |-> [r \in 1..Len(ReplOf(a)) |-> Chars(ReplOf(a)[r])]]

\* the facts about the alphabet, printed once for the driver's validation against the Unicode libraries
ASSUME PrintT(ToJson([alphabet |-> [x \in AllSyms |-> [cp |-> CP(x), class |-> Class(x), ccc |-> CCC(x), decomp |-> Str(Decomp(x)),
                                                       lower |-> Lower(x), hex |-> HexVal(x)]]]))

Frags(q) == {SubSeq(q, i, j) : i \in 1..Len(q), j \in 1..Len(q)} \ {<< >>}
Needles(a, src) == Frags(src) \cup Frags(Norm(src)) \cup (IF a = "Full" THEN {} ELSE {<<x>> : x \in SymsOf(a)})

\* ---- ranks over the full alphabet
RECURSIVE SrcsUpTo(_)
SrcsUpTo(k) == IF k = 0 THEN {<< >>} ELSE LET P == SrcsUpTo(k - 1) IN P \cup {Append(q, x) : q \in P, x \in AllSyms}
RankTexts == {Norm(q) : q \in SrcsUpTo(RankLen)}
RankTable == [v \in RankTexts |-> Cardinality({w \in RankTexts : LessCP(w, v)})]
ASSUME RanksAreTheOrder ==
  \A v \in RankTexts : \A w \in RankTexts : /\ (RankTable[v] < RankTable[w]) <=> LessCP(v, w)
                                            /\ (RankTable[v] = RankTable[w]) <=> (v = w)

NRow(h, nsrc, repl) ==
  LET n == Chars(nsrc)  sp == Split(h, n)  cc == Concat(h, n) IN
  [n |-> Str(nsrc), nv |-> Str(Text(n)), c |-> Contains(h, n), i |-> IndexOf(h, n), k |-> Count(h, n),
   sp |-> [p \in 1..Len(sp) |-> Str(Text(sp[p]))],
   rp |-> [r \in 1..Len(repl) |-> Str(Text(ReplaceAll(h, n, repl[r])))],
   cmp |-> Cmp(h, n), cc |-> Str(Text(cc)), ccl |-> Length(cc)]

Row(a, src) ==
  LET h == Chars(src)  len == Length(h)  lo == ToLower(h)  u8 == Utf8(h) IN
  [al |-> a, s |-> Str(src), v |-> Str(Text(h)), cl |-> StrAll(h),
   ix |-> [i \in 1..(len + 2) |-> IF CharAtFails(h, i - 2) THEN "!" ELSE Str(CharAt(h, i - 2))],             \* h[-1] .. h[len]
   sl |-> [f \in 1..(len + 3) |-> [t \in 1..(len + 3) |->                                                     \* from, upTo in -1 .. len+1
             IF SliceFails(h, f - 2, t - 2) THEN "!" ELSE Str(Text(Slice(h, f - 2, t - 2)))]],
   u8 |-> u8, lo |-> Str(Text(lo)), lol |-> Length(lo), hx |-> EncodeHex(u8),
   dh |-> IF DecodeHexFails(h) THEN <<-1>> ELSE DecodeHex(h),
   rk |-> IF a = "Full" /\ Len(src) <= RankLen THEN RankTable[Text(h)] ELSE -1,
   rs |-> [r \in 1..Len(ReplOf(a)) |-> Str(ReplOf(a)[r])],
   nd |-> {NRow(h, x, ReplVals[a]) : x \in Needles(a, src)}]

Laws(a, src) == LET h == Chars(src) IN
                /\ SegmentationLaws(src) /\ SegmentationLaws(Norm(src)) /\ NormLaws(src)
                /\ \A x \in Needles(a, src) : NeedleLaws(h, Chars(x))
                /\ \A r \in 1..Len(ReplOf(a)) : SegmentationLaws(Norm(ReplOf(a)[r]))

Init == al \in Alphas /\ s = << >>
Next == Len(s) < MaxLen(al) /\ \E x \in SymsOf(al) : s' = Append(s, x) /\ al' = al
Spec == Init /\ [][Next]_<<al, s>>
Judge == PrintT(ToJson(Row(al, s)))
LawsHold == Laws(al, s)
=============================================================================
