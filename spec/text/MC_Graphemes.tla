--------------------------- MODULE MC_Graphemes ---------------------------
(* The table of Graphemes.tla over all string sources of at most N symbols from Alpha: one TLC
   state per source.  For every source the laws of the specification are an invariant, and the
   state prints its table row: the value, its characters, every index and slice (with failures),
   utf8 / toLower / hex, and for every needle (every contiguous fragment of the source and of the
   value - aligned or not with the character boundaries - plus every single symbol of Alpha) the
   predicted contains / index / count / split / replaceAll(=join of the split) / comparison /
   concatenation.  Symbols are single letters, so sequences print as short strings. *)
EXTENDS Graphemes, Json
CONSTANTS Alpha, N, Repl          \* Repl: sequence of replacement / separator sources
VARIABLE s

RECURSIVE Str(_)
Str(q) == IF q = << >> THEN "" ELSE Head(q) \o Str(Tail(q))
StrAll(qs) == [i \in 1..Len(qs) |-> Str(qs[i])]

Frags(q) == {SubSeq(q, i, j) : i \in 1..Len(q), j \in 1..Len(q)} \ {<< >>}
Needles(src) == Frags(src) \cup Frags(Norm(src)) \cup {<<a>> : a \in Alpha}

NRow(h, nsrc, repl) ==
  LET n == Chars(nsrc) IN
  [n |-> Str(nsrc), nv |-> Str(Text(n)), c |-> Contains(h, n), i |-> IndexOf(h, n), k |-> Count(h, n),
   sp |-> [p \in 1..Len(Split(h, n)) |-> Str(Text(Split(h, n)[p]))],
   rp |-> [r \in 1..Len(repl) |-> Str(Text(ReplaceAll(h, n, repl[r])))],
   cmp |-> Cmp(h, n), cc |-> Str(Text(Concat(h, n))), ccl |-> Length(Concat(h, n))]

Row(src) ==
  LET a == Chars(src)  len == Length(a)  lo == ToLower(a)
      repl == [r \in 1..Len(Repl) |-> Chars(Repl[r])] IN
  [s |-> Str(src), v |-> Str(Text(a)), cl |-> StrAll(a),
   ix |-> [i \in 1..(len + 2) |-> IF CharAtFails(a, i - 2) THEN "!" ELSE Str(CharAt(a, i - 2))],             \* a[-1] .. a[len]
   sl |-> [f \in 1..(len + 3) |-> [t \in 1..(len + 3) |->                                                     \* from, upTo in -1 .. len+1
             IF SliceFails(a, f - 2, t - 2) THEN "!" ELSE Str(Text(Slice(a, f - 2, t - 2)))]],
   u8 |-> Utf8(a), lo |-> Str(Text(lo)), lol |-> Length(lo), hx |-> EncodeHex(Utf8(a)),
   dh |-> IF DecodeHexFails(a) THEN <<-1>> ELSE DecodeHex(a),
   nd |-> {NRow(a, x, repl) : x \in Needles(src)}]

Laws(src) == LET a == Chars(src) IN
             /\ SegmentationLaws(src) /\ SegmentationLaws(Norm(src)) /\ NormLaws(src)
             /\ \A x \in Needles(src) : NeedleLaws(a, Chars(x))
             /\ \A r \in 1..Len(Repl) : SegmentationLaws(Norm(Repl[r]))

Init == s = << >>
Next == Len(s) < N /\ \E a \in Alpha : s' = Append(s, a)
Spec == Init /\ [][Next]_s
Judge == Laws(s) /\ PrintT(ToJson(Row(s)))
LawsOnly == Laws(s)

\* alphabets: the full one and class-focused ones
Full   == AllSyms
Marks  == {"b", "E", "e", "d", "M", "S"}            \* NFC pairs, marks, a class-0 mark
Emoji  == {"b", "P", "Z", "S", "R", "M"}            \* emoji ZWJ sequences, flags
Hangul == {"L", "V", "T", "G", "H", "M"}            \* jamo / syllable composition
Lines  == {"C", "F", "b", "M", "Z", "R"}            \* CR LF and controls against extenders
Marks5  == {"b", "E", "d", "M", "S"}
Emoji5  == {"b", "P", "Z", "S", "R"}
Hangul5 == {"L", "V", "T", "G", "M"}
Lines5  == {"C", "F", "b", "M", "R"}
ReplMarks  == << << >>, <<"M">>, <<"e">> >>
ReplEmoji  == << << >>, <<"Z">>, <<"R">> >>
ReplHangul == << << >>, <<"V">>, <<"T">> >>
ReplLines  == << << >>, <<"F">>, <<"M">> >>
ReplFull   == << << >>, <<"M">> >>
=============================================================================
