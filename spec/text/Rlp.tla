------------------------------- MODULE Rlp -------------------------------
(* Canonical RLP (recursive length prefix) decoding, property C46.

   Written from the definition of RLP (Ethereum yellow paper, appendix B) and the
   property statement, as functions on byte sequences (TLA+ sequences over 0..255):

     Enc(t)            the encoder: *defines* what a canonical encoding is;
     DecodeString(b)   payload of b when b is the canonical encoding of one string with no
                       trailing bytes, failure otherwise;
     DecodeList(b)     the encoded items of b when b is one list whose header is canonical,
                       whose payload is exactly covered by items with canonical headers and
                       which has no trailing bytes, failure otherwise (one level: the items are
                       returned *encoded*, their payloads are judged when they are decoded);
     Deep(b)           full recursive decoding into an item tree; Deep accepts exactly the
                       images of Enc (laws below, checked by TLC for every enumerated input).

   Lengths are compared without overflow: inputs handed to the model are shorter than
   Huge = 2^24 bytes, so a big-endian length with more than three significant bytes, or a
   value of at least 2^24, is "beyond the input" whatever its exact value (up to 2^64-1).
   Failures carry a reason and the class of the declared length; both are only used to
   describe a disagreeing case (known-finding matchers), never for the verdict. *)
EXTENDS Naturals, Sequences, FiniteSets, TLC

Huge == 16777216
Min(a, b) == IF a < b THEN a ELSE b

\* ----------------------------------------------------------------- items and the encoder
\* an item is [s |-> bytes] (string) or [l |-> <<items>>] (list)
IsStr(t)  == "s" \in DOMAIN t
StrItem(bs) == [s |-> bs]
ListItem(ts) == [l |-> ts]

RECURSIVE BEBytes(_)
BEBytes(n) == IF n = 0 THEN << >> ELSE BEBytes(n \div 256) \o <<n % 256>>     \* minimal big-endian
Hdr(base, n) == IF n <= 55 THEN <<base + n>>
                ELSE LET lb == BEBytes(n) IN <<base + 55 + Len(lb)>> \o lb
RECURSIVE Enc(_), EncAll(_)
Enc(t) == IF IsStr(t)
          THEN IF Len(t.s) = 1 /\ t.s[1] <= 127 THEN t.s ELSE Hdr(128, Len(t.s)) \o t.s
          ELSE LET p == EncAll(t.l) IN Hdr(192, Len(p)) \o p
EncAll(ts) == IF Len(ts) = 0 THEN << >> ELSE Enc(Head(ts)) \o EncAll(Tail(ts))

\* ----------------------------------------------------------------- headers
RECURSIVE BE(_)
BE(bs) == IF Len(bs) = 0 THEN 0 ELSE IF Len(bs) > 3 THEN Huge
          ELSE BE(SubSeq(bs, 1, Len(bs) - 1)) * 256 + bs[Len(bs)]

\* class of a declared multi-byte length `lb` (no leading zero) whose payload would start at
\* 0-based offset off0:  "fits24"  < 2^24 (exact in the model);
\*   "edge63"  off0 + length is in [2^63, 2^63 + off0): the sum leaves the signed 64-bit range
\*             although the length itself is below 2^63;
\*   "ge63"    length >= 2^63;   "huge" anything else (>= 2^24).
Compl(lb) == [i \in 1..7 |-> 255 - lb[i + 1]]                 \* 2^63-1-length for 8 bytes, first = 127
LenClass(lb, off0) ==
  IF Len(lb) <= 3 THEN "fits24"
  ELSE IF Len(lb) < 8 THEN "huge"
  ELSE IF lb[1] >= 128 THEN "ge63"
  ELSE IF lb[1] = 127 /\ (\A i \in 1..4 : Compl(lb)[i] = 0) /\ BE(SubSeq(Compl(lb), 5, 7)) < off0 THEN "edge63"
  ELSE "huge"

NoHdr(r) == [ok |-> FALSE, why |-> r, cls |-> "none"]
\* header of the item starting at index i (1-based):
\*   [ok, str, off (index of first payload byte), len (payload length, capped at Huge), cls]
Header(b, i) ==
  IF i > Len(b) THEN NoHdr("no-input") ELSE
  LET f == b[i] IN
  IF f <= 127 THEN [ok |-> TRUE, str |-> TRUE, off |-> i, len |-> 1, cls |-> "short"]
  ELSE IF f <= 183 THEN [ok |-> TRUE, str |-> TRUE, off |-> i + 1, len |-> f - 128, cls |-> "short"]
  ELSE IF f >= 192 /\ f <= 247 THEN [ok |-> TRUE, str |-> FALSE, off |-> i + 1, len |-> f - 192, cls |-> "short"]
  ELSE LET n == IF f <= 191 THEN f - 183 ELSE f - 247           \* 1..8 length bytes follow
       IN IF i + n > Len(b) THEN NoHdr("length-bytes-missing")
          ELSE LET lb == SubSeq(b, i + 1, i + n) IN
               IF lb[1] = 0 THEN NoHdr("length-leading-zero")
               ELSE IF BE(lb) <= 55 THEN NoHdr("length-should-be-short-form")
               ELSE [ok |-> TRUE, str |-> f <= 191, off |-> i + n + 1, len |-> Min(BE(lb), Huge),
                     cls |-> LenClass(lb, i + n)]

Fail(r, c) == [ok |-> FALSE, why |-> r, cls |-> c]

\* ----------------------------------------------------------------- decodeString
DecodeString(b) ==
  LET h == Header(b, 1) IN
  IF ~h.ok THEN Fail(h.why, h.cls)
  ELSE IF ~h.str THEN Fail("not-a-string", h.cls)
  ELSE IF h.off + h.len - 1 > Len(b) THEN Fail("payload-beyond-input", h.cls)
  ELSE IF h.off + h.len - 1 < Len(b) THEN Fail("trailing-bytes", h.cls)
  ELSE IF h.off = 2 /\ h.len = 1 /\ b[2] <= 127 THEN Fail("single-byte-must-encode-itself", h.cls)
  ELSE [ok |-> TRUE, val |-> SubSeq(b, h.off, h.off + h.len - 1)]

\* ----------------------------------------------------------------- decodeList (one level)
\* end index (exclusive) of the item at i when its header is canonical and its payload is inside b; 0 otherwise
ItemEnd(b, i) ==
  LET h == Header(b, i) IN
  IF ~h.ok THEN 0 ELSE IF h.off + h.len - 1 > Len(b) THEN 0 ELSE h.off + h.len
ItemCls(b, i) == Header(b, i).cls

RECURSIVE Items(_, _, _)
Items(b, i, end) ==                           \* split the payload [i, end) into encoded items
  IF i = end THEN [ok |-> TRUE, its |-> << >>, cls |-> "short"]
  ELSE LET e == ItemEnd(b, i) IN
       IF e = 0 \/ e > end THEN [ok |-> FALSE, its |-> << >>, cls |-> ItemCls(b, i)]
       ELSE LET rest == Items(b, e, end) IN
            IF ~rest.ok THEN rest ELSE [ok |-> TRUE, its |-> <<SubSeq(b, i, e - 1)>> \o rest.its, cls |-> "short"]

\* description only: does a header met by scanning items sequentially from index i (ignoring the
\* declared end of the list) declare an "edge63" length?
RECURSIVE ScanEdge(_, _)
ScanEdge(b, i) ==
  IF i > Len(b) THEN FALSE
  ELSE LET h == Header(b, i) IN
       IF ~h.ok THEN FALSE
       ELSE IF h.cls = "edge63" THEN TRUE
       ELSE IF h.off + h.len - 1 > Len(b) THEN FALSE
       ELSE ScanEdge(b, h.off + h.len)
ListCls(b, h, c) == IF h.ok /\ ~h.str /\ ScanEdge(b, h.off) THEN "edge63" ELSE c

DecodeList(b) ==
  LET h == Header(b, 1) IN
  IF ~h.ok THEN Fail(h.why, h.cls)
  ELSE IF h.str THEN Fail("not-a-list", h.cls)
  ELSE IF h.off + h.len - 1 > Len(b) THEN Fail("payload-beyond-input", ListCls(b, h, h.cls))
  ELSE IF h.off + h.len - 1 < Len(b) THEN Fail("trailing-bytes", ListCls(b, h, h.cls))
  ELSE LET r == Items(b, h.off, h.off + h.len) IN
       IF ~r.ok THEN Fail("bad-item", ListCls(b, h, r.cls)) ELSE [ok |-> TRUE, val |-> r.its]

\* ----------------------------------------------------------------- full recursive decoding
DFail == [ok |-> FALSE]
RECURSIVE DeepAt(_, _, _), DeepItems(_, _, _)
DeepAt(b, i, e) ==                            \* the item that occupies exactly [i, e)
  LET h == Header(b, i) IN
  IF ~h.ok THEN DFail
  ELSE IF h.off + h.len # e THEN DFail
  ELSE IF h.str THEN
         IF h.off = i + 1 /\ h.len = 1 /\ b[h.off] <= 127 THEN DFail
         ELSE [ok |-> TRUE, t |-> StrItem(SubSeq(b, h.off, e - 1))]
  ELSE LET r == DeepItems(b, h.off, e) IN
       IF ~r.ok THEN DFail ELSE [ok |-> TRUE, t |-> ListItem(r.ts)]
DeepItems(b, i, end) ==
  IF i = end THEN [ok |-> TRUE, ts |-> << >>]
  ELSE LET e == ItemEnd(b, i) IN
       IF e = 0 \/ e > end THEN [ok |-> FALSE, ts |-> << >>]
       ELSE LET d == DeepAt(b, i, e) IN
            IF ~d.ok THEN [ok |-> FALSE, ts |-> << >>]
            ELSE LET rest == DeepItems(b, e, end) IN
                 IF ~rest.ok THEN rest ELSE [ok |-> TRUE, ts |-> <<d.t>> \o rest.ts]
Deep(b) == IF Len(b) = 0 THEN DFail ELSE DeepAt(b, 1, Len(b) + 1)

\* ----------------------------------------------------------------- laws (checked by TLC per input)
RECURSIVE Concat(_)
Concat(ss) == IF Len(ss) = 0 THEN << >> ELSE Head(ss) \o Concat(Tail(ss))

\* The laws take the three results as arguments so that a caller evaluates each decoder once.
\* accepted => the input is the encoder's image of what was decoded (nothing non-canonical is accepted)
StringCanonical(b, s) == s.ok => Enc(StrItem(s.val)) = b
DeepCanonical(b, d)   == d.ok => Enc(d.t) = b
\* one-level list decoding: the items tile the payload under a minimal header
ListTiles(b, l)       == l.ok => LET p == Concat(l.val) IN Hdr(192, Len(p)) \o p = b
\* the three decoders agree where they overlap
Agree(s, l, d) ==
            /\ ~(s.ok /\ l.ok)
            /\ (d.ok /\ IsStr(d.t))  <=> s.ok
            /\ (d.ok /\ IsStr(d.t))  => s.val = d.t.s
            /\ (d.ok /\ ~IsStr(d.t)) => (l.ok /\ l.val = [k \in 1..Len(d.t.l) |-> Enc(d.t.l[k])])
\* every encoding is accepted and decodes to the item it encodes
RoundTrip(t) == LET e == Enc(t) IN Deep(e) = [ok |-> TRUE, t |-> t]

LawsOf(b, s, l, d) == StringCanonical(b, s) /\ DeepCanonical(b, d) /\ ListTiles(b, l) /\ Agree(s, l, d)
Laws(b) == LawsOf(b, DecodeString(b), DecodeList(b), Deep(b))

\* table rows (printed as JSON): <<input, string result, list result, deep result, reasons>>;
\* a failing result is 0, a successful one a record holding the value
RowOf(b, s, l, d) ==
          <<b, IF s.ok THEN [v |-> s.val] ELSE 0, IF l.ok THEN [v |-> l.val] ELSE 0, IF d.ok THEN [t |-> d.t] ELSE 0,
            <<IF s.ok THEN "ok" ELSE s.why, IF s.ok THEN "" ELSE s.cls,
              IF l.ok THEN "ok" ELSE l.why, IF l.ok THEN "" ELSE l.cls>> >>
Row(b) == RowOf(b, DecodeString(b), DecodeList(b), Deep(b))
CompactRow(b) == LET r == Row(b) IN <<r[1], r[2], r[3], r[4]>>
=============================================================================
