------------------------ MODULE MC_GraphemesCases ------------------------
(* Generated sources: each line of gcases.ndjson is [al |-> alphabet name, s |-> <<symbols>>], drawn by the
   (seeded) generator of checks/strings.py biased toward combining marks, emoji ZWJ sequences, regional
   indicators, Hangul and CR LF.  One TLC state per case: its table row is printed, the laws are checked
   when the source has at most LawLen symbols. *)
EXTENDS GraphemesTable
CONSTANTS LawLen
Cases == TLCEval(ndJsonDeserialize("gcases.ndjson"))
VARIABLE k
Init == k = 0
Next == k = 0 /\ k' \in 1..Len(Cases)
Spec == Init /\ [][Next]_k
WellFormed == k > 0 => Cases[k].al \in AlphabetNames /\ \A i \in 1..Len(Cases[k].s) : Cases[k].s[i] \in AllSyms
Judge == k > 0 => PrintT(ToJson(Row(Cases[k].al, Cases[k].s)))
LawsHold == (k > 0 /\ Len(Cases[k].s) <= LawLen) => Laws(Cases[k].al, Cases[k].s)
=============================================================================
