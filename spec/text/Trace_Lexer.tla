---- MODULE Trace_Lexer ----
(* Trace validation for C37.  Every line of trace.ndjson is one event recorded from the real code:

     Lex   {id, n, b}            a Lex call on the pooled lexer: input length and bytes (b = <<>> for inputs
                                 that are too large to be judged token by token: only offsets are judged)
     Tok   {t, o, e, l, c, el, ec}   one token: type, start offset, end offset (last byte), start line/column,
                                 end line/column -- in stream order; t = "error" and t = "EOF" are the two
                                 special types; "/*" and "*/" open and close block comments
     Diag  {phase, pos}          the result of parsing / checking the same input: pos = <<<<o, l, c>>, ...>>
                                 the start positions of all reported errors (empty when a program is returned)

   A token is accepted iff it starts where the previous one ended (contiguous cover, in order), its
   start (line, column) is the specification's function of its offset, and so is its end position.
   After the first error token only EOF may follow (the lexer stops there by design); without an
   error token the EOF token must stand at offset n.  A diagnostic position is accepted iff it lies in
   0..n and its (line, column) is the function of its offset.

   An event the exact rules reject is compared with the NAMED DEVIATIONS below; if one of them
   explains it, a <<"DEV", l, name>> line is printed and validation continues (with the deviation's
   state), otherwise a <<"REJECT", l>> line is printed and the rest of that input is skipped. *)
EXTENDS Lexer, Json, TLC, Integers
Trace == ndJsonDeserialize("trace.ndjson")
VARIABLES l,        \* index of the next event
          big,      \* the current input is judged on offsets only
          n,        \* length of the current input
          err,      \* an error token has been emitted
          eof,      \* the EOF token has been seen
          depth,    \* open block comments
          drift,    \* deviations: columns added on the current line by DevMultiByteEnd / DevZeroLen, <<mb, zl>>
          dpts,     \* deviations: <<offset, kind>> -- from that offset on (same line) one more column of drift applies;
                    \* kind "mb" (DevMultiByteEnd, read off a token whose own end column is one too large) or "zl" (DevZeroLen)
          skip
tvars == <<inp, pos, line, col, hist, l, big, n, err, eof, depth, drift, dpts, skip>>

TraceInit == /\ inp = <<>> /\ pos = 0 /\ line = 1 /\ col = 0 /\ hist = 0
             /\ l = 1 /\ big = FALSE /\ n = 0 /\ err = FALSE /\ eof = FALSE /\ depth = 0
             /\ drift = <<0, 0>> /\ dpts = {} /\ skip = FALSE

Lex(e) == /\ inp' = e.b /\ n' = e.n /\ big' = (Len(e.b) # e.n)
          /\ pos' = 0 /\ line' = 1 /\ col' = 0 /\ hist' = hist + 1
          /\ err' = FALSE /\ eof' = FALSE /\ depth' = 0 /\ drift' = <<0, 0>> /\ dpts' = {}

\* ---- exact judgement of a token
EndPosOf(o, e, ln, cl) ==   \* position of the last code point of [o, e] given the position of o
  IF e < o THEN <<ln, cl>> ELSE LET ls == LastStart(inp, o, e) r == Adv(inp, o, ls - 1, ln, cl) IN <<r[2], r[3]>>
LastIsMultiByte(o, e) == e >= o /\ RuneLen(inp, LastStart(inp, o, e)) > 1
DriftSum == drift[1] + drift[2]
TokShape(e) == /\ e.o = pos /\ e.e >= e.o - 1 /\ e.e < n /\ ~err /\ ~eof
TokExact(e) == /\ TokShape(e) /\ e.l = line /\ e.c = col
               /\ <<e.el, e.ec>> = EndPosOf(e.o, e.e, line, col)
\* ---- named deviations
\* DevMultiByteEnd / DevZeroLen: after a token whose last code point is multi-byte, or that is empty, every later
\* column on the same line is one too large (the token's own end column too when its last code point is multi-byte)
\* Whether DevMultiByteEnd occurs at a token is READ OFF the token itself: its end column is one too large. Only then
\* does the drift of the following tokens grow (a lexer that reports the exact end column must also place the
\* next token exactly, and vice versa -- a mixture is rejected).
EndBase(e) == LET ep == EndPosOf(e.o, e.e, line, col) IN <<ep[1], ep[2] + (IF ep[1] = line THEN DriftSum ELSE 0)>>
MbDev(e) == LastIsMultiByte(e.o, e.e) /\ e.el = EndBase(e)[1] /\ e.ec = EndBase(e)[2] + 1
TokDrift(e) == /\ TokShape(e) /\ e.l = line /\ e.c = col + DriftSum
               /\ e.el = EndBase(e)[1]
               /\ e.ec = EndBase(e)[2] \/ MbDev(e)
               /\ DriftSum > 0 \/ MbDev(e)
\* DevErrMultiByte / DevErrLexemeTail: the error token does not cover the offending lexeme [pos, q] but only its
\* LAST BYTE q (an unrecognised multi-byte character: its last byte, with the column of the next character --
\* DevErrMultiByte; `1.` without fractional digits: only the `.`, the digits stay uncovered -- DevErrLexemeTail)
ErrTail(e) == /\ e.t = "error" /\ ~err /\ ~eof /\ pos < n /\ e.o = e.e /\ e.o >= pos /\ e.o < n
              /\ LET ls == LastStart(inp, pos, e.o)
                     w  == RuneLen(inp, ls)
                     r  == Adv(inp, pos, ls - 1, line, col)
                 IN /\ e.o = ls + w - 1 /\ (e.o > pos)
                    /\ e.l = r[2]
                    /\ e.c = r[3] + (IF r[2] = line THEN DriftSum ELSE 0) + (IF w > 1 THEN 1 ELSE 0)
ErrTailName(e) == IF LastStart(inp, pos, e.o) = pos THEN "DevErrMultiByte" ELSE "DevErrLexemeTail"
\* DevErrInline: the error token for a number without fractional digits (`1.`) is emitted at the `.`, BEFORE the
\* number token that covers the same bytes, and lexing goes on: an out-of-band token inside the cover
NextIsEof == l + 1 <= Len(Trace) /\ Trace[l + 1].ev = "Tok" /\ Trace[l + 1].t = "EOF"
NameOf(mb, zl) == IF zl = 0 THEN "DevMultiByteEnd" ELSE IF mb = 0 THEN "DevZeroLen" ELSE "DevMultiByteEnd+DevZeroLen"
DriftName == NameOf(drift[1], drift[2])
TokDevName(e) == NameOf(drift[1] + (IF MbDev(e) THEN 1 ELSE 0), drift[2])

AdvanceTok(e) ==
  LET r == Adv(inp, e.o, e.e, line, col)
      mb == MbDev(e)
      zl == e.e < e.o
      nl == r[2] # line
      base == IF nl THEN <<0, 0>> ELSE drift
  IN /\ pos' = e.e + 1 /\ line' = r[2] /\ col' = r[3]
     /\ drift' = IF mb THEN <<base[1] + 1, base[2]>> ELSE IF zl THEN <<base[1], base[2] + 1>> ELSE base
     /\ dpts' = IF mb THEN dpts \cup {<<e.e + 1, "mb">>} ELSE IF zl THEN dpts \cup {<<e.e + 1, "zl">>} ELSE dpts
     /\ depth' = IF e.t = "/*" THEN depth + 1 ELSE IF e.t = "*/" /\ depth > 0 THEN depth - 1 ELSE depth
     /\ err' = (e.t = "error")

\* ---- EOF
EofExact(e) == ~eof /\ e.o <= n /\ (err \/ (e.o = n /\ pos = n /\ e.l = line /\ e.c = col))
EofDrift(e) == ~eof /\ ~err /\ e.o = n /\ pos = n /\ e.l = line /\ e.c = col + DriftSum /\ DriftSum > 0
\* DevUnterminatedComment: the text after an unterminated `/*` is not tokenised at all
EofInComment(e) == ~eof /\ ~err /\ depth > 0 /\ pos < n /\ e.o = n

\* DevBackslashEndOfInterpolation: a `\` that is the last byte of the input inside a string interpolation (`"\(a \`) is
\* not covered by any token, and the EOF token (and the parser's error) stand at offset n+1, outside the input
EofPastEnd(e) == ~eof /\ ~err /\ n > 0 /\ pos = n - 1 /\ Byte(inp, n - 1) = 92 /\ e.o = n + 1
PosPastEnd(p) == ~big /\ n > 0 /\ Byte(inp, n - 1) = 92 /\ p[1] = n + 1

\* ---- diagnostics: positions inside the input, line/column the function of the offset
\* The expected column of a reported position is exact + (number of drift points before it ON ITS OWN LINE); the
\* deviation is named after the kinds of exactly those drift points (not after the lexer's state at the end of input)
KindAt(o, k) == LET ls == LineStart(inp, o) IN Cardinality({p \in dpts : ls <= p[1] /\ p[1] <= o /\ p[2] = k})
DriftAt(o) == KindAt(o, "mb") + KindAt(o, "zl")
PosExact(p) == p[1] >= 0 /\ p[1] <= n /\ (~big => LineColAt(inp, p[1]) = <<p[2], p[3]>>)
PosDrift(p) == /\ p[1] >= 0 /\ p[1] <= n /\ ~big
               /\ LET lc == LineColAt(inp, p[1]) IN p[2] = lc[1] /\ p[3] = lc[2] + DriftAt(p[1])
\* an error position reported for the error token of DevErrMultiByte inherits its offset and column
PosErrTok(p) == ~big /\ \E q \in 0..(n - 1) : RuneLen(inp, q) > 1 /\ p[1] = q + RuneLen(inp, q) - 1
                          /\ LET lc == LineColAt(inp, q) IN p[2] = lc[1] /\ p[3] = lc[2] + DriftAt(q) + 1
DiagIdx(e) == 1..Len(e.pos)
DiagDrifted(e) == {i \in DiagIdx(e) : ~PosExact(e.pos[i]) /\ PosDrift(e.pos[i])}
DiagDriftName(e) == NameOf(IF \E i \in DiagDrifted(e) : KindAt(e.pos[i][1], "mb") > 0 THEN 1 ELSE 0,
                           IF \E i \in DiagDrifted(e) : KindAt(e.pos[i][1], "zl") > 0 THEN 1 ELSE 0)

Same == UNCHANGED <<inp, pos, line, col, hist, big, n, err, eof, depth, drift, dpts>>
Reject == PrintT(<<"REJECT", l>>) /\ Same /\ skip' = TRUE
Dev(name) == PrintT(<<"DEV", l, name>>)

Step(e) ==
  CASE e.ev = "Lex" -> Lex(e) /\ skip' = FALSE
    [] e.ev = "Tok" /\ big -> Same /\ UNCHANGED skip
    [] e.ev = "Tok" /\ e.t # "EOF" ->
         IF TokExact(e) THEN AdvanceTok(e) /\ UNCHANGED <<inp, hist, big, n, eof, skip>>
         ELSE IF TokDrift(e) THEN Dev(TokDevName(e)) /\ AdvanceTok(e) /\ UNCHANGED <<inp, hist, big, n, eof, skip>>
         ELSE IF ErrTail(e) /\ ~NextIsEof THEN Dev("DevErrInline") /\ Same /\ UNCHANGED skip
         ELSE IF ErrTail(e) THEN /\ Dev(ErrTailName(e)) /\ err' = TRUE
                                      /\ LET r == Adv(inp, pos, e.e, line, col) IN pos' = r[1] /\ line' = r[2] /\ col' = r[3]
                                      /\ UNCHANGED <<inp, hist, big, n, eof, depth, drift, dpts, skip>>
         ELSE Reject
    [] e.ev = "Tok" /\ e.t = "EOF" ->
         IF EofExact(e) THEN eof' = TRUE /\ UNCHANGED <<inp, pos, line, col, hist, big, n, err, depth, drift, dpts, skip>>
         ELSE IF EofDrift(e) THEN Dev(DriftName) /\ eof' = TRUE /\ UNCHANGED <<inp, pos, line, col, hist, big, n, err, depth, drift, dpts, skip>>
         ELSE IF EofPastEnd(e) THEN Dev("DevBackslashEndOfInterpolation") /\ eof' = TRUE /\ UNCHANGED <<inp, pos, line, col, hist, big, n, err, depth, drift, dpts, skip>>
         ELSE IF EofInComment(e) THEN Dev("DevUnterminatedComment") /\ eof' = TRUE /\ UNCHANGED <<inp, pos, line, col, hist, big, n, err, depth, drift, dpts, skip>>
         ELSE Reject
    [] e.ev = "Diag" ->
         IF \A i \in DiagIdx(e) : PosExact(e.pos[i]) THEN Same /\ UNCHANGED skip
         ELSE IF \A i \in DiagIdx(e) : PosExact(e.pos[i]) \/ PosDrift(e.pos[i]) \/ PosErrTok(e.pos[i]) \/ PosPastEnd(e.pos[i])
              THEN Dev(IF \E i \in DiagIdx(e) : ~PosExact(e.pos[i]) /\ PosPastEnd(e.pos[i]) THEN "DevBackslashEndOfInterpolation" ELSE IF \E i \in DiagIdx(e) : ~PosExact(e.pos[i]) /\ ~PosDrift(e.pos[i]) THEN "DevErrMultiByte"
                       ELSE DiagDriftName(e)) /\ Same /\ UNCHANGED skip
         ELSE Reject
    [] OTHER -> Reject

TraceNext ==
  /\ l <= Len(Trace) /\ l' = l + 1
  /\ LET e == Trace[l] IN
     IF skip /\ e.ev # "Lex" THEN Same /\ UNCHANGED skip
     ELSE Step(e)
TraceSpec == TraceInit /\ [][TraceNext]_tvars
\* the pooled lexer's history never shows: the walk from offset 0 of the CURRENT input reproduces the state
HistoryFree == (l > 1 /\ Trace[l - 1].ev = "Tok" /\ Trace[l - 1].t = "EOF") => (big \/ skip \/ LineColAt(inp, pos) = <<line, col>>)
====
