SPECIFICATION Spec
CONSTANTS
  Mode = "int"
  N = 7
INVARIANTS Judge
