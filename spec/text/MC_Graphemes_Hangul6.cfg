SPECIFICATION Spec
CONSTANTS
  Alpha <- Hangul
  N = 6
  Repl <- ReplHangul
INVARIANTS Judge
