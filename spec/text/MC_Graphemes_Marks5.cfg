SPECIFICATION Spec
CONSTANTS
  Alpha <- Marks
  N = 5
  Repl <- ReplMarks
INVARIANTS Judge
