-------------------------- MODULE GraphemesTable --------------------------
(* Table rows and per-source laws of Graphemes.tla, shared by the exhaustive enumeration
   (MC_Graphemes) and by the judgement of generated sources (MC_GraphemesCases).

   A row belongs to one string SOURCE and an alphabet name (which fixes the replacement strings and
   the single-symbol needles).  It holds the value, its characters, every index and slice (with
   failures), utf8 / toLower / hex, and for every needle (every contiguous fragment of the source
   and of the value - aligned or not with the character boundaries - plus every single symbol of a
   class-focused alphabet) the predicted contains / index / count / split / replaceAll (= join of
   the split) / comparison / concatenation.  Symbols are single letters, so symbol sequences print
   as short strings.  Rows of the full alphabet up to RankLen symbols also carry the comparison of
   the value with every other such value (ordering and equality of all pairs). *)
EXTENDS Graphemes, Json
CONSTANTS RankLen            \* sources of the full alphabet up to this length are compared with each other

RECURSIVE Str(_)
Str(q) == IF q = << >> THEN "" ELSE Head(q) \o Str(Tail(q))
StrAll(qs) == [i \in 1..Len(qs) |-> Str(qs[i])]

\* alphabets: the full one and class-focused ones (6 and 5 symbols)
SymsOf(a) == CASE a = "Full" -> AllSyms
               [] a = "Marks6"  -> {"b", "E", "e", "d", "M", "S"}     \* NFC pairs, marks, a class-0 mark
               [] a = "Emoji6"  -> {"b", "P", "Z", "S", "R", "M"}     \* emoji ZWJ sequences, flags
               [] a = "Hangul6" -> {"L", "V", "T", "G", "H", "M"}     \* jamo / syllable composition
               [] a = "Lines6"  -> {"C", "F", "b", "M", "Z", "R"}     \* CR LF against extenders
               [] a = "Marks5"  -> {"b", "E", "d", "M", "S"}
               [] a = "Emoji5"  -> {"b", "P", "Z", "S", "R"}
               [] a = "Hangul5" -> {"L", "V", "T", "G", "M"}
               [] a = "Lines5"  -> {"C", "F", "b", "M", "R"}
AlphabetNames == {"Full", "Marks6", "Emoji6", "Hangul6", "Lines6", "Marks5", "Emoji5", "Hangul5", "Lines5"}
\* replacement / separator sources used with replaceAll and join
ReplOf(a) == CASE a = "Full" -> << << >>, <<"M">> >>
               [] a \in {"Marks6", "Marks5"}   -> << << >>, <<"M">>, <<"e">> >>
               [] a \in {"Emoji6", "Emoji5"}   -> << << >>, <<"Z">>, <<"R">> >>
               [] a \in {"Hangul6", "Hangul5"} -> << << >>, <<"V">>, <<"T">> >>
               [] a \in {"Lines6", "Lines5"}   -> << << >>, <<"F">>, <<"M">> >>
ReplVals == [a \in AlphabetNames |-> [r \in 1..Len(ReplOf(a)) |-> Chars(ReplOf(a)[r])]]

\* the facts about the alphabet, printed once for the driver's validation against the Unicode libraries
ASSUME PrintT(ToJson([alphabet |-> [x \in AllSyms |-> [cp |-> CP(x), class |-> Class(x), ccc |-> CCC(x), decomp |-> Str(Decomp(x)),
                                                       lower |-> Lower(x), hex |-> HexVal(x)]]]))

Frags(q) == {SubSeq(q, i, j) : i \in 1..Len(q), j \in 1..Len(q)} \ {<< >>}
Needles(a, src) == Frags(src) \cup Frags(Norm(src)) \cup (IF a = "Full" THEN {} ELSE {<<x>> : x \in SymsOf(a)})

\* ---- ordering: every value of the full alphabet up to RankLen symbols compared with every other one
RECURSIVE SrcsUpTo(_)
SrcsUpTo(k) == IF k = 0 THEN {<< >>} ELSE LET P == SrcsUpTo(k - 1) IN P \cup {Append(q, x) : q \in P, x \in AllSyms}
RankTexts == TLCEval({Norm(q) : q \in SrcsUpTo(RankLen)})
CmpText(v, w) == IF v = w THEN 0 ELSE IF LessCP(v, w) THEN -1 ELSE 1
\* strict total order: exactly one of v < w, v = w, w < v; transitivity over the values it is compared with
OrderLaws(v) == /\ \A w \in RankTexts : CmpText(v, w) = 0 - CmpText(w, v)
                /\ \A w \in RankTexts : Len(w) <= 1 => \A u \in RankTexts :
                      (LessCP(w, v) /\ LessCP(v, u) => LessCP(w, u)) /\ (LessCP(u, w) /\ LessCP(w, v) => LessCP(u, v))

\* one needle: Count and ReplaceAll are unfolded (Count = parts - 1, ReplaceAll = Join of the split when the
\* needle occurs) so that the split is evaluated once
NRow(h, nsrc, repl) ==
  LET n == Chars(nsrc)  c == Contains(h, n)  sp == Split(h, n)  cc == Concat(h, n)  hs == Str(Text(h)) IN
  [n |-> Str(nsrc), nv |-> Str(Text(n)), c |-> c, i |-> IndexOf(h, n), k |-> Len(sp) - 1,
   sp |-> [p \in 1..Len(sp) |-> Str(Text(sp[p]))],
   rp |-> [r \in 1..Len(repl) |-> IF c THEN Str(Text(Join(sp, repl[r]))) ELSE hs],
   cmp |-> Cmp(h, n), cc |-> Str(Text(cc)), ccl |-> Length(cc)]

Row(a, src) ==
  LET h == Chars(src)  len == Length(h)  lo == ToLower(h)  u8 == Utf8(h) IN
  [al |-> a, s |-> Str(src), v |-> Str(Text(h)), cl |-> StrAll(h),
   ix |-> [i \in 1..(len + 2) |-> IF CharAtFails(h, i - 2) THEN "!" ELSE Str(CharAt(h, i - 2))],             \* h[-1] .. h[len]
   sl |-> [f \in 1..(len + 3) |-> [t \in 1..(len + 3) |->                                                     \* from, upTo in -1 .. len+1
             IF SliceFails(h, f - 2, t - 2) THEN "!" ELSE Str(Text(Slice(h, f - 2, t - 2)))]],
   u8 |-> u8, lo |-> Str(Text(lo)), lol |-> Length(lo), hx |-> EncodeHex(u8),
   dh |-> IF DecodeHexFails(h) THEN <<-1>> ELSE DecodeHex(h),
   cm |-> IF a = "Full" /\ Len(src) <= RankLen THEN {<<Str(w), CmpText(Text(h), w)>> : w \in RankTexts} ELSE {},
   rs |-> [r \in 1..Len(ReplOf(a)) |-> Str(ReplOf(a)[r])],
   nd |-> {NRow(h, x, ReplVals[a]) : x \in Needles(a, src)}]

Laws(a, src) == LET h == Chars(src) IN
                /\ SegmentationLaws(src) /\ SegmentationLaws(Norm(src)) /\ NormLaws(src)
                /\ \A x \in Needles(a, src) : NeedleLaws(h, Chars(x))
                /\ \A r \in 1..Len(ReplOf(a)) : SegmentationLaws(Norm(ReplOf(a)[r]))
                /\ (a = "Full" /\ Len(src) <= RankLen) => OrderLaws(Norm(src))
=============================================================================
