SPECIFICATION TraceSpec
CONSTANTS
  Alphabet = {}
  MaxLen = 0
INVARIANT HistoryFree
