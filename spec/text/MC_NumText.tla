---------------------------- MODULE MC_NumText ----------------------------
(* Mode "enum": every string of length <= N over the class alphabet { + - 0 7 _ . space x }: one TLC state per string;
   row <<"E", s, per-class results [si, ui, sf, uf] (0 = nil, else [n, i, f] = sign, integer digits, fractional digits),
        types for which an accepted string is nil because of range or scale>>.
   Mode "file": cases.ndjson, one state per case:
     [k |-> "P", s, t]        fromString row  <<"P", t, s, result, why>>       result = 0 | [n, d] (scaled magnitude digits)
     [k |-> "S", t, neg, d]   toString row    <<"S", t, neg, d, text>>         (only when the value is in range)
     [k |-> "B", t, b]        bytes row       <<"B", t, b, result, canonical bytes, alternative result, its bytes>>
     [k |-> "A", b] / [k |-> "H", b] / [k |-> "Q", dom, id]   address / hex / path text rows *)
EXTENDS NumText, Json, TLC
CONSTANTS Mode, N
VARIABLES ph, s, a
vars == <<ph, s, a>>
Alpha == {"+", "-", "0", "7", "_", ".", " ", "x"}
Cases == TLCEval(IF Mode = "file" THEN ndJsonDeserialize("cases.ndjson") ELSE << >>)
Init == ph = 0 /\ s = << >> /\ a = 0
Next == IF Mode = "enum"
        THEN ph = 0 /\ Len(s) < N /\ \E c \in Alpha : s' = Append(s, c) /\ ph' = 0 /\ a' = 0
        ELSE \/ ph = 0 /\ ph' = 1 /\ a' \in 0..((Len(Cases) - 1) \div 32) /\ s' = s
             \/ ph = 1 /\ ph' = 2 /\ a' \in {x \in (a * 32 + 1)..(a * 32 + 32) : x <= Len(Cases)} /\ s' = s
Spec == Init /\ [][Next]_vars

Cls == [si |-> [signed |-> TRUE, fixed |-> FALSE], ui |-> [signed |-> FALSE, fixed |-> FALSE],
        sf |-> [signed |-> TRUE, fixed |-> TRUE], uf |-> [signed |-> FALSE, fixed |-> TRUE]]
ClassRes(cl, str) == IF Accepts(cl, str) THEN LET p == Parts(str) IN [n |-> p.neg, i |-> p.i, f |-> p.f] ELSE 0
Res(r) == IF r.ok THEN [n |-> r.neg, d |-> r.d] ELSE 0
EnumJudge ==
  LET acc == TLCEval([c \in DOMAIN Cls |-> Accepts(Cls[c], s)])
      res == [c \in DOMAIN Cls |-> IF acc[c] THEN LET p == Parts(s) IN [n |-> p.neg, i |-> p.i, f |-> p.f] ELSE 0]
      anyAcc == \E c \in DOMAIN Cls : acc[c]
      out == IF anyAcc THEN {t \in TypeNames : Accepts(ClassOf(TypeInfo[t]), s) /\ ~FromString(TypeInfo[t], s).ok} ELSE {}
  IN /\ anyAcc => WidthIndependent(s)
     /\ PrintT(ToJson(<<"E", s, res, out>>))
FileJudge ==
  LET c == Cases[a] IN
  CASE c.k = "P" -> PrintT(ToJson(<<"P", c.t, c.s, Res(FromString(TypeInfo[c.t], c.s)), FromStringWhy(TypeInfo[c.t], c.s)>>))
    [] c.k = "S" -> LET ti == TypeInfo[c.t]  v == Val(c.neg, c.d) IN
                    IF ~InRange(ti, v.neg, v.d) THEN TRUE
                    ELSE /\ StringRoundTrip(ti, v) /\ BytesRoundTrip(ti, v)
                         /\ PrintT(ToJson(<<"S", c.t, v.neg, v.d, NumToString(ti, v), ToBigEndianBytes(ti, v)>>))
    [] c.k = "B" -> LET ti == TypeInfo[c.t]  r == FromBigEndianBytes(ti, c.b)  r2 == FromBigEndianBytesAlt(ti, c.b) IN
                    /\ r.ok => BytesRoundTrip(ti, [neg |-> r.neg, d |-> r.d])
                    /\ r2.ok => BytesRoundTrip(ti, [neg |-> r2.neg, d |-> r2.d])
                    /\ PrintT(ToJson(<<"B", c.t, c.b, Res(r), IF r.ok THEN ToBigEndianBytes(ti, [neg |-> r.neg, d |-> r.d]) ELSE 0,
                                       Res(r2), IF r2.ok THEN ToBigEndianBytes(ti, [neg |-> r2.neg, d |-> r2.d]) ELSE 0>>))
    [] c.k = "A" -> PrintT(ToJson(<<"A", c.b, AddressText(c.b)>>))
    [] c.k = "H" -> PrintT(ToJson(<<"H", c.b, HexOf(c.b)>>))
    [] c.k = "Q" -> PrintT(ToJson(<<"Q", c.dom, c.id, PathText(c.dom, c.id)>>))
Judge == IF Mode = "enum" THEN EnumJudge ELSE (ph = 2 => FileJudge)
=============================================================================
