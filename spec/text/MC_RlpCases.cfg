SPECIFICATION Spec
INVARIANTS GeneratorAgrees RoundTrips LawsHold Emit
