SPECIFICATION Spec
INVARIANTS GeneratorAgrees RoundTrips Judge
