SPECIFICATION Spec
CONSTANTS
  Alpha <- Emoji
  N = 5
  Repl <- ReplEmoji
INVARIANTS Judge
