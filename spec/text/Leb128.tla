------------------------------ MODULE Leb128 ------------------------------
(* LEB128 (little-endian base 128) variable-length integers, property C35.

   Two formulations that TLC checks against each other:
   * on TLC's native integers (|n| < 2^31): UEnc/SEnc as the textbook recursion on n mod 128 and
     floor(n / 128), UDec/SDec as the fold over septets, with the laws
         Dec(Enc(n) ++ anything) = (n, Len(Enc(n)))     and     Len(Enc(n)) = the closed form;
   * on exact big numbers (sign + big-endian byte sequence, any size): the same recursion with long
     division of a byte sequence by 128, and decoding by multiply-add; this is what produces the
     expected bytes at every 7-bit boundary up to 2^64.
   Unsigned: emit the low 7 bits, set the continuation bit 0x80 while the rest is non-zero.
   Signed (two's complement): emit the low 7 bits of z; stop when the rest (floor(z/128)) is 0 and bit 6
   is clear, or the rest is -1 and bit 6 is set. *)
EXTENDS Integers, Sequences, FiniteSets, TLC

\* ------------------------------------------------------------------ native integers
RECURSIVE UEnc(_)
UEnc(n) == IF n < 128 THEN <<n>> ELSE <<(n % 128) + 128>> \o UEnc(n \div 128)
RECURSIVE SEnc(_)
SEnc(z) == LET b == z % 128                      \* in 0..127 also for negative z
               q == (z - b) \div 128             \* floor(z / 128)
           IN IF (q = 0 /\ b < 64) \/ (q = -1 /\ b >= 64) THEN <<b>> ELSE <<b + 128>> \o SEnc(q)

\* decoding reads from index i and ignores what follows the last septet: [val, len]
RECURSIVE UDecAt(_, _)
UDecAt(bs, i) == IF bs[i] < 128 THEN [val |-> bs[i], len |-> i]
                 ELSE LET r == UDecAt(bs, i + 1) IN [val |-> (bs[i] - 128) + 128 * r.val, len |-> r.len]
UDec(bs) == UDecAt(bs, 1)
RECURSIVE SDecAt(_, _)
SDecAt(bs, i) == IF bs[i] < 128 THEN [val |-> IF bs[i] >= 64 THEN bs[i] - 128 ELSE bs[i], len |-> i]
                 ELSE LET r == SDecAt(bs, i + 1) IN [val |-> (bs[i] - 128) + 128 * r.val, len |-> r.len]
SDec(bs) == SDecAt(bs, 1)

RECURSIVE Pow(_, _)
Pow(b, k) == IF k = 0 THEN 1 ELSE b * Pow(b, k - 1)
\* closed forms of the length (k <= 4 keeps 128^k inside TLC's integers)
ULen(n) == CHOOSE k \in 1..4 : (k = 1 \/ n >= Pow(128, k - 1)) /\ n < Pow(128, k)
SLen(z) == CHOOSE k \in 1..4 : /\ -64 * Pow(128, k - 1) <= z /\ z < 64 * Pow(128, k - 1)
                               /\ (k = 1 \/ ~(-64 * Pow(128, k - 2) <= z /\ z < 64 * Pow(128, k - 2)))
Garbage == <<255, 0, 128>>
WellFormed(e) == /\ \A i \in 1..(Len(e) - 1) : e[i] >= 128 /\ e[i] <= 255
                 /\ e[Len(e)] < 128 /\ e[Len(e)] >= 0
ULaws(n) == LET e == UEnc(n) IN
            /\ WellFormed(e)
            /\ UDec(e \o Garbage) = [val |-> n, len |-> Len(e)]
            /\ Len(e) = ULen(n)
            /\ (Len(e) > 1 => e[Len(e)] # 0)                     \* minimal: no zero septet on top
SLaws(z) == LET e == SEnc(z) IN
            /\ WellFormed(e)
            /\ SDec(e \o Garbage) = [val |-> z, len |-> Len(e)]
            /\ Len(e) = SLen(z)
            /\ (z >= 0 => UDec(e).val = z \/ e[Len(e)] = 0)      \* for z >= 0 signed = unsigned, plus a zero septet when bit 6 is set

\* ------------------------------------------------------------------ exact big numbers
\* magnitude = big-endian byte sequence; a number is [neg, mag]
RECURSIVE Strip(_)
Strip(bs) == IF Len(bs) = 0 THEN bs ELSE IF bs[1] = 0 THEN Strip(Tail(bs)) ELSE bs
Front(bs) == SubSeq(bs, 1, Len(bs) - 1)
RECURSIVE Inc(_)
Inc(bs) == IF Len(bs) = 0 THEN <<1>> ELSE IF bs[Len(bs)] = 255 THEN Inc(Front(bs)) \o <<0>> ELSE Front(bs) \o <<bs[Len(bs)] + 1>>
RECURSIVE DecB(_)
DecB(bs) == IF bs[Len(bs)] = 0 THEN DecB(Front(bs)) \o <<255>> ELSE Front(bs) \o <<bs[Len(bs)] - 1>>    \* bs # 0
\* long division by 128, most significant byte first: [q, r]
RECURSIVE DM(_, _, _)
DM(bs, i, carry) == IF i > Len(bs) THEN [q |-> << >>, r |-> carry]
                    ELSE LET cur == carry * 256 + bs[i]  rest == DM(bs, i + 1, cur % 128)
                         IN [q |-> <<cur \div 128>> \o rest.q, r |-> rest.r]
DivMod128(bs) == LET d == DM(bs, 1, 0) IN [q |-> Strip(d.q), r |-> d.r]
\* bs * 128 + d
RECURSIVE MA(_, _)
MA(bs, carry) == IF Len(bs) = 0 THEN (IF carry = 0 THEN << >> ELSE <<carry>>)
                 ELSE LET cur == bs[Len(bs)] * 128 + carry IN MA(Front(bs), cur \div 256) \o <<cur % 256>>
MulAdd128(bs, d) == Strip(MA(bs, d))

RECURSIVE UEncB(_)
UEncB(mag) == LET s == Strip(mag) IN
              IF Len(s) = 0 THEN <<0>>
              ELSE IF Len(s) = 1 /\ s[1] < 128 THEN <<s[1]>>
              ELSE LET d == DivMod128(s) IN <<d.r + 128>> \o UEncB(d.q)
\* floor division of [neg, mag] by 128: [neg, mag, b] with b the non-negative remainder
FloorDiv128(neg, mag) ==
  LET d == DivMod128(Strip(mag)) IN
  IF ~neg \/ Len(Strip(mag)) = 0 THEN [neg |-> FALSE, mag |-> d.q, b |-> d.r]
  ELSE IF d.r = 0 THEN [neg |-> Len(d.q) > 0, mag |-> d.q, b |-> 0]
  ELSE [neg |-> TRUE, mag |-> Inc(d.q), b |-> 128 - d.r]
RECURSIVE SEncB(_, _)
SEncB(neg, mag) == LET f == FloorDiv128(neg, mag) IN
                   IF (Len(f.mag) = 0 /\ f.b < 64) \/ (f.neg /\ f.mag = <<1>> /\ f.b >= 64) THEN <<f.b>>
                   ELSE <<f.b + 128>> \o SEncB(f.neg, f.mag)
\* decoding: septets (least significant first) -> magnitude
Septets(e) == [i \in 1..Len(e) |-> e[i] % 128]
RECURSIVE FromSeptets(_)
FromSeptets(ds) == IF Len(ds) = 0 THEN << >> ELSE MulAdd128(FromSeptets(Tail(ds)), ds[1])
UDecB(e) == FromSeptets(Septets(e))
\* two's complement on septets: 128^k - U
RECURSIVE Inc7(_)
Inc7(ds) == IF Len(ds) = 0 THEN << >> ELSE IF ds[1] = 127 THEN <<0>> \o Inc7(Tail(ds)) ELSE <<ds[1] + 1>> \o Tail(ds)
SDecB(e) == LET ds == Septets(e) IN
            IF ds[Len(ds)] >= 64 THEN [neg |-> TRUE, mag |-> FromSeptets(Inc7([i \in 1..Len(ds) |-> 127 - ds[i]]))]
            ELSE [neg |-> FALSE, mag |-> FromSeptets(ds)]
BLaws(neg, mag) ==
  LET s == Strip(mag) IN
  /\ ~neg => (LET e == UEncB(s) IN WellFormed(e) /\ UDecB(e) = s /\ (Len(e) > 1 => e[Len(e)] # 0))
  /\ LET e == SEncB(neg, s) IN WellFormed(e) /\ SDecB(e) = [neg |-> neg /\ Len(s) > 0, mag |-> s]

\* the two formulations agree on native values
RECURSIVE ToBytes(_)
ToBytes(n) == IF n = 0 THEN << >> ELSE ToBytes(n \div 256) \o <<n % 256>>
Abs(z) == IF z < 0 THEN -z ELSE z
AgreeOn(n) == /\ UEncB(ToBytes(n)) = UEnc(n)
              /\ SEncB(FALSE, ToBytes(n)) = SEnc(n)
              /\ SEncB(TRUE, ToBytes(n)) = SEnc(-n)
=============================================================================
