---------------------------- MODULE MC_Literals ----------------------------
(* Mode "int": every (prefix, body) with body of length <= N (decimal) / <= N - 2 (prefixed) over the base's class
   alphabet incl. "_" and one digit outside the base; row
      <<"I", prefix, body, valid, value digits, types rejecting +literal, types rejecting -literal>>.
   Mode "fix": every string of length <= N over {0,1,9,_,.} with exactly one point; row
      <<"F", int part, frac part, valid, [per fixed type: accept/scaled digits/why for + and -]>>.
   Mode "file": cases.ndjson (long literals at the range boundaries of every type, string literals). *)
EXTENDS Literals, Json, FiniteSets
CONSTANTS Mode, N
VARIABLES ph, p, s, a
vars == <<ph, p, s, a>>
IntTypes == {t \in TypeNames : ~TypeInfo[t].fixed}
FixTypes == {t \in TypeNames : TypeInfo[t].fixed}
Prefixes == {<< >>, <<"0", "b">>, <<"0", "o">>, <<"0", "x">>}
AlphaOf(pre) == CASE pre = << >> -> {"0", "1", "9", "_"} [] pre = <<"0", "b">> -> {"0", "1", "_", "2"}
                  [] pre = <<"0", "o">> -> {"0", "7", "_", "8"} [] OTHER -> {"0", "9", "a", "F", "_", "g"}
FixAlpha == {"0", "1", "9", "_", "."}
Cases == TLCEval(IF Mode = "file" THEN ndJsonDeserialize("cases.ndjson") ELSE << >>)
Init == ph = 0 /\ p = << >> /\ s = << >> /\ a = 0
Next ==
  CASE Mode = "int" -> \/ ph = 0 /\ ph' = 1 /\ p' \in Prefixes /\ s' = s /\ a' = a
                       \/ ph = 1 /\ Len(p) + Len(s) < N /\ (\E c \in AlphaOf(p) : s' = Append(s, c)) /\ UNCHANGED <<ph, p, a>>
    [] Mode = "fix" -> ph = 0 /\ Len(s) < N /\ (\E c \in FixAlpha : s' = Append(s, c)) /\ UNCHANGED <<ph, p, a>>
    [] OTHER -> \/ ph = 0 /\ ph' = 1 /\ a' \in 0..((Len(Cases) - 1) \div 32) /\ UNCHANGED <<p, s>>
                \/ ph = 1 /\ ph' = 2 /\ a' \in {x \in (a * 32 + 1)..(a * 32 + 32) : x <= Len(Cases)} /\ UNCHANGED <<p, s>>
Spec == Init /\ [][Next]_vars

IntJudge ==
  (ph = 1 /\ Len(s) > 0) =>
  LET base == BaseOf(p)  valid == ValidBody(base, s)
      d == IF valid THEN IntValue(base, s) ELSE << >> IN
  PrintT(ToJson(<<"I", p, s, valid, d,
                  IF valid THEN {t \in IntTypes : ~InRange(TypeInfo[t], FALSE, d)} ELSE IntTypes,
                  IF valid THEN {t \in IntTypes : ~InRange(TypeInfo[t], Len(d) > 0, d)} ELSE IntTypes>>))
Points == {i \in 1..Len(s) : s[i] = "."}
FixRes(t, neg, ip, fp) == LET r == FixedLiteral(TypeInfo[t], neg, ip, fp) IN [a |-> r.accept, d |-> r.d, w |-> r.why]
FixJudge ==
  Cardinality(Points) = 1 =>
  LET i == CHOOSE x \in Points : TRUE
      ip == SubSeq(s, 1, i - 1)  fp == SubSeq(s, i + 1, Len(s)) IN
  PrintT(ToJson(<<"F", ip, fp, ValidBody(10, ip) /\ ValidBody(10, fp),
                  [t \in FixTypes |-> <<FixRes(t, FALSE, ip, fp), FixRes(t, TRUE, ip, fp)>>]>>))
FileJudge ==
  LET c == Cases[a] IN
  CASE c.k = "I" -> LET r == IntLiteral(TypeInfo[c.t], c.neg, c.prefix, c.body) IN
                    PrintT(ToJson(<<"IP", c.t, c.neg, c.prefix, c.body, r.valid, r.accept, r.d>>))
    [] c.k = "F" -> LET r == FixedLiteral(TypeInfo[c.t], c.neg, c.ip, c.fp) IN
                    PrintT(ToJson(<<"FP", c.t, c.neg, c.ip, c.fp, r.valid, r.accept, r.d, r.why>>))
    [] c.k = "S" -> LET r == StringLiteral(c.toks) IN PrintT(ToJson(<<"S", c.toks, r.valid, r.cps, c.ch, r.why>>))
Judge == CASE Mode = "int" -> IntJudge [] Mode = "fix" -> FixJudge [] OTHER -> (ph = 2 => FileJudge)
=============================================================================
