SPECIFICATION Spec
CONSTANTS
  Mode = "fix"
  N = 6
INVARIANTS Judge
