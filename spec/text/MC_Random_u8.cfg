SPECIFICATION Spec
CONSTANTS
  Mode = "u8"
  M16 = {}
INVARIANTS Judge Uniform NoModuloBijective
