SPECIFICATION Spec
CONSTANTS
  Mode = "fix"
  N = 7
INVARIANTS Judge
