SPECIFICATION Spec
CONSTANTS
  Alpha <- Full
  N = 3
  Repl <- ReplFull
INVARIANTS Judge
