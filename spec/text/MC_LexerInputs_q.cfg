SPECIFICATION Spec
CONSTANTS
  Frags <- QuickFrags
  MaxLen = 4
INVARIANTS TypeOK Emit
