---- MODULE Cover_Contracts ----
(* Transition cover of the bounded Contracts model with a history variable hidden by VIEW: the
   action constraint prints, for every generated transition, the behaviour that leads to it, the
   in-transaction view after it (what a commit at that point would publish) and what later
   scripts observe of that view. *)
EXTENDS Contracts
VARIABLE hist
\* steps that end a transaction carry the committed view the specification predicts after them
\* ... and steps inside a transaction carry the in-transaction view after them
Entry == IF phase' = "idle" /\ last'.op # "init" THEN last' @@ [com |-> ObsOf(com')] ELSE last' @@ [view |-> TxView']
TransInit == Init /\ hist = << >>
TransNext == Next /\ hist' = Append(hist, Entry)
TransSpec == TransInit /\ [][TransNext]_<<vars, hist>>
TransEmit == PrintT(ToJson([h |-> hist', open |-> (phase' = "tx"), cur |-> ObsOf(cur')]))
====
