---------------------------- MODULE Determinism ----------------------------
(* Outcomes are a function of (program, pre-state) (properties C33 and C31).

   An observation is a pair (key, digest): the key names what was executed (a history prefix and
   engine for C33; a program and engine for C31), the digest summarises everything host-visible
   (C33: result, error, events, logs, ordered register writes; C31: the exact sequence of
   (kind, amount) computation and memory meterings). Observations arrive from many runs:
   repeated runs, fresh processes, different CPU counts / GOMAXPROCS, and -- for C31 -- after
   arbitrary prefixes of other programs in the same process (warm caches).
   `seen` is the function built so far; an observation that disagrees with it is the bad step. *)
EXTENDS Naturals, Sequences, TLC, FiniteSets
CONSTANTS Keys, Digests
VARIABLES seen, nobs
dvars == <<seen, nobs>>
Undefined == "?"
DInit == seen = [k \in Keys |-> Undefined] /\ nobs = 0
Observe(k, d) == /\ seen[k] \in {Undefined, d}
                 /\ seen' = [seen EXCEPT ![k] = d]
                 /\ nobs' = nobs + 1
DNext == \E k \in Keys, d \in Digests : Observe(k, d)
DSpec == DInit /\ [][DNext]_dvars
\* the design property: once a digest is recorded for a key it never changes
Functional == [][\A k \in Keys : seen[k] # Undefined => seen'[k] = seen[k]]_dvars
=============================================================================
