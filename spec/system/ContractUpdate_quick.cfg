SPECIFICATION Spec
CONSTANTS
  MaxMut = 1
  MaxOldMut = 1
INVARIANTS SchemasWellFormed UsableReflexive Lemmas Emit
VIEW view
