SPECIFICATION Spec
CONSTANTS
  MaxMut = 1
  MaxOldMut = 1
  Chain = FALSE
INVARIANTS SchemasWellFormed UsableReflexive Lemmas Emit
VIEW view
