SPECIFICATION Spec
CONSTANTS
  Ids = {1, 2, 3}
  Slots = {1}
  Accts = {1}
  Paths = {1}
  Keys = {1}
  MaxKids = 2
  MaxDepth = 2
  MaxOps = 2
  MaxTx = 0
  NoEvent = {3}
  Big = {2}
  SlotRep <- MCSlotRep1
  OCells = {}
  OKeys = {}
  Forms = {"bad"}
INVARIANTS TypeOK Conservation OnePlace WellFormed EventsOnce IdleClean
PROPERTIES DestroyedForever OnlyCommitChangesCommitted
VIEW view
ACTION_CONSTRAINT EmitT
