---- MODULE LimitShapes ----
(* The space of unbounded program shapes for C30: which unbounded construct drives the execution,
   what each round of it does, and which limit is configured. TLC enumerates the space; the
   harness renders every shape to Cadence and runs it on every engine. `Expect(s)` is the set of
   terminal outcomes Metering.tla allows for the shape (it can never finish normally). *)
EXTENDS Naturals, Sequences, TLC, Json, FiniteSets
Loops == {"while", "for-growing-array", "for-range-huge", "recursion", "mutual-recursion", "closure-recursion",
          "method-recursion", "map-callback", "filter-callback", "forEachKey-callback", "forEachStored-callback",
          "forEachController-callback", "forEachAttachment-callback", "string-doubling", "array-doubling",
          "dict-growing", "nested-value", "interface-default-recursion", "condition-recursion",
          \* recursion whose every edge goes through a natively invoked function: a higher-order
          \* built-in's callback or a constructor (initializer)
          "map-callback-recursion", "optional-map-recursion", "forEachKey-recursion", "constructor-recursion",
          "filter-callback-recursion"}
Bodies == {"empty", "arith", "concat", "append", "dict-insert", "call", "resource", "log", "emit", "optional", "cast", "ref",
           \* invocation paths with their own depth bookkeeping: optional chaining on a nil receiver (the call is
           \* skipped), on a present receiver, a bound function value, a call skipped by short-circuiting
           "optchain-nil", "optchain-some", "bound-call", "skipped-call"}
Limits == {"computation-small", "computation-large", "memory", "depth", "computation+memory"}
\* constructs that carry their own work and take no separate body
NoBody == {"string-doubling", "array-doubling", "dict-growing", "nested-value", "for-range-huge"}
Recursive == {"recursion", "mutual-recursion", "closure-recursion", "method-recursion",
              "interface-default-recursion", "condition-recursion",
              "map-callback-recursion", "optional-map-recursion", "forEachKey-recursion", "constructor-recursion",
              "filter-callback-recursion"}
Shapes == {[loop |-> l, body |-> b, limit |-> m] : l \in Loops, b \in Bodies, m \in Limits}
Valid(s) == /\ (s.loop \in NoBody => s.body = "empty")
            /\ (s.limit = "depth" => s.loop \in Recursive \ {"condition-recursion"})
            /\ (s.loop \in {"filter-callback", "condition-recursion", "filter-callback-recursion"} => s.body \in {"empty", "arith", "optional", "cast", "optchain-nil"})   \* view context: pure bodies only                    \* only recursion reaches the depth limit
            /\ (s.limit = "memory" => (s.loop \in NoBody \/ s.body \in {"concat", "append", "dict-insert", "resource", "call", "optional"} \/ s.loop \in Recursive))
\* every shape runs with a finite computation limit and a finite call-depth limit (both always
\* configured); the named limit is the one expected to trip first, but Metering.tla allows any of
\* the configured limits to end the execution.
Expect(s) == LET base == CASE s.limit = "depth" -> {"depth"}
                           [] s.limit = "memory" -> {"memory", "computation"}
                           [] s.limit = "computation+memory" -> {"computation", "memory"}
                           [] OTHER -> {"computation"}
             IN IF s.loop \in Recursive THEN base \cup {"depth"} ELSE base
All == {s \in Shapes : Valid(s)}
\* quick tier: every construct with every limit, a covering choice of bodies
QuickBodies == {"empty", "append", "call", "resource", "cast", "optchain-nil", "bound-call"}
Quick == {s \in All : s.body \in QuickBodies /\ (s.limit \in {"computation-small", "memory", "depth"} \/ s.body = "empty")}
ASSUME PrintT(ToJson([shapes |-> {s @@ [expect |-> Expect(s)] : s \in All},
                       quick  |-> {s @@ [expect |-> Expect(s)] : s \in Quick}]))
VARIABLE x
Init == x = 0
Next == UNCHANGED x
====
