---------------------------- MODULE Attachments ----------------------------
(* Attachment lifecycle (property C49).

   Resource side: bases are resources (Bases) living in transaction-local slots or at storage
   paths; attachment types AttTys; att[b][y] is the tag of the attachment of type y on base b, or
   0 when there is none - so "at most one attachment of each type" is structural, and what has
   to be shown is that every action preserves it the way the language says:
     Attach    moves the base into the result; fails (aborting the transaction, nothing changes)
               when an attachment of that type is already there
     Access    `b[Y]` through an owned value or a borrowed reference: nil or the attachment, whose
               functions see `self` (its own tag) and `base` (the *current* base: id and uuid)
     Remove    destroys the attachment (its destroy event is emitted); no-op when absent
     Move      through variables, arrays and storage: the attachments travel with the base
     Destroy   destroys all attachments of the base (their events) and the base (its event)
     ForEach   forEachAttachment visits exactly the attached types
   Struct side: two struct variables and one storage path; a struct attachment is part of the value:
   copying the base copies the attachment, later changes to one copy (field write, remove, attach)
   do not affect the other, and `base` in the attachment's functions is the copy it sits on.
   Tags are fresh per attach, so a re-attached attachment is distinguishable from the removed one. *)
EXTENDS Integers, Sequences, FiniteSets, TLC, Json
CONSTANTS Bases, AttTys, Slots, Paths, SlotRep, MaxTags, MaxOps, MaxTx,
          SSlots,      \* struct variables ({} disables the struct side)
          XVals,       \* values written to the struct field x
          Ops          \* "res": resource side enabled; "sec": entitled access; "noabort": no explicit Abort

Nowhere == [k |-> "none", a |-> 0, b |-> 0]
SlotPl(i)  == [k |-> "slot",  a |-> i, b |-> 0]
StorePl(p) == [k |-> "store", a |-> 1, b |-> p]
Places == {SlotPl(i) : i \in Slots} \cup {StorePl(p) : p \in Paths}
NoAtt == [y \in AttTys |-> 0]
NoS   == [full |-> FALSE, x |-> 0, sa |-> 0]

VARIABLES loc, att, created, destroyed, ntag, dtags,
          sv,       \* [SSlots -> [x, sa]]   struct variables of the running transaction
          sst,      \* stored struct: [full, x, sa]
          com, phase, nops, ntx, last
vars == <<loc, att, created, destroyed, ntag, dtags, sv, sst, com, phase, nops, ntx, last>>
view == <<loc, att, created, destroyed, ntag, dtags, sv, sst, com, phase, nops, ntx>>

Live  == {b \in Bases : loc[b] # Nowhere}
At(pl) == {b \in Bases : loc[b] = pl}
The(S) == CHOOSE x \in S : TRUE
SV0 == [i \in SSlots |-> [x |-> i, sa |-> 0]]       \* `var tI = T.S(I)`
Snapshot == [loc |-> loc, att |-> att, created |-> created, destroyed |-> destroyed,
             ntag |-> ntag, dtags |-> dtags, sst |-> sst]

\* ------------------------------------------------------------ observations
SetToSeq(S) == CHOOSE f \in [1..Cardinality(S) -> S] : \A i, j \in 1..Cardinality(S) : i < j => f[i] < f[j]
RECURSIVE AttStr(_, _, _)
AttStr(a, b, ys) == IF ys = << >> THEN ""
                    ELSE (IF a[Head(ys)] = 0 THEN ""
                          ELSE Head(ys) \o ":" \o ToString(a[Head(ys)]) \o ":" \o ToString(b) \o ",")
                         \o AttStr(a, b, Tail(ys))
TySeq == IF AttTys = {"A", "B"} THEN <<"A", "B">> ELSE IF AttTys = {"A"} THEN <<"A">> ELSE <<"B">>
BaseDesc(l, a, b) == ToString(b) \o "<" \o AttStr(a[b], b, TySeq) \o ">"
PlDesc(l, a, pl) == LET S == {b \in Bases : l[b] = pl} IN IF S = {} THEN "-" ELSE BaseDesc(l, a, The(S))
SDesc(s) == "S(" \o ToString(s.x) \o ")<" \o (IF s.sa = 0 THEN "" ELSE "SA:" \o ToString(s.sa) \o ":" \o ToString(s.x)) \o ">"
StoreDesc(l, a, ss) == [n \in 1..Cardinality(Paths) |-> PlDesc(l, a, StorePl(SetToSeq(Paths)[n]))]
                       \o << IF ss.full THEN SDesc(ss) ELSE "-" >>
StateDesc(l, a, s, ss) ==
  [n \in 1..Cardinality(Slots) |-> PlDesc(l, a, SlotPl(SetToSeq(Slots)[n]))]
  \o [n \in 1..Cardinality(SSlots) |-> SDesc(s[SetToSeq(SSlots)[n]])]
  \o StoreDesc(l, a, ss)
EvOf(a, b) == {[y |-> y, tag |-> a[b][y], b |-> b] : y \in {z \in AttTys : a[b][z] # 0}}
              \cup {[y |-> "R", tag |-> 0, b |-> b]}

\* ------------------------------------------------------------ transactions
Init == /\ loc = [b \in Bases |-> Nowhere] /\ att = [b \in Bases |-> NoAtt]
        /\ created = {} /\ destroyed = {} /\ ntag = 0 /\ dtags = {}
        /\ sv = SV0 /\ sst = NoS
        /\ com = [loc |-> loc, att |-> att, created |-> created, destroyed |-> destroyed,
                  ntag |-> ntag, dtags |-> dtags, sst |-> sst]
        /\ phase = "idle" /\ nops = 0 /\ ntx = 0 /\ last = [op |-> "init"]
InTx == phase = "tx" /\ nops < MaxOps
Obs  == [st |-> StateDesc(loc', att', sv', sst')]
Ok(lbl) == /\ last' = lbl @@ Obs /\ nops' = nops + 1 /\ UNCHANGED <<com, phase, ntx>>
AbortTx(lbl) == /\ loc' = com.loc /\ att' = com.att /\ created' = com.created /\ destroyed' = com.destroyed
                /\ ntag' = com.ntag /\ dtags' = com.dtags /\ sst' = com.sst /\ sv' = SV0
                /\ phase' = "idle" /\ nops' = 0 /\ last' = lbl /\ UNCHANGED <<com, ntx>>
Begin == /\ phase = "idle" /\ (MaxTx = 0 \/ ntx < MaxTx) /\ phase' = "tx" /\ nops' = 0
         /\ ntx' = (IF MaxTx = 0 THEN 0 ELSE ntx + 1)
         /\ sv' = SV0
         /\ last' = [op |-> "begin"]
         /\ UNCHANGED <<loc, att, created, destroyed, ntag, dtags, sst, com>>
TagsOf(a, D) == {a[b][y] : b \in D, y \in AttTys} \ {0}
Commit ==
  /\ phase = "tx"
  /\ LET D  == {b \in Bases : loc[b].k = "slot"}
         l2 == [b \in Bases |-> IF b \in D THEN Nowhere ELSE loc[b]]
         a2 == [b \in Bases |-> IF b \in D THEN NoAtt ELSE att[b]] IN
     /\ loc' = l2 /\ att' = a2 /\ destroyed' = destroyed \cup D /\ dtags' = dtags \cup TagsOf(att, D)
     /\ com' = [loc |-> l2, att |-> a2, created |-> created, destroyed |-> destroyed \cup D,
                ntag |-> ntag, dtags |-> dtags \cup TagsOf(att, D), sst |-> sst]
     /\ phase' = "idle" /\ nops' = 0 /\ sv' = SV0
     /\ last' = [op |-> "commit", ev |-> UNION {EvOf(att, b) : b \in D}, cst |-> StoreDesc(l2, a2, sst)]
     /\ UNCHANGED <<created, ntag, sst, ntx>>
Abort == phase = "tx" /\ "noabort" \notin Ops /\ AbortTx([op |-> "abort"])

SameS == UNCHANGED <<sv, sst>>
SameR == UNCHANGED <<loc, att, created, destroyed, ntag, dtags>>
Res   == "res" \in Ops

\* ------------------------------------------------------------ resource side
Create(i) ==
  /\ InTx /\ Res /\ created # Bases /\ At(SlotPl(i)) = {}
  /\ LET b == CHOOSE x \in Bases \ created : \A z \in Bases \ created : x <= z IN
     /\ loc' = [loc EXCEPT ![b] = SlotPl(i)] /\ created' = created \cup {b}
     /\ UNCHANGED <<att, destroyed, ntag, dtags>> /\ SameS
     /\ Ok([op |-> "create", b |-> b, dp |-> SlotPl(i)])

\* `attach Y(tag) to <- base`: the base is taken out of its place, moved into the attach expression
\* and the result is put back; a second attachment of the same type fails
Attach(b, y) ==
  /\ InTx /\ Res /\ b \in Live /\ ntag < MaxTags
  /\ LET l == [op |-> "attach", b |-> b, y |-> y, tag |-> ntag + 1, sp |-> loc[b]] IN
     IF att[b][y] # 0 THEN AbortTx(l @@ [res |-> "err:dup"])
     ELSE /\ att' = [att EXCEPT ![b][y] = ntag + 1] /\ ntag' = ntag + 1
          /\ UNCHANGED <<loc, created, destroyed, dtags>> /\ SameS /\ Ok(l)

Access(b, y) ==
  /\ InTx /\ Res /\ b \in Live
  /\ SameR /\ SameS
  /\ Ok([op |-> "access", b |-> b, y |-> y, sp |-> loc[b],
         res |-> IF att[b][y] = 0 THEN "nil" ELSE y \o ":" \o ToString(att[b][y]) \o ":" \o ToString(b)])

\* entitled function of attachment A through an authorized borrowed reference
Sec(b) ==
  /\ InTx /\ "sec" \in Ops /\ "A" \in AttTys /\ b \in Live /\ loc[b].k = "store"
  /\ SameR /\ SameS
  /\ Ok([op |-> "sec", b |-> b, sp |-> loc[b],
         res |-> IF att[b]["A"] = 0 THEN "nil" ELSE ToString(att[b]["A"] * 1000 + b)])

ForEach(b) ==
  /\ InTx /\ Res /\ b \in Live
  /\ SameR /\ SameS
  /\ Ok([op |-> "foreach", b |-> b, sp |-> loc[b], res |-> {y \in AttTys : att[b][y] # 0}])

Remove(b, y) ==
  /\ InTx /\ Res /\ b \in Live
  /\ att' = [att EXCEPT ![b][y] = 0]
  /\ dtags' = dtags \cup ({att[b][y]} \ {0})
  /\ UNCHANGED <<loc, created, destroyed, ntag>> /\ SameS
  /\ Ok([op |-> "remove", b |-> b, y |-> y, sp |-> loc[b],
         ev |-> IF att[b][y] = 0 THEN {} ELSE {[y |-> y, tag |-> att[b][y], b |-> b]}])

Move(b, dst) ==
  /\ InTx /\ Res /\ b \in Live /\ dst \in Places /\ At(dst) = {}
  /\ loc' = [loc EXCEPT ![b] = dst]
  /\ UNCHANGED <<att, created, destroyed, ntag, dtags>> /\ SameS
  /\ Ok([op |-> "move", b |-> b, sp |-> loc[b], dp |-> dst])

Destroy(b) ==
  /\ InTx /\ Res /\ b \in Live
  /\ loc' = [loc EXCEPT ![b] = Nowhere] /\ att' = [att EXCEPT ![b] = NoAtt]
  /\ destroyed' = destroyed \cup {b} /\ dtags' = dtags \cup TagsOf(att, {b})
  /\ UNCHANGED <<created, ntag>> /\ SameS
  /\ Ok([op |-> "destroy", b |-> b, sp |-> loc[b], ev |-> EvOf(att, b)])

\* ------------------------------------------------------------ struct side
SAttach(i) ==
  /\ InTx /\ i \in SSlots /\ ntag < MaxTags
  /\ LET l == [op |-> "sattach", i |-> i, tag |-> ntag + 1] IN
     IF sv[i].sa # 0 THEN AbortTx(l @@ [res |-> "err:dup"])
     ELSE /\ sv' = [sv EXCEPT ![i].sa = ntag + 1] /\ ntag' = ntag + 1
          /\ UNCHANGED <<loc, att, created, destroyed, dtags, sst>> /\ Ok(l)
SCopy(i, j) ==
  /\ InTx /\ i \in SSlots /\ j \in SSlots /\ i # j
  /\ sv' = [sv EXCEPT ![j] = sv[i]] /\ SameR /\ UNCHANGED sst /\ Ok([op |-> "scopy", i |-> i, j |-> j])
SSet(i, x) ==
  /\ InTx /\ i \in SSlots /\ sv[i].x # x
  /\ sv' = [sv EXCEPT ![i].x = x] /\ SameR /\ UNCHANGED sst /\ Ok([op |-> "sset", i |-> i, x |-> x])
SRemove(i) ==
  /\ InTx /\ i \in SSlots /\ sv[i].sa # 0
  /\ sv' = [sv EXCEPT ![i].sa = 0] /\ SameR /\ UNCHANGED sst /\ Ok([op |-> "sremove", i |-> i])
\* overwrite by load + save of a copy
SSave(i) ==
  /\ InTx /\ i \in SSlots
  /\ sst' = [full |-> TRUE, x |-> sv[i].x, sa |-> sv[i].sa]
  /\ SameR /\ UNCHANGED sv /\ Ok([op |-> "ssave", i |-> i])
\* copy out of storage (storage keeps its value)
SLoad(i) ==
  /\ InTx /\ i \in SSlots /\ sst.full
  /\ sv' = [sv EXCEPT ![i] = [x |-> sst.x, sa |-> sst.sa]]
  /\ SameR /\ UNCHANGED sst /\ Ok([op |-> "sload", i |-> i])

Next == \/ Begin \/ Commit \/ Abort
        \/ \E i \in Slots : Create(i)
        \/ \E b \in Bases, y \in AttTys : Attach(b, y) \/ Access(b, y) \/ Remove(b, y)
        \/ \E b \in Bases : Sec(b) \/ ForEach(b) \/ Destroy(b)
        \/ \E b \in Bases, dst \in Places : Move(b, dst)
        \/ \E i \in SSlots : SAttach(i) \/ SRemove(i) \/ SSave(i) \/ SLoad(i)
        \/ \E i, j \in SSlots : SCopy(i, j)
        \/ \E i \in SSlots, x \in XVals : SSet(i, x)
Spec == Init /\ [][Next]_vars

\* ------------------------------------------------------------ properties of the design
TypeOK == /\ \A b \in Bases : loc[b] \in Places \cup {Nowhere}
          /\ \A b \in Bases, y \in AttTys : att[b][y] \in 0..MaxTags
LiveTags == {att[b][y] : b \in Bases, y \in AttTys} \ {0}
\* attachments exist only on live bases; a destroyed base has none
OnlyOnLive == \A b \in Bases : b \notin Live => att[b] = NoAtt
\* every live attachment is a distinct instance; no destroyed instance is still attached
TagsDistinct == /\ \A b, c \in Bases, y, z \in AttTys :
                      (att[b][y] # 0 /\ att[b][y] = att[c][z]) => (b = c /\ y = z)
                /\ LiveTags \cap dtags = {}
                /\ \A t \in LiveTags \cup dtags : t <= ntag
Conservation == created = destroyed \cup Live /\ destroyed \cap Live = {}
OnePlace == \A b, c \in Live : b # c => loc[b] # loc[c]
IdleClean == phase = "idle" => (\A b \in Bases : loc[b].k # "slot") /\ com = Snapshot /\ sv = SV0
\* attachments travel: an action that is not attach/remove/destroy (or a rollback) leaves att of live bases alone
Travel == [][(phase' = "tx" /\ last'.op \notin {"attach", "remove", "destroy", "begin"}) => att' = att]_vars
\* an attachment instance never comes back
RemovedForever == [][dtags \subseteq dtags' \/ (phase' = "idle" /\ dtags' = com.dtags)]_vars

Proj  == [loc |-> loc, att |-> att, created |-> created, destroyed |-> destroyed, ntag |-> ntag, dtags |-> dtags,
          sv |-> sv, sst |-> sst, com |-> com, phase |-> phase, nops |-> nops, ntx |-> ntx]
ProjN == [loc |-> loc', att |-> att', created |-> created', destroyed |-> destroyed', ntag |-> ntag', dtags |-> dtags',
          sv |-> sv', sst |-> sst', com |-> com', phase |-> phase', nops |-> nops', ntx |-> ntx']
EmitT == PrintT(ToJson([s |-> Proj, t |-> ProjN, a |-> last']))
=============================================================================
