---- MODULE MC_HostFaults ----
EXTENDS HostFaults
Bound == nwrites <= 2 /\ nexec <= 2
====
