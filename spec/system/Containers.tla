---------------------------- MODULE Containers ----------------------------
(* Arrays and dictionaries as their mathematical models (property C20).

   A variable-sized array is a finite sequence, a constant-sized array a sequence of fixed
   length CN, a dictionary a finite map.  One action per array / dictionary function named in
   the property; every action predicts the call's observable result (`last.res`) and the new
   contents.  Containers live
     - in account storage: `s` (variable-sized array), `d` (dictionary), `c` (constant-sized
       array).  A transaction reaches them either through a borrowed reference ("ref") or by
       load - modify - save ("lms"); the model says the access mode makes no difference.
       `Begin` is the *reload* point: the transaction sees exactly the committed contents.
     - in memory: `m` (array) and `md` (dictionary), locals of the transaction, empty at Begin.
   Functions that return a new array (slice, reverse, concat, filter, map, toVariableSized,
   copy) store their result in `m`, so later calls operate on results of earlier ones.
   An invalid index makes the call fail with an index error: the transaction aborts and the
   committed contents stay.  Elements are small integers; how an integer is represented in
   the program (inlinable Int, 300-byte String, nested array) is a refinement parameter of
   the replay harness and invisible here.  Indices are 0-based as in the language.
   `last` is the observation (label, arguments, predicted result); it is hidden by VIEW. *)
EXTENDS Integers, Sequences, FiniteSets, TLC, Json
CONSTANTS Vals,      \* element values (positive integers 1..NV)
          Keys,      \* dictionary keys
          CN,        \* length of the constant-sized array
          MaxLen,    \* bound on array lengths (model bound only)
          Lits,      \* literal arrays used as operands of appendAll / concat
          Tgts,      \* array targets enabled:  subset of {"s", "m"}
          DTgts,     \* dictionary targets enabled: subset of {"d", "md"}
          COps,      \* TRUE: actions on the constant-sized array enabled
          AFull,     \* TRUE: every array action; FALSE: only what is needed to feed toConstantSized
          Modes,     \* subset of {"ref", "lms"}
          MaxOps, MaxTx,
          CountTx    \* FALSE: the number of transactions is not bounded (ntx stays 0)

NV == Cardinality(Vals)
Absent == 0                       \* never an element / key: probes for contains, firstIndex, containsKey
EmptyMap == [k \in {} |-> 0]

\* ------------------------------------------------------------------ the mathematical models
Rev(q)            == [i \in 1..Len(q) |-> q[Len(q) + 1 - i]]
InsertAt(q, i, x) == SubSeq(q, 1, i) \o <<x>> \o SubSeq(q, i + 1, Len(q))
RemoveAt(q, i)    == SubSeq(q, 1, i) \o SubSeq(q, i + 2, Len(q))
Slice(q, i, j)    == SubSeq(q, i + 1, j)
SetAt(q, i, x)    == [q EXCEPT ![i + 1] = x]
Pred(p, x)        == IF p = "odd" THEN x % 2 = 1 ELSE x > 1          \* "odd" | "gt1"
Filter(q, p)      == SelectSeq(q, LAMBDA x : Pred(p, x))
Fn(f, x)          == IF f = "rot" THEN (x % NV) + 1 ELSE 2 * x       \* "rot": E -> E ; "dbl": E -> Int
MapSeq(q, f)      == [i \in 1..Len(q) |-> Fn(f, q[i])]
Has(q, x)         == \E i \in 1..Len(q) : q[i] = x
FirstIdx(q, x)    == IF Has(q, x)
                     THEN <<(CHOOSE i \in 1..Len(q) : q[i] = x /\ \A j \in 1..(i - 1) : q[j] # x) - 1>>
                     ELSE << >>
\* optional results: << >> is nil, <<x>> is some(x)
Opt(dm, k)        == IF k \in DOMAIN dm THEN <<dm[k]>> ELSE << >>
MapPut(dm, k, v)  == [x \in DOMAIN dm \cup {k} |-> IF x = k THEN v ELSE dm[x]]
MapDel(dm, k)     == [x \in DOMAIN dm \ {k} |-> dm[x]]
Pairs(dm)         == {<<k, dm[k]>> : k \in DOMAIN dm}

VARIABLES com,      \* committed contents [s, d, c]
          cur,      \* the transaction's view [s, d, c, m, md]
          phase,    \* "idle" | "tx"
          mode,     \* access mode of the running transaction
          nops, ntx,
          last
vars == <<com, cur, phase, mode, nops, ntx, last>>
view == <<com, cur, phase, mode, nops, ntx>>

Fresh(cm) == [s |-> cm.s, d |-> cm.d, c |-> cm.c, m |-> << >>, md |-> EmptyMap]
Stored(v) == [s |-> v.s, d |-> v.d, c |-> v.c]
InitC     == [i \in 1..CN |-> 1]

Init == /\ com = [s |-> << >>, d |-> EmptyMap, c |-> InitC] /\ cur = Fresh(com)
        /\ phase = "idle" /\ mode = "ref" /\ nops = 0 /\ ntx = 0 /\ last = [op |-> "init"]

\* Begin = reload: the new transaction sees the committed contents, through `md`.
Begin(md) == /\ phase = "idle" /\ ntx < MaxTx /\ phase' = "tx" /\ mode' = md /\ nops' = 0
             /\ ntx' = (IF CountTx THEN ntx + 1 ELSE ntx) /\ cur' = Fresh(com) /\ last' = [op |-> "begin", mode |-> md] /\ UNCHANGED com
Commit == /\ phase = "tx" /\ com' = Stored(cur) /\ cur' = Fresh(Stored(cur)) /\ phase' = "idle"
          /\ last' = [op |-> "commit"] /\ UNCHANGED <<mode, nops, ntx>>
AbortTx(l) == /\ cur' = Fresh(com) /\ phase' = "idle" /\ last' = l /\ UNCHANGED <<com, mode, nops, ntx>>
Abort  == phase = "tx" /\ AbortTx([op |-> "abort"])
Ok(l)  == /\ last' = l /\ nops' = nops + 1 /\ UNCHANGED <<com, phase, mode, ntx>>
InTx   == phase = "tx" /\ nops < MaxOps
IndexError(l) == AbortTx(l @@ [res |-> "err:index"])
Put(tg, x) == cur' = [cur EXCEPT ![tg] = x]
Same       == UNCHANGED cur

\* ------------------------------------------------------------------ variable-sized arrays
AppendOp(tg, x) ==
  /\ InTx /\ Len(cur[tg]) < MaxLen
  /\ Put(tg, Append(cur[tg], x)) /\ Ok([op |-> "append", tg |-> tg, x |-> x, res |-> Len(cur[tg]) + 1])

\* src: "lit" (xs is the literal), or the name of another array of the transaction (xs is its contents;
\* src = tg appends a copy of the array to itself)
AppendAll(tg, src, xs) ==
  /\ InTx /\ Len(cur[tg]) + Len(xs) <= MaxLen
  /\ Put(tg, cur[tg] \o xs)
  /\ Ok([op |-> "appendAll", tg |-> tg, src |-> src, xs |-> xs, res |-> Len(cur[tg]) + Len(xs)])

Insert(tg, i, x) ==
  /\ InTx /\ Len(cur[tg]) < MaxLen
  /\ LET l == [op |-> "insert", tg |-> tg, i |-> i, x |-> x] IN
     IF i < 0 \/ i > Len(cur[tg]) THEN IndexError(l)
     ELSE Put(tg, InsertAt(cur[tg], i, x)) /\ Ok(l @@ [res |-> Len(cur[tg]) + 1])

Remove(tg, i) ==
  /\ InTx
  /\ LET l == [op |-> "remove", tg |-> tg, i |-> i] IN
     IF i < 0 \/ i >= Len(cur[tg]) THEN IndexError(l)
     ELSE Put(tg, RemoveAt(cur[tg], i)) /\ Ok(l @@ [res |-> cur[tg][i + 1]])

RemoveFirst(tg) ==
  /\ InTx
  /\ LET l == [op |-> "removeFirst", tg |-> tg] IN
     IF cur[tg] = << >> THEN IndexError(l)
     ELSE Put(tg, Tail(cur[tg])) /\ Ok(l @@ [res |-> Head(cur[tg])])

RemoveLast(tg) ==
  /\ InTx
  /\ LET l == [op |-> "removeLast", tg |-> tg]  n == Len(cur[tg]) IN
     IF n = 0 THEN IndexError(l)
     ELSE Put(tg, SubSeq(cur[tg], 1, n - 1)) /\ Ok(l @@ [res |-> cur[tg][n]])

Get(tg, i) ==
  /\ InTx
  /\ LET l == [op |-> "get", tg |-> tg, i |-> i] IN
     IF i < 0 \/ i >= Len(cur[tg]) THEN IndexError(l)
     ELSE Same /\ Ok(l @@ [res |-> cur[tg][i + 1]])

Set(tg, i, x) ==
  /\ InTx
  /\ LET l == [op |-> "set", tg |-> tg, i |-> i, x |-> x] IN
     IF i < 0 \/ i >= Len(cur[tg]) THEN IndexError(l)
     ELSE Put(tg, SetAt(cur[tg], i, x)) /\ Ok(l @@ [res |-> Len(cur[tg])])

\* functions returning a new array: the result goes to the in-memory array m
SliceOp(tg, i, j) ==
  /\ InTx
  /\ LET l == [op |-> "slice", tg |-> tg, i |-> i, j |-> j] IN
     IF i < 0 \/ j > Len(cur[tg]) \/ i > j THEN IndexError(l)
     ELSE Put("m", Slice(cur[tg], i, j)) /\ Ok(l @@ [res |-> Slice(cur[tg], i, j)])

Reverse(tg) ==
  /\ InTx /\ Put("m", Rev(cur[tg])) /\ Ok([op |-> "reverse", tg |-> tg, res |-> Rev(cur[tg])])

Concat(tg, src, xs) ==
  /\ InTx /\ Len(cur[tg]) + Len(xs) <= MaxLen
  /\ Put("m", cur[tg] \o xs) /\ Ok([op |-> "concat", tg |-> tg, src |-> src, xs |-> xs, res |-> cur[tg] \o xs])

FilterOp(tg, p) ==
  /\ InTx /\ Put("m", Filter(cur[tg], p)) /\ Ok([op |-> "filter", tg |-> tg, p |-> p, res |-> Filter(cur[tg], p)])

\* "rot" maps elements to elements (result kept in m); "dbl" maps to Int (result only observed)
MapOp(tg, f) ==
  /\ InTx /\ (IF f = "rot" THEN Put("m", MapSeq(cur[tg], f)) ELSE Same)
  /\ Ok([op |-> "map", tg |-> tg, f |-> f, res |-> MapSeq(cur[tg], f)])

CopyToMem(tg) ==
  /\ InTx /\ Put("m", cur[tg]) /\ Ok([op |-> "copy", tg |-> tg, res |-> cur[tg]])

Contains(tg, x) ==
  /\ InTx /\ Same /\ Ok([op |-> "contains", tg |-> tg, x |-> x, res |-> Has(cur[tg], x)])
FirstIndex(tg, x) ==
  /\ InTx /\ Same /\ Ok([op |-> "firstIndex", tg |-> tg, x |-> x, res |-> FirstIdx(cur[tg], x)])
Length(tg) ==
  /\ InTx /\ Same /\ Ok([op |-> "length", tg |-> tg, res |-> Len(cur[tg])])
\* `for e in a` and `for i, e in a`: elements in order
Iterate(tg) ==
  /\ InTx /\ Same /\ Ok([op |-> "iterate", tg |-> tg, res |-> cur[tg]])

\* toConstantSized<[E; CN]>(): nil unless the length is exactly CN; a non-nil result is written to c
ToConst(tg) ==
  /\ InTx
  /\ IF Len(cur[tg]) = CN
     THEN Put("c", cur[tg]) /\ Ok([op |-> "toConst", tg |-> tg, res |-> <<cur[tg]>>])
     ELSE Same /\ Ok([op |-> "toConst", tg |-> tg, res |-> << >>])

\* ------------------------------------------------------------------ the constant-sized array c
CGet(i) ==
  /\ InTx
  /\ LET l == [op |-> "cget", i |-> i] IN
     IF i < 0 \/ i >= CN THEN IndexError(l) ELSE Same /\ Ok(l @@ [res |-> cur.c[i + 1]])
CSet(i, x) ==
  /\ InTx
  /\ LET l == [op |-> "cset", i |-> i, x |-> x] IN
     IF i < 0 \/ i >= CN THEN IndexError(l) ELSE Put("c", SetAt(cur.c, i, x)) /\ Ok(l @@ [res |-> CN])
CContains(x)   == InTx /\ Same /\ Ok([op |-> "ccontains", x |-> x, res |-> Has(cur.c, x)])
CFirstIndex(x) == InTx /\ Same /\ Ok([op |-> "cfirstIndex", x |-> x, res |-> FirstIdx(cur.c, x)])
CIterate       == InTx /\ Same /\ Ok([op |-> "citerate", res |-> cur.c])
\* reverse / map of a constant-sized array give a constant-sized array: written back to c
CReverse       == InTx /\ Put("c", Rev(cur.c)) /\ Ok([op |-> "creverse", res |-> Rev(cur.c)])
CMap(f)        == /\ InTx /\ (IF f = "rot" THEN Put("c", MapSeq(cur.c, f)) ELSE Same)
                  /\ Ok([op |-> "cmap", f |-> f, res |-> MapSeq(cur.c, f)])
\* filter / toVariableSized give a variable-sized array: kept in m
CFilter(p)     == InTx /\ Put("m", Filter(cur.c, p)) /\ Ok([op |-> "cfilter", p |-> p, res |-> Filter(cur.c, p)])
CToVar         == InTx /\ Put("m", cur.c) /\ Ok([op |-> "ctoVar", res |-> cur.c])

\* ------------------------------------------------------------------ dictionaries
DInsert(tg, k, v) ==
  /\ InTx /\ Put(tg, MapPut(cur[tg], k, v))
  /\ Ok([op |-> "dinsert", tg |-> tg, k |-> k, x |-> v, res |-> Opt(cur[tg], k)])
DRemove(tg, k) ==
  /\ InTx /\ Put(tg, MapDel(cur[tg], k))
  /\ Ok([op |-> "dremove", tg |-> tg, k |-> k, res |-> Opt(cur[tg], k)])
DGet(tg, k) ==
  /\ InTx /\ Same /\ Ok([op |-> "dget", tg |-> tg, k |-> k, res |-> Opt(cur[tg], k)])
DSet(tg, k, v) ==
  /\ InTx /\ Put(tg, MapPut(cur[tg], k, v))
  /\ Ok([op |-> "dset", tg |-> tg, k |-> k, x |-> v, res |-> Cardinality(DOMAIN MapPut(cur[tg], k, v))])
DSetNil(tg, k) ==
  /\ InTx /\ Put(tg, MapDel(cur[tg], k))
  /\ Ok([op |-> "dsetnil", tg |-> tg, k |-> k, res |-> Cardinality(DOMAIN MapDel(cur[tg], k))])
DContainsKey(tg, k) ==
  /\ InTx /\ Same /\ Ok([op |-> "dcontainsKey", tg |-> tg, k |-> k, res |-> (k \in DOMAIN cur[tg])])
DLength(tg) ==
  /\ InTx /\ Same /\ Ok([op |-> "dlength", tg |-> tg, res |-> Cardinality(DOMAIN cur[tg])])
\* keys / values / iteration: no order promised -- the key set, the bag of values (observed through the
\* pairs), the set of visited (key, value) pairs
DKeys(tg)    == InTx /\ Same /\ Ok([op |-> "dkeys",   tg |-> tg, res |-> DOMAIN cur[tg]])
DValues(tg)  == InTx /\ Same /\ Ok([op |-> "dvalues", tg |-> tg, res |-> Pairs(cur[tg])])
DIterate(tg) == InTx /\ Same /\ Ok([op |-> "diterate", tg |-> tg, res |-> Pairs(cur[tg])])
\* forEachKey with a callback that returns false at key `stop`: the visited keys are a duplicate-free
\* sequence of keys of the dictionary; it ends with `stop` and stops there when `stop` is a key, otherwise
\* it visits every key.  (Allowed outcomes as a set; the harness tests membership.)
DForEachKey(tg, stop) ==
  /\ InTx /\ Same
  /\ Ok([op |-> "dforEachKey", tg |-> tg, k |-> stop, res |-> [keys |-> DOMAIN cur[tg], stops |-> (stop \in DOMAIN cur[tg])]])
DCopyToMem(tg) ==
  /\ InTx /\ Put("md", cur[tg]) /\ Ok([op |-> "dcopy", tg |-> tg, res |-> Pairs(cur[tg])])

\* ------------------------------------------------------------------ moves between accounts
\* The stored array / dictionary is moved into the storage of a second account and back again (two
\* transfers with removal, each to another owner): the contents are what they were.
AMove == /\ InTx /\ Same /\ Ok([op |-> "amove", res |-> Len(cur.s)])
DMove == /\ InTx /\ Same /\ Ok([op |-> "dmove", res |-> Cardinality(DOMAIN cur.d)])

\* ------------------------------------------------------------------ bulk fills (deep histories only)
\* A loop of n appends / inserts / removals in one step: takes the containers across the size
\* thresholds of the implementation's storage layout without changing what the model says.
\* (Not part of Next: used by the simulation module.)
BulkVal(i) == (i % NV) + 1
Bulk(tg, n, base) ==
  /\ InTx /\ Len(cur[tg]) + n <= MaxLen
  /\ Put(tg, cur[tg] \o [i \in 1..n |-> BulkVal(base + i - 1)])
  /\ Ok([op |-> "bulk", tg |-> tg, n |-> n, i |-> base, res |-> Len(cur[tg]) + n])
\* n times removeLast
Trunc(tg, n) ==
  /\ InTx /\ n <= Len(cur[tg])
  /\ Put(tg, SubSeq(cur[tg], 1, Len(cur[tg]) - n))
  /\ Ok([op |-> "trunc", tg |-> tg, n |-> n, res |-> Len(cur[tg]) - n])
\* n times removeFirst
Behead(tg, n) ==
  /\ InTx /\ n <= Len(cur[tg])
  /\ Put(tg, SubSeq(cur[tg], n + 1, Len(cur[tg])))
  /\ Ok([op |-> "behead", tg |-> tg, n |-> n, res |-> Len(cur[tg]) - n])
\* d[k] = BulkVal(k) for k in base+1 .. base+n
DBulk(tg, n, base) ==
  /\ InTx
  /\ LET nd == [k \in DOMAIN cur[tg] \cup ((base + 1)..(base + n)) |->
                  IF k \in (base + 1)..(base + n) THEN BulkVal(k) ELSE cur[tg][k]] IN
     Put(tg, nd) /\ Ok([op |-> "dbulk", tg |-> tg, n |-> n, i |-> base, res |-> Cardinality(DOMAIN nd)])
\* remove(key: k) for k in base+1 .. base+n
DBulkRemove(tg, n, base) ==
  /\ InTx
  /\ LET nd == [k \in DOMAIN cur[tg] \ ((base + 1)..(base + n)) |-> cur[tg][k]] IN
     Put(tg, nd) /\ Ok([op |-> "dbulkRemove", tg |-> tg, n |-> n, i |-> base, res |-> Cardinality(DOMAIN nd)])

\* ------------------------------------------------------------------ next-state relation
Idx(tg)  == (-1)..(Len(cur[tg]) + 1)
Probe    == Vals \cup {Absent}
PKeys    == Keys \cup {Absent}

ArrayFeed(tg) ==
  \/ \E x \in Vals : AppendOp(tg, x)
  \/ RemoveLast(tg) \/ CopyToMem(tg) \/ ToConst(tg)

ArrayNext(tg) ==
  \/ \E x \in Vals : AppendOp(tg, x)
  \/ \E xs \in Lits : AppendAll(tg, "lit", xs) \/ Concat(tg, "lit", xs)
  \/ \E src \in Tgts : AppendAll(tg, src, cur[src]) \/ Concat(tg, src, cur[src])
  \/ \E i \in Idx(tg), x \in Vals : Insert(tg, i, x) \/ Set(tg, i, x)
  \/ \E i \in Idx(tg) : Remove(tg, i) \/ Get(tg, i)
  \/ RemoveFirst(tg) \/ RemoveLast(tg)
  \/ \E i \in Idx(tg), j \in Idx(tg) : SliceOp(tg, i, j)
  \/ Reverse(tg) \/ CopyToMem(tg) \/ Length(tg) \/ Iterate(tg)
  \/ \E p \in {"odd", "gt1"} : FilterOp(tg, p)
  \/ \E f \in {"rot", "dbl"} : MapOp(tg, f)
  \/ \E x \in Probe : Contains(tg, x) \/ FirstIndex(tg, x)
  \/ (COps /\ ToConst(tg))

CNext ==
  \/ \E i \in (-1)..CN : CGet(i) \/ \E x \in Vals : CSet(i, x)
  \/ \E x \in Probe : CContains(x) \/ CFirstIndex(x)
  \/ CIterate \/ CReverse \/ CToVar
  \/ \E f \in {"rot", "dbl"} : CMap(f)
  \/ \E p \in {"odd", "gt1"} : CFilter(p)

DictNext(tg) ==
  \/ \E k \in Keys, v \in Vals : DInsert(tg, k, v) \/ DSet(tg, k, v)
  \/ \E k \in PKeys : DRemove(tg, k) \/ DGet(tg, k) \/ DSetNil(tg, k) \/ DContainsKey(tg, k) \/ DForEachKey(tg, k)
  \/ DLength(tg) \/ DKeys(tg) \/ DValues(tg) \/ DIterate(tg) \/ DCopyToMem(tg)

Next == \/ \E md \in Modes : Begin(md)
        \/ Commit \/ Abort
        \/ \E tg \in Tgts : (IF AFull THEN ArrayNext(tg) ELSE ArrayFeed(tg))
        \/ \E tg \in DTgts : DictNext(tg)
        \/ (COps /\ CNext)
        \/ ("s" \in Tgts /\ AMove) \/ ("d" \in DTgts /\ DMove)
Spec == Init /\ [][Next]_vars

\* ------------------------------------------------------------------ properties of the design
IsSeqOfInts(q) == DOMAIN q = 1..Len(q)
TypeOK == /\ Len(cur.c) = CN /\ Len(com.c) = CN
          /\ IsSeqOfInts(cur.s) /\ IsSeqOfInts(cur.m) /\ IsSeqOfInts(com.s)
          /\ Len(cur.s) <= MaxLen /\ Len(cur.m) <= MaxLen
          /\ Absent \notin DOMAIN cur.d /\ Absent \notin DOMAIN cur.md
IdleMeansClean == phase = "idle" => cur = Fresh(com)
OnlyCommitChangesCommitted == [][com' # com => last'.op = "commit"]_vars
\* a failing call (index error) and an abort leave the committed contents and restore the view
FailureRestores == [][(last'.op = "abort" \/ (phase = "tx" /\ phase' = "idle" /\ last'.op # "commit"))
                        => (com' = com /\ cur' = Fresh(com))]_vars
\* functions that only read or return a new array never change the stored containers
Readers == {"get", "slice", "reverse", "concat", "filter", "map", "copy", "contains", "firstIndex", "length",
            "iterate", "cget", "ccontains", "cfirstIndex", "citerate", "cfilter", "ctoVar",
            "amove", "dmove", "dget", "dcontainsKey", "dlength", "dkeys", "dvalues", "diterate", "dforEachKey", "dcopy"}
ReadersArePure == [][(last'.op \in Readers /\ phase' = "tx") =>
                        (cur'.s = cur.s /\ cur'.d = cur.d /\ cur'.c = cur.c)]_vars

\* ------------------------------------------------------------------ behaviour extraction
PJ(v) == [s |-> v.s, d |-> Pairs(v.d), c |-> v.c]
VJ(v) == [s |-> v.s, d |-> Pairs(v.d), c |-> v.c, m |-> v.m, md |-> Pairs(v.md)]
Emit == PrintT(ToJson([s |-> [com |-> PJ(com), cur |-> VJ(cur), phase |-> phase, mode |-> mode, nops |-> nops, ntx |-> ntx],
                        t |-> [com |-> PJ(com'), cur |-> VJ(cur'), phase |-> phase', mode |-> mode', nops |-> nops', ntx |-> ntx'],
                        a |-> last']))
=============================================================================
