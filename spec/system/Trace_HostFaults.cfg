SPECIFICATION TraceSpec
INVARIANTS LTypeOK
