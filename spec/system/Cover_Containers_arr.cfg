SPECIFICATION Spec
CONSTANTS
  Vals = {1, 2}
  Keys = {1}
  CN = 2
  MaxLen = 3
  Lits <- LitsQ
  Tgts = {"s"}
  DTgts = {}
  AFull = TRUE
  COps = FALSE
  Modes = {"ref", "lms"}
  MaxOps = 1
  MaxTx = 1
  CountTx = FALSE
INVARIANTS TypeOK IdleMeansClean
PROPERTIES OnlyCommitChangesCommitted FailureRestores ReadersArePure
VIEW view
ACTION_CONSTRAINT Emit
