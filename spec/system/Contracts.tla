----------------------------- MODULE Contracts -----------------------------
(* Contract deployment, update and removal (property C26).

   Per account and name: which source is deployed (`src`) and which source's initializer
   produced the contract value (`inst`: set by add, kept by update -- an update never re-runs
   init --, gone after remove). `cur` is the view inside the running transaction (the host's code
   store is updated eagerly), `com` the committed view; a failing call or an abort after the
   calls throws `cur` away (the host rolls its code store back), Commit publishes it.

   Sources are classes: two compatible versions (v1, v2 = v1 + a function), `retyped` (field x
   has another type: incompatible with the others), `enum` (v1 + a nested enum: may be added by
   an update, can never be removed), `iface` (a contract interface: a kind change in either
   direction is incompatible), and three invalid ones (type error, declared name differs from
   the name argument, syntax error).

   Rules of the property: add fails for an existing name, update fails for a missing one, a
   failed tryUpdate changes nothing and reports no deployed contract, remove is refused for
   contracts declaring enums and returns nil for a missing name; what a successful transaction
   did is what every later transaction and script observes.

   Deliberate implementation behaviour modelled as such:
     - add is also refused for a name that was added, updated or removed earlier in the same
       transaction (even when the removal left the name free);
     - the contract value is written when the transaction commits, so contracts.borrow of a
       contract added earlier in the same transaction yields nil. *)
EXTENDS Naturals, Sequences, FiniteSets, TLC, Json
CONSTANTS Accts, Names, Srcs, MaxOps, MaxTx

None == [src |-> "none", inst |-> "none"]

Valid(s)    == s \in {"v1", "v2", "retyped", "enum", "iface"}
Kind(s)     == IF s = "iface" THEN "interface" ELSE "contract"
HasEnum(s)  == s = "enum"
FieldTy(s)  == CASE s \in {"v1", "v2", "enum"} -> "Int" [] s = "retyped" -> "Bool" [] OTHER -> "-"
\* what the update validator must accept / reject for these classes: the kind is kept, a field
\* that the new version declares had the same type before, nested declarations are not removed
Compatible(old, new) == /\ Kind(old) = Kind(new)
                        /\ (FieldTy(new) = "-" \/ FieldTy(new) = FieldTy(old))
                        /\ (HasEnum(old) => HasEnum(new))

VARIABLES com,      \* committed: [Accts -> [Names -> [src, inst]]]
          cur,      \* inside the running transaction
          touched,  \* (account, name) pairs added / updated / removed by the running transaction
          added,    \* pairs added by the running transaction (their value is written at commit)
          phase, nops, ntx, last
vars == <<com, cur, touched, added, phase, nops, ntx, last>>
view == <<com, cur, touched, added, phase, nops, ntx>>

Init == /\ com = [a \in Accts |-> [n \in Names |-> None]] /\ cur = com
        /\ touched = {} /\ added = {} /\ phase = "idle" /\ nops = 0 /\ ntx = 0
        /\ last = [op |-> "init", k |-> "ok"]

NoEv == << >>
Begin  == /\ phase = "idle" /\ ntx < MaxTx /\ phase' = "tx" /\ nops' = 0 /\ ntx' = ntx + 1
          /\ last' = [op |-> "begin", k |-> "ok"] /\ UNCHANGED <<com, cur, touched, added>>
Commit == /\ phase = "tx" /\ com' = cur /\ phase' = "idle" /\ touched' = {} /\ added' = {}
          /\ last' = [op |-> "commit", k |-> "ok"] /\ UNCHANGED <<cur, nops, ntx>>
\* the transaction fails: nothing of it survives
AbortTx(l) == /\ cur' = com /\ phase' = "idle" /\ touched' = {} /\ added' = {} /\ last' = l
              /\ UNCHANGED <<com, nops, ntx>>
Abort  == phase = "tx" /\ nops > 0 /\ AbortTx([op |-> "abort", k |-> "err"])
InTx   == phase = "tx" /\ nops < MaxOps
Step(l) == /\ last' = l /\ nops' = nops + 1 /\ UNCHANGED <<com, phase, ntx>>
Read(l) == Step(l) /\ UNCHANGED <<cur, touched, added>>
Deployed(a, n) == cur[a][n].src # "none"

Add(a, n, s) ==
  /\ InTx
  /\ LET l == [op |-> "add", a |-> a, n |-> n, s |-> s]
         bad == (IF Deployed(a, n) \/ <<a, n>> \in touched THEN {"exists"} ELSE {})
                \cup (IF ~Valid(s) THEN {"invalid"} ELSE {}) IN
     IF bad # {} THEN AbortTx(l @@ [k |-> "err", res |-> bad, ev |-> NoEv])
     ELSE /\ cur' = [cur EXCEPT ![a][n] = [src |-> s, inst |-> s]]
          /\ touched' = touched \cup {<<a, n>>} /\ added' = added \cup {<<a, n>>}
          /\ Step(l @@ [k |-> "ok", res |-> {}, ev |-> <<[e |-> "Added", a |-> a, n |-> n, s |-> s]>>])

UpdateBad(a, n, s) ==
  (IF ~Deployed(a, n) THEN {"missing"} ELSE {})
  \cup (IF ~Valid(s) THEN {"invalid"} ELSE {})
  \cup (IF Deployed(a, n) /\ Valid(s) /\ ~Compatible(cur[a][n].src, s) THEN {"incompatible"} ELSE {})
Update(a, n, s) ==
  /\ InTx
  /\ LET l == [op |-> "update", a |-> a, n |-> n, s |-> s]  bad == UpdateBad(a, n, s) IN
     IF bad # {} THEN AbortTx(l @@ [k |-> "err", res |-> bad, ev |-> NoEv])
     ELSE /\ cur' = [cur EXCEPT ![a][n].src = s]
          /\ touched' = touched \cup {<<a, n>>} /\ UNCHANGED added
          /\ Step(l @@ [k |-> "ok", res |-> {}, ev |-> <<[e |-> "Updated", a |-> a, n |-> n, s |-> s]>>])
\* never fails; a refused update changes nothing and reports no deployed contract
TryUpdate(a, n, s) ==
  /\ InTx
  /\ LET l == [op |-> "tryUpdate", a |-> a, n |-> n, s |-> s]  bad == UpdateBad(a, n, s) IN
     IF bad # {} THEN Read(l @@ [k |-> "failed", res |-> bad, ev |-> NoEv])
     ELSE /\ cur' = [cur EXCEPT ![a][n].src = s]
          /\ touched' = touched \cup {<<a, n>>} /\ UNCHANGED added
          /\ Step(l @@ [k |-> "ok", res |-> {}, ev |-> <<[e |-> "Updated", a |-> a, n |-> n, s |-> s]>>])
Remove(a, n) ==
  /\ InTx
  /\ LET l == [op |-> "remove", a |-> a, n |-> n] IN
     IF ~Deployed(a, n) THEN Read(l @@ [k |-> "nil", res |-> {}, ev |-> NoEv])
     ELSE IF HasEnum(cur[a][n].src) THEN AbortTx(l @@ [k |-> "err", res |-> {"enum"}, ev |-> NoEv])
     ELSE /\ cur' = [cur EXCEPT ![a][n] = None]
          /\ touched' = touched \cup {<<a, n>>} /\ added' = added \ {<<a, n>>}
          /\ Step(l @@ [k |-> "ok", res |-> {}, s |-> cur[a][n].src,
                        ev |-> <<[e |-> "Removed", a |-> a, n |-> n, s |-> cur[a][n].src]>>])
\* contracts.get(name:): the deployed source, or nil
Get(a, n)   == InTx /\ Read([op |-> "get", a |-> a, n |-> n, k |-> "ok", res |-> cur[a][n].src, ev |-> NoEv])
NamesOf(a)  == InTx /\ Read([op |-> "names", a |-> a, k |-> "ok", res |-> {n \in Names : Deployed(a, n)}, ev |-> NoEv])
\* contracts.borrow<&AnyStruct>(name:): a reference to the contract value, when there is one
Borrowable(v, a, n, pending) == v[a][n].src # "none" /\ Kind(v[a][n].src) = "contract" /\ <<a, n>> \notin pending
Borrow(a, n) == InTx /\ Read([op |-> "borrow", a |-> a, n |-> n, k |-> "ok", res |-> Borrowable(cur, a, n, added),
                              fresh |-> (<<a, n>> \in added), ev |-> NoEv])

Next == \/ Begin \/ Commit \/ Abort
        \/ \E a \in Accts, n \in Names :
             \/ \E s \in Srcs : Add(a, n, s) \/ Update(a, n, s) \/ TryUpdate(a, n, s)
             \/ Remove(a, n) \/ Get(a, n) \/ Borrow(a, n)
        \/ \E a \in Accts : NamesOf(a)
Spec == Init /\ [][Next]_vars

\* what a later script observes of a committed view
ObsOf(v) == [a \in Accts |-> [n \in Names |-> [src |-> v[a][n].src, inst |-> v[a][n].inst,
                                              borrow |-> Borrowable(v, a, n, {})]]]

\* what names / get / borrow answer INSIDE the running transaction, through the signers' own account
\* references (the in-transaction view: every earlier call of the transaction is visible, a contract
\* added by it has no value yet). The replay re-reads it after Begin and after every call.
TxView == [a \in Accts |-> [n \in Names |-> [src |-> cur[a][n].src, borrow |-> Borrowable(cur, a, n, added)]]]

\* ---------------------------------------------------------------- properties of the design
TypeOK == /\ \A a \in Accts, n \in Names :
                /\ cur[a][n].src \in Srcs \cup {"none"} /\ com[a][n].src \in Srcs \cup {"none"}
                /\ (cur[a][n].src = "none") = (cur[a][n].inst = "none")
                /\ (com[a][n].src = "none") = (com[a][n].inst = "none")
          /\ added \subseteq touched
OnlyValidDeployed == \A a \in Accts, n \in Names : cur[a][n].src # "none" => Valid(cur[a][n].src) /\ Valid(cur[a][n].inst)
\* the value of a deployed contract was produced by an initializer of the same kind and field type
ValueFitsCode == \A a \in Accts, n \in Names : cur[a][n].src # "none" =>
                    /\ Kind(cur[a][n].inst) = Kind(cur[a][n].src)
                    /\ (FieldTy(cur[a][n].src) = "-" \/ FieldTy(cur[a][n].src) = FieldTy(cur[a][n].inst))
IdleMeansClean == phase = "idle" => cur = com /\ touched = {} /\ added = {}
OnlyCommitChangesCommitted == [][com' # com => last'.op = "commit"]_vars
\* a contract that declares an enum is never removed, and no update takes the enum away
EnumsStay == [][\A a \in Accts, n \in Names :
                  (phase = "tx" /\ phase' = "tx" /\ HasEnum(cur[a][n].src)) => HasEnum(cur'[a][n].src)]_vars
FailedTryUpdateChangesNothing == [][(last'.op = "tryUpdate" /\ last'.k = "failed") => cur' = cur /\ com' = com]_vars
AddNeverOverwrites == [][(last'.op = "add" /\ last'.k = "ok") => cur[last'.a][last'.n].src = "none"]_vars
=============================================================================
