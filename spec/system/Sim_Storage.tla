---- MODULE Sim_Storage ----
(* Simulation wrapper: the same actions as Storage, parameters drawn with RandomElement so
   that a simulation step costs one successor per action instead of one per parameter
   combination; `hist` is the behaviour, printed as JSON when it reaches SimDepth. *)
EXTENDS MC_Storage
VARIABLE hist
SimInit == Init /\ hist = << >>
SimStep ==
  LET a == RandomElement(Accts)  p == RandomElement(Paths)
      b == RandomElement(Accts)  q == RandomElement(Paths)
      v == RandomElement(Vals)   t == RandomElement(TArgs)
      t2 == RandomElement(TArgs)
  IN \/ Begin \/ Commit \/ Abort
     \/ Save(a, p, v) \/ Save(b, q, v)
     \/ Load(a, p, t) \/ Copy(a, p, t) \/ Borrow(a, p, t) \/ Check(a, p, t)
     \/ Load(a, p, t2) \/ Borrow(a, p, t2) \/ Check(a, p, t2)
     \/ Move(a, p, b, q, t) \/ TypeAt(a, p) \/ PathsOf(a) \/ ForEach(a)
SimNext == SimStep /\ hist' = Append(hist, IF phase' = "idle" THEN last' @@ [com |-> com'] ELSE last')
SimSpec == SimInit /\ [][SimNext]_<<vars, hist>>
SimDepth == 60
SimEmit == Len(hist) < SimDepth \/ PrintT(ToJson(hist))
====
