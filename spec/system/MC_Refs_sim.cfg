SPECIFICATION SimSpec
CONSTANTS
  Ids = {1, 2, 3, 4, 5, 6, 7, 8, 9, 10, 11, 12, 13, 14}
  Slots = {1, 2, 3}
  Accts = {1, 2}
  Paths = {1, 2}
  Keys = {1, 2}
  MaxKids = 3
  MaxDepth = 2
  MaxOps = 10
  MaxTx = 0
  NoEvent = {3, 6, 9, 12}
  Big = {2, 11}
  SlotRep <- MCSlotRep3
  OCells = {0, 1}
  OKeys = {1, 2}
  Forms = {"direct", "shift", "fn", "reput", "peek", "noabort"}
  RefIds = {1, 2, 3}
  BorrowTys = {"N", "R", "Q"}
INVARIANTS TypeOK Conservation OnePlace WellFormed EventsOnce RefTypeOK UsableIsLive NoRefsOutsideTx SimEmit
