---- MODULE MeterHist ----
(* Process histories for C31: a process runs a sequence of programs; each Run(p) of program p on
   the same (fresh) state must report the same metering sequence whatever ran before it in the
   process (warm caches: `warm` is the set of programs whose execution has already populated
   process-level caches). The model generates the histories; the harness runs them in one shared
   process and, for comparison, each program alone in a fresh process. *)
EXTENDS Naturals, Sequences, TLC, Json, FiniteSets
CONSTANTS NProg, Depth
VARIABLES hist, warm
MInit == hist = << >> /\ warm = {}
Run(p) == hist' = Append(hist, p) /\ warm' = warm \cup {p}
MNext == Len(hist) < Depth /\ Run(RandomElement(1..NProg))
MSpec == MInit /\ [][MNext]_<<hist, warm>>
Emit == Len(hist) < Depth \/ PrintT(ToJson(hist))
WarmIsHistory == warm = {hist[i] : i \in 1..Len(hist)}
====
