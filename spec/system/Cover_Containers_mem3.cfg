SPECIFICATION Spec
CONSTANTS
  Vals = {1, 2}
  Keys = {1, 2}
  CN = 2
  MaxLen = 3
  Lits <- LitsQ
  Tgts = {"m"}
  DTgts = {"md"}
  AFull = TRUE
  COps = FALSE
  Modes = {"ref"}
  MaxOps = 3
  MaxTx = 1
  CountTx = TRUE
INVARIANTS TypeOK IdleMeansClean
PROPERTIES OnlyCommitChangesCommitted FailureRestores ReadersArePure
VIEW view
ACTION_CONSTRAINT Emit
