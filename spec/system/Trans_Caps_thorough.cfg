SPECIFICATION TransSpec
CONSTANTS
  Accts = {"A1", "A2"}
  Owners = {"A1"}
  SPaths = {"p", "q"}
  PPaths = {"x"}
  Names = {"n"}
  Tags = {"t"}
  MaxCtrl = 2
  MaxCaps = 3
  MaxSteps = 4
  VTypes <- VTypes_T
  IssueBT <- IssueBT_T
  AcctBT <- AcctBT_T
  Wants <- Wants_T
  GetWants <- GetWants_T
INVARIANTS TypeOK IdsFresh PathIndexExact PubOwn CapsIssued DeletedNeverBorrows NoEscalation GetNoEscalation
PROPERTIES IdsNeverReused ClaimOnlyByRecipient FailedChangesNothing
VIEW view
ACTION_CONSTRAINT TransEmit
