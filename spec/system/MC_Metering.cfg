SPECIFICATION MSpec
CONSTANTS
  Limit = 6
  DepthLimit = 3
  Grace = 2
  MaxAmount = 3
INVARIANTS MTypeOK Bounded NeverOkAfterTrip
