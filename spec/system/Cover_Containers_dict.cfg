SPECIFICATION Spec
CONSTANTS
  Vals = {1, 2}
  Keys = {1, 2, 3}
  CN = 2
  MaxLen = 4
  Lits <- LitsQ
  Tgts = {}
  DTgts = {"d"}
  AFull = TRUE
  COps = FALSE
  Modes = {"ref", "lms"}
  MaxOps = 1
  MaxTx = 1
  CountTx = FALSE
INVARIANTS TypeOK IdleMeansClean
PROPERTIES OnlyCommitChangesCommitted FailureRestores ReadersArePure
VIEW view
ACTION_CONSTRAINT Emit
