---------------------------- MODULE Resources ----------------------------
(* Resource linearity at run time (property C02): every resource created in a successful
   execution is in exactly one place - destroyed exactly once, or at exactly one (possibly
   nested) location of account storage.

   A resource has a model identity (Ids), an optional resource field `child`, an array field
   `kids` and a dictionary field `dict` (keys from Keys). Places a resource can be in:
       slot i        a transaction-local variable (transient; its representation - optional
                     variable, entry of a local dictionary, element of a local array - is SlotRep[i])
       store a p     account storage of account a at path p
       child u       the optional field of live resource u
       kid u i       element i of the array field of u (removal shifts the later elements down,
                     insertion shifts them up)
       dict u k      entry k of the dictionary field of u
       ocell u i     cell i of the fixed-length array-of-OPTIONAL-resources field of u (`@[R?]`; an
                     empty cell holds nil, so nil elements sit before/after occupied cells)
       odict u k     entry k of the dictionary-of-optional-resources field of u (`@{Int: R?}`; the
                     dictionary also has nil-valued entries under keys that are never used)
   There is one action per language-level move form named by the property:
       Create                      `create` into an empty optional variable (force-move `<-!`)
       Move(u, dst)                take u out of its place and put it into the empty place dst; by
                                   the kinds of the two places this is MoveVar (slot->slot), Save
                                   (slot->store), Load (store->slot), MoveIntoOptional/Field (->child),
                                   MoveIntoArray (->kid), MoveIntoDict (->dict), MoveOut (nested->..),
                                   load-and-save into another account (store->store), optionally
                                   through a function call
       Swap(i, j)                  `<->` of two variables
       Shift(w, m, dst)            double transfer  `let old <- m <- w`: w (an existing resource or a
                                   freshly created one) replaces m in m's place, m goes on to dst
       Destroy(u)                  recursive: everything nested in u is destroyed, one
                                   ResourceDestroyed event per destroyed resource whose type declares it
       BadMove(u, dst)             a move onto an occupied place: the run-time loss guard must abort
       Begin / Commit / Abort      transactions; Commit first destroys whatever is left in the
                                   transient slots (a transaction cannot end with a resource in a
                                   transient location), Abort restores the committed state.
   `last` is the observation of the last step (hidden by VIEW): the rendered operation with the
   access paths of the places involved, the predicted destroy events, the set `inv` of resources whose
   references the step invalidates (used by Refs), the textual description `st` of all slots and all
   storage paths after the step and, at Commit, the population (id, location path). *)
EXTENDS Integers, Sequences, FiniteSets, TLC, Json
CONSTANTS Ids, Slots, Accts, Paths, Keys, MaxKids, MaxDepth, MaxOps, MaxTx,
          NoEvent,     \* ids of resources whose type does not declare ResourceDestroyed
          Big,         \* ids of resources with a large payload (stand-alone slabs)
          SlotRep,     \* [Slots -> {"var","dict","arr"}]
          OCells,      \* cells of the array of optional resources that the model uses (subset of {0, 1})
          OKeys,       \* keys of the dictionary of optional resources that the model uses (subset of {1, 2})
          Forms        \* enabled optional forms: subset of {"direct","shift","bad","fn","reput"}; "noabort" disables Abort

Nested  == {"child", "kid", "dict", "ocell", "odict"}
Nowhere == [k |-> "none", a |-> 0, b |-> 0]
SlotPl(i)     == [k |-> "slot",  a |-> i, b |-> 0]
StorePl(a, p) == [k |-> "store", a |-> a, b |-> p]
ChildPl(u)    == [k |-> "child", a |-> u, b |-> 0]
KidPl(u, i)   == [k |-> "kid",   a |-> u, b |-> i]
DictPl(u, x)  == [k |-> "dict",  a |-> u, b |-> x]
OCellPl(u, i) == [k |-> "ocell", a |-> u, b |-> i]
ODictPl(u, x) == [k |-> "odict", a |-> u, b |-> x]
SlotPlaces   == {SlotPl(i) : i \in Slots}
StorePlaces  == {StorePl(a, p) : a \in Accts, p \in Paths}
NestedPlaces == {ChildPl(u) : u \in Ids} \cup {KidPl(u, i) : u \in Ids, i \in 0..(MaxKids - 1)}
                \cup {DictPl(u, x) : u \in Ids, x \in Keys}
                \cup {OCellPl(u, i) : u \in Ids, i \in OCells} \cup {ODictPl(u, x) : u \in Ids, x \in OKeys}
Places == SlotPlaces \cup StorePlaces \cup NestedPlaces

VARIABLES loc,        \* [Ids -> Places \cup {Nowhere}]   where every resource is
          created,    \* ids created so far (in committed transactions and the running one)
          destroyed,  \* ids destroyed so far
          evs,        \* [Ids -> Nat]  number of ResourceDestroyed events emitted for the id
          com,        \* snapshot [loc, created, destroyed, evs] at the last commit
          phase, nops, ntx,
          last
vars == <<loc, created, destroyed, evs, com, phase, nops, ntx, last>>
view == <<loc, created, destroyed, evs, com, phase, nops, ntx>>

\* ------------------------------------------------------------ structure of a location map
Live(l)          == {u \in Ids : l[u] # Nowhere}
At(l, pl)        == {u \in Ids : l[u] = pl}
Children(l, u)   == {v \in Ids : l[v].k \in Nested /\ l[v].a = u}
NKids(l, p)      == Cardinality({v \in Ids : l[v].k = "kid" /\ l[v].a = p})
RECURSIVE SubN(_, _, _)
SubN(l, S, n)    == IF n = 0 THEN S ELSE SubN(l, S \cup UNION {Children(l, v) : v \in S}, n - 1)
Sub(l, u)        == SubN(l, {u}, MaxDepth)              \* u and everything nested in it
RECURSIVE DepthN(_, _, _)
DepthN(l, u, n)  == IF n = 0 \/ l[u].k \notin Nested THEN 0 ELSE 1 + DepthN(l, l[u].a, n - 1)
Depth(l, u)      == DepthN(l, u, MaxDepth + 2)
RECURSIVE AnchoredN(_, _, _)
AnchoredN(l, u, n) == IF l[u].k \in {"slot", "store"} THEN TRUE
                      ELSE IF n = 0 \/ l[u].k = "none" THEN FALSE ELSE AnchoredN(l, l[u].a, n - 1)
Anchored(l, u)   == AnchoredN(l, u, MaxDepth + 2)        \* reachable from a slot or a storage path
MaxOf(S)         == CHOOSE x \in S : \A y \in S : y <= x
Height(l, u)     == MaxOf({Depth(l, v) : v \in Sub(l, u)}) - Depth(l, u)

Take(l, u) == [v \in Ids |-> IF v = u THEN Nowhere
                ELSE IF l[u].k = "kid" /\ l[v].k = "kid" /\ l[v].a = l[u].a /\ l[v].b > l[u].b
                     THEN [l[v] EXCEPT !.b = @ - 1] ELSE l[v]]
Put(l, u, pl) == [v \in Ids |-> IF v = u THEN pl
                ELSE IF pl.k = "kid" /\ l[v].k = "kid" /\ l[v].a = pl.a /\ l[v].b >= pl.b
                     THEN [l[v] EXCEPT !.b = @ + 1] ELSE l[v]]

\* pl can receive resource u (u is currently Nowhere in l, its subtree still hangs below it)
Free(l, pl, u) ==
  /\ At(l, pl) = {}
  /\ pl.k \in Nested =>
       /\ Anchored(l, pl.a)
       /\ Depth(l, pl.a) + 1 + Height(l, u) <= MaxDepth
       /\ pl.k = "kid" => pl.b <= NKids(l, pl.a) /\ NKids(l, pl.a) < MaxKids

RECURSIVE Path(_, _)
Path(l, pl) == IF pl.k \in Nested THEN Path(l, l[pl.a]) \o <<pl>> ELSE <<pl>>   \* access path from the root place

\* ------------------------------------------------------------ observations (strings the real code can print)
RECURSIVE PathStr(_, _)
PathStr(l, pl) ==
  CASE pl.k = "slot"  -> "S" \o ToString(pl.a)
    [] pl.k = "store" -> "A" \o ToString(pl.a) \o "/p" \o ToString(pl.b)
    [] pl.k = "child" -> PathStr(l, l[pl.a]) \o ".child"
    [] pl.k = "kid"   -> PathStr(l, l[pl.a]) \o ".kids[" \o ToString(pl.b) \o "]"
    [] pl.k = "dict"  -> PathStr(l, l[pl.a]) \o ".dict[" \o ToString(pl.b) \o "]"
    [] pl.k = "ocell" -> PathStr(l, l[pl.a]) \o ".opts[" \o ToString(pl.b) \o "]"
    [] pl.k = "odict" -> PathStr(l, l[pl.a]) \o ".odict[" \o ToString(pl.b) \o "]"
The(S) == CHOOSE x \in S : TRUE
MaxKey == IF Keys = {} THEN 0 ELSE MaxOf(Keys)
RECURSIVE Desc(_, _), DescKids(_, _, _), DescDict(_, _, _), DescAt(_, _)
Desc(l, u) == ToString(u) \o "("
              \o (IF At(l, ChildPl(u)) = {} THEN "" ELSE Desc(l, The(At(l, ChildPl(u)))))
              \o ")[" \o DescKids(l, u, 0) \o "]{" \o DescDict(l, u, 1) \o "}<"
              \o DescAt(l, OCellPl(u, 0)) \o "," \o DescAt(l, OCellPl(u, 1)) \o ",|"
              \o DescAt(l, ODictPl(u, 1)) \o "," \o DescAt(l, ODictPl(u, 2)) \o ",>"
DescAt(l, pl) == IF At(l, pl) = {} THEN "-" ELSE Desc(l, The(At(l, pl)))
DescKids(l, p, i) == IF At(l, KidPl(p, i)) = {} THEN ""
                     ELSE Desc(l, The(At(l, KidPl(p, i)))) \o "," \o DescKids(l, p, i + 1)
DescDict(l, p, x) == IF x > MaxKey THEN ""
                     ELSE (IF At(l, DictPl(p, x)) = {} THEN ""
                           ELSE ToString(x) \o ":" \o Desc(l, The(At(l, DictPl(p, x)))) \o ",")
                          \o DescDict(l, p, x + 1)
DescPl(l, pl) == IF At(l, pl) = {} THEN "-" ELSE Desc(l, The(At(l, pl)))
\* slots in order, then storage paths in (account, path) order
SetToSeq(S) == CHOOSE f \in [1..Cardinality(S) -> S] : \A i, j \in 1..Cardinality(S) : i < j => f[i] < f[j]
StateDesc(l) ==
  [i \in 1..Cardinality(Slots) |-> DescPl(l, SlotPl(SetToSeq(Slots)[i]))]
  \o [n \in 1..(Cardinality(Accts) * Cardinality(Paths)) |->
        DescPl(l, StorePl(SetToSeq(Accts)[((n - 1) \div Cardinality(Paths)) + 1],
                          SetToSeq(Paths)[((n - 1) % Cardinality(Paths)) + 1]))]
Population(l) == {[u |-> u, p |-> PathStr(l, l[u])] : u \in Live(l)}
RootCount(l)  == [a \in Accts |-> Cardinality({p \in Paths : At(l, StorePl(a, p)) # {}})]
KindOf(u)     == IF u \in NoEvent THEN "Q" ELSE "R"

\* ------------------------------------------------------------ transactions
Snapshot == [loc |-> loc, created |-> created, destroyed |-> destroyed, evs |-> evs]
Init == /\ loc = [u \in Ids |-> Nowhere] /\ created = {} /\ destroyed = {} /\ evs = [u \in Ids |-> 0]
        /\ com = [loc |-> loc, created |-> created, destroyed |-> destroyed, evs |-> evs]
        /\ phase = "idle" /\ nops = 0 /\ ntx = 0 /\ last = [op |-> "init"]
InTx  == phase = "tx" /\ nops < MaxOps
Obs(l) == [st |-> StateDesc(l)]
Ok(lbl) == /\ last' = lbl /\ nops' = nops + 1 /\ UNCHANGED <<com, phase, ntx>>
AbortTx(lbl) == /\ loc' = com.loc /\ created' = com.created /\ destroyed' = com.destroyed /\ evs' = com.evs
                /\ phase' = "idle" /\ nops' = 0 /\ last' = lbl /\ UNCHANGED <<com, ntx>>
Kill(l, D) == [v \in Ids |-> IF v \in D THEN Nowhere ELSE l[v]]
Emit(D)    == [v \in Ids |-> IF v \in D /\ v \notin NoEvent THEN evs[v] + 1 ELSE evs[v]]

\* MaxTx = 0: no bound on the number of transactions (the state space is finite anyway: ids are not reused)
Begin == /\ phase = "idle" /\ (MaxTx = 0 \/ ntx < MaxTx) /\ phase' = "tx" /\ nops' = 0
         /\ ntx' = IF MaxTx = 0 THEN 0 ELSE ntx + 1
         /\ last' = [op |-> "begin"] /\ UNCHANGED <<loc, created, destroyed, evs, com>>
Commit ==
  /\ phase = "tx"
  /\ LET left == {u \in Ids : loc[u].k = "slot"}
         D    == UNION {Sub(loc, u) : u \in left}
         l2   == Kill(loc, D) IN
     /\ loc' = l2 /\ destroyed' = destroyed \cup D /\ evs' = Emit(D)
     /\ com' = [loc |-> l2, created |-> created, destroyed |-> destroyed \cup D, evs |-> Emit(D)]
     /\ phase' = "idle"
     /\ last' = [op |-> "commit", dead |-> D, ev |-> D \ NoEvent, inv |-> D,
                 pop |-> Population(l2), roots |-> RootCount(l2)] @@ Obs(l2)
     /\ nops' = 0 /\ UNCHANGED <<created, ntx>>
Abort == phase = "tx" /\ "noabort" \notin Forms /\ AbortTx([op |-> "abort"])

\* ------------------------------------------------------------ moves
FreshId == CHOOSE u \in Ids \ created : \A v \in Ids \ created : u <= v
OneSideSlot(a, b) == a.k = "slot" \/ b.k = "slot" \/ "direct" \in Forms

Create(dst) ==
  /\ InTx /\ created # Ids
  /\ dst.k = "slot" \/ "direct" \in Forms
  /\ LET u == FreshId IN
     /\ Free(loc, dst, u)
     /\ loc' = Put(loc, u, dst) /\ created' = created \cup {u}
     /\ Ok([op |-> "create", u |-> u, kind |-> KindOf(u), big |-> (u \in Big), dp |-> Path(loc, dst),
            inv |-> {}] @@ Obs(loc'))
     /\ UNCHANGED <<destroyed, evs>>

Move(u, dst, fn) ==
  /\ InTx /\ u \in Live(loc)
  /\ fn => "fn" \in Forms
  /\ LET src == loc[u]
         l1  == Take(loc, u) IN
     /\ OneSideSlot(src, dst)
     /\ (src = dst) => "reput" \in Forms
     /\ Free(l1, dst, u)
     /\ loc' = Put(l1, u, dst)
     /\ Ok([op |-> "move", u |-> u, sp |-> Path(loc, src), dp |-> Path(l1, dst), fn |-> fn,
            inv |-> Sub(loc, u)] @@ Obs(loc'))
     /\ UNCHANGED <<created, destroyed, evs>>

Swappable(i) == SlotRep[i] \in {"var", "dict"}
Swap(i, j) ==
  /\ InTx /\ i < j /\ Swappable(i) /\ Swappable(j)
  /\ At(loc, SlotPl(i)) \cup At(loc, SlotPl(j)) # {}
  /\ loc' = [v \in Ids |-> IF loc[v] = SlotPl(i) THEN SlotPl(j) ELSE IF loc[v] = SlotPl(j) THEN SlotPl(i) ELSE loc[v]]
  /\ Ok([op |-> "swap", i |-> i, j |-> j,
         inv |-> UNION {Sub(loc, v) : v \in At(loc, SlotPl(i)) \cup At(loc, SlotPl(j))}] @@ Obs(loc'))
  /\ UNCHANGED <<created, destroyed, evs>>

\* double transfer `let old <- m <- w`: w = 0 stands for a freshly created resource
ShiftablePlace(pl) == pl.k \in {"child", "kid", "dict", "ocell", "odict"} \/ (pl.k = "slot" /\ Swappable(pl.a))
Shift(w, m, dst) ==
  /\ InTx /\ "shift" \in Forms
  /\ m \in Live(loc) /\ m # w
  /\ (IF w = 0 THEN TRUE ELSE w \in Live(loc))
  /\ w = 0 => created # Ids
  /\ LET nw  == IF w = 0 THEN FreshId ELSE w
         l1  == IF w = 0 THEN loc ELSE Take(loc, w)
         mid == l1[m]
         l2  == [l1 EXCEPT ![m] = Nowhere, ![nw] = mid] IN
     /\ Anchored(l1, m) /\ ShiftablePlace(mid)
     /\ "direct" \notin Forms => /\ (IF w = 0 THEN TRUE ELSE loc[w].k = "slot")
                                /\ dst.k \in {"slot", "store"}
     /\ mid.k \in Nested => Depth(l1, mid.a) + 1 + Height(l1, nw) <= MaxDepth
     /\ Free(l2, dst, m)
     /\ loc' = Put(l2, m, dst)
     /\ created' = IF w = 0 THEN created \cup {nw} ELSE created
     /\ Ok([op |-> "shift", w |-> w, u |-> nw, m |-> m, kind |-> KindOf(nw), big |-> (nw \in Big),
            sp |-> IF w = 0 THEN << >> ELSE Path(loc, loc[w]),
            mp |-> Path(l1, mid), dp |-> Path(l2, dst),
            inv |-> Sub(loc, m) \cup (IF w = 0 THEN {} ELSE Sub(loc, w))] @@ Obs(loc'))
     /\ UNCHANGED <<destroyed, evs>>

Destroy(u) ==
  /\ InTx /\ u \in Live(loc)
  /\ LET D == Sub(loc, u) IN
     /\ loc' = Kill(Take(loc, u), D)
     /\ destroyed' = destroyed \cup D /\ evs' = Emit(D)
     /\ Ok([op |-> "destroy", u |-> u, sp |-> Path(loc, loc[u]), dead |-> D, ev |-> D \ NoEvent,
            inv |-> D] @@ Obs(loc'))
     /\ UNCHANGED created

\* observation only (used by the simulation wrappers so that a step is always possible)
Peek == /\ InTx /\ "peek" \in Forms
        /\ Ok([op |-> "peek", inv |-> {}] @@ Obs(loc))
        /\ UNCHANGED <<loc, created, destroyed, evs>>

\* a move onto an occupied place must abort the transaction (nothing is overwritten, nothing is lost)
BadMove(u, dst) ==
  /\ InTx /\ "bad" \in Forms
  /\ u \in Live(loc) /\ loc[u].k = "slot"
  /\ dst.k \in {"slot", "store", "child", "dict", "ocell"}
  /\ dst.k = "slot" => SlotRep[dst.a] \in {"var", "dict"}
  /\ LET l1 == Take(loc, u) IN
     /\ At(l1, dst) # {}
     /\ dst.k \in Nested => Anchored(l1, dst.a)
     /\ AbortTx([op |-> "badmove", u |-> u, sp |-> Path(loc, loc[u]), dp |-> Path(l1, dst),
                 res |-> IF dst.k = "store" THEN "err:overwrite" ELSE "err:loss"])

Next == \/ Begin \/ Commit \/ Abort \/ Peek
        \/ \E dst \in Places : Create(dst)
        \/ \E u \in Ids, dst \in Places, fn \in BOOLEAN : Move(u, dst, fn)
        \/ \E i, j \in Slots : Swap(i, j)
        \/ \E w \in Ids \cup {0}, m \in Ids, dst \in Places : Shift(w, m, dst)
        \/ \E u \in Ids : Destroy(u)
        \/ \E u \in Ids, dst \in Places : BadMove(u, dst)
Spec == Init /\ [][Next]_vars

\* ------------------------------------------------------------ properties of the design (checked by TLC)
TypeOK == /\ \A u \in Ids : loc[u] \in Places \cup {Nowhere}
          /\ created \subseteq Ids /\ destroyed \subseteq Ids
\* created = destroyed (+) dom(location)
Conservation == /\ created = destroyed \cup Live(loc)
                /\ destroyed \cap Live(loc) = {}
\* one place per live resource, one resource per place
OnePlace == \A u, v \in Live(loc) : u # v => loc[u] # loc[v]
WellFormed == \A u \in Live(loc) :
                /\ Anchored(loc, u) /\ Depth(loc, u) <= MaxDepth
                /\ loc[u].k \in Nested => loc[u].a \in Live(loc) /\ loc[u].a # u
                /\ loc[u].k = "kid" => loc[u].b < NKids(loc, loc[u].a)
\* exactly one destroy event per destroyed resource that declares it, none otherwise
EventsOnce == \A u \in Ids : evs[u] = IF u \in destroyed /\ u \notin NoEvent THEN 1 ELSE 0
\* no resource in a transient location outside a transaction; committed = current when idle
IdleClean == phase = "idle" => /\ \A u \in Ids : loc[u].k # "slot"
                                /\ com = Snapshot
\* a uuid never leaves `destroyed` (except by the rollback of the transaction that destroyed it)
DestroyedForever == [][/\ (destroyed \subseteq destroyed' \/ (phase' = "idle" /\ destroyed' = com.destroyed))
                       /\ com.destroyed \subseteq com'.destroyed
                       /\ com.created \subseteq com'.created]_vars
OnlyCommitChangesCommitted == [][com' # com => last'.op = "commit"]_vars

\* ------------------------------------------------------------ behaviour extraction
Proj == [loc |-> loc, created |-> created, destroyed |-> destroyed, evs |-> evs, com |-> com,
         phase |-> phase, nops |-> nops, ntx |-> ntx]
ProjN == [loc |-> loc', created |-> created', destroyed |-> destroyed', evs |-> evs', com |-> com',
          phase |-> phase', nops |-> nops', ntx |-> ntx']
EmitT == PrintT(ToJson([s |-> Proj, t |-> ProjN, a |-> last']))
=============================================================================
