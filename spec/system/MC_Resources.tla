---- MODULE MC_Resources ----
EXTENDS Resources
\* slot representations: optional variable, entry of a local dictionary, element of a local array
MCSlotRep2 == (1 :> "var") @@ (2 :> "dict")
MCSlotRep3 == (1 :> "var") @@ (2 :> "dict") @@ (3 :> "arr")
MCSlotRep1 == (1 :> "var")
====
