---- MODULE Trace_Determinism ----
(* Observations recorded from real runs, validated against Determinism. A rejected observation is
   reported (REJECT line) and skipped, so every disagreement in the file is reported. *)
EXTENDS Naturals, Sequences, TLC, FiniteSets, Json
Trace == ndJsonDeserialize("trace.ndjson")
Keys == {Trace[i].k : i \in 1..Len(Trace)}
Digests == {Trace[i].d : i \in 1..Len(Trace)}
VARIABLES seen, nobs, l
INSTANCE Determinism
TraceInit == DInit /\ l = 1
TraceNext ==
  /\ l <= Len(Trace) /\ l' = l + 1
  /\ LET e == Trace[l] IN
     IF ENABLED Observe(e.k, e.d) THEN Observe(e.k, e.d)
     ELSE PrintT(<<"REJECT", l>>) /\ UNCHANGED <<seen, nobs>>
TraceSpec == TraceInit /\ [][TraceNext]_<<seen, nobs, l>>
====
