---- MODULE Sim_Contracts ----
(* Simulation wrapper for deep lifecycle histories: parameters drawn by RandomElement (bound
   through singleton sets so that one drawn value is used consistently); updates draw their source
   from the sources the model accepts in the current state half of the time, so that histories
   contain long chains of successful updates as well as every kind of refusal. *)
EXTENDS Contracts
VARIABLE hist
SimDepth == 61
One(S) == {RandomElement(S)}
Coin == RandomElement({TRUE, FALSE})
PickOne(good, all) == {IF good # {} /\ Coin THEN RandomElement(good) ELSE RandomElement(all)}
Entry == IF phase' = "idle" /\ last'.op # "init" THEN last' @@ [com |-> ObsOf(com')] ELSE last'
SimInit == Init /\ hist = << >>
SimStep ==
  \E a \in One(Accts), n \in One(Names), s \in One(Srcs) :
  \E u \in PickOne({x \in Srcs : UpdateBad(a, n, x) = {}}, Srcs),
     v \in PickOne({x \in Srcs : Valid(x)}, Srcs) :
     \/ Begin \/ Commit \/ Commit \/ Abort
     \/ Add(a, n, v) \/ Add(a, n, s) \/ Update(a, n, u) \/ TryUpdate(a, n, u) \/ TryUpdate(a, n, s)
     \/ Remove(a, n) \/ Get(a, n) \/ Borrow(a, n) \/ NamesOf(a)
\* a history ends with the running transaction committed and one stuttering "end" entry, so that the
\* printing invariant fires once per history
SimNext == IF Len(hist) < SimDepth - 2 THEN SimStep /\ hist' = Append(hist, Entry)
           ELSE IF phase = "tx" THEN Commit /\ hist' = Append(hist, Entry)
           ELSE UNCHANGED vars /\ hist' = Append(hist, [op |-> "end", k |-> "ok"])
SimSpec == SimInit /\ [][SimNext]_<<vars, hist>>
SimEmit == Len(hist) # SimDepth \/ PrintT(ToJson([h |-> hist]))
====
