---- MODULE Sim_Contracts ----
(* Simulation wrapper for deep lifecycle histories: parameters drawn by RandomElement (bound
   through singleton sets so that one drawn value is used consistently); updates draw their source
   from the sources the model accepts in the current state half of the time, so that histories
   contain long chains of successful updates as well as every kind of refusal. *)
EXTENDS Contracts
VARIABLE hist
SimDepth == 61
One(S) == {RandomElement(S)}
Coin == RandomElement({TRUE, FALSE})
PickOne(good, all) == {IF good # {} /\ Coin THEN RandomElement(good) ELSE RandomElement(all)}
\* ... and steps inside a transaction carry the in-transaction view after them
Entry == IF phase' = "idle" /\ last'.op # "init" THEN last' @@ [com |-> ObsOf(com')] ELSE last' @@ [view |-> TxView']
SimInit == Init /\ hist = << >>
\* three calls are drawn per step and TLC takes one of their successors (a disabled draw contributes none)
SimStep ==
  \E a \in One(Accts), n \in One(Names), s \in One(Srcs), k1 \in One(1..14), k2 \in One(1..14), k3 \in One(1..14) :
  \E u \in PickOne({x \in Srcs : UpdateBad(a, n, x) = {}}, Srcs),
     v \in PickOne({x \in Srcs : Valid(x)}, Srcs) :
  \E k \in {k1, k2, k3} :
     CASE phase = "idle" -> Begin
       [] nops >= MaxOps -> IF k <= 11 THEN Commit ELSE Abort
       [] k = 4 /\ nops = 0 -> Commit
       [] k = 1 -> Commit
       [] k \in {2, 3} -> Commit
       [] k = 4 -> Abort
       [] k = 5 -> Add(a, n, v)
       [] k = 6 -> Add(a, n, s)
       [] k = 7 -> Update(a, n, u)
       [] k = 8 -> TryUpdate(a, n, u)
       [] k = 9 -> TryUpdate(a, n, s)
       [] k = 10 -> Remove(a, n)
       [] k = 11 -> Get(a, n)
       [] k = 12 -> Borrow(a, n)
       [] k = 13 -> NamesOf(a)
       [] OTHER -> Get(a, n)
\* a history ends with the running transaction committed and one stuttering "end" entry, so that the
\* printing invariant fires once per history
SimNext == IF Len(hist) < SimDepth - 2 THEN SimStep /\ hist' = Append(hist, Entry)
           ELSE IF phase = "tx" THEN Commit /\ hist' = Append(hist, Entry)
           ELSE UNCHANGED vars /\ hist' = Append(hist, [op |-> "end", k |-> "ok"])
SimSpec == SimInit /\ [][SimNext]_<<vars, hist>>
SimEmit == Len(hist) # SimDepth \/ PrintT(ToJson([h |-> hist]))
====
