SPECIFICATION SimSpec
CONSTANTS
  Accts = {"A1", "A2"}
  Names = {"A", "B"}
  Srcs = {"v1", "v2", "retyped", "enum", "iface", "typeerr", "mismatch", "syntax"}
  MaxOps = 4
  MaxTx = 1000
INVARIANTS TypeOK OnlyValidDeployed ValueFitsCode IdleMeansClean SimEmit
