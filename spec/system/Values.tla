------------------------------ MODULE Values ------------------------------
(* Copy semantics of non-resource values (property C05).

   The state is a heap of nodes and a set of roots.  A node is a struct (`O` = Outer with a
   payload p and the members i: Inner, a: [Inner], d: {String: Inner};  `I` = Inner with a
   payload x and the member xs: [payload]), an array of structs (`A`), a dictionary of structs
   (`D`) or an array of payloads (`L`).  Roots are the local variables of the running
   transaction (Outer-typed OVars, Inner-typed IVars), the storage paths (in-transaction view
   `cur`, committed view `com`) and two references (`ro` to an Outer, `ri` to an Inner).

   Every transfer -- assignment, argument passing, returning, reading a member or an element,
   writing a member or an element, save / load / copy -- allocates FRESH nodes and copies the
   source subtree into them (Copy).  Every mutation changes exactly ONE node, found by walking
   from a variable or through a reference.  Hence the invariant NoSharing: the subtrees of two
   different roots are disjoint and every node has at most one parent.  The observation after
   every step is the deep value of every root (Obs); the implementation has to show the same.

   References: an ephemeral reference designates a node; a storage reference designates a path
   (resolved at every use).  The model stops using a reference when its node is no longer
   reachable from a variable or from storage (the fragment the property talks about is
   references to either copy, not dangling references).
   Node ids are allocated smallest-free-first and unreachable nodes are collected after every
   step; the VIEW is the id-free tree form, so the exploration is insensitive to id choice. *)
EXTENDS Integers, Sequences, FiniteSets, TLC, Json
CONSTANTS OVars, IVars, SPaths,   \* variable names / storage path names (strings)
          Ks,                     \* payload values used by constructors and setters
          DKeySeq,                \* dictionary keys (strings), in their canonical order
          MaxSeq, MaxXs,          \* bounds on the lengths of a and of xs (model bounds)
          MaxNodes, MaxOps, MaxTx,
          Acts                    \* enabled action families (strings), to cut bounded configurations

DKeys == {DKeySeq[i] : i \in 1..Len(DKeySeq)}
KeyRank(key) == CHOOSE i \in 1..Len(DKeySeq) : DKeySeq[i] = key
Ids  == 1..MaxNodes
Free == [k |-> "free", p |-> 0, c |-> << >>, ks |-> << >>]
NoRef == [kind |-> "none", id |-> 0, p |-> ""]

VARIABLES heap,     \* [Ids -> node]; node = [k, p, c (child ids), ks (keys of D / payloads of L)]
          ov, iv,   \* [OVars -> id], [IVars -> id]   (0 = not in scope: between transactions)
          cur, com, \* [SPaths -> id or 0]
          ro, ri,   \* reference to an Outer ([kind, id, p]), reference to an Inner (node id or 0)
          phase, nops, ntx, last
vars == <<heap, ov, iv, cur, com, ro, ri, phase, nops, ntx, last>>

\* ---------------------------------------------------------------- heap primitives
RECURSIVE Sub(_, _)
Sub(h, id) == {id} \cup UNION {Sub(h, h[id].c[j]) : j \in 1..Len(h[id].c)}
\* TLC keeps [i \in S |-> e] as an unevaluated closure and re-evaluates e at every application;
\* heaps are built on top of heaps, so every new heap is forced into an explicit function
Force(f)    == f @@ << >>
FreeIds(h)  == {i \in Ids : h[i].k = "free"}
IdSeq       == [i \in 1..MaxNodes |-> i]
FreeSeq(h)  == SelectSeq(IdSeq, LAMBDA i : h[i].k = "free")     \* free ids, ascending
AscSeq(S)  == SelectSeq(IdSeq, LAMBDA i : i \in S)             \* a set of ids, ascending

\* copy the subtree under id into fresh nodes (the smallest free ids, in the order of the
\* source ids): [h |-> new heap, id |-> new root].
\* (Everything that is used more than once is an operator ARGUMENT, evaluated once, and every
\* function is forced: TLC re-evaluates LET definitions and function closures at each use.)
CanCopy(h, id) == Cardinality(FreeIds(h)) >= Cardinality(Sub(h, id))
Copy3(h, id, ren, inv) ==
  [h  |-> Force([i \in Ids |-> IF i \in DOMAIN inv
                               THEN [h[inv[i]] EXCEPT !.c = [j \in 1..Len(h[inv[i]].c) |-> ren[h[inv[i]].c[j]]]]
                               ELSE h[i]]),
   id |-> ren[id]]
Copy2(h, id, ss, fs) ==
  Copy3(h, id, Force([x \in {ss[j] : j \in 1..Len(ss)} |-> fs[CHOOSE j \in 1..Len(ss) : ss[j] = x]]),
               Force([y \in {fs[j] : j \in 1..Len(ss)} |-> ss[CHOOSE j \in 1..Len(ss) : fs[j] = y]]))
Copy(h, id) == Copy2(h, id, AscSeq(Sub(h, id)), FreeSeq(h))

\* place new nodes (child entries are indices into `nodes`) on the smallest free ids
CanPlace(h, n) == Cardinality(FreeIds(h)) >= n
Place3(h, nodes, fs, idx) ==
  [h  |-> Force([i \in Ids |-> IF i \in DOMAIN idx
                               THEN [nodes[idx[i]] EXCEPT !.c = [j \in 1..Len(nodes[idx[i]].c) |-> fs[nodes[idx[i]].c[j]]]]
                               ELSE h[i]]),
   id |-> fs[1]]
Place2(h, nodes, fs) == Place3(h, nodes, fs, Force([y \in {fs[j] : j \in 1..Len(nodes)} |-> CHOOSE j \in 1..Len(nodes) : fs[j] = y]))
Place(h, nodes) == Place2(h, nodes, FreeSeq(h))
N(k, p, c, ks) == [k |-> k, p |-> p, c |-> c, ks |-> ks]
InnerNodes(k) == << N("I", k, <<2>>, << >>), N("L", 0, << >>, <<k>>) >>
\* Outer(k): p = k, i = Inner(k), a = [Inner(k)], d = {FirstKey: Inner(k)}
OuterNodes(k) == << N("O", k, <<2, 4, 5>>, << >>), N("I", k, <<3>>, << >>), N("L", 0, << >>, <<k>>),
                    N("A", 0, <<6>>, << >>), N("D", 0, <<8>>, <<DKeySeq[1]>>),
                    N("I", k, <<7>>, << >>), N("L", 0, << >>, <<k>>), N("I", k, <<9>>, << >>), N("L", 0, << >>, <<k>>) >>
OuterSize == 9

\* the id-free value of a node
RECURSIVE Val(_, _)
Val(h, id) ==
  LET n == h[id] IN
  CASE n.k = "L" -> n.ks
    [] n.k = "I" -> [x |-> n.p, xs |-> Val(h, n.c[1])]
    [] n.k = "A" -> [j \in 1..Len(n.c) |-> Val(h, n.c[j])]
    [] n.k = "D" -> [j \in 1..Len(n.c) |-> [key |-> n.ks[j], v |-> Val(h, n.c[j])]]
    [] n.k = "O" -> [p |-> n.p, i |-> Val(h, n.c[1]), a |-> Val(h, n.c[2]), d |-> Val(h, n.c[3])]
OptVal(h, id) == IF id = 0 THEN << >> ELSE <<Val(h, id)>>

\* ---------------------------------------------------------------- selectors
\* where an Inner sits inside an Outer: member i, element j of a, value at key of d
Sel(f, j, key) == [f |-> f, j |-> j, key |-> key]
Sels == {Sel("i", 0, "")} \cup {Sel("a", j, "") : j \in 0..(MaxSeq - 1)} \cup {Sel("d", 0, key) : key \in DKeys}
KeyPos(n, key) == IF \E j \in 1..Len(n.ks) : n.ks[j] = key THEN CHOOSE j \in 1..Len(n.ks) : n.ks[j] = key ELSE 0
ISel(h, oid, s) ==
  IF s.f = "i" THEN h[oid].c[1]
  ELSE IF s.f = "a" THEN (LET an == h[h[oid].c[2]] IN IF s.j < Len(an.c) THEN an.c[s.j + 1] ELSE 0)
  ELSE (LET dn == h[h[oid].c[3]]  pos == KeyPos(dn, s.key) IN IF pos = 0 THEN 0 ELSE dn.c[pos])

\* Outer roots usable in an expression: a variable, or the reference "r"
ORoots == OVars \cup {"r"}
OTarget(name) ==
  IF name \in OVars THEN ov[name]
  ELSE IF ro.kind = "node" THEN ro.id
  ELSE IF ro.kind = "path" THEN cur[ro.p] ELSE 0
\* an Inner location: an Inner variable / the reference "q" (sel.f = "-"), or a selector under an Outer root
ILoc(root, s) == [root |-> root, sel |-> s]
Direct == Sel("-", 0, "")
ILocs == {ILoc(w, Direct) : w \in IVars \cup {"q"}} \cup {ILoc(o, s) : o \in ORoots, s \in Sels}
ITarget(loc) ==
  IF loc.sel.f = "-" THEN (IF loc.root \in IVars THEN iv[loc.root] ELSE ri)
  ELSE (IF OTarget(loc.root) = 0 THEN 0 ELSE ISel(heap, OTarget(loc.root), loc.sel))

\* ---------------------------------------------------------------- steps
Cfg(h, o, i, c, r, q) == [h |-> h, ov |-> o, iv |-> i, cur |-> c, ro |-> r, ri |-> q]
Here == Cfg(heap, ov, iv, cur, ro, ri)
RootIds(c, cm) == ({c.ov[v] : v \in OVars} \cup {c.iv[w] : w \in IVars} \cup {c.cur[p] : p \in SPaths}
                   \cup {cm[p] : p \in SPaths}) \ {0}
Live(c, cm) == UNION {Sub(c.h, r) : r \in RootIds(c, cm)}
Obs(c, r, q) ==
  [o  |-> [v \in OVars |-> OptVal(c.h, c.ov[v])],
   i  |-> [w \in IVars |-> OptVal(c.h, c.iv[w])],
   st |-> [p \in SPaths |-> OptVal(c.h, c.cur[p])],
   r  |-> OptVal(c.h, IF r.kind = "node" THEN r.id ELSE IF r.kind = "path" THEN c.cur[r.p] ELSE 0),
   q  |-> OptVal(c.h, q)]

\* install configuration c: collect garbage, drop references whose target is gone, observe.
\* (Singleton quantifiers bind concrete values: in an action TLC would otherwise re-evaluate a LET
\* definition or an operator argument at every use.)
Install(c0, cm, l, ph) ==
  \E c \in {c0} : \E live \in {Live(c, cm)} :
  \E h2 \in {Force([i \in Ids |-> IF i \in live THEN c.h[i] ELSE Free])},
     r2 \in {IF (c.ro.kind = "node" /\ c.ro.id \notin live) \/ (c.ro.kind = "path" /\ c.cur[c.ro.p] = 0) THEN NoRef ELSE c.ro},
     q2 \in {IF c.ri # 0 /\ c.ri \notin live THEN 0 ELSE c.ri} :
  /\ heap' = h2 /\ ov' = c.ov /\ iv' = c.iv /\ cur' = c.cur /\ com' = cm /\ ro' = r2 /\ ri' = q2 /\ phase' = ph
  /\ last' = l @@ [dropr |-> (r2 # c.ro), dropq |-> (q2 # c.ri), obs |-> Obs([c EXCEPT !.h = h2], r2, q2)]

Do(c, l) == /\ phase = "tx" /\ nops < MaxOps /\ Install(c, com, l, "tx") /\ nops' = nops + 1 /\ UNCHANGED ntx
On(a)    == a \in Acts /\ phase = "tx" /\ nops < MaxOps

Init == /\ heap = [i \in Ids |-> Free] /\ ov = [v \in OVars |-> 0] /\ iv = [w \in IVars |-> 0]
        /\ cur = [p \in SPaths |-> 0] /\ com = [p \in SPaths |-> 0] /\ ro = NoRef /\ ri = 0
        /\ phase = "idle" /\ nops = 0 /\ ntx = 0 /\ last = [op |-> "init"]

\* a transaction starts with fresh locals; the stored values it sees are the committed ones
\* (copies of the committed nodes: the committed nodes themselves stay untouched until Commit)
SetO(c, v, pl) == [c EXCEPT !.h = pl.h, !.ov[v] = pl.id]
SetI(c, w, pl) == [c EXCEPT !.h = pl.h, !.iv[w] = pl.id]
SetC(c, p, cp) == [c EXCEPT !.h = cp.h, !.cur[p] = cp.id]
RECURSIVE MkLocals(_, _, _)
MkLocals(c, os, is) ==
  IF os # {} THEN LET v == CHOOSE x \in os : TRUE IN MkLocals(SetO(c, v, Place(c.h, OuterNodes(0))), os \ {v}, is)
  ELSE IF is # {} THEN LET w == CHOOSE x \in is : TRUE IN MkLocals(SetI(c, w, Place(c.h, InnerNodes(0))), os, is \ {w})
  ELSE c
RECURSIVE CpStored(_, _)
CpStored(c, ps) ==
  IF ps = {} THEN c
  ELSE LET p == CHOOSE x \in ps : TRUE IN
       IF com[p] = 0 THEN CpStored(c, ps \ {p}) ELSE CpStored(SetC(c, p, Copy(c.h, com[p])), ps \ {p})
Begin ==
  /\ phase = "idle" /\ ntx < MaxTx
  /\ \E c1 \in {CpStored(MkLocals(Cfg(heap, ov, iv, [p \in SPaths |-> 0], NoRef, 0), OVars, IVars), SPaths)} :
       Install(c1, com, [op |-> "begin"], "tx")
  /\ nops' = 0 /\ ntx' = ntx + 1
EndCfg(st) == Cfg(heap, [v \in OVars |-> 0], [w \in IVars |-> 0], st, NoRef, 0)
Commit == /\ phase = "tx" /\ Install(EndCfg(cur), cur, [op |-> "commit"], "idle") /\ UNCHANGED <<nops, ntx>>
Abort  == /\ phase = "tx" /\ Install(EndCfg(com), com, [op |-> "abort"], "idle") /\ UNCHANGED <<nops, ntx>>

\* ---- constructors
NewO(v, k) == /\ On("new") /\ CanPlace(heap, OuterSize)
              /\ \E pl \in {Place(heap, OuterNodes(k))} :
                 Do([Here EXCEPT !.h = pl.h, !.ov[v] = pl.id], [op |-> "newO", v |-> v, k |-> k])
NewI(w, k) == /\ On("new") /\ CanPlace(heap, 2)
              /\ \E pl \in {Place(heap, InnerNodes(k))} :
                 Do([Here EXCEPT !.h = pl.h, !.iv[w] = pl.id], [op |-> "newI", v |-> w, k |-> k])

\* ---- transfers of a whole Outer: v = src | v = id(src) ; mutArg(src) passes a copy that the callee mutates
AssignO(v, src, how) ==
  /\ On("assign") /\ src # v /\ OTarget(src) # 0 /\ CanCopy(heap, OTarget(src))
  /\ \E cp \in {Copy(heap, OTarget(src))} :
     Do([Here EXCEPT !.h = cp.h, !.ov[v] = cp.id], [op |-> how, v |-> v, src |-> src])
ArgMutO(src) ==
  /\ On("assign") /\ OTarget(src) # 0 /\ CanCopy(heap, OTarget(src))
  /\ Do(Here, [op |-> "argMutO", src |-> src])

\* ---- member / element read: w = <location>   (a copy)
ReadI(w, loc) ==
  /\ On("member") /\ ITarget(loc) # 0 /\ ~(loc.sel.f = "-" /\ loc.root = w) /\ CanCopy(heap, ITarget(loc))
  /\ \E cp \in {Copy(heap, ITarget(loc))} :
     Do([Here EXCEPT !.h = cp.h, !.iv[w] = cp.id], [op |-> "readI", v |-> w, root |-> loc.root, sel |-> loc.sel])

\* ---- member / element write: <root>.i = src | <root>.a[j] = src | <root>.d[key] = src   (a copy goes in)
SrcI == IVars \cup {"q"}
ITargetOf(name) == IF name \in IVars THEN iv[name] ELSE ri
WriteI(root, s, src) ==
  /\ On("member") /\ OTarget(root) # 0 /\ ITargetOf(src) # 0 /\ CanCopy(heap, ITargetOf(src))
  /\ \E cp \in {Copy(heap, ITargetOf(src))} :
     LET oid == OTarget(root)
         l   == [op |-> "writeI", root |-> root, sel |-> s, src |-> src]
     IN CASE s.f = "i" -> Do([Here EXCEPT !.h = [cp.h EXCEPT ![oid].c[1] = cp.id]], l)
          [] s.f = "a" -> /\ s.j < Len(heap[heap[oid].c[2]].c)
                          /\ Do([Here EXCEPT !.h = [cp.h EXCEPT ![heap[oid].c[2]].c[s.j + 1] = cp.id]], l)
          [] s.f = "d" -> LET did == heap[oid].c[3]  dn == heap[did]  pos == KeyPos(dn, s.key) IN
                          IF pos # 0 THEN Do([Here EXCEPT !.h = [cp.h EXCEPT ![did].c[pos] = cp.id]], l)
                          ELSE \* new key: keys are kept sorted so that the tree form is canonical
                            LET before == Cardinality({j \in 1..Len(dn.ks) : KeyRank(dn.ks[j]) < KeyRank(s.key)})
                                nks == SubSeq(dn.ks, 1, before) \o <<s.key>> \o SubSeq(dn.ks, before + 1, Len(dn.ks))
                                nc  == SubSeq(dn.c, 1, before) \o <<cp.id>> \o SubSeq(dn.c, before + 1, Len(dn.c))
                            IN Do([Here EXCEPT !.h = [cp.h EXCEPT ![did].ks = nks, ![did].c = nc]], l)
AppendA(root, src) ==
  /\ On("container") /\ OTarget(root) # 0 /\ ITargetOf(src) # 0 /\ CanCopy(heap, ITargetOf(src))
  /\ Len(heap[heap[OTarget(root)].c[2]].c) < MaxSeq
  /\ \E cp \in {Copy(heap, ITargetOf(src))} : LET aid == heap[OTarget(root)].c[2] IN
     Do([Here EXCEPT !.h = [cp.h EXCEPT ![aid].c = Append(heap[aid].c, cp.id)]], [op |-> "appendA", root |-> root, src |-> src])
\* w = <root>.a.removeLast(): the removed element is handed out as a copy
PopA(w, root) ==
  /\ On("container") /\ OTarget(root) # 0 /\ Len(heap[heap[OTarget(root)].c[2]].c) > 0
  /\ LET aid == heap[OTarget(root)].c[2]  n == Len(heap[aid].c) IN
     /\ CanCopy(heap, heap[aid].c[n])
     /\ \E cp \in {Copy(heap, heap[aid].c[n])} :
        Do([Here EXCEPT !.h = [cp.h EXCEPT ![aid].c = SubSeq(heap[aid].c, 1, n - 1)], !.iv[w] = cp.id],
           [op |-> "popA", v |-> w, root |-> root])
DelD(root, key) ==
  /\ On("container") /\ OTarget(root) # 0 /\ KeyPos(heap[heap[OTarget(root)].c[3]], key) # 0
  /\ LET did == heap[OTarget(root)].c[3]  dn == heap[did]  pos == KeyPos(dn, key) IN
     Do([Here EXCEPT !.h = [heap EXCEPT ![did].ks = SubSeq(dn.ks, 1, pos - 1) \o SubSeq(dn.ks, pos + 1, Len(dn.ks)),
                                       ![did].c  = SubSeq(dn.c, 1, pos - 1) \o SubSeq(dn.c, pos + 1, Len(dn.c))]],
        [op |-> "delD", root |-> root, key |-> key])

\* ---- mutations of exactly one node (directly, or through a reference when the root is "r" / "q")
SetP(root, k) ==
  /\ On("mutate") /\ OTarget(root) # 0 /\ heap[OTarget(root)].p # k
  /\ Do([Here EXCEPT !.h = [heap EXCEPT ![OTarget(root)].p = k]], [op |-> "setP", root |-> root, k |-> k])
SetX(loc, k) ==
  /\ On("mutate") /\ ITarget(loc) # 0 /\ heap[ITarget(loc)].p # k
  /\ Do([Here EXCEPT !.h = [heap EXCEPT ![ITarget(loc)].p = k]], [op |-> "setX", root |-> loc.root, sel |-> loc.sel, k |-> k])
Push(loc, k) ==
  /\ On("mutate") /\ ITarget(loc) # 0 /\ Len(heap[heap[ITarget(loc)].c[1]].ks) < MaxXs
  /\ LET lid == heap[ITarget(loc)].c[1] IN
     Do([Here EXCEPT !.h = [heap EXCEPT ![lid].ks = Append(heap[lid].ks, k)]], [op |-> "push", root |-> loc.root, sel |-> loc.sel, k |-> k])

\* ---- mutating the result of a transfer expression that is never bound to anything.
\* A transfer expression -- storage copy, the value a function returns (the whole Outer, or one of its
\* members handed out by a getter), the dereference of a reference -- denotes a FRESH copy even when
\* nothing binds it.  Mutating that temporary, directly or through a reference taken to it, at the
\* top (depth 1) or inside it (depth 2, 3), changes one node of the copy and nothing else: the copy
\* is unreachable afterwards and collected.
\*   form "copySt": storage.copy<Outer>(from: p)!        form "ret": id(root) / root.clone()
\*   form "getI" / "getA" / "getD": root.getI() / getA() / getD()  (the member, returned by value)
\*   form "derefXs": *(&<Inner at (root, loc)>.xs)      (only containers of payloads can be dereferenced)
\* `s` selects the node inside the temporary (Direct = the temporary itself); `mut` is the mutation.
TempId(form, root, p, loc) ==
  CASE form = "copySt" -> cur[p]
    [] form = "ret"    -> OTarget(root)
    [] form = "getI"   -> IF OTarget(root) = 0 THEN 0 ELSE heap[OTarget(root)].c[1]
    [] form = "getA"   -> IF OTarget(root) = 0 THEN 0 ELSE heap[OTarget(root)].c[2]
    [] form = "getD"   -> IF OTarget(root) = 0 THEN 0 ELSE heap[OTarget(root)].c[3]
    [] form = "derefXs" -> IF ITarget(ILoc(root, loc)) = 0 THEN 0 ELSE heap[ITarget(ILoc(root, loc))].c[1]
Resolve(h, tid, s) ==
  IF s.f = "-" THEN tid
  ELSE CASE h[tid].k = "O" -> ISel(h, tid, s)
         [] h[tid].k = "A" -> IF s.f = "a" /\ s.j < Len(h[tid].c) THEN h[tid].c[s.j + 1] ELSE 0
         [] h[tid].k = "D" -> IF s.f = "d" /\ KeyPos(h[tid], s.key) # 0 THEN h[tid].c[KeyPos(h[tid], s.key)] ELSE 0
         [] OTHER -> 0
MutOK(h, nid, mut, key) ==
  CASE mut = "setP" -> h[nid].k = "O"
    [] mut = "setX" -> h[nid].k = "I"
    [] mut = "push" -> h[nid].k \in {"I", "L"}
    [] mut = "pop"  -> h[nid].k = "A" /\ Len(h[nid].c) > 0
    [] mut = "del"  -> h[nid].k = "D" /\ KeyPos(h[nid], key) # 0
MutNode(h, nid, mut, k, key) ==
  CASE mut \in {"setP", "setX"} -> [h EXCEPT ![nid].p = k]
    [] mut = "push" -> LET lid == IF h[nid].k = "L" THEN nid ELSE h[nid].c[1] IN [h EXCEPT ![lid].ks = Append(@, k)]
    [] mut = "pop"  -> [h EXCEPT ![nid].c = SubSeq(@, 1, Len(@) - 1)]
    [] mut = "del"  -> LET pos == KeyPos(h[nid], key) IN
                       [h EXCEPT ![nid].ks = SubSeq(@, 1, pos - 1) \o SubSeq(@, pos + 1, Len(@)),
                                 ![nid].c  = SubSeq(@, 1, pos - 1) \o SubSeq(@, pos + 1, Len(@))]
TempMut(form, root, p, loc, s, mut, via, k, key) ==
  /\ On("temp")
  /\ LET tid == TempId(form, root, p, loc) IN
     /\ tid # 0 /\ Resolve(heap, tid, s) # 0 /\ MutOK(heap, Resolve(heap, tid, s), mut, key) /\ CanCopy(heap, tid)
     /\ \E cp \in {Copy(heap, tid)} :
          Do([Here EXCEPT !.h = MutNode(cp.h, Resolve(cp.h, cp.id, s), mut, k, key)],
             [op |-> "tempMut", form |-> form, root |-> root, path |-> p, loc |-> loc, sel |-> s, mut |-> mut, via |-> via, k |-> k, key |-> key])
Vias == {"direct", "ref"}
AnyPath == CHOOSE p \in SPaths : TRUE
TempNext ==
  \E via \in Vias, k \in Ks :
    \/ \E p \in SPaths, s \in Sels \cup {Direct}, mut \in {"setP", "setX", "push"} :
          TempMut("copySt", "-", p, Direct, s, mut, via, k, DKeySeq[1])
    \/ \E root \in ORoots, s \in Sels \cup {Direct}, mut \in {"setP", "setX", "push"} :
          TempMut("ret", root, AnyPath, Direct, s, mut, via, k, DKeySeq[1])
    \/ \E root \in ORoots, mut \in {"setX", "push"} : TempMut("getI", root, AnyPath, Direct, Direct, mut, via, k, DKeySeq[1])
    \/ \E root \in ORoots : \/ TempMut("getA", root, AnyPath, Direct, Direct, "pop", via, k, DKeySeq[1])
                             \/ \E j \in 0..(MaxSeq - 1) : TempMut("getA", root, AnyPath, Direct, Sel("a", j, ""), "setX", via, k, DKeySeq[1])
                             \/ \E key \in DKeys : \/ TempMut("getD", root, AnyPath, Direct, Direct, "del", via, k, key)
                                                     \/ TempMut("getD", root, AnyPath, Direct, Sel("d", 0, key), "setX", via, k, key)
    \/ \E l \in ILocs : TempMut("derefXs", l.root, AnyPath, l.sel, Direct, "push", via, k, DKeySeq[1])

\* ---- storage: save / load / copy
Save(v, p) ==
  /\ On("storage") /\ cur[p] = 0 /\ CanCopy(heap, ov[v])
  /\ \E cp \in {Copy(heap, ov[v])} : Do([Here EXCEPT !.h = cp.h, !.cur[p] = cp.id], [op |-> "save", v |-> v, path |-> p])
Load(v, p) ==
  /\ On("storage") /\ cur[p] # 0 /\ CanCopy(heap, cur[p])
  /\ \E cp \in {Copy(heap, cur[p])} : Do([Here EXCEPT !.h = cp.h, !.ov[v] = cp.id, !.cur[p] = 0], [op |-> "load", v |-> v, path |-> p])
CopySt(v, p) ==
  /\ On("storage") /\ cur[p] # 0 /\ CanCopy(heap, cur[p])
  /\ \E cp \in {Copy(heap, cur[p])} : Do([Here EXCEPT !.h = cp.h, !.ov[v] = cp.id], [op |-> "copySt", v |-> v, path |-> p])

\* ---- taking references
RefO(v)   == On("ref") /\ Do([Here EXCEPT !.ro = [kind |-> "node", id |-> ov[v], p |-> ""]], [op |-> "refO", v |-> v])
Borrow(p) == On("ref") /\ cur[p] # 0 /\ Do([Here EXCEPT !.ro = [kind |-> "path", id |-> 0, p |-> p]], [op |-> "borrow", path |-> p])
RefI(loc) == /\ On("ref") /\ loc.root # "q" /\ ITarget(loc) # 0
             /\ Do([Here EXCEPT !.ri = ITarget(loc)], [op |-> "refI", root |-> loc.root, sel |-> loc.sel])

Next ==
  \/ Begin \/ Commit \/ Abort
  \/ \E v \in OVars, k \in Ks : NewO(v, k)
  \/ \E w \in IVars, k \in Ks : NewI(w, k)
  \/ \E v \in OVars, src \in ORoots, how \in {"assignO", "idO"} : AssignO(v, src, how)
  \/ \E src \in ORoots : ArgMutO(src)
  \/ \E w \in IVars, loc \in ILocs : ReadI(w, loc)
  \/ \E root \in ORoots, s \in Sels, src \in SrcI : WriteI(root, s, src)
  \/ \E root \in ORoots, src \in SrcI : AppendA(root, src)
  \/ \E root \in ORoots, w \in IVars : PopA(w, root)
  \/ \E root \in ORoots, key \in DKeys : DelD(root, key)
  \/ \E root \in ORoots, k \in Ks : SetP(root, k)
  \/ \E loc \in ILocs, k \in Ks : SetX(loc, k) \/ Push(loc, k)
  \/ \E v \in OVars, p \in SPaths : Save(v, p) \/ Load(v, p) \/ CopySt(v, p)
  \/ \E v \in OVars : RefO(v)
  \/ \E p \in SPaths : Borrow(p)
  \/ \E loc \in ILocs : RefI(loc)
  \/ TempNext
Spec == Init /\ [][Next]_vars

\* ---------------------------------------------------------------- properties of the design
AllRoots == RootIds(Here, com)
\* committed and in-transaction view of the same path may be the same nodes only between transactions
NoSharing ==
  /\ \A r1, r2 \in ({ov[v] : v \in OVars} \cup {iv[w] : w \in IVars} \cup {cur[p] : p \in SPaths}) \ {0} :
        r1 # r2 => Sub(heap, r1) \cap Sub(heap, r2) = {}
  /\ phase = "tx" => \A p \in SPaths, r \in ({ov[v] : v \in OVars} \cup {iv[w] : w \in IVars} \cup {cur[q] : q \in SPaths}) \ {0} :
        com[p] # 0 => Sub(heap, com[p]) \cap Sub(heap, r) = {}
  /\ LET slots == UNION {{<<i, a>> : a \in 1..Len(heap[i].c)} : i \in Ids}       \* every node has at most one parent
     IN Cardinality({heap[x[1]].c[x[2]] : x \in slots}) = Cardinality(slots)
LiveNow == UNION {Sub(heap, r) : r \in AllRoots}
NoGarbage == LET live == LiveNow IN \A i \in Ids : heap[i].k # "free" => i \in live
RefsAreLive == LET live == LiveNow IN (ri # 0 => ri \in live) /\ (ro.kind = "node" => ro.id \in live)
Shapes == \A i \in Ids :
  LET n == heap[i] IN
  CASE n.k = "O" -> Len(n.c) = 3 /\ heap[n.c[1]].k = "I" /\ heap[n.c[2]].k = "A" /\ heap[n.c[3]].k = "D"
    [] n.k = "I" -> Len(n.c) = 1 /\ heap[n.c[1]].k = "L"
    [] n.k = "A" -> \A j \in 1..Len(n.c) : heap[n.c[j]].k = "I"
    [] n.k = "D" -> Len(n.c) = Len(n.ks) /\ \A j \in 1..Len(n.c) : heap[n.c[j]].k = "I"
    [] OTHER -> n.c = << >>
\* a transfer never changes the value of its source, a mutation through one root never changes another root's value:
\* both follow from NoSharing + "one node changes"; checked directly on the steps as well
OthersUntouched ==
  [][(phase = "tx" /\ phase' = "tx" /\ last'.op \in {"setP", "setX", "push"}) =>
       LET chg == {v \in OVars : ov[v] # 0 /\ Val(heap, ov[v]) # Val(heap', ov'[v])}
                  \cup {w \in IVars : iv[w] # 0 /\ Val(heap, iv[w]) # Val(heap', iv'[w])}
                  \cup {p \in SPaths : cur[p] # 0 /\ Val(heap, cur[p]) # Val(heap', cur'[p])}
       IN Cardinality(chg) <= 1]_vars
OnlyCommitChangesCommitted ==
  [][(\E p \in SPaths : OptVal(heap, com[p]) # OptVal(heap', com'[p])) => last'.op = "commit"]_vars

\* ---------------------------------------------------------------- VIEW and behaviour extraction
\* where the references point, in terms of variables / paths / selectors (id-free)
RefDesc == [r |-> IF ro.kind = "path" THEN <<"path", {ro.p}>>
                  ELSE IF ro.kind = "node" THEN <<"node", {v \in OVars : ov[v] = ro.id}>> ELSE <<"none", {}>>,
            q |-> IF ri = 0 THEN {}
                  ELSE {<<"var", l.root, l.sel>> : l \in {x \in ILocs : x.root \notin {"q", "r"} /\ ITarget(x) = ri}}
                       \cup {<<"path", ps[1], ps[2]>> : ps \in {x \in SPaths \X Sels : cur[x[1]] # 0 /\ ISel(heap, cur[x[1]], x[2]) = ri}}]
Proj == [o |-> [v \in OVars |-> OptVal(heap, ov[v])], i |-> [w \in IVars |-> OptVal(heap, iv[w])],
         cur |-> [p \in SPaths |-> OptVal(heap, cur[p])], com |-> [p \in SPaths |-> OptVal(heap, com[p])],
         ref |-> RefDesc, phase |-> phase, nops |-> nops, ntx |-> ntx]
view == Proj
Emit == PrintT(ToJson([s |-> Proj, t |-> Proj', a |-> last']))
=============================================================================
