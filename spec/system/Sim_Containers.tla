---- MODULE Sim_Containers ----
(* Simulation wrapper for deep histories: the actions of Containers with parameters drawn by
   RandomElement, bulk fills that take the containers across the slab-size thresholds of the
   implementation, and `hist`, the behaviour, printed as JSON at SimDepth.
   Exactly one action is drawn per step (one successor per step), and the last step is
   deterministic (it closes the running transaction), so one behaviour is printed per trace.
   Every random draw is bound by a singleton quantifier so that it is made exactly once
   (a LET definition would be re-evaluated, and re-drawn, at every use). *)
EXTENDS MC_Containers
VARIABLE hist
CONSTANT SimDepth
SimInit == Init /\ hist = << >>

One(S) == {RandomElement(S)}
Preds == {"odd", "gt1"}
Fns   == {"rot", "dbl"}

\* index draws for an array of length n: mostly valid, one in 14 just outside
WithIdx(n, A(_)) ==       \* valid range 0..n-1
  \E bad \in One(1..14) : \E i \in One(IF bad = 1 \/ n = 0 THEN {-1, n, n + 1} ELSE 0..(n - 1)) : A(i)
WithPos(n, A(_)) ==       \* valid range 0..n
  \E bad \in One(1..14) : \E i \in One(IF bad = 1 THEN {-1, n + 1} ELSE 0..n) : A(i)
WithRange(n, A(_, _)) ==  \* valid: 0 <= i <= j <= n
  \E bad \in One(1..14) : \E a \in One(0..n) : \E b \in One(a..n) :
     IF bad = 1 THEN \E w \in One(1..3) : IF w = 1 THEN A(-1, b) ELSE IF w = 2 THEN A(b, a) ELSE A(a, n + 1)
     ELSE A(a, b)
WithKey(dom, pool, A(_)) ==
  \E c \in One(1..3) : \E k \in One(IF c = 1 /\ dom # {} THEN dom ELSE pool) : A(k)

ArrStep(act) ==
  \E tg \in One(Tgts) :
  LET n == Len(cur[tg])
      Else == Length(tg)        \* what happens instead when a model bound disables the drawn action
  IN CASE act = 1 -> \E x \in One(Vals) : IF n < MaxLen THEN AppendOp(tg, x) ELSE Else
       [] act = 2 -> \E lit \in One(Lits) : IF n + Len(lit) <= MaxLen THEN AppendAll(tg, "lit", lit) ELSE Else
       [] act = 3 -> \E ot \in One(Tgts) : IF n + Len(cur[ot]) <= MaxLen THEN AppendAll(tg, ot, cur[ot]) ELSE Else
       [] act = 4 -> \E lit \in One(Lits) : IF n + Len(lit) <= MaxLen THEN Concat(tg, "lit", lit) ELSE Else
       [] act = 5 -> \E ot \in One(Tgts) : IF n + Len(cur[ot]) <= MaxLen THEN Concat(tg, ot, cur[ot]) ELSE Else
       [] act = 6 -> \E x \in One(Vals) : IF n < MaxLen THEN WithPos(n, LAMBDA i : Insert(tg, i, x)) ELSE Else
       [] act = 7 -> \E x \in One(Vals) : WithIdx(n, LAMBDA i : Set(tg, i, x))
       [] act = 8 -> WithIdx(n, LAMBDA i : Remove(tg, i))
       [] act = 9 -> WithIdx(n, LAMBDA i : Get(tg, i))
       [] act = 10 -> RemoveFirst(tg)
       [] act = 11 -> RemoveLast(tg)
       [] act = 12 -> WithRange(n, LAMBDA i, j : SliceOp(tg, i, j))
       [] act = 13 -> Reverse(tg)
       [] act = 14 -> CopyToMem(tg)
       [] act = 15 -> Length(tg)
       [] act = 16 -> Iterate(tg)
       [] act = 17 -> \E p \in One(Preds) : FilterOp(tg, p)
       [] act = 18 -> \E f \in One(Fns) : MapOp(tg, f)
       [] act = 19 -> \E x \in One(Probe) : Contains(tg, x)
       [] act = 20 -> \E x \in One(Probe) : FirstIndex(tg, x)
       [] act = 21 -> ToConst(tg)
       [] act = 22 -> IF n < 20 THEN \E bn \in One({40, 150, 200, 300, 450}), b0 \in One(0..4) : Bulk(tg, bn, b0) ELSE Else
       [] act = 23 -> IF n >= 30 THEN \E tn \in One({1, n \div 2, n - (n \div 8)}), w \in One(1..2) :
                                         IF w = 1 THEN Trunc(tg, tn) ELSE Behead(tg, tn)
                      ELSE Else
       [] OTHER -> FALSE

CStep(act) ==
  CASE act = 24 -> \E i \in One((-1)..CN) : CGet(i)
    [] act = 25 -> \E i \in One((-1)..CN), x \in One(Vals) : CSet(i, x)
    [] act = 26 -> \E x \in One(Probe) : CContains(x)
    [] act = 27 -> \E x \in One(Probe) : CFirstIndex(x)
    [] act = 28 -> CIterate
    [] act = 29 -> CReverse
    [] act = 30 -> CToVar
    [] act = 31 -> \E f \in One(Fns) : CMap(f)
    [] act = 32 -> \E p \in One(Preds) : CFilter(p)
    [] OTHER -> FALSE

DictStep(act) ==
  \E dt \in One(DTgts) :
  LET dom == DOMAIN cur[dt]
      Else == DLength(dt)
  IN CASE act = 33 -> \E x \in One(Vals) : WithKey(dom, Keys, LAMBDA k : DInsert(dt, k, x))
       [] act = 34 -> \E x \in One(Vals) : WithKey(dom, Keys, LAMBDA k : DSet(dt, k, x))
       [] act = 35 -> WithKey(dom, PKeys, LAMBDA k : DRemove(dt, k))
       [] act = 36 -> WithKey(dom, PKeys, LAMBDA k : DGet(dt, k))
       [] act = 37 -> WithKey(dom, PKeys, LAMBDA k : DSetNil(dt, k))
       [] act = 38 -> WithKey(dom, PKeys, LAMBDA k : DContainsKey(dt, k))
       [] act = 39 -> WithKey(dom, PKeys, LAMBDA k : DForEachKey(dt, k))
       [] act = 40 -> DLength(dt)
       [] act = 41 -> DKeys(dt)
       [] act = 42 -> DValues(dt)
       [] act = 43 -> DIterate(dt)
       [] act = 44 -> DCopyToMem(dt)
       [] act = 45 -> IF Cardinality(dom) < 20
                      THEN \E bn \in One({40, 150, 200, 300, 450}), bb \in One({100, 180, 300}) : DBulk(dt, bn, bb)
                      ELSE Else
       [] act = 46 -> IF Cardinality(dom) >= 30
                      THEN \E rn \in One({20, 100, 450}), bb \in One({100, 180, 300}) : DBulkRemove(dt, rn, bb)
                      ELSE Else
       [] OTHER -> FALSE

SimStep ==
  IF phase = "idle" THEN \E md \in One(Modes) : Begin(md)
  ELSE IF nops >= MaxOps THEN Commit
  ELSE \E act \in One(1..61) :
         CASE act \in 1..23  -> ArrStep(act)
           [] act \in 24..32 -> CStep(act)
           [] act \in 33..46 -> DictStep(act)
           [] act \in 47..49 -> Commit
           [] act = 50       -> Abort
           [] act \in 51..53 -> ArrStep(1)        \* growth bias: appends and inserts
           [] act \in 54..56 -> DictStep(33)
           [] act \in 57..58 -> ArrStep(23)       \* shrink again: sizes go up and down across the thresholds
           [] act = 59       -> DictStep(46)
           [] act = 60       -> AMove
           [] act = 61       -> DMove

Note(l) == IF phase' = "idle" /\ l.op # "begin" THEN l @@ [com |-> PJ(com')] ELSE l
\* the closing step: commit what is running, or just mark the end
Finish == IF phase = "tx" THEN Commit
          ELSE /\ last' = [op |-> "end"] /\ UNCHANGED <<com, cur, phase, mode, nops, ntx>>
SimNext == /\ (IF Len(hist) >= SimDepth - 1 THEN Finish ELSE SimStep)
           /\ hist' = Append(hist, Note(last'))
SimSpec == SimInit /\ [][SimNext]_<<vars, hist>>
SimEmit == Len(hist) < SimDepth \/ PrintT(ToJson(hist))
====
