------------------------------ MODULE Metering ------------------------------
(* Every execution is bounded by the metering and depth limits (property C30).

   The runtime reports work to the host's gauges before doing it: Meter(a) adds a >= 1 units.
   The gauge refuses once the limit would be exceeded; from then on the execution is `tripped`:
   it may report at most Grace further meterings (unwinding) and must end with a limit error.
   Calls nest; Call is refused at depth = DepthLimit (call-depth error). Because every step of
   an unbounded construct (loop iteration, call, value growth) is metered with amount >= 1,
   `used` strictly grows until the limit trips, so under weak fairness every execution ends. *)
EXTENDS Naturals
CONSTANTS Limit, DepthLimit, Grace, MaxAmount
VARIABLES used, depth, tripped, after, done
mvars == <<used, depth, tripped, after, done>>

MInit == used = 0 /\ depth = 0 /\ tripped = "no" /\ after = 0 /\ done = "running"

\* a metered step of the program: accepted while within the limit, refused otherwise
Meter(a) == /\ done = "running" /\ a >= 1
            /\ IF tripped # "no"
               THEN after < Grace /\ after' = after + 1 /\ UNCHANGED <<used, depth, tripped, done>>
               ELSE IF used + a > Limit
                    THEN tripped' = "limit" /\ UNCHANGED <<used, depth, after, done>>
                    ELSE used' = used + a /\ UNCHANGED <<depth, tripped, after, done>>
Call   == /\ done = "running" /\ tripped = "no"
          /\ IF depth = DepthLimit THEN tripped' = "depth" /\ UNCHANGED <<used, depth, after, done>>
             ELSE depth' = depth + 1 /\ UNCHANGED <<used, tripped, after, done>>
Return == done = "running" /\ depth > 0 /\ depth' = depth - 1 /\ UNCHANGED <<used, tripped, after, done>>
\* the program ends: normally only if never tripped; otherwise with the limit error
Finish(ok) == /\ done = "running"
              /\ ok => tripped = "no"
              /\ done' = (IF ok THEN "ok" ELSE "error") /\ UNCHANGED <<used, depth, tripped, after>>
\* an unbounded program: it never finishes by itself, every step is metered
MNextUnbounded == \/ \E a \in 1..MaxAmount : Meter(a)
                  \/ Call
                  \/ (tripped # "no" /\ Finish(FALSE))
MNext == \/ \E a \in 1..MaxAmount : Meter(a)
         \/ Call \/ Return \/ \E ok \in BOOLEAN : Finish(ok)
MSpec == MInit /\ [][MNext]_mvars
\* the unbounded program under fairness: must halt
USpec == MInit /\ [][MNextUnbounded]_mvars /\ WF_mvars(MNextUnbounded)

MTypeOK == used \in 0..Limit /\ depth \in 0..DepthLimit /\ after \in 0..Grace
Bounded == used <= Limit /\ depth <= DepthLimit
NeverOkAfterTrip == done = "ok" => tripped = "no"
Halts == <>(done # "running")
=============================================================================
