--------------------------- MODULE ContractUpdate ---------------------------
(* Contract updates and the data stored under the previous version (property C27).

   An abstract contract *schema*: the nested declarations of a contract C (kind, ordered fields
   name/type/let-var/access, conformances, ordered enum cases and raw type), the contract's own
   fields, and the #removedType pragmas. The state is a pair (old, new) of schemas: `old` is
   deployed and instances of every declaration are stored; `new` is the proposed update.
   Actions mutate a schema: add / remove / retype / rename / reorder fields, let -> var, access
   narrowing, add / remove / swap conformances, add / remove nested declarations (with and
   without #removedType), enum case add / remove / swap / rename, raw type change, kind changes.
   First `old` is derived from the base schema (MutateOld), then `new` from `old` (MutateNew);
   TLC enumerates every pair reachable within MaxMut mutations.
   Chains of two successive updates v1 -> v2 -> v3 (Chain = TRUE): `first` is the version under which
   the first instances were stored; Advance submits old -> new (the model follows only updates it judges
   Usable -- the others must be rejected, which the pair enumeration checks), `new` becomes the deployed
   version, instances of it are stored too, and `new` is mutated again -- including re-declaring a
   type that an earlier step removed with #removedType. After every accepted step every stored value
   (of every generation) must still be usable.

   Usable(old, new) is the judgement of the property: every value stored under `old` whose type
   still exists can be loaded under `new`, has every field `new` declares with the same type,
   keeps its enum meaning (same case name at the same raw value), and is still an instance of
   every interface it conformed to. It is one-sided: an accepted update must be Usable; a
   Usable update may be rejected.  *)
EXTENDS Naturals, Sequences, FiniteSets, TLC, Json
CONSTANTS MaxMut,       \* total number of mutations applied to the base schema (old and new together)
          MaxOldMut,    \* how many of them may be spent on `old`
          Chain         \* TRUE: enumerate chains of two successive updates

DeclNames == {"S", "R", "E", "I", "I2", "T", "U", "V", "W"}
Absent == [kind |-> "absent", fields |-> << >>, confs |-> {}, cases |-> << >>, raw |-> "-"]
F(n, ty, vr, acc) == [n |-> n, ty |-> ty, vr |-> vr, acc |-> acc]

\* ---------------------------------------------------------------- types (closed universe of names)
\* which declaration a type name mentions ("-" = none); qualified names denote the same type
\* SPELLING: a nominal type may be written simple (`U`) or contract-qualified (`C.U`) at every position of a
\* field type (direct, optional, array element, dictionary value, intersection member); both spellings
\* denote the same type, and only the denoted type matters for the judgement
Norm(t) == CASE t = "C.E" -> "E" [] t = "C.U" -> "U" [] t = "C.V" -> "V"
             [] t = "C.U?" -> "U?" [] t = "C.V?" -> "V?"
             [] t = "[C.U]" -> "[U]" [] t = "[C.V]" -> "[V]"
             [] t = "{String:C.U}" -> "{String:U}" [] t = "{String:C.V}" -> "{String:V}"
             [] t = "{C.I}" -> "{I}" [] t = "{C.I2}" -> "{I2}"
             [] OTHER -> t
Mention(t) == CASE Norm(t) = "E" -> "E" [] t = "S" -> "S" [] Norm(t) = "{I}" -> "I" [] Norm(t) = "{I2}" -> "I2" [] t = "T" -> "T"
                [] Norm(t) \in {"U", "U?", "[U]", "{String:U}"} -> "U"
                [] Norm(t) \in {"V", "V?", "[V]", "{String:V}"} -> "V"
                [] OTHER -> "-"
SameType(t, u) == Norm(t) = Norm(u)
\* alternatives a field of type t is retyped to
Alt(t) == CASE t = "Int"          -> {"String", "Int8", "Int?", "Integer", "AnyStruct"}
            [] t = "Int?"         -> {"Int", "Int??"}
            [] t = "[Int]"        -> {"[Int;2]", "[Int8]", "[AnyStruct]"}
            [] t = "{String:Int}" -> {"{String:Int?}", "{Int:Int}"}
            [] t = "E"            -> {"C.E", "UInt8"}
            [] t = "S"            -> {"{I}", "{C.I}", "AnyStruct"}
            [] t = "String"       -> {"Int", "String?"}
            \* spelling x {same type, other local struct, other kind}
            [] t = "U"            -> {"C.U", "V", "C.V", "C.E"}
            [] t = "C.U"          -> {"U", "V", "C.V", "E"}
            [] t = "U?"           -> {"C.U?", "V?", "C.V?"}
            [] t = "[C.U]"        -> {"[U]", "[V]", "[C.V]"}
            [] t = "{String:U}"   -> {"{String:C.U}", "{String:V}", "{String:C.V}"}
            [] t = "{I}"          -> {"{C.I}", "{I2}", "{C.I2}"}
            [] OTHER              -> {}

Base == [decls |-> [d \in DeclNames |->
            CASE d = "I" -> [Absent EXCEPT !.kind = "sinterface"]
              [] d = "E" -> [Absent EXCEPT !.kind = "enum", !.cases = <<"x", "y", "z">>, !.raw = "UInt8"]
              [] d = "S" -> [Absent EXCEPT !.kind = "struct", !.confs = {"I"},
                                !.fields = << F("a", "Int", "let", "all"), F("b", "String", "var", "all"),
                                              F("e", "E", "let", "all"), F("arr", "[Int]", "let", "all"),
                                              F("opt", "Int?", "let", "all"), F("dict", "{String:Int}", "let", "all") >>]
              [] d \in {"U", "V"} -> [Absent EXCEPT !.kind = "struct", !.fields = << F("a", "Int", "let", "all") >>]
              \* W holds a local nested struct at every position, in both spellings
              [] d = "W" -> [Absent EXCEPT !.kind = "struct",
                                !.fields = << F("u", "U", "let", "all"), F("qu", "C.U", "let", "all"), F("ou", "U?", "let", "all"),
                                              F("au", "[C.U]", "let", "all"), F("du", "{String:U}", "let", "all") >>]
              [] d = "R" -> [Absent EXCEPT !.kind = "resource",
                                !.fields = << F("s", "S", "let", "all"), F("id", "Int", "let", "all") >>]
              [] OTHER   -> Absent],
         cfields |-> << F("count", "Int", "var", "all"), F("saved", "S", "var", "all") >>,
         removed |-> {}]

\* ---------------------------------------------------------------- sequence helpers
RemoveAt(s, i) == [j \in 1..(Len(s) - 1) |-> IF j < i THEN s[j] ELSE s[j + 1]]
InsertAt(s, i, x) == [j \in 1..(Len(s) + 1) |-> IF j < i THEN s[j] ELSE IF j = i THEN x ELSE s[j - 1]]
Reverse(s) == [j \in 1..Len(s) |-> s[Len(s) + 1 - j]]
Swap12(s) == [j \in 1..Len(s) |-> IF j = 1 THEN s[2] ELSE IF j = 2 THEN s[1] ELSE s[j]]
Filter(s, P(_)) == LET RECURSIVE G(_)
                       G(i) == IF i > Len(s) THEN << >> ELSE (IF P(s[i]) THEN <<s[i]>> ELSE << >>) \o G(i + 1)
                   IN G(1)
HasField(fs, n) == \E i \in 1..Len(fs) : fs[i].n = n

\* ---------------------------------------------------------------- mutations: schema -> set of [m, sc]
Present(sc, d) == sc.decls[d].kind # "absent"
Composite(sc, d) == sc.decls[d].kind \in {"struct", "resource"}
WithDecl(sc, d, nd) == [sc EXCEPT !.decls[d] = nd]
WithFields(sc, d, fs) == [sc EXCEPT !.decls[d].fields = fs]
M(label, sc) == [m |-> label, sc |-> sc]
\* taking declaration d away also takes away what cannot exist without it: fields whose type
\* mentions d and conformances to d (so that the new program is still well-formed)
Drop(sc, d) ==
  [decls |-> [x \in DeclNames |->
        IF x = d THEN Absent
        ELSE [sc.decls[x] EXCEPT !.fields = Filter(@, LAMBDA f : Mention(f.ty) # d), !.confs = @ \ {d}]],
   cfields |-> Filter(sc.cfields, LAMBDA f : Mention(f.ty) # d),
   removed |-> sc.removed]

\* only alternatives whose mentioned declaration exists in the schema
AltIn(sc, t) == {u \in Alt(t) : Mention(u) = "-" \/ Present(sc, Mention(u))}
FieldMuts(sc, d) ==
  LET fs == sc.decls[d].fields  IN
  (IF ~HasField(fs, "z") THEN {M(<<"addField", d, "z">>, WithFields(sc, d, Append(fs, F("z", "Int", "let", "all"))))} ELSE {})
  \cup {M(<<"removeField", d, fs[i].n>>, WithFields(sc, d, RemoveAt(fs, i))) : i \in 1..Len(fs)}
  \cup UNION {{M(<<"retypeField", d, fs[i].n, t>>, WithFields(sc, d, [fs EXCEPT ![i].ty = t])) : t \in AltIn(sc, fs[i].ty)} : i \in 1..Len(fs)}
  \cup (IF Len(fs) >= 2 THEN {M(<<"reorderFields", d>>, WithFields(sc, d, Reverse(fs)))} ELSE {})
  \cup {M(<<"letToVar", d, fs[i].n>>, WithFields(sc, d, [fs EXCEPT ![i].vr = "var"])) : i \in {j \in 1..Len(fs) : fs[j].vr = "let"}}
  \cup {M(<<"narrowAccess", d, fs[i].n>>, WithFields(sc, d, [fs EXCEPT ![i].acc = "self"])) : i \in {j \in 1..Len(fs) : fs[j].acc = "all" /\ j <= 2}}
  \cup {M(<<"renameField", d, fs[i].n>>, WithFields(sc, d, [fs EXCEPT ![i].n = @ \o "2"])) : i \in {j \in 1..Len(fs) : j = 1}}

\* the holder of nominal types is only re-typed (spelling and / or denoted type)
RetypeMuts(sc, d) ==
  LET fs == sc.decls[d].fields IN
  UNION {{M(<<"retypeField", d, fs[i].n, t>>, WithFields(sc, d, [fs EXCEPT ![i].ty = t])) : t \in AltIn(sc, fs[i].ty)} : i \in 1..Len(fs)}

ContractFieldMuts(sc) ==
  LET fs == sc.cfields IN
  (IF ~HasField(fs, "more") THEN {M(<<"addContractField", "more">>, [sc EXCEPT !.cfields = Append(fs, F("more", "Int", "var", "all"))])} ELSE {})
  \cup {M(<<"removeContractField", fs[i].n>>, [sc EXCEPT !.cfields = RemoveAt(fs, i)]) : i \in 1..Len(fs)}
  \cup UNION {{M(<<"retypeContractField", fs[i].n, t>>, [sc EXCEPT !.cfields = [fs EXCEPT ![i].ty = t]]) : t \in AltIn(sc, fs[i].ty)} : i \in 1..Len(fs)}

ConfMuts(sc) ==
  IF ~(Present(sc, "S") /\ sc.decls["S"].kind = "struct") THEN {} ELSE
  LET withI2 == IF Present(sc, "I2") THEN sc ELSE WithDecl(sc, "I2", [Absent EXCEPT !.kind = "sinterface"]) IN
  {M(<<"removeConformance", "S", i>>, [sc EXCEPT !.decls["S"].confs = @ \ {i}]) : i \in sc.decls["S"].confs}
  \cup (IF "I2" \notin sc.decls["S"].confs
        THEN {M(<<"addConformance", "S", "I2">>, [withI2 EXCEPT !.decls["S"].confs = @ \cup {"I2"}])} ELSE {})
  \cup (IF "I" \in sc.decls["S"].confs /\ "I2" \notin sc.decls["S"].confs
        THEN {M(<<"swapConformance", "S", "I", "I2">>, [withI2 EXCEPT !.decls["S"].confs = (@ \ {"I"}) \cup {"I2"}])} ELSE {})

DeclMuts(sc) ==
  UNION {{M(<<"removeDecl", d>>, Drop(sc, d)),
          M(<<"removeDeclWithPragma", d>>, [Drop(sc, d) EXCEPT !.removed = @ \cup {d}])}
         : d \in {x \in {"R", "E", "I", "T"} : Present(sc, x)}}
  \cup (IF ~Present(sc, "T") /\ "T" \notin sc.removed
        THEN {M(<<"addDecl", "T">>, WithDecl(sc, "T", [Absent EXCEPT !.kind = "struct", !.fields = <<F("a", "Int", "let", "all")>>]))}
        ELSE {})
  \cup (IF ~Present(sc, "I2") THEN {M(<<"addDecl", "I2">>, WithDecl(sc, "I2", [Absent EXCEPT !.kind = "sinterface"]))} ELSE {})
  \cup (IF ~Present(sc, "T") /\ "T" \notin sc.removed /\ Present(sc, "S") /\ HasField(sc.decls["S"].fields, "a")
        THEN {M(<<"moveFieldToNewType", "S", "a", "T">>,
                WithFields(WithDecl(sc, "T", [Absent EXCEPT !.kind = "struct", !.fields = <<F("a", "Int", "let", "all")>>]), "S",
                           [i \in 1..Len(sc.decls["S"].fields) |->
                               IF sc.decls["S"].fields[i].n = "a" THEN [sc.decls["S"].fields[i] EXCEPT !.ty = "T"] ELSE sc.decls["S"].fields[i]]))}
        ELSE {})

\* a type that an earlier version removed with #removedType is declared again (with another shape),
\* the pragma stays: stored values of the old type would be read as the new one
Redeclared(d) == CASE d = "R" -> [Absent EXCEPT !.kind = "resource", !.fields = <<F("note", "String", "let", "all")>>]
                   [] d = "E" -> [Absent EXCEPT !.kind = "enum", !.cases = <<"w">>, !.raw = "UInt8"]
                   [] d = "T" -> [Absent EXCEPT !.kind = "struct", !.fields = <<F("b", "String", "let", "all")>>]
                   [] OTHER   -> [Absent EXCEPT !.kind = "sinterface"]
RedeclareMuts(sc) ==
  {M(<<"redeclareRemoved", d>>, WithDecl(sc, d, Redeclared(d))) : d \in {x \in sc.removed : ~Present(sc, x)}}

EnumMuts(sc) ==
  IF sc.decls["E"].kind # "enum" THEN {} ELSE
  LET cs == sc.decls["E"].cases  W(c) == [sc EXCEPT !.decls["E"].cases = c] IN
  (IF \A i \in 1..Len(cs) : cs[i] # "w"
   THEN {M(<<"enumAddCase", "end">>, W(Append(cs, "w"))), M(<<"enumAddCase", "front">>, W(<<"w">> \o cs))}
        \cup (IF Len(cs) >= 2 THEN {M(<<"enumAddCase", "middle">>, W(InsertAt(cs, 2, "w")))} ELSE {})
   ELSE {})
  \cup (IF Len(cs) >= 2 THEN {M(<<"enumRemoveCase", "last">>, W(RemoveAt(cs, Len(cs)))), M(<<"enumRemoveCase", "first">>, W(RemoveAt(cs, 1))),
                              M(<<"enumSwapCases">>, W(Swap12(cs)))} ELSE {})
  \cup (IF Len(cs) >= 2 /\ cs[2] = "y" THEN {M(<<"enumRenameCase", "y">>, W([cs EXCEPT ![2] = "yy"]))} ELSE {})
  \cup (IF sc.decls["E"].raw = "UInt8"
        THEN {M(<<"enumRawType", t>>, [sc EXCEPT !.decls["E"].raw = t]) : t \in {"UInt16", "Int8"}} ELSE {})

KindMuts(sc) ==
  (IF sc.decls["R"].kind = "resource" THEN {M(<<"kindChange", "R", "struct">>, [sc EXCEPT !.decls["R"].kind = "struct"])} ELSE {})
  \cup (IF sc.decls["I"].kind = "sinterface"
        THEN {M(<<"kindChange", "I", "rinterface">>, [Drop(sc, "I") EXCEPT !.decls["I"] = [Absent EXCEPT !.kind = "rinterface"]])} ELSE {})
  \cup (IF sc.decls["E"].kind = "enum"
        THEN {M(<<"kindChange", "E", "struct">>, [sc EXCEPT !.decls["E"] = [Absent EXCEPT !.kind = "struct", !.fields = <<F("rawValue", "UInt8", "let", "all")>>]])}
        ELSE {})
  \cup (IF sc.decls["T"].kind = "struct" THEN {M(<<"kindChange", "T", "resource">>, [Drop(sc, "T") EXCEPT !.decls["T"] = [sc.decls["T"] EXCEPT !.kind = "resource"]])} ELSE {})

Muts(sc) == UNION {FieldMuts(sc, d) : d \in {x \in {"S", "R", "T"} : Composite(sc, x)}}
            \cup (IF Composite(sc, "W") THEN RetypeMuts(sc, "W") ELSE {})
            \cup ContractFieldMuts(sc) \cup ConfMuts(sc) \cup DeclMuts(sc) \cup EnumMuts(sc) \cup KindMuts(sc)
            \cup RedeclareMuts(sc)

\* ---------------------------------------------------------------- the judgement of the property
\* names removed with #removedType and really gone (not declared again)
Gone(sc) == {d \in sc.removed : ~Present(sc, d)}
\* a value of old declaration od read under new declaration nd
DeclUsable(od, nd, removed) ==
  /\ nd.kind = od.kind
  /\ \A i \in 1..Len(nd.fields) : \E j \in 1..Len(od.fields) :
        od.fields[j].n = nd.fields[i].n /\ SameType(od.fields[j].ty, nd.fields[i].ty)
  /\ (od.confs \ removed) \subseteq nd.confs          \* interfaces that still exist
  /\ od.kind = "enum" => /\ nd.raw = od.raw /\ Len(nd.cases) >= Len(od.cases)
                         /\ \A i \in 1..Len(od.cases) : nd.cases[i] = od.cases[i]
\* values of a type removed with #removedType are not meant to be loadable: not quantified over --
\* unless the new version declares the name again: then they load as that declaration
Quantified(old, new, d) == Present(old, d) /\ (d \notin new.removed \/ Present(new, d))
RECURSIVE TypeUsable(_, _, _, _)
TypeUsable(old, new, d, fuel) ==
  /\ Present(new, d)
  /\ DeclUsable(old.decls[d], new.decls[d], Gone(new))
  /\ fuel > 0
  /\ \A i \in 1..Len(new.decls[d].fields) :
        LET m == Mention(new.decls[d].fields[i].ty) IN
        (m # "-" /\ Present(old, m)) => TypeUsable(old, new, m, fuel - 1)
\* declarations of which instances are stored (directly, as elements, as interface-typed elements)
Stored == {"S", "R", "E", "I", "W"}
Usable(old, new) ==
  /\ \A d \in Stored : Quantified(old, new, d) => TypeUsable(old, new, d, 4)
  /\ \A i \in 1..Len(new.cfields) :
        /\ \E j \in 1..Len(old.cfields) : old.cfields[j].n = new.cfields[i].n /\ SameType(old.cfields[j].ty, new.cfields[i].ty)
        /\ LET m == Mention(new.cfields[i].ty) IN (m # "-" /\ Present(old, m)) => TypeUsable(old, new, m, 4)
\* why not (for the report)
Why(old, new) ==
  {<<"decl", d>> : d \in {x \in Stored : Quantified(old, new, x) /\ ~TypeUsable(old, new, x, 4)}}
  \cup {<<"contractField", new.cfields[i].n>> : i \in {k \in 1..Len(new.cfields) :
           ~\E j \in 1..Len(old.cfields) : old.cfields[j].n = new.cfields[k].n /\ SameType(old.cfields[j].ty, new.cfields[k].ty)}}

\* ---------------------------------------------------------------- the enumeration as a state machine
VARIABLES first,    \* the version under which the first generation of instances was stored
          old,      \* the deployed version (instances of it are stored as well once it differs from `first`)
          new,      \* the proposed update
          ms, nold, nupd
vars == <<first, old, new, ms, nold, nupd>>
NMut == Len(ms) - nupd
Init == first = Base /\ old = Base /\ new = Base /\ ms = << >> /\ nold = 0 /\ nupd = 0
\* derive the deployed version from the base (only while nothing was done to `new`)
MutateOld == /\ Len(ms) < MaxMut /\ nold < MaxOldMut /\ nold = Len(ms)
             /\ \E m \in Muts(old) : old' = m.sc /\ new' = m.sc /\ first' = m.sc /\ ms' = Append(ms, <<"old">> \o m.m)
             /\ nold' = nold + 1 /\ UNCHANGED nupd
MutateNew == /\ NMut < MaxMut
             /\ \E m \in Muts(new) : new' = m.sc /\ ms' = Append(ms, <<"new">> \o m.m)
             /\ UNCHANGED <<first, old, nold, nupd>>
\* the update old -> new is submitted and (being Usable) may be accepted: new is deployed, the chain goes on
Advance == /\ Chain /\ nupd = 0 /\ new # old /\ NMut < MaxMut /\ Usable(old, new)
           /\ old' = new /\ nupd' = 1 /\ ms' = Append(ms, <<"update">>)
           /\ UNCHANGED <<first, new, nold>>
\* the reverse direction of a mutation: the mutated schema is deployed, the update goes back to the base
Revert == /\ Len(ms) = 1 /\ nold = 1 /\ new = old
          /\ new' = Base /\ ms' = Append(ms, <<"new", "revertToBase">>) /\ UNCHANGED <<first, old, nold, nupd>>
Next == MutateOld \/ MutateNew \/ Revert \/ Advance
Spec == Init /\ [][Next]_vars
view == <<first, old, new>>
\* every stored generation is usable under the proposed version
UsableAll == Usable(first, new) /\ Usable(old, new)

\* ---------------------------------------------------------------- properties of the judgement
WellFormed(sc) ==
  /\ \A d \in DeclNames : sc.decls[d].confs \subseteq {x \in DeclNames : sc.decls[x].kind \in {"sinterface", "rinterface"}}
  /\ \A d \in DeclNames : \A i \in 1..Len(sc.decls[d].fields) :
        LET m == Mention(sc.decls[d].fields[i].ty) IN m # "-" => Present(sc, m)
  /\ \A i \in 1..Len(sc.cfields) : LET m == Mention(sc.cfields[i].ty) IN m # "-" => Present(sc, m)
SchemasWellFormed == WellFormed(first) /\ WellFormed(old) /\ WellFormed(new)
UsableReflexive == Usable(old, old) /\ Usable(new, new)
\* what the probe of the design round established, as lemmas about the judgement
\* a re-type of a field of the base schema keeps the denoted type (only the spelling changes)
BaseFieldTy(d, f) == LET fs == Base.decls[d].fields IN fs[CHOOSE i \in 1..Len(fs) : fs[i].n = f].ty
SpellingOnlyRetype(m) == m[2] = "retypeField" /\ SameType(BaseFieldTy(m[3], m[4]), m[5])
Lemmas ==
  \* a re-declared removed type never keeps the values stored under the version that still had it
  /\ (nupd = 1 /\ Len(ms) >= 3 /\ ms[Len(ms)][2] = "redeclareRemoved" /\ Present(first, ms[Len(ms)][3])
        /\ ms[Len(ms)][3] \in Stored) => ~Usable(first, new)
  \* the deployed version of a chain was reached by an update the model judges Usable
  /\ nupd = 1 => Usable(first, old)
  /\ (old = Base /\ Len(ms) = 1) =>
       LET m == ms[1][2] IN
       /\ m \in {"addField", "retypeField", "renameField", "removeConformance", "swapConformance", "removeDecl",
                 "enumRemoveCase", "enumSwapCases", "enumRenameCase", "enumRawType", "kindChange",
                 "addContractField", "retypeContractField", "moveFieldToNewType"}
            => (Usable(old, new) <=> SpellingOnlyRetype(ms[1]))
       /\ m \in {"removeField", "reorderFields", "letToVar", "narrowAccess", "addConformance", "addDecl",
                 "removeDeclWithPragma", "removeContractField"} => Usable(old, new)
       /\ m = "enumAddCase" => (Usable(old, new) <=> ms[1][3] = "end")

Emit == PrintT(ToJson([first |-> first, old |-> old, new |-> new, ms |-> ms, chain |-> nupd,
                        usable |-> UsableAll, why |-> Why(first, new) \cup Why(old, new)]))
=============================================================================
