---- MODULE MC_Values ----
EXTENDS Values
KeysA  == <<"a">>
KeysAB == <<"a", "b">>
====
