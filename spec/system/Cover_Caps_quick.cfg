SPECIFICATION CoverSpec
CONSTANTS
  Accts = {"A1", "A2"}
  Owners = {"A1"}
  SPaths = {"p", "q"}
  PPaths = {"x"}
  Names = {"n"}
  Tags = {}
  MaxCtrl = 2
  MaxCaps = 3
  MaxSteps = 4
  VTypes <- VTypes_S
  IssueBT <- IssueBT_S
  AcctBT <- AcctBT_S
  Wants <- Wants_S
  GetWants <- GetWants_S
INVARIANTS TypeOK IdsFresh PathIndexExact PubOwn CapsIssued CoverEmit
PROPERTIES IdsNeverReused ClaimOnlyByRecipient FailedChangesNothing
VIEW view
