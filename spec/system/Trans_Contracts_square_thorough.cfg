SPECIFICATION TransSpec
CONSTANTS
  Accts = {"A1", "A2"}
  Names = {"A", "B"}
  Srcs = {"v1", "v2", "retyped", "enum", "iface", "typeerr"}
  MaxOps = 1
  MaxTx = 3
INVARIANTS TypeOK OnlyValidDeployed ValueFitsCode IdleMeansClean
PROPERTIES OnlyCommitChangesCommitted EnumsStay FailedTryUpdateChangesNothing AddNeverOverwrites
VIEW view
ACTION_CONSTRAINT TransEmit
