---- MODULE MC_Storage ----
EXTENDS Storage
MCValsQ == {[ty |-> "S", id |-> 1], [ty |-> "Int", id |-> 7], [ty |-> "R", id |-> 3], [ty |-> "OptInt", id |-> 9]}
MCTArgsQ == {"S", "I", "AnyStruct", "Int", "R", "AnyResource"}
MCValsT == {[ty |-> "S", id |-> 1], [ty |-> "S2", id |-> 2], [ty |-> "Int", id |-> 7], [ty |-> "R", id |-> 3], [ty |-> "R2", id |-> 4], [ty |-> "OptInt", id |-> 9]}
MCTArgsT == {"S", "S2", "I", "AnyStruct", "Int", "R", "R2", "RI", "AnyResource"}
====
