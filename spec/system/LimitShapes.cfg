INIT Init
NEXT Next
