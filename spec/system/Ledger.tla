------------------------------ MODULE Ledger ------------------------------
(* The execution protocol between the runtime and the ledger (property C24).

   One execution = Begin(kind) ... End(ok). The runtime's code-execution phase ends with
   ExecEnd(ok) (hook at the point where the program's code has finished running); only a
   transaction whose code finished successfully enters the commit phase (CommitBegin), and
   register writes (host SetValue) are enabled only inside that phase. Scripts never commit.
   Reads, slab-index allocation and contract-code updates are other host channels: they are
   modelled (and logged) but they are not register writes.

   `nwrites` counts the register writes of the current execution; `failedWithWrites` would be
   the bad state: it is unreachable in this design, and the trace specification
   (Trace_Ledger.tla) rejects any recorded execution of the real runtime that is not a
   behaviour of this module. *)
EXTENDS Naturals

VARIABLES phase,    \* "idle" | "running" | "ended_ok" | "ended_err" | "committing" | "committed" | "commit_failed"
          kind,     \* "tx" | "script" | "call" (contract function invoked by the host)
          nwrites,  \* register writes issued by the current execution
          nexec     \* executions finished (observation)
lvars == <<phase, kind, nwrites, nexec>>

Kinds == {"tx", "script", "call"}

LInit == phase = "idle" /\ kind = "tx" /\ nwrites = 0 /\ nexec = 0

Begin(k) == /\ phase = "idle" /\ k \in Kinds
            /\ phase' = "running" /\ kind' = k /\ nwrites' = 0 /\ UNCHANGED nexec

\* host channels that are not register writes: allowed whenever an execution is in progress
Active == phase # "idle"
Read       == Active /\ UNCHANGED lvars
AllocIndex == Active /\ UNCHANGED lvars
CodeUpdate == phase = "running" /\ UNCHANGED lvars      \* contract code is handed to the host eagerly
OtherCall  == Active /\ UNCHANGED lvars                  \* logs, events, uuids, randomness, ...

ExecEnd(ok) == /\ phase = "running"
               /\ phase' = IF ok THEN "ended_ok" ELSE "ended_err"
               /\ UNCHANGED <<kind, nwrites, nexec>>

CommitBegin == /\ phase = "ended_ok" /\ kind \in {"tx", "call"}
               /\ phase' = "committing" /\ UNCHANGED <<kind, nwrites, nexec>>

Write == /\ phase = "committing"
         /\ nwrites' = nwrites + 1 /\ UNCHANGED <<phase, kind, nexec>>

CommitEnd(ok) == /\ phase = "committing"
                 /\ phase' = IF ok THEN "committed" ELSE "commit_failed"
                 /\ UNCHANGED <<kind, nwrites, nexec>>

\* the execution returns to the caller (a commit that fails by panicking never reports CommitEnd:
\* the failure is then observed directly from the committing phase)
EndX(ok, hostFailed) ==
           /\ IF ok
              THEN \/ kind = "script" /\ phase = "ended_ok"
                   \/ kind \in {"tx", "call"} /\ phase = "committed"
              ELSE /\ phase \in {"running", "ended_err", "ended_ok", "committing", "commit_failed"}
                   /\ (phase = "ended_ok" => kind = "script")    \* a script can still fail exporting its result
                   /\ (nwrites = 0 \/ hostFailed)                \* a failed execution issued no register write
                                                                 \* (unless the host itself failed in mid-commit)
           /\ phase' = "idle" /\ nexec' = nexec + 1 /\ UNCHANGED <<kind, nwrites>>
End(ok) == EndX(ok, FALSE)

LNext == \/ \E k \in Kinds : Begin(k)
         \/ Read \/ AllocIndex \/ CodeUpdate \/ OtherCall
         \/ \E ok \in BOOLEAN : ExecEnd(ok) \/ CommitEnd(ok) \/ End(ok)
         \/ CommitBegin \/ Write
LSpec == LInit /\ [][LNext]_lvars

\* ---------------------------------------------------------------- properties of the design
LTypeOK == /\ phase \in {"idle", "running", "ended_ok", "ended_err", "committing", "committed", "commit_failed"}
           /\ kind \in Kinds /\ nwrites \in Nat
ScriptsNeverWrite   == kind = "script" => nwrites = 0
WritesOnlyAfterCode == nwrites > 0 => phase \in {"committing", "committed", "commit_failed", "idle"}
WriteOnlyInCommit   == [][nwrites' > nwrites => phase = "committing" /\ kind \in {"tx", "call"}]_lvars
FailedMeansNoWrites == [][(phase # "idle" /\ phase' = "idle" /\ phase # "committed" /\ ~(kind = "script" /\ phase = "ended_ok"))
                           => nwrites = 0]_lvars
=============================================================================
