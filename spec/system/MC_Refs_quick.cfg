SPECIFICATION RSpec
CONSTANTS
  Ids = {1, 2}
  Slots = {1, 2}
  Accts = {1}
  Paths = {1}
  Keys = {}
  MaxKids = 0
  MaxDepth = 1
  MaxOps = 4
  MaxTx = 0
  NoEvent = {2}
  Big = {}
  SlotRep <- MCSlotRep2
  OCells = {1}
  OKeys = {1}
  Forms = {"noabort"}
  RefIds = {1}
  BorrowTys = {"N", "R"}
INVARIANTS TypeOK Conservation OnePlace WellFormed EventsOnce IdleClean RefTypeOK UsableIsLive NoRefsOutsideTx
PROPERTIES DestroyedForever SurvivorsDidNotMove ExactInvalidation DeadStaysDead
VIEW rview
ACTION_CONSTRAINT REmitT
