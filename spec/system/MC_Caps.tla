---- MODULE MC_Caps ----
(* Constant sets for the Caps configurations (cfg files cannot hold record literals). *)
EXTENDS Caps
Ref(auth, ty) == [auth |-> auth, ty |-> ty]
\* tiny: transition cover (every call with every outcome from every state within the bound)
IssueBT_T == {Ref({"E"}, "S"), Ref({}, "I")}
AcctBT_T  == {Ref({}, "Account")}
Wants_T   == {Ref({}, "S"), Ref({"E"}, "I"), Ref({}, "S2")}
\* small: state cover
IssueBT_S == {Ref({}, "S"), Ref({"E"}, "I"), Ref({}, "R")}
AcctBT_S  == {Ref({"E"}, "Account")}
Wants_S   == {Ref({}, "S"), Ref({"E"}, "S"), Ref({}, "I"), Ref({"E"}, "I"), Ref({"F"}, "S"), Ref({}, "S2"),
              Ref({}, "R"), Ref({}, "AnyStruct"), Ref({}, "Account"), Ref({"E"}, "Account")}
\* large: simulation and the thorough covers
IssueBT_L == {Ref({}, "S"), Ref({"E"}, "S"), Ref({"E", "F"}, "S"), Ref({}, "I"), Ref({"E"}, "I"), Ref({}, "S2"),
              Ref({}, "R"), Ref({"F"}, "R"), Ref({"E"}, "AnyStruct"), Ref({}, "AnyResource")}
AcctBT_L  == {Ref({}, "Account"), Ref({"E"}, "Account")}
Wants_L   == IssueBT_L \cup AcctBT_L \cup {Ref({"F"}, "S"), Ref({"F"}, "I"), Ref({"E", "F"}, "I"), Ref({}, "AnyStruct"),
              Ref({"E"}, "R"), Ref({"E", "F"}, "Account")}
GetWants_S == {Ref({}, "I"), Ref({"E"}, "S")}
GetWants_T == {Ref({}, "S")}
VTypes_T == {"S"}
VTypes_S == {"S", "R"}
VTypes_L == {"S", "S2", "R"}
\* the bounds of the configuration in use, printed once for the replay driver
ASSUME PrintT(ToJson([config |-> [accts |-> Accts, spaths |-> SPaths, ppaths |-> PPaths, maxCtrl |-> MaxCtrl, wants |-> Wants]]))
====
