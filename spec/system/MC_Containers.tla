---- MODULE MC_Containers ----
(* Constants for the bounded configurations of Containers, and lemmas about the sequence / map
   operators of the specification itself (checked by TLC when the module is loaded). *)
EXTENDS Containers
LitsQ == {<< >>, <<2>>, <<1, 2>>}
LitsS == {<< >>, <<3>>, <<1, 2>>, <<5, 4, 3, 2, 1>>}
Small == UNION {[1..n -> 1..2] : n \in 0..3}

ASSUME \A q \in Small : Rev(Rev(q)) = q /\ Len(Rev(q)) = Len(q)
ASSUME \A q \in Small : Slice(q, 0, Len(q)) = q /\ \A i \in 0..Len(q) : Slice(q, i, i) = << >>
ASSUME \A q \in Small : \A i \in 0..Len(q) : RemoveAt(InsertAt(q, i, 2), i) = q /\ InsertAt(q, i, 2)[i + 1] = 2
ASSUME \A q \in Small : \A i \in 0..Len(q) : Slice(q, 0, i) \o Slice(q, i, Len(q)) = q
ASSUME \A q \in Small : \A x \in 1..2 : (FirstIdx(q, x) = << >>) <=> ~Has(q, x)
ASSUME \A q \in Small : \A x \in 1..2 : Has(q, x) => q[FirstIdx(q, x)[1] + 1] = x
ASSUME \A q \in Small : Len(Filter(q, "odd")) + Len(Filter(q, "gt1")) = Len(q)   \* over {1,2}: odd = {1}, gt1 = {2}
ASSUME \A q \in Small, r \in Small : Rev(q \o r) = Rev(r) \o Rev(q)
ASSUME LET dm == MapPut(MapPut(EmptyMap, 1, 2), 3, 1) IN
         /\ DOMAIN dm = {1, 3} /\ MapDel(dm, 1) = MapPut(EmptyMap, 3, 1) /\ MapDel(dm, 2) = dm
         /\ MapPut(dm, 1, 1)[1] = 1 /\ Opt(dm, 2) = << >> /\ Opt(dm, 3) = <<1>>
====
