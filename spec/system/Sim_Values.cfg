SPECIFICATION SimSpec
CONSTANTS
  OVars = {"v1", "v2", "v3"}
  IVars = {"w1", "w2"}
  SPaths = {"p1", "p2"}
  Ks = {1, 2, 3, 4, 5, 6, 7}
  DKeySeq <- KeysAB
  MaxSeq = 3
  MaxXs = 3
  MaxNodes = 110
  MaxOps = 12
  MaxTx = 100000
  Acts = {"new", "assign", "member", "container", "mutate", "storage", "ref", "temp"}
  SimDepth = 120
INVARIANTS SimEmit
