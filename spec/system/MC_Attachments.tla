---- MODULE MC_Attachments ----
EXTENDS Attachments
MCSlotRep2 == (1 :> "var") @@ (2 :> "arr")
MCSlotRep3 == (1 :> "var") @@ (2 :> "arr") @@ (3 :> "var")
====
