------------------------------- MODULE Caps -------------------------------
(* Capability controllers, publishing and the inbox (property C25).

   One action per public call of Account.Capabilities / StorageCapabilities /
   AccountCapabilities / *CapabilityController / Capability / Account.Inbox, interleaved
   with save/load at the target paths. Every call is its own transaction; a call that
   fails aborts it, so a failing action changes nothing.

   Abstract state per account: the ID counter, the controllers (ID -> kind, borrow type,
   target path, tag), the explicit path -> ID-set index that getControllers reads,
   what is published under public paths, the inbox, and what is stored at the target
   paths. `caps` is the set of capability *values* handed out so far (the driver keeps
   every one of them in the storage of a holder account so that later steps can use it).

   The borrow rule is the one of the property statement: borrow<T>/check<T> succeed exactly
   when the controller is live, T's authorization is no stronger than the controller's and
   the capability's, T's referenced type is a sub- or supertype of theirs, and the target
   stores a value whose type is a subtype of T's referenced type.

   Deliberate implementation behaviour modelled as such: Inbox.publish overwrites an
   existing entry silently; capabilities.get<T> does not look at the stored value (it
   returns a capability typed T when the controller and type rules hold, the invalid
   capability with ID 0 otherwise). *)
EXTENDS Naturals, Sequences, FiniteSets, TLC, Json
CONSTANTS Accts,       \* all accounts (inbox providers, recipients, claimants, publishers)
          Owners,      \* the accounts that save values and issue capabilities (a subset of Accts)
          SPaths, PPaths, Names, Tags,
          MaxCtrl,     \* IDs per account the model may issue
          MaxCaps,     \* bound on capability values obtained through capabilities.get
          MaxSteps,
          VTypes,      \* types of the values saved at target paths
          IssueBT,     \* borrow types of storage capabilities
          AcctBT,      \* borrow types of account capabilities
          Wants,       \* type arguments of borrow / check and of the get / borrow observations
          GetWants     \* type arguments of the state-changing calls get / claim / unpublish (subset of Wants)

Nil   == [nil |-> TRUE]      \* empty record-valued slot (a string sentinel cannot be compared with a record)
NoneV == "none"              \* nothing stored at a path
NoPath == "-"                \* target of an account capability controller

\* ---------------------------------------------------------------- the small type universe
\* struct S: I, struct S2, resource R, the built-in Account; references &T / auth(E..) &T
Sub(t, u) == \/ t = u
             \/ t = "S"  /\ u \in {"I", "AnyStruct"}
             \/ t = "I"  /\ u = "AnyStruct"
             \/ t = "S2" /\ u = "AnyStruct"
             \/ t = "Account" /\ u = "AnyStruct"
             \/ t = "R"  /\ u = "AnyResource"
\* authorizations are conjunction sets of entitlements: `want` is no stronger than `held`
PermitsA(held, want) == want \subseteq held
CanBorrow(want, have) == /\ PermitsA(have.auth, want.auth)
                         /\ (Sub(want.ty, have.ty) \/ Sub(have.ty, want.ty))
\* reference subtyping  &have <: &want  (Capability<X> is covariant in X)
RefSub(have, want) == PermitsA(have.auth, want.auth) /\ Sub(have.ty, want.ty)

VARIABLES store,    \* [Accts -> [SPaths -> VTypes \cup {NoneV}]]
          ctrl,     \* [Accts -> [1..MaxCtrl -> [kind, bt, target, tag] or Nil]]
          pids,     \* [Accts -> [SPaths -> SUBSET 1..MaxCtrl]]   the path -> ID-set index
          nextId,   \* [Accts -> Nat]
          pub,      \* [Accts -> [PPaths -> capability or Nil]]   capability = [acct, id, bt]
          inbox,    \* [Accts -> [Names -> [to, cap] or Nil]]
          caps,     \* capability values handed out so far
          steps, last
vars == <<store, ctrl, pids, nextId, pub, inbox, caps, steps, last>>
view == <<store, ctrl, pids, nextId, pub, inbox, caps>>

Init == /\ store = [a \in Accts |-> [p \in SPaths |-> NoneV]]
        /\ ctrl = [a \in Accts |-> [i \in 1..MaxCtrl |-> Nil]]
        /\ pids = [a \in Accts |-> [p \in SPaths |-> {}]]
        /\ nextId = [a \in Accts |-> 1]
        /\ pub = [a \in Accts |-> [p \in PPaths |-> Nil]]
        /\ inbox = [a \in Accts |-> [n \in Names |-> Nil]]
        /\ caps = {} /\ steps = 0 /\ last = [op |-> "init", k |-> "ok"]

Tick(l) == steps < MaxSteps /\ steps' = steps + 1 /\ last' = l
NoEv == << >>
Ids == 1..MaxCtrl

Live(a, id)      == id \in Ids /\ ctrl[a][id] # Nil
LiveKind(a, id, kd) == Live(a, id) /\ ctrl[a][id].kind = kd
PathIds(a, p)    == {i \in Ids : LiveKind(a, i, "storage") /\ ctrl[a][i].target = p}
AcctIds(a)       == {i \in Ids : LiveKind(a, i, "account")}

\* ---------------------------------------------------------------- the borrow rule
TargetType(a, k) == IF k.kind = "account" THEN "Account" ELSE store[a][k.target]
BorrowOK(c, w) ==
  /\ Live(c.acct, c.id)
  /\ LET k == ctrl[c.acct][c.id] IN
     /\ CanBorrow(w, c.bt) /\ CanBorrow(w, k.bt)
     /\ TargetType(c.acct, k) # NoneV /\ Sub(TargetType(c.acct, k), w.ty)
\* capabilities.get<T>: the published capability re-typed to T, when controller and type rules hold
GetOK(a, pp, w) ==
  /\ pub[a][pp] # Nil
  /\ LET c == pub[a][pp] IN
     /\ Live(c.acct, c.id)
     /\ CanBorrow(w, c.bt) /\ CanBorrow(w, ctrl[c.acct][c.id].bt)
GetCap(a, pp, w) == [acct |-> pub[a][pp].acct, id |-> pub[a][pp].id, bt |-> w]
PubBorrowOK(a, pp, w) == pub[a][pp] # Nil /\ BorrowOK(pub[a][pp], w)

\* ---------------------------------------------------------------- storage at target paths
Put(a, p, v) == /\ store[a][p] = NoneV /\ store' = [store EXCEPT ![a][p] = v]
                /\ Tick([op |-> "save", a |-> a, p |-> p, v |-> v, k |-> "ok", ev |-> NoEv])
                /\ UNCHANGED <<ctrl, pids, nextId, pub, inbox, caps>>
Take(a, p) == /\ store[a][p] # NoneV /\ store' = [store EXCEPT ![a][p] = NoneV]
              /\ Tick([op |-> "load", a |-> a, p |-> p, v |-> store[a][p], k |-> "ok", ev |-> NoEv])
              /\ UNCHANGED <<ctrl, pids, nextId, pub, inbox, caps>>

\* ---------------------------------------------------------------- controllers
Issue(a, p, bt) ==
  /\ nextId[a] <= MaxCtrl
  /\ LET id == nextId[a]  c == [acct |-> a, id |-> id, bt |-> bt] IN
     /\ ctrl' = [ctrl EXCEPT ![a][id] = [kind |-> "storage", bt |-> bt, target |-> p, tag |-> ""]]
     /\ pids' = [pids EXCEPT ![a][p] = @ \cup {id}]
     /\ nextId' = [nextId EXCEPT ![a] = id + 1]            \* fresh, never reused
     /\ caps' = caps \cup {c}
     /\ Tick([op |-> "issue", a |-> a, p |-> p, bt |-> bt, id |-> id, cap |-> c, k |-> "ok",
              ev |-> <<[e |-> "StorageIssued", id |-> id, a |-> a, bt |-> bt, p |-> p]>>])
  /\ UNCHANGED <<store, pub, inbox>>
IssueAccount(a, bt) ==
  /\ nextId[a] <= MaxCtrl
  /\ LET id == nextId[a]  c == [acct |-> a, id |-> id, bt |-> bt] IN
     /\ ctrl' = [ctrl EXCEPT ![a][id] = [kind |-> "account", bt |-> bt, target |-> NoPath, tag |-> ""]]
     /\ nextId' = [nextId EXCEPT ![a] = id + 1]
     /\ caps' = caps \cup {c}
     /\ Tick([op |-> "issueAccount", a |-> a, bt |-> bt, id |-> id, cap |-> c, k |-> "ok",
              ev |-> <<[e |-> "AccountIssued", id |-> id, a |-> a, bt |-> bt]>>])
  /\ UNCHANGED <<store, pids, pub, inbox>>
\* storage.getController(byCapabilityID: id)?.retarget(p)
Retarget(a, id, p) ==
  LET l == [op |-> "retarget", a |-> a, id |-> id, p |-> p] IN
  IF LiveKind(a, id, "storage")
  THEN /\ ctrl' = [ctrl EXCEPT ![a][id].target = p]
       /\ pids' = [pids EXCEPT ![a] = [q \in SPaths |-> IF q = p THEN @[q] \cup {id} ELSE @[q] \ {id}]]
       /\ Tick(l @@ [k |-> "ok", res |-> "storage", ev |-> <<[e |-> "TargetChanged", id |-> id, a |-> a, p |-> p]>>])
       /\ UNCHANGED <<store, nextId, pub, inbox, caps>>
  ELSE Tick(l @@ [k |-> "nil", res |-> "nil", ev |-> NoEv]) /\ UNCHANGED <<store, ctrl, pids, nextId, pub, inbox, caps>>
\* get the controller by ID through whichever of the two namespaces knows it, set its tag
SetTag(a, id, t) ==
  LET l == [op |-> "setTag", a |-> a, id |-> id, tag |-> t] IN
  IF Live(a, id)
  THEN /\ ctrl' = [ctrl EXCEPT ![a][id].tag = t]
       /\ Tick(l @@ [k |-> "ok", res |-> ctrl[a][id].kind, ev |-> NoEv])
       /\ UNCHANGED <<store, pids, nextId, pub, inbox, caps>>
  ELSE Tick(l @@ [k |-> "nil", res |-> "nil", ev |-> NoEv]) /\ UNCHANGED <<store, ctrl, pids, nextId, pub, inbox, caps>>
Delete(a, id) ==
  LET l == [op |-> "delete", a |-> a, id |-> id] IN
  IF Live(a, id)
  THEN LET kc == ctrl[a][id] IN
       /\ ctrl' = [ctrl EXCEPT ![a][id] = Nil]
       /\ pids' = IF kc.kind = "storage" THEN [pids EXCEPT ![a][kc.target] = @ \ {id}] ELSE pids
       /\ Tick(l @@ [k |-> "ok", res |-> kc.kind,
                     ev |-> <<[e |-> IF kc.kind = "storage" THEN "StorageDeleted" ELSE "AccountDeleted", id |-> id, a |-> a]>>])
       /\ UNCHANGED <<store, nextId, pub, inbox, caps>>
  ELSE Tick(l @@ [k |-> "nil", res |-> "nil", ev |-> NoEv]) /\ UNCHANGED <<store, ctrl, pids, nextId, pub, inbox, caps>>

\* ---------------------------------------------------------------- read-only calls
Same == UNCHANGED <<store, ctrl, pids, nextId, pub, inbox, caps>>
\* storage.getController(byCapabilityID:) / account.getController(byCapabilityID:)
GetController(a, id, kd) ==
  /\ Tick([op |-> "getController", a |-> a, id |-> id, kind |-> kd, k |-> "ok", ev |-> NoEv,
           res |-> IF LiveKind(a, id, kd) THEN ctrl[a][id] ELSE Nil]) /\ Same
GetControllers(a, p)    == Tick([op |-> "getControllers", a |-> a, p |-> p, k |-> "ok", res |-> pids[a][p], ev |-> NoEv]) /\ Same
ForEachController(a, p) == Tick([op |-> "forEachController", a |-> a, p |-> p, k |-> "ok", res |-> pids[a][p], ev |-> NoEv]) /\ Same
AcctControllers(a)      == Tick([op |-> "accountControllers", a |-> a, k |-> "ok", res |-> AcctIds(a), ev |-> NoEv]) /\ Same
CapBorrow(c, w) == /\ c \in caps
                   /\ Tick([op |-> "borrow", cap |-> c, w |-> w, k |-> "ok", res |-> BorrowOK(c, w), ev |-> NoEv]) /\ Same
Exists(a, pp)   == Tick([op |-> "exists", a |-> a, pp |-> pp, k |-> "ok", res |-> pub[a][pp] # Nil, ev |-> NoEv]) /\ Same
PubBorrow(a, pp, w) == Tick([op |-> "pubBorrow", a |-> a, pp |-> pp, w |-> w, k |-> "ok", res |-> PubBorrowOK(a, pp, w), ev |-> NoEv]) /\ Same

\* ---------------------------------------------------------------- publishing
Publish(a, pp, c) ==
  /\ c \in caps
  /\ LET l == [op |-> "publish", a |-> a, pp |-> pp, cap |-> c]
         bad == (IF c.acct # a THEN {"address"} ELSE {}) \cup (IF pub[a][pp] # Nil THEN {"overwrite"} ELSE {}) IN
     IF bad # {}
     THEN Tick(l @@ [k |-> "err", res |-> bad, ev |-> NoEv]) /\ UNCHANGED pub
     ELSE /\ pub' = [pub EXCEPT ![a][pp] = c]
          /\ Tick(l @@ [k |-> "ok", res |-> {}, ev |-> <<[e |-> "Published", a |-> a, pp |-> pp, cap |-> c]>>])
  /\ UNCHANGED <<store, ctrl, pids, nextId, inbox, caps>>
Unpublish(a, pp) ==
  /\ pub' = [pub EXCEPT ![a][pp] = Nil]
  /\ Tick([op |-> "unpublish", a |-> a, pp |-> pp, k |-> IF pub[a][pp] # Nil THEN "ok" ELSE "nil", res |-> pub[a][pp],
           ev |-> IF pub[a][pp] # Nil THEN <<[e |-> "Unpublished", a |-> a, pp |-> pp]>> ELSE NoEv])
  /\ UNCHANGED <<store, ctrl, pids, nextId, inbox, caps>>
\* capabilities.get<T>(pp); a valid result is kept by the driver as a new capability value
Get(a, pp, w) ==
  LET ok == GetOK(a, pp, w) IN
  /\ ok => Cardinality(caps \cup {GetCap(a, pp, w)}) <= MaxCaps
  /\ caps' = IF ok THEN caps \cup {GetCap(a, pp, w)} ELSE caps
  /\ Tick([op |-> "get", a |-> a, pp |-> pp, w |-> w, k |-> IF ok THEN "ok" ELSE "nil", ev |-> NoEv,
           res |-> IF ok THEN GetCap(a, pp, w) ELSE Nil])
  /\ UNCHANGED <<store, ctrl, pids, nextId, pub, inbox>>

\* ---------------------------------------------------------------- inbox
\* unpublish<T> / claim<T> return the published capability as a Capability<T>: same account and ID; a
\* published type that is not a subtype of T fails the call. Deliberate implementation behaviour: the
\* upcast value keeps its referenced type and takes T's authorization (never more than was published).
Typed(c, w) == [acct |-> c.acct, id |-> c.id, bt |-> [auth |-> w.auth, ty |-> c.bt.ty]]
InboxPublish(a, n, to, c) ==
  /\ c \in caps
  /\ inbox' = [inbox EXCEPT ![a][n] = [to |-> to, cap |-> c]]         \* overwrites silently
  /\ Tick([op |-> "inboxPublish", a |-> a, n |-> n, to |-> to, cap |-> c, k |-> "ok",
           ev |-> <<[e |-> "InboxPublished", a |-> a, to |-> to, n |-> n, bt |-> c.bt]>>])
  /\ UNCHANGED <<store, ctrl, pids, nextId, pub, caps>>
InboxUnpublish(a, n, w) ==
  LET e == inbox[a][n]  l == [op |-> "inboxUnpublish", a |-> a, n |-> n, w |-> w] IN
  /\ IF e = Nil THEN Tick(l @@ [k |-> "nil", res |-> Nil, ev |-> NoEv]) /\ UNCHANGED inbox
     ELSE IF ~RefSub(e.cap.bt, w) THEN Tick(l @@ [k |-> "err", res |-> {"type"}, ev |-> NoEv]) /\ UNCHANGED inbox
     ELSE /\ inbox' = [inbox EXCEPT ![a][n] = Nil]
          /\ Tick(l @@ [k |-> "ok", res |-> Typed(e.cap, w), ev |-> <<[e |-> "InboxUnpublished", a |-> a, n |-> n]>>])
  /\ UNCHANGED <<store, ctrl, pids, nextId, pub, caps>>
\* a claim returns only what `from` published for `me` under `n`
InboxClaim(me, n, from, w) ==
  LET e == inbox[from][n]  l == [op |-> "inboxClaim", me |-> me, n |-> n, from |-> from, w |-> w] IN
  /\ IF e = Nil \/ e.to # me THEN Tick(l @@ [k |-> "nil", res |-> Nil, ev |-> NoEv]) /\ UNCHANGED inbox
     ELSE IF ~RefSub(e.cap.bt, w) THEN Tick(l @@ [k |-> "err", res |-> {"type"}, ev |-> NoEv]) /\ UNCHANGED inbox
     ELSE /\ inbox' = [inbox EXCEPT ![from][n] = Nil]
          /\ Tick(l @@ [k |-> "ok", res |-> Typed(e.cap, w), ev |-> <<[e |-> "InboxClaimed", a |-> from, to |-> me, n |-> n]>>])
  /\ UNCHANGED <<store, ctrl, pids, nextId, pub, caps>>

\* ---------------------------------------------------------------- next-state relations
\* calls that can change the abstract state
MutNext ==
  \/ \E a \in Owners, p \in SPaths :
        \/ \E v \in VTypes : Put(a, p, v)
        \/ Take(a, p)
        \/ \E bt \in IssueBT : Issue(a, p, bt)
        \/ \E id \in Ids : Retarget(a, id, p)
  \/ \E a \in Owners, bt \in AcctBT : IssueAccount(a, bt)
  \/ \E a \in Accts, id \in Ids : Delete(a, id) \/ (\E t \in Tags : SetTag(a, id, t))
  \/ \E a \in Accts, pp \in PPaths :
        \/ \E c \in caps : Publish(a, pp, c)
        \/ Unpublish(a, pp)
        \/ \E w \in GetWants : Get(a, pp, w)
  \/ \E a \in Accts, b \in Accts, n \in Names :
        \/ \E c \in caps : InboxPublish(a, n, b, c)
        \/ \E w \in GetWants : InboxClaim(a, n, b, w)
  \/ \E a \in Accts, n \in Names, w \in GetWants : InboxUnpublish(a, n, w)
\* calls that never change it
ReadNext ==
  \/ \E a \in Accts, id \in 1..(MaxCtrl + 1), kd \in {"storage", "account"} : GetController(a, id, kd)
  \/ \E a \in Accts, p \in SPaths : GetControllers(a, p) \/ ForEachController(a, p)
  \/ \E a \in Accts : AcctControllers(a)
  \/ \E c \in caps, w \in Wants : CapBorrow(c, w)
  \/ \E a \in Accts, pp \in PPaths : Exists(a, pp) \/ (\E w \in Wants : PubBorrow(a, pp, w))
Next == steps < MaxSteps /\ (MutNext \/ ReadNext)
Spec == Init /\ [][Next]_vars

\* ---------------------------------------------------------------- everything a later script can observe
Obs == [ctrl   |-> ctrl,
        paths  |-> [a \in Accts |-> [p \in SPaths |-> pids[a][p]]],
        acc    |-> [a \in Accts |-> AcctIds(a)],
        pub    |-> pub,
        caps   |-> caps,
        get    |-> {x \in [a : Accts, pp : PPaths, w : Wants] : GetOK(x.a, x.pp, x.w)},
        pbor   |-> {x \in [a : Accts, pp : PPaths, w : Wants] : PubBorrowOK(x.a, x.pp, x.w)},
        bor    |-> {x \in [c : caps, w : Wants] : BorrowOK(x.c, x.w)}]
\* the part of it that is cheap to re-read after every transaction of a long history
ObsLight == [ctrl  |-> ctrl,
             paths |-> [a \in Accts |-> [p \in SPaths |-> pids[a][p]]],
             acc   |-> [a \in Accts |-> AcctIds(a)],
             pub   |-> pub]

\* ---------------------------------------------------------------- properties of the design
Cap == [acct : Accts, id : Ids, bt : IssueBT \cup AcctBT \cup Wants]
TypeOK == /\ \A a \in Accts, p \in SPaths : store[a][p] \in VTypes \cup {NoneV}
          /\ \A a \in Accts, i \in Ids : ctrl[a][i] # Nil =>
                 /\ ctrl[a][i].kind \in {"storage", "account"}
                 /\ ctrl[a][i].target \in SPaths \cup {NoPath}
                 /\ (ctrl[a][i].kind = "account") = (ctrl[a][i].target = NoPath)
          /\ caps \subseteq Cap
IdsFresh == \A a \in Accts, i \in Ids : ctrl[a][i] # Nil => i < nextId[a]
\* the index that getControllers reads is exactly the set of live storage controllers targeting the path
PathIndexExact == \A a \in Accts, p \in SPaths : pids[a][p] = PathIds(a, p)
PubOwn == \A a \in Accts, pp \in PPaths : pub[a][pp] # Nil => pub[a][pp].acct = a
\* every capability value names an ID that was issued by its account
CapsIssued == \A c \in caps : c.id < nextId[c.acct]
Borrowed(l) == l.op \in {"borrow", "pubBorrow"} /\ l.res
BorrowedCap(l) == IF l.op = "borrow" THEN l.cap ELSE pub[l.a][l.pp]
DeletedNeverBorrows == Borrowed(last) => Live(BorrowedCap(last).acct, BorrowedCap(last).id)
NoEscalation ==
  Borrowed(last) => LET c == BorrowedCap(last) IN
     /\ PermitsA(c.bt.auth, last.w.auth)
     /\ PermitsA(ctrl[c.acct][c.id].bt.auth, last.w.auth)
\* a successful get hands out a capability that is no stronger than the published one
GetNoEscalation == (last.op = "get" /\ last.k = "ok") => PermitsA(pub[last.a][last.pp].bt.auth, last.res.bt.auth)
\* IDs only grow, and a slot goes from empty to live only at the counter
IdsNeverReused ==
  [][\A a \in Accts : /\ nextId'[a] >= nextId[a]
                      /\ \A i \in Ids : (ctrl[a][i] = Nil /\ ctrl'[a][i] # Nil) => (i = nextId[a] /\ nextId'[a] = i + 1)]_vars
\* a claim that returns a capability returns the one the provider published for the claimer
ClaimOnlyByRecipient ==
  [][(last'.op = "inboxClaim" /\ last'.k = "ok") =>
        /\ inbox[last'.from][last'.n] # Nil
        /\ inbox[last'.from][last'.n].to = last'.me
        /\ inbox[last'.from][last'.n].cap.acct = last'.res.acct
        /\ inbox[last'.from][last'.n].cap.id = last'.res.id
        /\ RefSub(inbox[last'.from][last'.n].cap.bt, last'.res.bt)       \* never stronger than what was published
        /\ inbox'[last'.from][last'.n] = Nil]_vars
\* a failing or nil-returning call changes nothing
FailedChangesNothing ==
  [][last'.k \in {"err", "nil"} => view' = view]_vars

\* ---------------------------------------------------------------- behaviour extraction
Emit == PrintT(ToJson([s |-> [st |-> view, n |-> steps], t |-> [st |-> view', n |-> steps'], a |-> last', o |-> Obs']))
=============================================================================
