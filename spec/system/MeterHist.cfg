SPECIFICATION MSpec
CONSTANTS
  NProg = 64
  Depth = 6
INVARIANTS Emit WarmIsHistory
