SPECIFICATION MSpec
CONSTANTS
  NProg = 31
  Depth = 6
INVARIANTS Emit WarmIsHistory
