------------------------------- MODULE Refs -------------------------------
(* References to resources (property C04), on top of Resources.

   A transaction has reference variables RefIds. An *ephemeral* reference is taken to a resource
   that is in a slot or nested (at any depth) in a resource in a slot or in storage; it is usable
   until the resource it points to, or any resource that one contains it, is transferred (moved to
   another variable, container, storage, through a function; either side of a swap; either resource
   of a double transfer) or destroyed - from then on every use fails, also when the resource comes
   back to the same place. Transfers and destructions of other resources, and index shifts of
   sibling array elements, do not affect it. A *storage* reference (borrow, or a reference taken to a
   resource that is the root value of a storage path) is never invalidated: every use resolves
   (account, path) again and succeeds iff a value is stored there whose type is a subtype of the
   borrowed type. References do not survive the transaction.

   Each Resources step says in `last'.inv` which resources it transferred/destroyed (with everything
   nested in them). *)
EXTENDS Resources
CONSTANTS RefIds,     \* reference variables of a transaction
          BorrowTys   \* type arguments of borrow: subset of {"N", "R", "Q"}  (N = the interface)
VARIABLE refs
rvars == <<vars, refs>>
rview == <<view, refs>>

NoRef        == [kind |-> "none", t |-> 0, ok |-> FALSE, a |-> 0, p |-> 0, ty |-> "-"]
Eph(u)       == [kind |-> "eph",  t |-> u, ok |-> TRUE,  a |-> 0, p |-> 0, ty |-> "-"]
Sto(a, p, y) == [kind |-> "sto",  t |-> 0, ok |-> TRUE,  a |-> a, p |-> p, ty |-> y]
NoRefs       == [k \in RefIds |-> NoRef]
TypeSub(kind, ty) == ty = "N" \/ ty = kind

RInit == Init /\ refs = NoRefs

\* a step of Resources: the references into everything it transferred or destroyed die;
\* the end (and the start) of a transaction forgets all references
ResStepOf(A) ==
  /\ A
  /\ refs' = IF phase' = "idle" \/ last'.op = "begin" THEN NoRefs
             ELSE [k \in RefIds |-> IF refs[k].kind = "eph" /\ refs[k].t \in last'.inv
                                    THEN [refs[k] EXCEPT !.ok = FALSE] ELSE refs[k]]
ResStep == ResStepOf(Next)
Same == UNCHANGED <<loc, created, destroyed, evs>>

TakeRef(k, u) ==
  /\ InTx /\ u \in Live(loc)
  /\ refs' = [refs EXCEPT ![k] = IF loc[u].k = "store" THEN Sto(loc[u].a, loc[u].b, "N") ELSE Eph(u)]
  /\ Ok([op |-> "takeref", r |-> k, u |-> u, tp |-> Path(loc, loc[u]), inv |-> {}] @@ Obs(loc)) /\ Same

Borrow(k, a, p, y) ==
  /\ InTx
  /\ LET S == At(loc, StorePl(a, p))
         l == [op |-> "borrow", r |-> k, acct |-> a, path |-> p, ty |-> y, inv |-> {}] IN
     IF S = {} THEN refs' = [refs EXCEPT ![k] = NoRef] /\ Ok(l @@ [res |-> "nil"] @@ Obs(loc)) /\ Same
     ELSE IF ~TypeSub(KindOf(The(S)), y) THEN refs' = NoRefs /\ AbortTx(l @@ [res |-> "err:borrow-type"])
     ELSE refs' = [refs EXCEPT ![k] = Sto(a, p, y)] /\ Ok(l @@ [res |-> "some"] @@ Obs(loc)) /\ Same

UseRef(k) ==
  /\ InTx /\ refs[k].kind # "none"
  /\ LET l == [op |-> "useref", r |-> k, inv |-> {}]
         S == At(loc, StorePl(refs[k].a, refs[k].p)) IN
     IF refs[k].kind = "eph" THEN
        IF refs[k].ok THEN UNCHANGED refs /\ Ok(l @@ [res |-> "ok", v |-> refs[k].t] @@ Obs(loc)) /\ Same
        ELSE refs' = NoRefs /\ AbortTx(l @@ [res |-> "err:invalidated"])
     ELSE IF S = {} THEN refs' = NoRefs /\ AbortTx(l @@ [res |-> "err:deref-nil"])
     ELSE IF ~TypeSub(KindOf(The(S)), refs[k].ty) THEN refs' = NoRefs /\ AbortTx(l @@ [res |-> "err:deref-type"])
     ELSE UNCHANGED refs /\ Ok(l @@ [res |-> "ok", v |-> The(S)] @@ Obs(loc)) /\ Same

RNext == \/ ResStep
         \/ \E k \in RefIds, u \in Ids : TakeRef(k, u)
         \/ \E k \in RefIds, a \in Accts, p \in Paths, y \in BorrowTys : Borrow(k, a, p, y)
         \/ \E k \in RefIds : UseRef(k)
RSpec == RInit /\ [][RNext]_rvars

\* ------------------------------------------------------------ properties of the design
RefTypeOK == \A k \in RefIds : refs[k].kind \in {"none", "eph", "sto"}
\* a usable ephemeral reference points to a live resource
UsableIsLive == \A k \in RefIds : (refs[k].kind = "eph" /\ refs[k].ok) => refs[k].t \in Live(loc)
NoRefsOutsideTx == phase = "idle" => refs = NoRefs
\* the chain of containers of a resource, down from its root place
RECURSIVE Chain(_, _)
Chain(l, u) == IF l[u].k \in Nested THEN Chain(l, l[u].a) \o <<u>> ELSE <<l[u], u>>
\* a reference that is still usable after a step points to a resource that neither moved nor had a
\* container moved: its chain of containers and its root place are what they were
SurvivorsDidNotMove ==
  [][\A k \in RefIds : (phase' = "tx" /\ refs[k].kind = "eph" /\ refs[k].ok /\ refs'[k] = refs[k])
        => Chain(loc', refs[k].t) = Chain(loc, refs[k].t)]_rvars
\* a step invalidates exactly the references into what it transferred or destroyed
ExactInvalidation ==
  [][\A k \in RefIds : (phase = "tx" /\ phase' = "tx" /\ refs[k].kind = "eph" /\ refs[k].ok /\ refs'[k].kind = "eph"
                        /\ refs'[k].t = refs[k].t /\ last'.op \notin {"takeref", "borrow"})
        => (refs'[k].ok <=> refs[k].t \notin last'.inv)]_rvars
\* invalidation is for ever (within the transaction)
DeadStaysDead ==
  [][\A k \in RefIds : (refs[k].kind = "eph" /\ ~refs[k].ok /\ phase' = "tx" /\ last'.op # "begin")
        => (refs'[k] = refs[k] \/ (last'.op \in {"takeref", "borrow"} /\ last'.r = k))]_rvars

RProj  == Proj @@ [refs |-> refs]
RProjN == ProjN @@ [refs |-> refs']
REmitT == PrintT(ToJson([s |-> RProj, t |-> RProjN, a |-> last']))
=============================================================================
