SPECIFICATION Spec
CONSTANTS
  MaxMut = 2
  MaxOldMut = 1
INVARIANTS SchemasWellFormed UsableReflexive Lemmas Emit
VIEW view
