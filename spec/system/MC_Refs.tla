---- MODULE MC_Refs ----
EXTENDS Refs
MCSlotRep1 == (1 :> "var")
MCSlotRep2 == (1 :> "var") @@ (2 :> "dict")
MCSlotRep3 == (1 :> "var") @@ (2 :> "dict") @@ (3 :> "arr")
====
