SPECIFICATION TraceSpec
