SPECIFICATION TraceSpec
INVARIANTS LTypeOK ScriptsNeverWrite WritesOnlyAfterCode NotStuck
