SPECIFICATION TraceSpec
INVARIANTS LTypeOK ScriptsNeverWrite
