SPECIFICATION Spec
CONSTANTS
  Bases = {1, 2}
  AttTys = {"A", "B"}
  Slots = {1, 2}
  Paths = {1}
  SlotRep <- MCSlotRep2
  MaxTags = 3
  MaxOps = 3
  MaxTx = 0
  SSlots = {}
  XVals = {}
  Ops = {"res", "sec"}
INVARIANTS TypeOK OnlyOnLive TagsDistinct Conservation OnePlace IdleClean
PROPERTIES Travel RemovedForever
VIEW view
ACTION_CONSTRAINT EmitT
