SPECIFICATION DSpec
CONSTANTS
  Keys = {"k1", "k2"}
  Digests = {"d1", "d2"}
PROPERTIES Functional
CONSTRAINT Bound
