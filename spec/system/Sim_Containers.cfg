SPECIFICATION SimSpec
CONSTANTS
  Vals = {1, 2, 3, 4, 5}
  Keys = {1, 2, 3, 4, 5, 6, 7, 8}
  CN = 3
  MaxLen = 700
  Lits <- LitsS
  Tgts = {"s", "m"}
  DTgts = {"d", "md"}
  AFull = TRUE
  COps = TRUE
  Modes = {"ref", "lms"}
  MaxOps = 40
  MaxTx = 1
  CountTx = FALSE
  SimDepth = 300
INVARIANTS TypeOK IdleMeansClean SimEmit
