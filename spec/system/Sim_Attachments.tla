---- MODULE Sim_Attachments ----
(* Simulation wrapper of Attachments (see Sim_Resources for the TLC facts behind its shape). *)
EXTENDS MC_Attachments
VARIABLE hist
Rnd(S) == RandomElement(IF nops >= 0 THEN S ELSE {})
Pick(S, dflt) == IF S = {} THEN dflt ELSE Rnd(S)
SimInit == Init /\ hist = << >>
S2(coin, b, c, y, z, dst, i, si, sj, x) ==
     \/ Begin
     \/ ((coin = 1 /\ nops >= 3) \/ nops >= MaxOps) /\ Commit
     \/ (coin \in {1, 2, 10} \/ Live = {}) /\ Create(i)
     \/ coin \in {2, 3, 4, 5} /\ Attach(b, y)
     \/ coin \in {3, 6, 9} /\ Access(b, y)
     \/ coin \in {4, 7} /\ Sec(c)
     \/ coin \in {5, 8} /\ ForEach(b)
     \/ coin \in {6, 9} /\ Remove(b, z)
     \/ coin \in {1, 6, 7, 8, 10} /\ Move(b, dst)
     \/ coin = 10 /\ Destroy(c)
     \/ coin \in {2, 7} /\ SAttach(si)
     \/ coin \in {3, 8} /\ SCopy(si, sj)
     \/ coin \in {4, 9} /\ SSet(si, x)
     \/ coin = 5 /\ SRemove(si)
     \/ coin \in {1, 6} /\ SSave(si)
     \/ coin \in {9, 10} /\ SLoad(sj)
S1(coin) ==
  S2(coin, Pick(Live, 1), Pick(Live, 1), Rnd(AttTys), Rnd(AttTys),
     Pick({pl \in Places : At(pl) = {}}, SlotPl(1)), Rnd(Slots), Rnd(SSlots), Rnd(SSlots), Rnd(XVals))
SimStep == S1(Rnd(1..10))
SimNext == SimStep /\ hist' = Append(hist, last')
SimSpec == SimInit /\ [][SimNext]_<<vars, hist>>
SimDepth == 60
SimEmit == Len(hist) < SimDepth \/ PrintT(ToJson(hist))
====
