---- MODULE Sim_Attachments ----
(* Simulation wrapper of Attachments (see Sim_Storage / Sim_Resources). *)
EXTENDS MC_Attachments
VARIABLE hist
Pick(S, dflt) == IF S = {} THEN dflt ELSE RandomElement(S)
SimInit == Init /\ hist = << >>
SimStep ==
  LET b    == Pick(Live, 1)
      c    == Pick(Live, 1)
      y    == RandomElement(AttTys)
      z    == RandomElement(AttTys)
      dst  == Pick({pl \in Places : At(pl) = {}}, SlotPl(1))
      i    == RandomElement(Slots)
      si   == RandomElement(SSlots)
      sj   == RandomElement(SSlots)
      x    == RandomElement(XVals)
      coin == RandomElement(1..10)
  IN \/ Begin
     \/ ((coin = 1 \/ nops >= MaxOps) /\ Commit)
     \/ Create(i)
     \/ Attach(b, y)
     \/ (coin <= 3 /\ Attach(c, z))
     \/ Access(b, y)
     \/ (coin <= 4 /\ Sec(c))
     \/ (coin <= 4 /\ ForEach(b))
     \/ (coin <= 5 /\ Remove(b, z))
     \/ Move(b, dst) \/ Move(c, dst)
     \/ (coin <= 2 /\ Destroy(c))
     \/ (coin <= 3 /\ SAttach(si))
     \/ (coin <= 3 /\ SCopy(si, sj))
     \/ (coin <= 2 /\ SSet(si, x))
     \/ (coin = 4 /\ SRemove(si))
     \/ (coin = 5 /\ SSave(si))
     \/ (coin = 6 /\ SLoad(sj))
SimNext == SimStep /\ hist' = Append(hist, last')
SimSpec == SimInit /\ [][SimNext]_<<vars, hist>>
SimDepth == 60
SimEmit == Len(hist) < SimDepth \/ PrintT(ToJson(hist))
====
