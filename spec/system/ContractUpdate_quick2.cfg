SPECIFICATION Spec
CONSTANTS
  MaxMut = 2
  MaxOldMut = 0
INVARIANTS SchemasWellFormed UsableReflexive Lemmas Emit
VIEW view
