SPECIFICATION HSpec
INVARIANTS LTypeOK ScriptsNeverWrite WritesOnlyAfterCode FaultedNeverCommits
PROPERTIES WriteOnlyInCommit NoWriteAfterFault NeverSucceedAfterFault
CONSTRAINT Bound
