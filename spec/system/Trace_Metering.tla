---- MODULE Trace_Metering ----
(* Gauge streams recorded from real runs (run-length encoded) validated against Metering.tla.
   One run = Begin(limit) MeterBlock* [Refuse MeterAfter?] End. Two gauges (computation, memory)
   are folded into the one abstract budget of the gauge that refused; a run whose outcome is a
   call-depth error trips by "depth". *)
EXTENDS Naturals, Sequences, TLC, Json
Trace == ndJsonDeserialize("trace.ndjson")
VARIABLES used, tripped, after, done, l
Grace == 64
TInit == used = 0 /\ tripped = "no" /\ after = 0 /\ done = "idle" /\ l = 1
Begin == done' = "running" /\ used' = 0 /\ tripped' = "no" /\ after' = 0
\* n accepted meterings of total amount sum: each meters at least 1 unit, so sum >= n
MeterBlock(n, sum) == done = "running" /\ tripped = "no" /\ sum >= n /\ used' = used + sum /\ UNCHANGED <<tripped, after, done>>
MeterZero == done = "running" /\ UNCHANGED <<used, tripped, after, done>>
Refuse == done = "running" /\ tripped = "no" /\ tripped' = "limit" /\ UNCHANGED <<used, after, done>>
MeterAfter(n) == done = "running" /\ tripped = "limit" /\ n <= Grace /\ after' = n /\ UNCHANGED <<used, tripped, done>>
\* outcome: ok only if never tripped; a tripped run must end with the limit error of the refusing gauge
End(ok, outcome, g) == /\ done = "running"
                       /\ (tripped = "limit" => ~ok /\ outcome = g)
                       /\ (ok => tripped = "no")
                       /\ (~ok /\ tripped = "no" => outcome = "depth")    \* the only other way an unbounded shape may end
                       /\ done' = "idle" /\ UNCHANGED <<used, tripped, after>>
VARIABLE gauge
Step(e) == CASE e.ev = "Begin"      -> Begin /\ gauge' = "none"
             [] e.ev = "MeterBlock" -> MeterBlock(e.n, e.sum) /\ UNCHANGED gauge
             [] e.ev = "MeterZero"  -> MeterZero /\ UNCHANGED gauge
             [] e.ev = "Refuse"     -> Refuse /\ gauge' = e.g
             [] e.ev = "MeterAfter" -> MeterAfter(e.n) /\ UNCHANGED gauge
             [] e.ev = "End"        -> End(e.ok, e.g, gauge) /\ UNCHANGED gauge
             [] OTHER               -> FALSE
VARIABLE skip
TraceNext ==
  /\ l <= Len(Trace) /\ l' = l + 1
  /\ LET e == Trace[l] IN
     IF skip /\ e.ev # "Begin" THEN UNCHANGED <<used, tripped, after, done, gauge, skip>>
     ELSE IF ENABLED Step(e) THEN Step(e) /\ skip' = FALSE
     ELSE PrintT(<<"REJECT", l>>) /\ done' = "idle" /\ UNCHANGED <<used, tripped, after, gauge>> /\ skip' = TRUE
TraceSpec == TInit /\ gauge = "none" /\ skip = FALSE /\ [][TraceNext]_<<used, tripped, after, done, l, gauge, skip>>
====
