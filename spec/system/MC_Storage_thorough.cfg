SPECIFICATION Spec
CONSTANTS
  Accts = {"A1", "A2"}
  Paths = {"p1", "p2"}
  Vals <- MCValsQ
  TArgs <- MCTArgsQ
  MaxOps = 2
  MaxTx = 2
INVARIANTS TypeOK IdleMeansClean
PROPERTIES OnlyCommitChangesCommitted LoadIsTheOnlyRemover
VIEW view
ACTION_CONSTRAINT Emit
