SPECIFICATION SimSpec
CONSTANTS
  Accts = {"A1", "A2"}
  Owners = {"A1", "A2"}
  SPaths = {"p", "q"}
  PPaths = {"x", "y"}
  Names = {"n", "m"}
  Tags = {"t"}
  MaxCtrl = 6
  MaxCaps = 10
  MaxSteps = 1000
  VTypes <- VTypes_L
  IssueBT <- IssueBT_L
  AcctBT <- AcctBT_L
  Wants <- Wants_L
  GetWants <- Wants_L
INVARIANTS TypeOK IdsFresh PathIndexExact PubOwn CapsIssued DeletedNeverBorrows NoEscalation GetNoEscalation SimEmit
