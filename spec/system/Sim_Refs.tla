---- MODULE Sim_Refs ----
(* Simulation wrapper of Refs (see Sim_Resources for the TLC facts behind its shape): parameters are
   drawn at random, biased towards enabled instances, towards nesting, and towards moving what is
   referenced (or a container of it); `coin` selects which few actions are offered in a step. *)
EXTENDS MC_Refs
VARIABLE hist
Rnd(S) == RandomElement(IF nops >= 0 THEN S ELSE {})
Pick(S, dflt) == IF S = {} THEN dflt ELSE Rnd(S)
SimInit == RInit /\ hist = << >>
Cand(l) == SlotPlaces \cup StorePlaces \cup {pl \in NestedPlaces : l[pl.a] # Nowhere}
FreeFor(u) == LET l1 == Take(loc, u) IN {pl \in Cand(l1) : Free(l1, pl, u)}
PreferNested(S) == IF S \cap NestedPlaces # {} THEN S \cap NestedPlaces ELSE S
Referenced == {refs[k].t : k \in {x \in RefIds : refs[x].kind = "eph"}}
MoveSome(u, nested, fn) == ResStepOf(Move(u, Pick(IF nested THEN PreferNested(FreeFor(u)) ELSE FreeFor(u), SlotPl(1)), fn))
MoveOut(u, fn) == ResStepOf(Move(u, Pick(FreeFor(u) \cap (SlotPlaces \cup StorePlaces), SlotPl(1)), fn))
S2(coin, u, v, w, nest, anc, i, j, k, k2, a, p, y, fn, d3) ==
     \/ ResStepOf(Begin)
     \/ ((coin = 1 /\ nops >= 3) \/ nops >= MaxOps) /\ ResStepOf(Commit)
     \/ (coin \in {1, 2, 3, 9, 10} \/ Live(loc) = {}) /\ ResStepOf(Create(SlotPl(i)))
     \/ coin \in {1, 2, 3, 4, 5, 6, 8} /\ MoveSome(u, coin <= 4, fn)
     \/ coin = 7 /\ ResStepOf(Move(v, d3, FALSE))
     \/ coin = 8 /\ ResStepOf(Swap(i, j))
     \/ coin = 8 /\ ResStepOf(Shift(w, v, d3))
     \/ coin = 9 /\ ResStepOf(Destroy(u))
     \/ coin \in {2, 4, 5, 9} /\ TakeRef(k, nest)
     \/ coin \in {1, 7} /\ TakeRef(k, v)
     \/ coin \in {5, 6, 10} /\ MoveOut(anc, fn)
     \/ coin = 10 /\ ResStepOf(Destroy(anc))
     \/ coin = 9 /\ Borrow(k, a, p, y)
     \/ coin \in {3, 4, 6, 8, 10} /\ UseRef(k2)
     \/ coin \in {2, 7} /\ ResStepOf(Peek)
S1(coin, live) ==
  S2(coin,
     Pick(IF coin <= 4 /\ Referenced \cap live # {} THEN Referenced \cap live ELSE live, 1),
     Pick(live, 1),
     Pick(live \cup {0}, 0),
     Pick({x \in live : loc[x].k \in Nested}, Pick(live, 1)),
     Pick({loc[x].a : x \in {z \in Referenced \cap live : loc[z].k \in Nested}}, Pick(live, 1)),
     Rnd(Slots), Rnd(Slots), Rnd(RefIds),
     Pick({x \in RefIds : refs[x].kind # "none"}, Rnd(RefIds)),
     Rnd(Accts), Rnd(Paths), Rnd(BorrowTys), Rnd(BOOLEAN), Rnd(SlotPlaces \cup StorePlaces))
SimStep == S1(Rnd(1..10), Live(loc))
SimNext == SimStep /\ hist' = Append(hist, last')
SimSpec == SimInit /\ [][SimNext]_<<rvars, hist>>
SimDepth == 60
SimEmit == Len(hist) < SimDepth \/ PrintT(ToJson(hist))
====
