---- MODULE Sim_Refs ----
(* Simulation wrapper of Refs (see Sim_Resources): parameters are drawn with RandomElement, biased
   towards enabled instances, towards nesting, and towards moving what is referenced (or a container
   of it); `coin` selects which few actions are offered in a step. *)
EXTENDS MC_Refs
VARIABLE hist
Pick(S, dflt) == IF S = {} THEN dflt ELSE RandomElement(S)
SimInit == RInit /\ hist = << >>
Cand(l) == SlotPlaces \cup StorePlaces \cup {pl \in NestedPlaces : l[pl.a] # Nowhere}
FreeFor(u) == LET l1 == Take(loc, u) IN {pl \in Cand(l1) : Free(l1, pl, u)}
PreferNested(S) == IF S \cap NestedPlaces # {} THEN S \cap NestedPlaces ELSE S
Referenced == {refs[k].t : k \in {x \in RefIds : refs[x].kind = "eph"}}
SimStep ==
  LET live == Live(loc)
      coin == RandomElement(1..10)
      u    == Pick(IF coin <= 4 /\ Referenced \cap live # {} THEN Referenced \cap live ELSE live, 1)
      v    == Pick(live, 1)
      w    == Pick(live \cup {0}, 0)
      nest == Pick({x \in live : loc[x].k \in Nested}, v)
      anc  == Pick({loc[x].a : x \in {z \in Referenced \cap live : loc[z].k \in Nested}}, v)
      ff   == FreeFor(u)
      d1   == Pick(IF coin <= 4 THEN PreferNested(ff) ELSE ff, SlotPl(1))
      d3   == RandomElement(SlotPlaces \cup StorePlaces)
      d4   == Pick(FreeFor(anc) \cap (SlotPlaces \cup StorePlaces), SlotPl(1))
      i    == RandomElement(Slots)
      j    == RandomElement(Slots)
      k    == RandomElement(RefIds)
      k2   == Pick({x \in RefIds : refs[x].kind # "none"}, k)
      a    == RandomElement(Accts)
      p    == RandomElement(Paths)
      y    == RandomElement(BorrowTys)
      fn   == RandomElement(BOOLEAN)
  IN \/ ResStepOf(Begin)
     \/ ((coin = 1 /\ nops >= 3) \/ nops >= MaxOps) /\ ResStepOf(Commit)
     \/ (coin \in {1, 2} \/ live = {}) /\ ResStepOf(Create(SlotPl(i)))
     \/ coin \in {3, 4, 5, 6} /\ ResStepOf(Move(u, d1, fn))
     \/ coin = 7 /\ ResStepOf(Move(v, d3, FALSE))
     \/ coin = 8 /\ ResStepOf(Swap(i, j))
     \/ coin = 8 /\ ResStepOf(Shift(w, v, d3))
     \/ coin = 9 /\ ResStepOf(Destroy(u))
     \/ coin \in {2, 5, 9} /\ TakeRef(k, nest)
     \/ coin \in {1, 7} /\ TakeRef(k, v)
     \/ coin \in {6, 10} /\ ResStepOf(Move(anc, d4, fn))
     \/ coin = 10 /\ ResStepOf(Destroy(anc))
     \/ coin = 9 /\ Borrow(k, a, p, y)
     \/ coin \in {4, 8, 10} /\ UseRef(k2)
     \/ ResStepOf(Peek)
SimNext == SimStep /\ hist' = Append(hist, last')
SimSpec == SimInit /\ [][SimNext]_<<rvars, hist>>
SimDepth == 60
SimEmit == Len(hist) < SimDepth \/ PrintT(ToJson(hist))
====
