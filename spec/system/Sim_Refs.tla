---- MODULE Sim_Refs ----
(* Simulation wrapper of Refs (see Sim_Resources). *)
EXTENDS MC_Refs
VARIABLE hist
Pick(S, dflt) == IF S = {} THEN dflt ELSE RandomElement(S)
SimInit == RInit /\ hist = << >>
FreeFor(u) == {pl \in Places : Free(Take(loc, u), pl, u)}
Referenced == {refs[k].t : k \in {x \in RefIds : refs[x].kind = "eph"}}
SimStep ==
  LET live == Live(loc)
      coin == RandomElement(1..10)
      u    == Pick(IF coin <= 6 /\ Referenced \cap live # {} THEN Referenced \cap live ELSE live, 1)
      v    == Pick(live, 1)
      w    == Pick(live \cup {0}, 0)
      d1   == Pick(IF coin <= 5 THEN FreeFor(u) ELSE FreeFor(u) \cap (SlotPlaces \cup StorePlaces), SlotPl(1))
      d2   == RandomElement(Places)
      d3   == RandomElement(SlotPlaces \cup StorePlaces)
      i    == RandomElement(Slots)
      j    == RandomElement(Slots)
      k    == RandomElement(RefIds)
      k2   == Pick({x \in RefIds : refs[x].kind # "none"}, k)
      a    == RandomElement(Accts)
      p    == RandomElement(Paths)
      y    == RandomElement(BorrowTys)
      fn   == RandomElement(BOOLEAN)
  IN \/ ResStepOf(Begin)
     \/ (coin = 1 \/ nops >= MaxOps) /\ ResStepOf(Commit)
     \/ ResStepOf(Create(SlotPl(i)))
     \/ ResStepOf(Move(u, d1, fn)) \/ ResStepOf(Move(v, d3, FALSE))
     \/ ResStepOf(Swap(i, j))
     \/ coin >= 7 /\ ResStepOf(Shift(w, v, d3))
     \/ coin <= 3 /\ ResStepOf(Destroy(u))
     \/ TakeRef(k, v) \/ TakeRef(k, u)
     \/ coin <= 3 /\ Borrow(k, a, p, y)
     \/ UseRef(k2)
SimNext == SimStep /\ hist' = Append(hist, last')
SimSpec == SimInit /\ [][SimNext]_<<rvars, hist>>
SimDepth == 60
SimEmit == Len(hist) < SimDepth \/ PrintT(ToJson(hist))
====
