---------------------------- MODULE HostFaults ----------------------------
(* Host failures are never swallowed (property C28).

   Ledger's execution protocol extended with a fault plan: the host makes one (or two) of its
   callbacks fail -- by returning an error or by panicking. After a fault the execution must
   end with an error that carries the host failure; it must not report success, must not write
   registers afterwards, and the panic must not escape to the caller.
   The two documented exceptions are named actions:
     PubKeyInvalid    a failing public-key validation means "the key is invalid": the execution
                      may end with an invalid-key user error that does not carry the host error;
     TryUpdateFailed  failures inside `contracts.tryUpdate` are reported as an unsuccessful
                      deployment result: the execution may go on and succeed. The window of the
                      update is delimited by the program (log markers TU-begin / TU-end). *)
EXTENDS Ledger

VARIABLES faulted,    \* a host failure has been injected and not excused
          excused,    \* what excused the (last) fault: "none" | "pubkey" | "tryupdate"
          inTU,       \* inside a contracts.tryUpdate window
          escaped     \* a panic escaped to the caller of the runtime (bad)
hvars == <<lvars, faulted, excused, inTU, escaped>>

HInit == LInit /\ faulted = FALSE /\ excused = "none" /\ inTU = FALSE /\ escaped = FALSE

Keep == UNCHANGED <<faulted, excused, inTU, escaped>>

HBegin(k) == Begin(k) /\ faulted' = FALSE /\ excused' = "none" /\ inTU' = FALSE /\ escaped' = FALSE

\* ordinary (successful) host calls
HCall   == (Read \/ AllocIndex \/ CodeUpdate \/ OtherCall) /\ Keep
TUBegin == OtherCall /\ inTU' = TRUE  /\ UNCHANGED <<faulted, excused, escaped>>
TUEnd   == OtherCall /\ inTU' = FALSE /\ UNCHANGED <<faulted, excused, escaped>>

\* a host callback fails (error return or panic). cb is the callback's name.
Fault(cb) ==
  /\ phase \in {"running", "ended_ok", "ended_err", "committing"} /\ UNCHANGED lvars
  /\ IF inTU THEN faulted' = faulted /\ excused' = "tryupdate"                \* TryUpdateFailed
     ELSE IF cb = "ValidatePublicKey" THEN faulted' = faulted /\ excused' = "pubkey"   \* PubKeyInvalid
     ELSE faulted' = TRUE /\ excused' = excused
  /\ UNCHANGED <<inTU, escaped>>

HExecEnd(ok)   == ExecEnd(ok) /\ Keep /\ (faulted => ~ok)
HCommitBegin   == CommitBegin /\ Keep /\ ~faulted
HWrite         == Write /\ Keep /\ ~faulted              \* no register write after an unexcused fault
HCommitEnd(ok) == CommitEnd(ok) /\ Keep /\ (faulted => ~ok)

\* carries: the returned error wraps the injected host failure; crash: a Go panic escaped
HEnd(ok, carries, crash) ==
  /\ ~crash
  /\ EndX(ok, faulted)
  /\ faulted => (~ok /\ carries)
  /\ (excused = "pubkey" /\ ~faulted) => TRUE            \* any outcome: the key is simply invalid
  /\ faulted' = FALSE /\ excused' = "none" /\ inTU' = FALSE /\ escaped' = FALSE

Callbacks == {"GetValue", "SetValue", "ValidatePublicKey", "EmitEvent"}
HNext == \/ \E k \in Kinds : HBegin(k)
         \/ HCall \/ TUBegin \/ TUEnd
         \/ \E cb \in Callbacks : Fault(cb)
         \/ \E ok \in BOOLEAN : HExecEnd(ok) \/ HCommitEnd(ok)
         \/ HCommitBegin \/ HWrite
         \/ \E ok, c \in BOOLEAN : HEnd(ok, c, FALSE)
HSpec == HInit /\ [][HNext]_hvars

\* ------------------------------------------------------------- properties of the design
NeverSucceedAfterFault == [][(faulted /\ phase # "idle" /\ phase' = "idle") => FALSE \/ ~(phase = "committed")]_hvars
NoWriteAfterFault      == [][faulted => nwrites' = nwrites \/ phase' = "running"]_hvars
FaultedNeverCommits    == faulted => phase \notin {"committed"}
=============================================================================
