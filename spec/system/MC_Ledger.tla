---- MODULE MC_Ledger ----
EXTENDS Ledger
Bound == nwrites <= 3 /\ nexec <= 3
====
