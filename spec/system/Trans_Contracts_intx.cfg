SPECIFICATION TransSpec
CONSTANTS
  Accts = {"A1"}
  Names = {"A"}
  Srcs = {"v1", "v2", "typeerr"}
  MaxOps = 4
  MaxTx = 2
INVARIANTS TypeOK OnlyValidDeployed ValueFitsCode IdleMeansClean
PROPERTIES OnlyCommitChangesCommitted EnumsStay FailedTryUpdateChangesNothing AddNeverOverwrites
VIEW view
ACTION_CONSTRAINT TransEmit
