SPECIFICATION Spec
CONSTANTS
  Ids = {1, 2}
  Slots = {1, 2}
  Accts = {1}
  Paths = {1, 2}
  Keys = {1}
  MaxKids = 2
  MaxDepth = 2
  MaxOps = 3
  MaxTx = 0
  NoEvent = {2}
  Big = {1}
  SlotRep <- MCSlotRep2
  OCells = {}
  OKeys = {}
  Forms = {"shift", "bad"}
INVARIANTS TypeOK Conservation OnePlace WellFormed EventsOnce IdleClean
PROPERTIES DestroyedForever OnlyCommitChangesCommitted
VIEW view
ACTION_CONSTRAINT EmitT
