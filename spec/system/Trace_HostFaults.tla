---- MODULE Trace_HostFaults ----
(* Trace validation for HostFaults: traces recorded from the real runtime with one or two
   injected host failures. A callback event with ok = FALSE is the injected failure. *)
EXTENDS HostFaults, Json, TLC, Sequences
Trace == ndJsonDeserialize("trace.ndjson")
VARIABLE l
tvars == <<hvars, l>>
HookEvents == {"Begin", "ExecEnd", "CommitBegin", "CommitEnd", "End"}
TraceInit == HInit /\ l = 1
Step(e) == CASE e.ev = "Begin"       -> HBegin(e.kind)
             [] e.ev = "ExecEnd"     -> HExecEnd(e.ok)
             [] e.ev = "CommitBegin" -> HCommitBegin
             [] e.ev = "CommitEnd"   -> HCommitEnd(e.ok)
             [] e.ev = "End"         -> HEnd(e.ok, e.carries, e.crash)
             [] e.ev \notin HookEvents /\ ~e.ok -> Fault(e.ev)
             [] e.ev = "SetValue"    -> HWrite
             [] e.ev = "ProgramLog" /\ e.detail = "TU-begin" -> TUBegin
             [] e.ev = "ProgramLog" /\ e.detail = "TU-end"   -> TUEnd
             [] OTHER                -> HCall
\* A rejected event does not stop the validation: it is reported (REJECT line), the rest of that
\* execution is skipped, and validation resumes at the next Begin.
VARIABLE skip
Reset == /\ phase' = "idle" /\ nwrites' = 0 /\ UNCHANGED <<kind, nexec>>
         /\ faulted' = FALSE /\ excused' = "none" /\ inTU' = FALSE /\ escaped' = FALSE
TraceNext ==
  /\ l <= Len(Trace) /\ l' = l + 1
  /\ LET e == Trace[l] IN
     IF skip /\ e.ev # "Begin" THEN UNCHANGED <<hvars, skip>>
     ELSE IF ENABLED Step(e) THEN Step(e) /\ skip' = FALSE
     ELSE PrintT(<<"REJECT", l>>) /\ Reset /\ skip' = TRUE
TraceSpec == TraceInit /\ skip = FALSE /\ [][TraceNext]_<<tvars, skip>>
====
