SPECIFICATION SimSpec
CONSTANTS
  Accts = {"A1", "A2"}
  Paths = {"p1", "p2", "p3"}
  Vals <- MCValsT
  TArgs <- MCTArgsT
  MaxOps = 6
  MaxTx = 12
INVARIANTS TypeOK IdleMeansClean SimEmit
