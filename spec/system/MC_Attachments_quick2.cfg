SPECIFICATION Spec
CONSTANTS
  Bases = {1, 2}
  AttTys = {"A", "B"}
  Slots = {1, 2}
  Paths = {1}
  SlotRep <- MCSlotRep2
  MaxTags = 2
  MaxOps = 2
  MaxTx = 0
  SSlots = {}
  XVals = {}
  Ops = {"res"}
INVARIANTS TypeOK OnlyOnLive TagsDistinct Conservation OnePlace IdleClean
PROPERTIES Travel RemovedForever
VIEW view
ACTION_CONSTRAINT EmitT
