SPECIFICATION SimSpec
CONSTANTS
  Bases = {1, 2, 3, 4, 5, 6, 7, 8}
  AttTys = {"A", "B"}
  Slots = {1, 2, 3}
  Paths = {1, 2}
  SlotRep <- MCSlotRep3
  MaxTags = 60
  MaxOps = 9
  MaxTx = 0
  SSlots = {1, 2}
  XVals = {7, 8, 9}
  Ops = {"res", "sec", "noabort"}
INVARIANTS TypeOK OnlyOnLive TagsDistinct Conservation OnePlace SimEmit
