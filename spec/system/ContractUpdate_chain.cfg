SPECIFICATION Spec
CONSTANTS
  MaxMut = 2
  MaxOldMut = 0
  Chain = TRUE
INVARIANTS SchemasWellFormed UsableReflexive Lemmas Emit
VIEW view
