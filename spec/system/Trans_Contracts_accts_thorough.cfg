SPECIFICATION TransSpec
CONSTANTS
  Accts = {"A1", "A2"}
  Names = {"A"}
  Srcs = {"v1", "v2", "retyped", "enum", "iface", "typeerr", "mismatch", "syntax"}
  MaxOps = 2
  MaxTx = 2
INVARIANTS TypeOK OnlyValidDeployed ValueFitsCode IdleMeansClean
PROPERTIES OnlyCommitChangesCommitted EnumsStay FailedTryUpdateChangesNothing AddNeverOverwrites
VIEW view
ACTION_CONSTRAINT TransEmit
