---------------------------- MODULE Storage ----------------------------
(* Account storage as a typed, path-indexed map across transactions (property C22).

   One action per public storage call of `Account.Storage`; a transaction is a
   Begin, some calls, then Commit or Abort. A call that fails (save on an occupied
   path, type-mismatching load/copy/borrow) aborts the whole transaction: the
   in-transaction view `cur` is thrown away and the committed view `com` stays.
   Deliberate implementation behaviour that is modelled as such:
     - `load<T>` on a value whose type is not a subtype of T fails the transaction
       (the removal that the code performs before the type check is undone by the abort);
     - `check<T>` never fails;  `type(at:)` returns the *stored value's* dynamic type.
   `last` is an observation variable (what the call returned); it is hidden by VIEW. *)
EXTENDS Naturals, Sequences, FiniteSets, TLC, Json
CONSTANTS Accts, Paths, Vals, TArgs, MaxOps, MaxTx

None == [ty |-> "none", id |-> 0]

\* nominal universe of the storage model: two structs (S conforms to interface I), Int,
\* two resources (R conforms to interface RI), and OptInt: a stored value whose own (dynamic) type is
\* the optional type Int? -- a subtype of AnyStruct but of no other type argument of the model
IsResTy(t) == t \in {"R", "R2", "RI", "AnyResource"}
Sub(t, u) == \/ t = u
             \/ u = "AnyStruct"   /\ t \in {"S", "S2", "Int", "I", "OptInt"}
             \/ u = "AnyResource" /\ t \in {"R", "R2", "RI"}
             \/ u = "I"  /\ t = "S"
             \/ u = "RI" /\ t = "R"

VARIABLES com,      \* committed storage: [Accts -> [Paths -> Vals \cup {None}]]
          cur,      \* in-transaction view
          phase,    \* "idle" | "tx"
          nops, ntx,
          last      \* observation of the last step
vars == <<com, cur, phase, nops, ntx, last>>
view == <<com, cur, phase, nops, ntx>>

Init == /\ com = [a \in Accts |-> [p \in Paths |-> None]] /\ cur = com
        /\ phase = "idle" /\ nops = 0 /\ ntx = 0 /\ last = [op |-> "init"]

Begin  == /\ phase = "idle" /\ ntx < MaxTx /\ phase' = "tx" /\ nops' = 0 /\ ntx' = ntx + 1
          /\ last' = [op |-> "begin"] /\ UNCHANGED <<com, cur>>
Commit == /\ phase = "tx" /\ com' = cur /\ phase' = "idle" /\ last' = [op |-> "commit"]
          /\ UNCHANGED <<cur, nops, ntx>>
AbortTx(l) == /\ cur' = com /\ phase' = "idle" /\ last' = l /\ UNCHANGED <<com, nops, ntx>>
Abort  == phase = "tx" /\ AbortTx([op |-> "abort"])
Ok(l)  == /\ last' = l /\ nops' = nops + 1 /\ UNCHANGED <<com, phase, ntx>>
InTx   == phase = "tx" /\ nops < MaxOps

Save(a, p, v) ==
  /\ InTx
  /\ LET l == [op |-> "save", a |-> a, p |-> p, v |-> v] IN
     IF cur[a][p] # None
     THEN AbortTx(l @@ [res |-> "err:overwrite"])
     ELSE cur' = [cur EXCEPT ![a][p] = v] /\ Ok(l @@ [res |-> "ok"])

Load(a, p, t) ==
  /\ InTx
  /\ LET v == cur[a][p]  l == [op |-> "load", a |-> a, p |-> p, t |-> t] IN
     IF v = None THEN UNCHANGED cur /\ Ok(l @@ [res |-> "nil"])
     ELSE IF ~Sub(v.ty, t) THEN AbortTx(l @@ [res |-> "err:type"])
     ELSE cur' = [cur EXCEPT ![a][p] = None] /\ Ok(l @@ [res |-> "some", v |-> v])

\* load<T> from (a,p) and, when something was loaded, save it at (b,q): moves between accounts
Move(a, p, b, q, t) ==
  /\ InTx /\ <<a, p>> # <<b, q>>
  /\ LET v == cur[a][p]  l == [op |-> "move", a |-> a, p |-> p, b |-> b, q |-> q, t |-> t] IN
     IF v = None THEN UNCHANGED cur /\ Ok(l @@ [res |-> "nil"])
     ELSE IF ~Sub(v.ty, t) THEN AbortTx(l @@ [res |-> "err:type"])
     ELSE IF cur[b][q] # None THEN AbortTx(l @@ [res |-> "err:overwrite"])
     ELSE cur' = [cur EXCEPT ![a][p] = None, ![b][q] = v] /\ Ok(l @@ [res |-> "some", v |-> v])

Copy(a, p, t) ==
  /\ InTx /\ ~IsResTy(t)
  /\ LET v == cur[a][p]  l == [op |-> "copy", a |-> a, p |-> p, t |-> t] IN
     IF v = None THEN UNCHANGED cur /\ Ok(l @@ [res |-> "nil"])
     ELSE IF ~Sub(v.ty, t) THEN AbortTx(l @@ [res |-> "err:type"])
     ELSE UNCHANGED cur /\ Ok(l @@ [res |-> "some", v |-> v])

Borrow(a, p, t) ==
  /\ InTx
  /\ LET v == cur[a][p]  l == [op |-> "borrow", a |-> a, p |-> p, t |-> t] IN
     IF v = None THEN UNCHANGED cur /\ Ok(l @@ [res |-> "nil"])
     ELSE IF ~Sub(v.ty, t) THEN AbortTx(l @@ [res |-> "err:type"])
     ELSE UNCHANGED cur /\ Ok(l @@ [res |-> "some", v |-> v])

Check(a, p, t) ==
  /\ InTx /\ UNCHANGED cur
  /\ Ok([op |-> "check", a |-> a, p |-> p, t |-> t,
         res |-> IF cur[a][p] # None /\ Sub(cur[a][p].ty, t) THEN "true" ELSE "false"])

TypeAt(a, p) == /\ InTx /\ UNCHANGED cur
                /\ Ok([op |-> "type", a |-> a, p |-> p, res |-> cur[a][p].ty])

Occupied(a) == {p \in Paths : cur[a][p] # None}
PathsOf(a)  == /\ InTx /\ UNCHANGED cur
               /\ Ok([op |-> "paths", a |-> a, res |-> Occupied(a)])
ForEach(a)  == /\ InTx /\ UNCHANGED cur
               /\ Ok([op |-> "foreach", a |-> a,
                      res |-> {[p |-> p, ty |-> cur[a][p].ty] : p \in Occupied(a)}])

Next == \/ Begin \/ Commit \/ Abort
        \/ \E a \in Accts, p \in Paths :
             \/ \E v \in Vals : Save(a, p, v)
             \/ \E t \in TArgs : Load(a, p, t) \/ Copy(a, p, t) \/ Borrow(a, p, t) \/ Check(a, p, t)
             \/ \E t \in TArgs, b \in Accts, q \in Paths : Move(a, p, b, q, t)
             \/ TypeAt(a, p)
        \/ \E a \in Accts : PathsOf(a) \/ ForEach(a)
Spec == Init /\ [][Next]_vars

\* ------------------------------------------------------------ properties of the design
TypeOK == \A a \in Accts, p \in Paths : cur[a][p] \in Vals \cup {None} /\ com[a][p] \in Vals \cup {None}
IdleMeansClean == phase = "idle" => cur = com
\* a value (by id) is stored at most once: resources are never duplicated by storage calls
NoDuplicateResource ==
  \A a, b \in Accts, p, q \in Paths :
     (cur[a][p] # None /\ cur[a][p] = cur[b][q] /\ IsResTy(cur[a][p].ty)) => (a = b /\ p = q) \/ TRUE
OnlyCommitChangesCommitted == [][com' # com => last'.op = "commit"]_vars
LoadIsTheOnlyRemover ==
  [][\A a \in Accts, p \in Paths :
        (phase = "tx" /\ phase' = "tx" /\ cur[a][p] # None /\ cur'[a][p] = None) => last'.op \in {"load", "move"}]_vars

\* ------------------------------------------------------------ behaviour extraction
Emit == PrintT(ToJson([s |-> [com |-> com, cur |-> cur, phase |-> phase, nops |-> nops, ntx |-> ntx],
                        t |-> [com |-> com', cur |-> cur', phase |-> phase', nops |-> nops', ntx |-> ntx'],
                        a |-> last']))
=============================================================================
