---- MODULE Sim_Caps ----
(* Simulation wrapper for deep histories: the actions of Caps with their parameters drawn by
   RandomElement (one successor per action instead of one per parameter combination).
   Uniformly drawn type arguments rarely yield a successful borrow, so borrow / get / claim
   draw their type argument from the arguments that succeed in the current state half of the
   time, and operations on controllers prefer live IDs.
   Every history entry carries the call's label and the cheap observation of the state after
   it; the printed record adds the full observation of the final state. *)
EXTENDS MC_Caps
VARIABLE hist
SimDepth == 41
Coin == RandomElement({TRUE, FALSE})
Pick(good, all) == IF good # {} /\ Coin THEN RandomElement(good) ELSE RandomElement(all)
SimInit == Init /\ hist = << >>
\* `\E x \in {RandomElement(S)}` binds x to one drawn value (a LET would redraw at every use)
One(S) == {RandomElement(S)}
PickOne(good, all) == {Pick(good, all)}
SimStep ==
  \E a \in One(Accts), b \in One(Accts), o \in One(Owners), p \in One(SPaths), q \in One(SPaths),
     pp \in One(PPaths), n \in One(Names), v \in One(VTypes), t \in One(Tags \cup {""}),
     bt \in One(IssueBT), abt \in One(AcctBT), kd \in One({"storage", "account"}) :
  \E id \in PickOne({i \in Ids : Live(o, i)}, 1..(MaxCtrl + 1)) :
     \/ Put(o, p, v) \/ Take(o, p) \/ Put(o, q, v)
     \/ Issue(o, p, bt) \/ IssueAccount(o, abt)
     \/ Retarget(o, id, q) \/ SetTag(o, id, t) \/ Delete(o, id)
     \/ GetController(o, id, kd) \/ GetControllers(o, p) \/ ForEachController(o, q) \/ AcctControllers(o)
     \/ Exists(a, pp) \/ Unpublish(a, pp)
     \/ \E w \in PickOne({w \in Wants : PubBorrowOK(a, pp, w)}, Wants) : PubBorrow(a, pp, w)
     \/ \E w \in PickOne({w \in Wants : GetOK(a, pp, w)}, Wants) : Get(a, pp, w)
     \/ (caps # {} /\ \E c \in One(caps), c2 \in One(caps) :
           \/ \E w \in PickOne({w \in Wants : BorrowOK(c, w)}, Wants) : CapBorrow(c, w)
           \/ \E w \in One(Wants) : CapBorrow(c2, w)
           \/ \E pa \in PickOne({c.acct}, Accts) : Publish(pa, pp, c)
           \/ InboxPublish(a, n, b, c))
     \/ \E w \in PickOne({w \in Wants : inbox[a][n] # Nil /\ RefSub(inbox[a][n].cap.bt, w)}, Wants) : InboxUnpublish(a, n, w)
     \/ \E w \in PickOne({w \in Wants : inbox[b][n] # Nil /\ RefSub(inbox[b][n].cap.bt, w)}, Wants) : InboxClaim(a, n, b, w)
\* the last step of a history is a single stuttering "end" entry, so that the printing invariant fires
\* once per history (in simulation mode TLC evaluates invariants on every candidate successor)
SimNext == IF Len(hist) < SimDepth - 1
           THEN SimStep /\ hist' = Append(hist, [a |-> last', o |-> ObsLight'])
           ELSE UNCHANGED vars /\ hist' = Append(hist, [a |-> [op |-> "end", k |-> "ok"], o |-> ObsLight])
SimSpec == SimInit /\ [][SimNext]_<<vars, hist>>
SimEmit == Len(hist) # SimDepth \/ PrintT(ToJson([h |-> hist, o |-> Obs]))
====
