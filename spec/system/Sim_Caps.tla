---- MODULE Sim_Caps ----
(* Simulation wrapper for deep histories: the actions of Caps with their parameters drawn by
   RandomElement (one successor per action instead of one per parameter combination).
   Uniformly drawn type arguments rarely yield a successful borrow, so borrow / get / claim
   draw their type argument from the arguments that succeed in the current state half of the
   time, and operations on controllers prefer live IDs.
   Every history entry carries the call's label and the cheap observation of the state after
   it; the printed record adds the full observation of the final state. *)
EXTENDS MC_Caps
VARIABLE hist
SimDepth == 41
Coin == RandomElement({TRUE, FALSE})
Pick(good, all) == IF good # {} /\ Coin THEN RandomElement(good) ELSE RandomElement(all)
SimInit == Init /\ hist = << >>
\* `\E x \in {RandomElement(S)}` binds x to one drawn value (a LET would redraw at every use)
One(S) == {RandomElement(S)}
PickOne(good, all) == {Pick(good, all)}
\* four calls are drawn per step and TLC takes one of their successors: a step costs four successor
\* computations instead of one per call of the interface (a disabled draw -- save on an occupied path,
\* issue beyond MaxCtrl -- simply contributes no successor)
NActs == 27
SimStep ==
  \E a \in One(Accts), b \in One(Accts), o \in One(Owners), p \in One(SPaths), q \in One(SPaths),
     pp \in One(PPaths), n \in One(Names), v \in One(VTypes), t \in One(Tags \cup {""}),
     bt \in One(IssueBT), abt \in One(AcctBT), kd \in One({"storage", "account"}) :
  \E id \in PickOne({i \in Ids : Live(o, i)}, 1..(MaxCtrl + 1)), k1 \in One(1..NActs), k2 \in One(1..NActs), k3 \in One(1..NActs), k4 \in One(1..NActs) :
  \E k \in {k1, k2, k3, k4} :
     CASE k = 1 -> Put(o, p, v)
       [] k = 2 -> IF store[o][p] # NoneV THEN Take(o, p) ELSE Put(o, p, v)
       [] k = 3 -> Put(o, q, v)
       [] k = 4 -> Issue(o, p, bt)
       [] k = 5 -> IssueAccount(o, abt)
       [] k = 6 -> Retarget(o, id, q)
       [] k = 7 -> SetTag(o, id, t)
       [] k = 8 -> Delete(o, id)
       [] k = 9 -> GetController(o, id, kd)
       [] k = 10 -> GetControllers(o, p)
       [] k = 11 -> ForEachController(o, q)
       [] k = 12 -> AcctControllers(o)
       [] k = 13 -> Exists(a, pp)
       [] k = 14 -> Unpublish(a, pp)
       [] k \in {15, 16} -> \E w \in PickOne({w \in Wants : PubBorrowOK(a, pp, w)}, Wants) : PubBorrow(a, pp, w)
       [] k \in {17, 18} -> \E w \in PickOne({w \in Wants : GetOK(a, pp, w)}, Wants) : Get(a, pp, w)
       [] caps = {} /\ k >= 19 /\ k <= 25 -> Issue(o, p, bt)
       [] k \in {19, 20} -> caps # {} /\ \E c \in One(caps) : \E w \in PickOne({w \in Wants : BorrowOK(c, w)}, Wants) : CapBorrow(c, w)
       [] k = 21 -> caps # {} /\ \E c \in One(caps), w \in One(Wants) : CapBorrow(c, w)
       [] k \in {22, 23} -> caps # {} /\ \E c \in One(caps) : \E pa \in PickOne({c.acct}, Accts) : Publish(pa, pp, c)
       [] k \in {24, 25} -> caps # {} /\ \E c \in One(caps) : InboxPublish(a, n, b, c)
       [] k = 26 -> \E w \in PickOne({w \in Wants : inbox[a][n] # Nil /\ RefSub(inbox[a][n].cap.bt, w)}, Wants) : InboxUnpublish(a, n, w)
       [] OTHER -> \E w \in PickOne({w \in Wants : inbox[b][n] # Nil /\ RefSub(inbox[b][n].cap.bt, w)}, Wants) : InboxClaim(a, n, b, w)
\* the last step of a history is a single stuttering "end" entry, so that the printing invariant fires
\* once per history (in simulation mode TLC evaluates invariants on every candidate successor)
SimNext == IF Len(hist) < SimDepth - 1
           THEN SimStep /\ hist' = Append(hist, [a |-> last', o |-> ObsLight'])
           ELSE UNCHANGED vars /\ hist' = Append(hist, [a |-> [op |-> "end", k |-> "ok"], o |-> ObsLight])
SimSpec == SimInit /\ [][SimNext]_<<vars, hist>>
SimEmit == Len(hist) # SimDepth \/ PrintT(ToJson([h |-> hist, o |-> Obs]))
====
