---- MODULE Sim_Values ----
(* Simulation wrapper for Values: two candidate actions with randomly drawn parameters per
   step (plus Commit / Abort / a plain payload update, so a step always exists); `hist` is the behaviour, printed as JSON at
   SimDepth.  The last step is deterministic (it closes the running transaction).
   Random draws are bound by singleton quantifiers so that each is made exactly once. *)
EXTENDS MC_Values
VARIABLE hist
CONSTANT SimDepth
SimInit == Init /\ hist = << >>
One(S) == {RandomElement(S)}

LiveORoots == {x \in ORoots : OTarget(x) # 0}
LiveILocs  == {l \in ILocs : ITarget(l) # 0}
LiveSrcI   == {x \in SrcI : ITargetOf(x) # 0}
VarILocs   == {l \in LiveILocs : l.root # "q"}
Full       == {p \in SPaths : cur[p] # 0}

Cand ==
  \E act \in One(1..36), v \in One(OVars), w \in One(IVars), k \in One(Ks), root \in One(LiveORoots), loc \in One(LiveILocs),
     src \in One(LiveSrcI), s \in One(Sels), p \in One(SPaths), key \in One(DKeys), how \in One({"assignO", "idO"}) :
    CASE act = 1  -> NewO(v, k)
      [] act = 2  -> NewI(w, k)
      [] act \in {3, 4} -> AssignO(v, root, how)
      [] act = 5  -> ArgMutO(root)
      [] act \in {6, 7} -> ReadI(w, loc)
      [] act \in {8, 9} -> WriteI(root, s, src)
      [] act = 10 -> AppendA(root, src)
      [] act = 11 -> PopA(w, root)
      [] act = 12 -> DelD(root, key)
      [] act \in {13, 14} -> SetP(root, k)
      [] act \in {15, 16, 17} -> SetX(loc, k)
      [] act \in {18, 19} -> Push(loc, k)
      [] act = 20 -> Save(v, p)
      [] act = 21 -> IF Full = {} THEN Save(v, p) ELSE \E f \in One(Full), c \in One(1..2) : IF c = 1 THEN Load(v, f) ELSE CopySt(v, f)
      [] act = 22 -> RefO(v)
      [] act = 23 -> IF Full = {} THEN RefO(v) ELSE \E f \in One(Full) : Borrow(f)
      [] act = 24 -> IF VarILocs = {} THEN FALSE ELSE \E l \in One(VarILocs) : RefI(l)
      \* mutations through the references, when they are set (otherwise: take one)
      [] act = 25 -> IF OTarget("r") # 0 THEN SetP("r", k) ELSE RefO(v)
      [] act \in {26, 27} -> IF OTarget("r") # 0 THEN (SetX(ILoc("r", s), k) \/ Push(ILoc("r", s), k)) ELSE RefO(v)
      [] act = 28 -> IF OTarget("r") # 0 THEN WriteI("r", s, src) ELSE (IF Full = {} THEN RefO(v) ELSE \E f \in One(Full) : Borrow(f))
      \* mutating unbound temporaries (must change nothing)
      [] act \in {31, 32} -> \E via \in One(Vias), ts \in One(Sels \cup {Direct}), mut \in One({"setP", "setX", "push"}), c \in One(1..2) :
                              IF c = 1 /\ Full # {} THEN \E f \in One(Full) : TempMut("copySt", "-", f, Direct, ts, mut, via, k, key)
                              ELSE TempMut("ret", root, p, Direct, ts, mut, via, k, key)
      [] act = 33 -> \E via \in One(Vias), mut \in One({"setX", "push"}) : TempMut("getI", root, p, Direct, Direct, mut, via, k, key)
      [] act = 34 -> \E via \in One(Vias), c \in One(1..2), j \in One(0..(MaxSeq - 1)) :
                       IF c = 1 THEN TempMut("getA", root, p, Direct, Direct, "pop", via, k, key)
                       ELSE TempMut("getA", root, p, Direct, Sel("a", j, ""), "setX", via, k, key)
      [] act = 35 -> \E via \in One(Vias), c \in One(1..2) :
                       IF c = 1 THEN TempMut("getD", root, p, Direct, Direct, "del", via, k, key)
                       ELSE TempMut("getD", root, p, Direct, Sel("d", 0, key), "setX", via, k, key)
      [] act = 36 -> \E via \in One(Vias) : TempMut("derefXs", loc.root, p, loc.sel, Direct, "push", via, k, key)
      [] act \in {29, 30} -> IF ri # 0 THEN (SetX(ILoc("q", Direct), k) \/ Push(ILoc("q", Direct), k))
                             ELSE (IF VarILocs = {} THEN FALSE ELSE \E l \in One(VarILocs) : RefI(l))

\* always possible inside a transaction: set the payload of a variable to a different value
Touch == \E v \in One(OVars) : \E k \in One(Ks \ {heap[ov[v]].p}) : SetP(v, k)
SimStep ==
  IF phase = "idle" THEN Begin
  ELSE IF nops >= MaxOps THEN Commit
  ELSE \/ Cand \/ Cand
       \/ \E c \in One(1..9) : IF c = 1 THEN Abort ELSE IF c \in {2, 3} THEN Commit ELSE Touch

Finish == IF phase = "tx" THEN Commit
          ELSE /\ last' = [op |-> "end"] /\ UNCHANGED <<heap, ov, iv, cur, com, ro, ri, phase, nops, ntx>>
SimNext == /\ (IF Len(hist) >= SimDepth - 1 THEN Finish ELSE SimStep)
           /\ hist' = Append(hist, last')
SimSpec == SimInit /\ [][SimNext]_<<vars, hist>>
SimEmit == Len(hist) < SimDepth \/ PrintT(ToJson(hist))
====
