SPECIFICATION Spec
CONSTANTS
  Bases = {}
  AttTys = {"A", "B"}
  Slots = {1, 2}
  Paths = {1}
  SlotRep <- MCSlotRep2
  MaxTags = 2
  MaxOps = 3
  MaxTx = 0
  SSlots = {1, 2}
  XVals = {7}
  Ops = {"noabort"}
INVARIANTS TypeOK OnlyOnLive TagsDistinct Conservation OnePlace IdleClean
PROPERTIES Travel RemovedForever
VIEW view
ACTION_CONSTRAINT EmitT
