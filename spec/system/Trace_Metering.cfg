SPECIFICATION TraceSpec
