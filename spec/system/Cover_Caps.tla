---- MODULE Cover_Caps ----
(* State cover: breadth-first exploration of the state-changing calls with a history variable
   that is hidden by VIEW. TLC evaluates an invariant once per distinct state, so CoverEmit
   prints, for every reachable abstract state, one behaviour that reaches it together with
   everything a script can observe in that state. *)
EXTENDS MC_Caps
VARIABLE hist
CoverInit == Init /\ hist = << >>
CoverNext == MutNext /\ hist' = Append(hist, last')
CoverSpec == CoverInit /\ [][CoverNext]_<<vars, hist>>
CoverEmit == PrintT(ToJson([h |-> hist, o |-> Obs]))
====
