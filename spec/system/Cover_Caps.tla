---- MODULE Cover_Caps ----
(* Behaviour extraction for the bounded Caps model, using a history variable hidden by VIEW.

   State cover (CoverSpec + invariant CoverEmit): breadth-first exploration of the
   state-changing calls. TLC evaluates an invariant once per distinct state, so CoverEmit
   prints, for every reachable abstract state, one behaviour that reaches it together with
   everything a script can observe in that state.

   Transition cover (TransSpec + action constraint TransEmit): every call of the model,
   including the read-only ones and the failing / nil outcomes, from every reachable state:
   one printed behaviour per generated transition. *)
EXTENDS MC_Caps
VARIABLE hist
CoverInit == Init /\ hist = << >>
CoverNext == steps < MaxSteps /\ MutNext /\ hist' = Append(hist, last')
CoverSpec == CoverInit /\ [][CoverNext]_<<vars, hist>>
CoverEmit == PrintT(ToJson([h |-> hist, o |-> Obs]))

TransNext == Next /\ hist' = Append(hist, last')
TransSpec == CoverInit /\ [][TransNext]_<<vars, hist>>
TransEmit == PrintT(ToJson([h |-> hist', o |-> Obs']))
====
