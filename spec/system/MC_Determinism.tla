---- MODULE MC_Determinism ----
EXTENDS Determinism
Bound == nobs <= 4
====
