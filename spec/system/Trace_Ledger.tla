---- MODULE Trace_Ledger ----
(* Trace validation for Ledger: every line of trace.ndjson is one event recorded from the real
   runtime (host callbacks in call order, merged with the runtime's hook events and the
   harness's Begin/End markers). The trace is accepted iff TLC can consume every line with the
   corresponding Ledger action. All Ledger variables are determined by the events, so the
   search is a single path. *)
EXTENDS Ledger, Json, TLC, Sequences
Trace == ndJsonDeserialize("trace.ndjson")
VARIABLE l
tvars == <<lvars, l>>
ReadEvents  == {"GetValue", "ValueExists"}
OtherEvents == {"ProgramLog", "EmitEvent", "GenerateUUID", "ReadRandom", "GetSigningAccounts", "ResolveLocation",
                "GetCode", "GetOrLoadProgram", "GetAccountContractCode", "GetAccountContractNames", "DecodeArgument",
                "GetCurrentBlockHeight", "GetBlockAtHeight", "GenerateAccountID", "Hash", "VerifySignature",
                "GetAccountBalance", "GetAccountAvailableBalance", "GetStorageUsed", "GetStorageCapacity",
                "ValidatePublicKey", "AccountKeysCount", "GetAccountKey", "AddAccountKey", "RevokeAccountKey",
                "CreateAccount", "ValidateAccountCapabilitiesGet", "ValidateAccountCapabilitiesPublish",
                "BLSVerifyPOP", "BLSAggregateSignatures", "BLSAggregatePublicKeys"}
CodeEvents  == {"UpdateAccountContractCode", "RemoveAccountContractCode"}
TraceInit == LInit /\ l = 1
Step(e) == CASE e.ev = "Begin"       -> Begin(e.kind)
             [] e.ev \in ReadEvents  -> Read
             [] e.ev = "AllocateSlabIndex" -> AllocIndex
             [] e.ev \in CodeEvents  -> CodeUpdate
             [] e.ev \in OtherEvents -> OtherCall
             [] e.ev = "ExecEnd"     -> ExecEnd(e.ok)
             [] e.ev = "CommitBegin" -> CommitBegin
             [] e.ev = "SetValue"    -> Write
             [] e.ev = "CommitEnd"   -> CommitEnd(e.ok)
             [] e.ev = "End"         -> End(e.ok)
             [] OTHER                -> FALSE
\* A rejected event does not stop the validation: it is reported (REJECT line), the rest of that
\* execution is skipped, and validation resumes at the next Begin.
VARIABLE skip
Reset == phase' = "idle" /\ nwrites' = 0 /\ UNCHANGED <<kind, nexec>>
TraceNext ==
  /\ l <= Len(Trace) /\ l' = l + 1
  /\ LET e == Trace[l] IN
     IF skip /\ e.ev # "Begin" THEN UNCHANGED <<lvars, skip>>
     ELSE IF ENABLED Step(e) THEN Step(e) /\ skip' = FALSE
     ELSE PrintT(<<"REJECT", l>>) /\ Reset /\ skip' = TRUE
TraceSpec == TraceInit /\ skip = FALSE /\ [][TraceNext]_<<tvars, skip>>
====
