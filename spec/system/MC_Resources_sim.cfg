SPECIFICATION SimSpec
CONSTANTS
  Ids = {1, 2, 3, 4, 5, 6, 7, 8, 9, 10, 11, 12, 13, 14}
  Slots = {1, 2, 3}
  Accts = {1, 2}
  Paths = {1, 2}
  Keys = {1, 2}
  MaxKids = 3
  MaxDepth = 2
  MaxOps = 8
  MaxTx = 1000
  NoEvent = {3, 6, 9, 12}
  Big = {2, 5, 6, 11}
  SlotRep <- MCSlotRep3
  OCells = {0, 1}
  OKeys = {1, 2}
  Forms = {"direct", "shift", "bad", "fn", "reput", "peek"}
INVARIANTS TypeOK Conservation OnePlace WellFormed EventsOnce IdleClean SimEmit
