SPECIFICATION LSpec
INVARIANTS LTypeOK ScriptsNeverWrite WritesOnlyAfterCode
PROPERTIES WriteOnlyInCommit FailedMeansNoWrites
CONSTRAINT Bound
