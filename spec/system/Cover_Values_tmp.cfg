SPECIFICATION Spec
CONSTANTS
  OVars = {"v1"}
  IVars = {}
  SPaths = {"p1"}
  Ks = {1}
  DKeySeq <- KeysA
  MaxSeq = 1
  MaxXs = 2
  MaxNodes = 48
  MaxOps = 2
  MaxTx = 2
  Acts = {"storage", "ref", "temp"}
INVARIANTS NoSharing NoGarbage RefsAreLive Shapes
PROPERTIES OthersUntouched OnlyCommitChangesCommitted
VIEW view
ACTION_CONSTRAINT Emit
