---- MODULE Sim_Resources ----
(* Simulation wrapper of Resources: the same actions, parameters drawn with RandomElement
   (biased towards enabled instances) so that one simulation step evaluates one instance per
   action; `hist` is the behaviour (sequence of labels), printed as JSON at SimDepth. *)
EXTENDS MC_Resources
VARIABLE hist
Pick(S, dflt) == IF S = {} THEN dflt ELSE RandomElement(S)
SimInit == Init /\ hist = << >>
FreeFor(u) == {pl \in Places : Free(Take(loc, u), pl, u)}
SimStep ==
  LET live == Live(loc)
      u    == Pick(live, 1)
      v    == Pick(live, 1)
      w    == Pick(live \cup {0}, 0)
      coin == RandomElement(1..10)
      d1   == Pick(IF coin <= 5 THEN FreeFor(u) ELSE FreeFor(u) \cap (SlotPlaces \cup StorePlaces), SlotPl(1))
      d2   == RandomElement(Places)
      d3   == RandomElement(SlotPlaces \cup StorePlaces)
      d4   == Pick({loc[x] : x \in live \ {u}}, SlotPl(1))
      i    == RandomElement(Slots)
      j    == RandomElement(Slots)
      fn   == RandomElement(BOOLEAN)
  IN \/ Begin
     \/ (coin = 1 \/ nops >= MaxOps) /\ Commit
     \/ coin = 2 /\ nops >= 2 /\ Abort
     \/ Create(SlotPl(i)) \/ Create(d2)
     \/ Move(u, d1, fn) \/ Move(v, d3, FALSE)
     \/ Swap(i, j)
     \/ Shift(w, v, d3) \/ Shift(w, u, d2)
     \/ coin <= 4 /\ Destroy(u)
     \/ coin = 3 /\ BadMove(u, d4)
SimNext == SimStep /\ hist' = Append(hist, last')
SimSpec == SimInit /\ [][SimNext]_<<vars, hist>>
SimDepth == 60
SimEmit == Len(hist) < SimDepth \/ PrintT(ToJson(hist))
====
