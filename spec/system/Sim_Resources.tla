---- MODULE Sim_Resources ----
(* Simulation wrapper of Resources: the same actions, parameters drawn with RandomElement (biased
   towards enabled instances and towards nesting) so that one simulation step evaluates a few
   instances instead of every parameter combination; `coin` selects which actions are offered in a
   step; `hist` is the behaviour (sequence of labels), printed as JSON at SimDepth. *)
EXTENDS MC_Resources
VARIABLE hist
Pick(S, dflt) == IF S = {} THEN dflt ELSE RandomElement(S)
SimInit == Init /\ hist = << >>
Cand(l) == SlotPlaces \cup StorePlaces \cup {pl \in NestedPlaces : l[pl.a] # Nowhere}
FreeFor(u) == LET l1 == Take(loc, u) IN {pl \in Cand(l1) : Free(l1, pl, u)}
PreferNested(S) == IF S \cap NestedPlaces # {} THEN S \cap NestedPlaces ELSE S
SimStep ==
  LET live == Live(loc)
      coin == RandomElement(1..10)
      u    == Pick(live, 1)
      v    == Pick(live, 1)
      w    == Pick(live \cup {0}, 0)
      ff   == FreeFor(u)
      d1   == Pick(IF coin <= 4 THEN PreferNested(ff) ELSE ff, SlotPl(1))
      d2   == Pick(Cand(loc), SlotPl(1))
      d3   == RandomElement(SlotPlaces \cup StorePlaces)
      d4   == Pick({loc[x] : x \in live \ {u}}, SlotPl(1))
      i    == RandomElement(Slots)
      j    == RandomElement(Slots)
      fn   == RandomElement(BOOLEAN)
  IN \/ Begin
     \/ ((coin = 1 /\ nops >= 3) \/ nops >= MaxOps) /\ Commit
     \/ coin = 2 /\ nops >= 2 /\ Abort
     \/ (coin \in {1, 2, 3} \/ live = {}) /\ Create(SlotPl(i))
     \/ coin = 3 /\ Create(d2)
     \/ coin \in {3, 4, 5, 6, 7} /\ Move(u, d1, fn)
     \/ coin = 8 /\ Move(v, d3, FALSE)
     \/ coin = 8 /\ Swap(i, j)
     \/ coin = 9 /\ Shift(w, v, d3)
     \/ coin = 9 /\ Shift(w, u, d2)
     \/ coin = 10 /\ Destroy(u)
     \/ coin = 10 /\ BadMove(u, d4)
     \/ Peek
SimNext == SimStep /\ hist' = Append(hist, last')
SimSpec == SimInit /\ [][SimNext]_<<vars, hist>>
SimDepth == 60
SimEmit == Len(hist) < SimDepth \/ PrintT(ToJson(hist))
====
