---- MODULE Sim_Resources ----
(* Simulation wrapper of Resources: the same actions with parameters drawn at random (biased towards
   enabled instances and towards nesting) so that one simulation step evaluates a few instances
   instead of every parameter combination; `coin` selects which actions are offered in a step;
   `hist` is the behaviour (sequence of labels), printed as JSON at SimDepth.
   TLC facts behind the shape: (1) a constant-level expression such as RandomElement(Slots) that is
   passed as an operator argument is evaluated ONCE for the whole run, so every draw goes through Rnd,
   which mentions a variable; (2) a LET definition is re-evaluated at every use, an operator parameter
   is evaluated once per call - so every draw is bound to an operator parameter before it is used. *)
EXTENDS MC_Resources
VARIABLE hist
Rnd(S) == RandomElement(IF nops >= 0 THEN S ELSE {})
Pick(S, dflt) == IF S = {} THEN dflt ELSE Rnd(S)
SimInit == Init /\ hist = << >>
Cand(l) == SlotPlaces \cup StorePlaces \cup {pl \in NestedPlaces : l[pl.a] # Nowhere}
FreeFor(u) == LET l1 == Take(loc, u) IN {pl \in Cand(l1) : Free(l1, pl, u)}
PreferNested(S) == IF S \cap NestedPlaces # {} THEN S \cap NestedPlaces ELSE S
MoveSome(u, nested, fn) == Move(u, Pick(IF nested THEN PreferNested(FreeFor(u)) ELSE FreeFor(u), SlotPl(1)), fn)
BadSome(u) == BadMove(u, Pick({loc[x] : x \in Live(loc) \ {u}}, SlotPl(1)))
S2(coin, u, v, w, i, j, fn, d2, d3) ==
     \/ Begin
     \/ ((coin = 1 /\ nops >= 3) \/ nops >= MaxOps) /\ Commit
     \/ coin = 2 /\ nops >= 2 /\ Abort
     \/ (coin \in {1, 2, 3, 8, 10} \/ Live(loc) = {}) /\ Create(SlotPl(i))
     \/ coin \in {3, 9} /\ Create(d2)
     \/ coin \in {1, 2, 3, 4, 5, 6, 7, 8} /\ MoveSome(u, coin <= 5, fn)
     \/ coin = 8 /\ Move(v, d3, FALSE)
     \/ coin \in {6, 8} /\ Swap(i, j)
     \/ coin \in {5, 9} /\ Shift(w, v, d3)
     \/ coin = 9 /\ Shift(w, u, d2)
     \/ coin = 10 /\ Destroy(u)
     \/ coin \in {6, 10} /\ BadSome(u)
     \/ coin \in {4, 7, 9} /\ Peek
S1(coin, live) ==
  S2(coin, Pick(live, 1), Pick(live, 1), Pick(live \cup {0}, 0), Rnd(Slots), Rnd(Slots), Rnd(BOOLEAN),
     Pick(Cand(loc), SlotPl(1)), Rnd(SlotPlaces \cup StorePlaces))
SimStep == S1(Rnd(1..10), Live(loc))
SimNext == SimStep /\ hist' = Append(hist, last')
SimSpec == SimInit /\ [][SimNext]_<<vars, hist>>
SimDepth == 60
SimEmit == Len(hist) < SimDepth \/ PrintT(ToJson(hist))
====
