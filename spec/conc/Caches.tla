------------------------------- MODULE Caches -------------------------------
(* Concurrency protocols used by checker, lexer and runtime caches (property C36), in PlusCal.

   Modelled protocols (as found in sema/type.go, sema/access.go, sema/elaboration.go,
   parser/lexer/lexer.go, sema/resources.go, sema/variable_activations.go):
     LAZY   atomic-pointer lazy cache: Load; if nil: compute a fresh, fully initialised value,
            then Store (last writer wins -- duplicate computation is benign because the computed
            value is a deterministic function of the key);
     RW     RWMutex-guarded map cache: RLock/lookup/RUnlock; on miss Lock/recheck/compute/insert/Unlock;
     ONCE   sync.Once guarded initialisation;
     POOL   object pool: Get (may hand out a recycled object), clear, use, Put.
   Invariants: every read observes a fully initialised value equal to the deterministic value
   (never a partially built one); a pooled object has at most one user and is clean when its user
   starts using it; results seen by a process equal those of a sequential run. *)
EXTENDS Naturals, Sequences, FiniteSets, TLC
CONSTANTS Procs, Keys
Val(k) == <<"v", k>>          \* the deterministic value for key k
Partial == <<"partial">>      \* what a half-initialised object would look like

(* --algorithm Caches {
  variables lazy = [k \in Keys |-> <<>>],           \* atomic pointers (<<>> = nil)
            rwmap = [k \in Keys |-> <<>>], readers = 0, writer = FALSE,
            onceDone = FALSE, onceRunning = FALSE, onceVal = <<>>,
            pool = {}, objs = [o \in 1..Cardinality(Procs) |-> [user |-> 0, dirty |-> FALSE]],
            nextObj = 1,
            seen = [p \in Procs |-> <<>>];          \* observations per process
  define {
    ReadsAreComplete == \A p \in Procs : \A i \in 1..Len(seen[p]) : seen[p][i] # Partial /\ seen[p][i] # <<>>
    ReadsAreDeterministic == \A p \in Procs : \A i \in 1..Len(seen[p]) : seen[p][i][1] = "v"
    OneUserPerObject == \A o \in DOMAIN objs : objs[o].user \in Procs \cup {0}
    NoRWConflict == ~(writer /\ readers > 0)
  }
  process (proc \in Procs)
    variables key \in Keys, tmp = <<>>, obj = 0;
  {
   \* ---- LAZY
   l1: tmp := lazy[key];
   l2: if (tmp = <<>>) {
   l3:   tmp := Val(key);                      \* compute completely, off to the side
   l4:   lazy[key] := tmp;                     \* publish with one atomic store
       };
   l5: seen[self] := Append(seen[self], tmp);
   \* ---- RW
   r1: await ~writer; readers := readers + 1;
   r2: tmp := rwmap[key]; 
   r3: readers := readers - 1;
   r4: if (tmp = <<>>) {
   r5:   await ~writer /\ readers = 0; writer := TRUE;
   r6:   if (rwmap[key] = <<>>) { rwmap[key] := Val(key) };
   r7:   tmp := rwmap[key]; writer := FALSE;
       };
   r8: seen[self] := Append(seen[self], tmp);
   \* ---- ONCE
   o1: if (~onceDone) {
   o2:   await ~onceRunning \/ onceDone;
         if (~onceDone) { onceRunning := TRUE;
   o3:     onceVal := Val("once");
   o4:     onceDone := TRUE; onceRunning := FALSE; } 
       };
   o5: seen[self] := Append(seen[self], onceVal);
   \* ---- POOL
   p1: if (pool # {}) { with (o \in pool) { obj := o; pool := pool \ {o} } }
       else { obj := nextObj; nextObj := nextObj + 1 };
   p2: assert objs[obj].user = 0;
       objs[obj] := [user |-> self, dirty |-> FALSE];           \* clear before use
   p3: assert objs[obj].user = self /\ ~objs[obj].dirty;
       objs[obj].dirty := TRUE;                                  \* use
   p4: objs[obj].user := 0;
       pool := pool \cup {obj};                                  \* Put
  }
} *)
\* BEGIN TRANSLATION (chksum(pcal) = "e27d07cc" /\ chksum(tla) = "408b0f68")
VARIABLES pc, lazy, rwmap, readers, writer, onceDone, onceRunning, onceVal, 
          pool, objs, nextObj, seen

(* define statement *)
ReadsAreComplete == \A p \in Procs : \A i \in 1..Len(seen[p]) : seen[p][i] # Partial /\ seen[p][i] # <<>>
ReadsAreDeterministic == \A p \in Procs : \A i \in 1..Len(seen[p]) : seen[p][i][1] = "v"
OneUserPerObject == \A o \in DOMAIN objs : objs[o].user \in Procs \cup {0}
NoRWConflict == ~(writer /\ readers > 0)

VARIABLES key, tmp, obj

vars == << pc, lazy, rwmap, readers, writer, onceDone, onceRunning, onceVal, 
           pool, objs, nextObj, seen, key, tmp, obj >>

ProcSet == (Procs)

Init == (* Global variables *)
        /\ lazy = [k \in Keys |-> <<>>]
        /\ rwmap = [k \in Keys |-> <<>>]
        /\ readers = 0
        /\ writer = FALSE
        /\ onceDone = FALSE
        /\ onceRunning = FALSE
        /\ onceVal = <<>>
        /\ pool = {}
        /\ objs = [o \in 1..Cardinality(Procs) |-> [user |-> 0, dirty |-> FALSE]]
        /\ nextObj = 1
        /\ seen = [p \in Procs |-> <<>>]
        (* Process proc *)
        /\ key \in [Procs -> Keys]
        /\ tmp = [self \in Procs |-> <<>>]
        /\ obj = [self \in Procs |-> 0]
        /\ pc = [self \in ProcSet |-> "l1"]

l1(self) == /\ pc[self] = "l1"
            /\ tmp' = [tmp EXCEPT ![self] = lazy[key[self]]]
            /\ pc' = [pc EXCEPT ![self] = "l2"]
            /\ UNCHANGED << lazy, rwmap, readers, writer, onceDone, 
                            onceRunning, onceVal, pool, objs, nextObj, seen, 
                            key, obj >>

l2(self) == /\ pc[self] = "l2"
            /\ IF tmp[self] = <<>>
                  THEN /\ pc' = [pc EXCEPT ![self] = "l3"]
                  ELSE /\ pc' = [pc EXCEPT ![self] = "l5"]
            /\ UNCHANGED << lazy, rwmap, readers, writer, onceDone, 
                            onceRunning, onceVal, pool, objs, nextObj, seen, 
                            key, tmp, obj >>

l3(self) == /\ pc[self] = "l3"
            /\ tmp' = [tmp EXCEPT ![self] = Val(key[self])]
            /\ pc' = [pc EXCEPT ![self] = "l4"]
            /\ UNCHANGED << lazy, rwmap, readers, writer, onceDone, 
                            onceRunning, onceVal, pool, objs, nextObj, seen, 
                            key, obj >>

l4(self) == /\ pc[self] = "l4"
            /\ lazy' = [lazy EXCEPT ![key[self]] = tmp[self]]
            /\ pc' = [pc EXCEPT ![self] = "l5"]
            /\ UNCHANGED << rwmap, readers, writer, onceDone, onceRunning, 
                            onceVal, pool, objs, nextObj, seen, key, tmp, obj >>

l5(self) == /\ pc[self] = "l5"
            /\ seen' = [seen EXCEPT ![self] = Append(seen[self], tmp[self])]
            /\ pc' = [pc EXCEPT ![self] = "r1"]
            /\ UNCHANGED << lazy, rwmap, readers, writer, onceDone, 
                            onceRunning, onceVal, pool, objs, nextObj, key, 
                            tmp, obj >>

r1(self) == /\ pc[self] = "r1"
            /\ ~writer
            /\ readers' = readers + 1
            /\ pc' = [pc EXCEPT ![self] = "r2"]
            /\ UNCHANGED << lazy, rwmap, writer, onceDone, onceRunning, 
                            onceVal, pool, objs, nextObj, seen, key, tmp, obj >>

r2(self) == /\ pc[self] = "r2"
            /\ tmp' = [tmp EXCEPT ![self] = rwmap[key[self]]]
            /\ pc' = [pc EXCEPT ![self] = "r3"]
            /\ UNCHANGED << lazy, rwmap, readers, writer, onceDone, 
                            onceRunning, onceVal, pool, objs, nextObj, seen, 
                            key, obj >>

r3(self) == /\ pc[self] = "r3"
            /\ readers' = readers - 1
            /\ pc' = [pc EXCEPT ![self] = "r4"]
            /\ UNCHANGED << lazy, rwmap, writer, onceDone, onceRunning, 
                            onceVal, pool, objs, nextObj, seen, key, tmp, obj >>

r4(self) == /\ pc[self] = "r4"
            /\ IF tmp[self] = <<>>
                  THEN /\ pc' = [pc EXCEPT ![self] = "r5"]
                  ELSE /\ pc' = [pc EXCEPT ![self] = "r8"]
            /\ UNCHANGED << lazy, rwmap, readers, writer, onceDone, 
                            onceRunning, onceVal, pool, objs, nextObj, seen, 
                            key, tmp, obj >>

r5(self) == /\ pc[self] = "r5"
            /\ ~writer /\ readers = 0
            /\ writer' = TRUE
            /\ pc' = [pc EXCEPT ![self] = "r6"]
            /\ UNCHANGED << lazy, rwmap, readers, onceDone, onceRunning, 
                            onceVal, pool, objs, nextObj, seen, key, tmp, obj >>

r6(self) == /\ pc[self] = "r6"
            /\ IF rwmap[key[self]] = <<>>
                  THEN /\ rwmap' = [rwmap EXCEPT ![key[self]] = Val(key[self])]
                  ELSE /\ TRUE
                       /\ rwmap' = rwmap
            /\ pc' = [pc EXCEPT ![self] = "r7"]
            /\ UNCHANGED << lazy, readers, writer, onceDone, onceRunning, 
                            onceVal, pool, objs, nextObj, seen, key, tmp, obj >>

r7(self) == /\ pc[self] = "r7"
            /\ tmp' = [tmp EXCEPT ![self] = rwmap[key[self]]]
            /\ writer' = FALSE
            /\ pc' = [pc EXCEPT ![self] = "r8"]
            /\ UNCHANGED << lazy, rwmap, readers, onceDone, onceRunning, 
                            onceVal, pool, objs, nextObj, seen, key, obj >>

r8(self) == /\ pc[self] = "r8"
            /\ seen' = [seen EXCEPT ![self] = Append(seen[self], tmp[self])]
            /\ pc' = [pc EXCEPT ![self] = "o1"]
            /\ UNCHANGED << lazy, rwmap, readers, writer, onceDone, 
                            onceRunning, onceVal, pool, objs, nextObj, key, 
                            tmp, obj >>

o1(self) == /\ pc[self] = "o1"
            /\ IF ~onceDone
                  THEN /\ pc' = [pc EXCEPT ![self] = "o2"]
                  ELSE /\ pc' = [pc EXCEPT ![self] = "o5"]
            /\ UNCHANGED << lazy, rwmap, readers, writer, onceDone, 
                            onceRunning, onceVal, pool, objs, nextObj, seen, 
                            key, tmp, obj >>

o2(self) == /\ pc[self] = "o2"
            /\ ~onceRunning \/ onceDone
            /\ IF ~onceDone
                  THEN /\ onceRunning' = TRUE
                       /\ pc' = [pc EXCEPT ![self] = "o3"]
                  ELSE /\ pc' = [pc EXCEPT ![self] = "o5"]
                       /\ UNCHANGED onceRunning
            /\ UNCHANGED << lazy, rwmap, readers, writer, onceDone, onceVal, 
                            pool, objs, nextObj, seen, key, tmp, obj >>

o3(self) == /\ pc[self] = "o3"
            /\ onceVal' = Val("once")
            /\ pc' = [pc EXCEPT ![self] = "o4"]
            /\ UNCHANGED << lazy, rwmap, readers, writer, onceDone, 
                            onceRunning, pool, objs, nextObj, seen, key, tmp, 
                            obj >>

o4(self) == /\ pc[self] = "o4"
            /\ onceDone' = TRUE
            /\ onceRunning' = FALSE
            /\ pc' = [pc EXCEPT ![self] = "o5"]
            /\ UNCHANGED << lazy, rwmap, readers, writer, onceVal, pool, objs, 
                            nextObj, seen, key, tmp, obj >>

o5(self) == /\ pc[self] = "o5"
            /\ seen' = [seen EXCEPT ![self] = Append(seen[self], onceVal)]
            /\ pc' = [pc EXCEPT ![self] = "p1"]
            /\ UNCHANGED << lazy, rwmap, readers, writer, onceDone, 
                            onceRunning, onceVal, pool, objs, nextObj, key, 
                            tmp, obj >>

p1(self) == /\ pc[self] = "p1"
            /\ IF pool # {}
                  THEN /\ \E o \in pool:
                            /\ obj' = [obj EXCEPT ![self] = o]
                            /\ pool' = pool \ {o}
                       /\ UNCHANGED nextObj
                  ELSE /\ obj' = [obj EXCEPT ![self] = nextObj]
                       /\ nextObj' = nextObj + 1
                       /\ pool' = pool
            /\ pc' = [pc EXCEPT ![self] = "p2"]
            /\ UNCHANGED << lazy, rwmap, readers, writer, onceDone, 
                            onceRunning, onceVal, objs, seen, key, tmp >>

p2(self) == /\ pc[self] = "p2"
            /\ Assert(objs[obj[self]].user = 0, 
                      "Failure of assertion at line 64, column 8.")
            /\ objs' = [objs EXCEPT ![obj[self]] = [user |-> self, dirty |-> FALSE]]
            /\ pc' = [pc EXCEPT ![self] = "p3"]
            /\ UNCHANGED << lazy, rwmap, readers, writer, onceDone, 
                            onceRunning, onceVal, pool, nextObj, seen, key, 
                            tmp, obj >>

p3(self) == /\ pc[self] = "p3"
            /\ Assert(objs[obj[self]].user = self /\ ~objs[obj[self]].dirty, 
                      "Failure of assertion at line 66, column 8.")
            /\ objs' = [objs EXCEPT ![obj[self]].dirty = TRUE]
            /\ pc' = [pc EXCEPT ![self] = "p4"]
            /\ UNCHANGED << lazy, rwmap, readers, writer, onceDone, 
                            onceRunning, onceVal, pool, nextObj, seen, key, 
                            tmp, obj >>

p4(self) == /\ pc[self] = "p4"
            /\ objs' = [objs EXCEPT ![obj[self]].user = 0]
            /\ pool' = (pool \cup {obj[self]})
            /\ pc' = [pc EXCEPT ![self] = "Done"]
            /\ UNCHANGED << lazy, rwmap, readers, writer, onceDone, 
                            onceRunning, onceVal, nextObj, seen, key, tmp, obj >>

proc(self) == l1(self) \/ l2(self) \/ l3(self) \/ l4(self) \/ l5(self)
                 \/ r1(self) \/ r2(self) \/ r3(self) \/ r4(self)
                 \/ r5(self) \/ r6(self) \/ r7(self) \/ r8(self)
                 \/ o1(self) \/ o2(self) \/ o3(self) \/ o4(self)
                 \/ o5(self) \/ p1(self) \/ p2(self) \/ p3(self)
                 \/ p4(self)

(* Allow infinite stuttering to prevent deadlock on termination. *)
Terminating == /\ \A self \in ProcSet: pc[self] = "Done"
               /\ UNCHANGED vars

Next == (\E self \in Procs: proc(self))
           \/ Terminating

Spec == Init /\ [][Next]_vars

Termination == <>(\A self \in ProcSet: pc[self] = "Done")

\* END TRANSLATION 
 
=============================================================================
