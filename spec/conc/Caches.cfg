SPECIFICATION Spec
CONSTANTS
  Procs = {1, 2, 3}
  Keys = {"a", "b"}
INVARIANTS ReadsAreComplete ReadsAreDeterministic OneUserPerObject NoRWConflict
