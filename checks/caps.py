"""C25 / C26 / C27 — capabilities, contract lifecycle, contract updates (spec/system/Caps.tla,
Contracts.tla, ContractUpdate.tla).
spec -> impl: TLC explores the bounded models (state cover, transition cover, simulation; for C27 the
enumeration of (old, new) schema pairs with the model's Usable judgement); every behaviour / pair is
replayed on the real runtime (interpreter and VM) by harness/cmd/{caps,contracts,update} and compared
step by step."""
import json, os, collections, concurrent.futures
from vlib.core import Infra, read_ndjson, write_ndjson

LEVEL = {"C25": "model_checking", "C26": "model_checking", "C27": "model_checking"}

CAPS_FILES = ["system/Caps.tla", "system/MC_Caps.tla", "system/Cover_Caps.tla", "system/Sim_Caps.tla",
              "system/Trans_Caps_quick.cfg", "system/Trans_Caps_thorough.cfg",
              "system/Cover_Caps_quick.cfg", "system/Cover_Caps_thorough.cfg", "system/Sim_Caps.cfg"]


def run_driver(ctx, binary, header, behs, tag, classify, timeout=3000):
    """Write behaviours, run the Go replay driver, route its findings. Returns (summary, failures)."""
    bf = os.path.join(ctx.work, tag + ".behaviours.ndjson")
    rf = os.path.join(ctx.work, tag + ".results.ndjson")
    write_ndjson(bf, ([header] if header is not None else []) + behs)
    ctx.run([binary, bf, rf], timeout=timeout)
    rows = read_ndjson(rf)
    summary = [r for r in rows if r.get("summary")]
    if not summary:
        raise Infra("driver wrote no summary (%s)" % tag)
    fails = [r for r in rows if not r.get("summary")]
    for f in fails:
        if f.get("harness"):
            raise Infra("harness/renderer error in %s: %s\n%s" % (tag, f.get("msg"), f.get("src", "")))
    for f in fails:
        classify(f)
    return summary[0], fails


# ------------------------------------------------------------------------------------------ C25
def caps_lines(res):
    objs = res.json_lines()
    cfgs = [o for o in objs if isinstance(o, dict) and "config" in o]
    if not cfgs:
        raise Infra("TLC did not print the configuration record")
    return cfgs[0], [o for o in objs if isinstance(o, dict) and "h" in o]


def label_key(l):
    return json.dumps({k: v for k, v in l.items() if k != "ev"}, sort_keys=True)


def check_C25(ctx):
    binary = ctx.build("caps")
    tier = "quick" if ctx.quick else "thorough"
    labels = set()
    totals = collections.Counter()

    def classify(f):
        ctx.report({"kind": f["kind"], "op": f.get("op"), "engine": f["engine"]},
                   "behaviour %d (%s) step %d, call %s: %s" % (f["id"], f["engine"], f["step"], f.get("op"), f["msg"]),
                   {"behaviour": f.get("beh"), "source": f.get("src"), "engine": f["engine"]})

    def replay(header, behs, tag):
        s, _ = run_driver(ctx, binary, header, behs, tag, classify)
        totals["behaviours"] += s["behaviours"] * s["engines"]
        totals["transactions"] += s["transactions"] * s["engines"]
        totals["observations"] += s["observations"] * s["engines"]
        for b in behs:
            for st in b["steps"]:
                labels.add(label_key(st["a"]))
        return s

    # 1. transition cover of the tiny configuration: every call with every outcome from every state
    r1 = ctx.tlc(CAPS_FILES, "Cover_Caps", "Trans_Caps_%s.cfg" % tier, workers=1, tag="trans", timeout=1500)
    hdr, lines = caps_lines(r1)
    if not lines:
        raise Infra("no transitions printed")
    tbehs = []
    for i, o in enumerate(lines):
        steps = [{"a": l} for l in o["h"]]
        steps[-1]["o"] = o["o"]
        tbehs.append({"id": i, "kind": "trans", "steps": steps})
    n_trans = len(tbehs)
    ctx.log("transition cover: %d states, %d transitions" % (r1.distinct, n_trans))
    replay(hdr, tbehs, "trans")
    ctx.add_sample({"kind": "transition-cover behaviour (last step is the transition under test)",
                    "steps": [s["a"] for s in tbehs[len(tbehs) // 2]["steps"]]})

    # 2. state cover of the small configuration: one behaviour per reachable abstract state, full observation
    r2 = ctx.tlc(CAPS_FILES, "Cover_Caps", "Cover_Caps_%s.cfg" % tier, workers=1, tag="cover", timeout=3000)
    hdr2, lines2 = caps_lines(r2)
    cbehs = []
    for i, o in enumerate(lines2):
        if not o["h"]:
            continue
        steps = [{"a": l} for l in o["h"]]
        steps[-1]["o"] = o["o"]
        cbehs.append({"id": 1000000 + i, "kind": "cover", "steps": steps})
    if len(cbehs) + 1 != r2.distinct:
        raise Infra("state cover: TLC found %d distinct states but printed %d behaviours" % (r2.distinct, len(cbehs) + 1))
    ctx.log("state cover: %d states -> %d behaviours" % (r2.distinct, len(cbehs)))
    replay(hdr2, cbehs, "cover")
    borrows_ok = sum(len(o["o"]["bor"]) + len(o["o"]["pbor"]) for o in lines2)
    ctx.add_sample({"kind": "state-cover behaviour with the observation of its final state",
                    "steps": [s["a"] for s in cbehs[-1]["steps"]], "observation": cbehs[-1]["steps"][-1]["o"]})

    # 3. deep simulated histories (2 accounts issue/publish/claim, 18 type arguments); the thorough tier
    #    runs several TLC simulations side by side, each with its own seed derived from VERIF_SEED
    nsim = 250 if ctx.quick else 4000
    depth = 41
    chunk = 250 if ctx.quick else 500
    jobs = [(k, min(chunk, nsim - k * chunk)) for k in range((nsim + chunk - 1) // chunk)]

    def simulate(job):
        k, n = job
        extra = ["-seed", str(ctx.seed * 1000 + k)] if k else None
        return k, n, ctx.tlc(CAPS_FILES, "Sim_Caps", "Sim_Caps.cfg", simulate=n, depth=depth + 1, tag="sim%d" % k,
                             timeout=6000, count=False, extra=extra)

    sbehs_total = 0
    sim_states = 0
    with concurrent.futures.ThreadPoolExecutor(max_workers=1 if ctx.quick else max(2, ctx.cores // 2)) as pool:
        for fut in [pool.submit(simulate, j) for j in jobs]:
            k, n, rs = fut.result()
            hdr3, lines3 = caps_lines(rs)
            seen, sbehs = set(), []
            for o in lines3:
                if len(o["h"]) != depth:
                    continue
                key = json.dumps([s["a"] for s in o["h"]], sort_keys=True)
                if key in seen:
                    continue
                seen.add(key)
                steps = o["h"]
                for j, st in enumerate(steps):          # cheap observation after every 4th call, full one at the end
                    if j % 4 != 3:
                        st.pop("o", None)
                steps[-1]["o"] = o["o"]
                sbehs.append({"id": 2000000 + sbehs_total + len(sbehs), "kind": "sim", "steps": steps})
            if len(sbehs) < n // 2:
                raise Infra("simulation produced too few behaviours: %d of %d" % (len(sbehs), n))
            replay(hdr3, sbehs, "sim%d" % k)
            if k == 0:
                ctx.add_sample({"kind": "simulated history (first 12 calls)", "steps": [s["a"] for s in sbehs[0]["steps"][:12]]})
            sbehs_total += len(sbehs)
            sim_states += rs.generated
            rs.out, rs.lines = "", []
            del lines3, sbehs
    ok_borrows = sum(1 for l in labels if '"op": "borrow"' in l and '"res": true' in l)
    return ctx.finish({
        "states": r1.distinct + r2.distinct, "transitions": r1.generated + r2.generated,
        "traces_validated_against_impl": totals["behaviours"],
        "transactions_executed": totals["transactions"],
        "observation_scripts_compared": totals["observations"],
        "evaluations": totals["transactions"] + totals["observations"],
        "distinct_nontrivial": n_trans + len(cbehs) + len(labels),
        "rule": "transitions of the tiny configuration (each a distinct (state, call, outcome)) + distinct abstract states of the "
                "state-cover configuration (each observed with the full borrow/check/get matrix) + distinct labelled calls "
                "(call, arguments, predicted outcome) over all replayed behaviours",
        "transition_cover": n_trans, "state_cover": len(cbehs), "simulated_histories": sbehs_total,
        "simulation_states": sim_states, "distinct_labelled_calls": len(labels),
        "successful_borrows_in_state_cover_observations": borrows_ok,
        "distinct_successful_borrow_calls": ok_borrows,
        "exhaustive": True,
    }, assumptions=["host = repo's TestRuntimeInterface/TestLedger; every call is its own transaction signed by both model accounts and a holder account that keeps the capability values",
                    "type universe of the model: struct S: I, struct S2, resource R, Account, AnyStruct, AnyResource with entitlement sets over {E, F}",
                    "the host's account-ID counter is not rolled back by failing transactions (no failing issue is generated)"])


# ------------------------------------------------------------------------------------------ C26
CONTRACTS_FILES = ["system/Contracts.tla", "system/Cover_Contracts.tla", "system/Sim_Contracts.tla",
                   "system/Trans_Contracts_names.cfg", "system/Trans_Contracts_accts.cfg",
                   "system/Trans_Contracts_accts_thorough.cfg", "system/Trans_Contracts_square_thorough.cfg",
                   "system/Sim_Contracts.cfg"]


def check_C26(ctx):
    binary = ctx.build("contracts")
    totals = collections.Counter()
    labels = set()
    shapes = set()

    def classify(f):
        sig = {"kind": f["kind"], "op": f.get("op"), "engine": f["engine"], "ctx": f.get("ctx", ""),
               "errtype": f.get("errtype", ""), "srcclass": f.get("srcclass", "")}
        ctx.report(sig, "behaviour %d (%s) step %d, %s: %s" % (f["id"], f["engine"], f["step"], f.get("op"), f["msg"]),
                   {"behaviour": f.get("beh"), "source": f.get("src"), "engine": f["engine"]})

    def replay(behs, tag):
        s, _ = run_driver(ctx, binary, None, behs, tag, classify)
        totals["behaviours"] += s["behaviours"] * s["engines"]
        totals["transactions"] += s["transactions"] * s["engines"]
        totals["calls"] += s["calls"] * s["engines"]
        for b in behs:
            tx = []
            for st in b["steps"]:
                labels.add(json.dumps({k: v for k, v in st.items() if k not in ("ev", "com")}, sort_keys=True))
                if st["op"] == "begin":
                    tx = []
                elif st["op"] != "end":
                    tx.append("%s:%s:%s" % (st["op"], st.get("s", ""), st["k"]))
                    if st["op"] in ("commit", "abort") or st["k"] == "err":
                        shapes.add(",".join(tx))
        return s

    # 1. transition covers: every call with every outcome from every reachable state of the bounded models
    cfgs = ["Trans_Contracts_names.cfg", "Trans_Contracts_accts.cfg"] if ctx.quick else \
           ["Trans_Contracts_names.cfg", "Trans_Contracts_accts_thorough.cfg", "Trans_Contracts_square_thorough.cfg"]
    states = transitions = 0
    base = 0
    for cfg in cfgs:
        tag = cfg[len("Trans_Contracts_"):-4]
        r = ctx.tlc(CONTRACTS_FILES, "Cover_Contracts", cfg, workers=1, tag="trans-" + tag, timeout=3000)
        lines = [o for o in r.json_lines() if isinstance(o, dict) and "h" in o]
        if not lines or len(lines) + 1 != r.generated:
            raise Infra("transition cover %s: TLC generated %d states but printed %d behaviours" % (cfg, r.generated, len(lines)))
        behs = []
        for i, o in enumerate(lines):
            steps = o["h"]
            if o["open"]:       # close the running transaction: a commit publishes the in-transaction view
                steps = steps + [{"op": "commit", "k": "ok", "com": o["cur"]}]
            behs.append({"id": base + i, "steps": steps})
        base += 1000000
        states += r.distinct
        transitions += len(lines)
        ctx.log("transition cover %s: %d states, %d transitions" % (tag, r.distinct, len(lines)))
        replay(behs, "trans-" + tag)
        ctx.add_sample({"kind": "transition-cover behaviour (%s)" % tag, "steps": behs[len(behs) // 2]["steps"]}, limit=4)
        del lines, behs

    # 2. deep simulated histories: 2 accounts x 2 names, 8 source classes, <=3 calls per transaction
    nsim = 200 if ctx.quick else 10000
    depth = 61
    chunk = 200 if ctx.quick else 1250
    jobs = [(k, min(chunk, nsim - k * chunk)) for k in range((nsim + chunk - 1) // chunk)]

    def simulate(job):
        k, n = job
        extra = ["-seed", str(ctx.seed * 1000 + k)] if k else None
        return k, n, ctx.tlc(CONTRACTS_FILES, "Sim_Contracts", "Sim_Contracts.cfg", simulate=n, depth=depth + 1,
                             tag="sim%d" % k, timeout=6000, count=False, extra=extra)

    nhist = 0
    sim_states = 0
    with concurrent.futures.ThreadPoolExecutor(max_workers=1 if ctx.quick else max(2, ctx.cores // 2)) as pool:
        for fut in [pool.submit(simulate, j) for j in jobs]:
            k, n, rs = fut.result()
            seen, sbehs = set(), []
            for o in rs.json_lines():
                if not (isinstance(o, dict) and "h" in o) or len(o["h"]) != depth:
                    continue
                key = json.dumps(o["h"], sort_keys=True)
                if key in seen:
                    continue
                seen.add(key)
                sbehs.append({"id": 5000000 + nhist + len(sbehs), "steps": o["h"]})
            if len(sbehs) < n // 2:
                raise Infra("simulation produced too few behaviours: %d of %d" % (len(sbehs), n))
            replay(sbehs, "sim%d" % k)
            if k == 0:
                ctx.add_sample({"kind": "simulated history (first 14 steps)", "steps": sbehs[0]["steps"][:14]})
            nhist += len(sbehs)
            sim_states += rs.generated
            rs.out, rs.lines = "", []
            del sbehs
    return ctx.finish({
        "states": states, "transitions": transitions,
        "traces_validated_against_impl": totals["behaviours"],
        "transactions_executed": totals["transactions"],
        "evaluations": totals["calls"],
        "distinct_nontrivial": transitions + len(labels) + len(shapes),
        "rule": "transitions of the bounded models (each a distinct (state, call, outcome)) + distinct labelled calls "
                "(call, account, name, source class, predicted outcome) + distinct transaction shapes (sequence of call:source:outcome) "
                "over all replayed behaviours",
        "transition_cover": transitions, "simulated_histories": nhist, "simulation_states": sim_states,
        "distinct_labelled_calls": len(labels), "distinct_transaction_shapes": len(shapes),
        "exhaustive": True,
    }, assumptions=["host = repo's TestRuntimeInterface/TestLedger with harness/host.World rolling the contract-code store back when a transaction fails; atree storage validation on",
                    "source classes: v1, v2 (compatible), retyped field, nested enum, contract interface, type error, name mismatch, syntax error",
                    "contracts.borrow is called with &AnyStruct (a typed borrow needs an import that cannot be checked before the contract exists)"])


# ------------------------------------------------------------------------------------------ C27
UPDATE_FILES = ["system/ContractUpdate.tla", "system/ContractUpdate_quick.cfg", "system/ContractUpdate_quick2.cfg",
                "system/ContractUpdate_thorough.cfg"]


def check_C27(ctx):
    binary = ctx.build("update")
    # quick: every single mutation in both directions (old = base / new = base) and every pair of mutations
    # of the new version; thorough: <= 2 mutations distributed over old and new
    cfgs = ["ContractUpdate_quick.cfg", "ContractUpdate_quick2.cfg"] if ctx.quick else ["ContractUpdate_thorough.cfg"]
    pairs, seen = [], set()
    states = generated = 0
    for cfg in cfgs:
        r = ctx.tlc(UPDATE_FILES, "ContractUpdate", cfg, workers=1, timeout=3000, tag=cfg[:-4])
        got = [o for o in r.json_lines() if isinstance(o, dict) and "old" in o and "new" in o]
        if len(got) != r.distinct:
            raise Infra("TLC found %d distinct (old, new) pairs but printed %d" % (r.distinct, len(got)))
        states += r.distinct
        generated += r.generated
        for o in got:
            k = json.dumps([o["old"], o["new"]], sort_keys=True)
            if k not in seen:
                seen.add(k)
                pairs.append(o)
    for i, p in enumerate(pairs):
        p["id"] = i
    pf = os.path.join(ctx.work, "pairs.ndjson")
    rf = os.path.join(ctx.work, "results.ndjson")
    write_ndjson(pf, pairs)
    ctx.run([binary, pf, rf], timeout=3000)
    rows = read_ndjson(rf)
    summary = [x for x in rows if x.get("summary")]
    if not summary:
        raise Infra("driver wrote no summary")
    rows = [x for x in rows if not x.get("summary")]
    for x in rows:
        if x.get("harness"):
            raise Infra("renderer error for pair %d (%s): %s" % (x["id"], x["ms"], x.get("msg")))
    outcome = collections.Counter()
    reads = 0
    notes = []
    accepted_kinds = set()
    rejected_by = collections.Counter()
    for x in rows:
        outcome[x.get("outcome") or "none"] += 1
        reads += x.get("reads", 0)
        p = pairs[x["id"]]
        kinds = sorted(set(m[1] for m in p["ms"]))
        if x.get("outcome") == "accepted":
            accepted_kinds.add(" + ".join(m[0] + ":" + m[1] for m in p["ms"]))
        if x.get("reject_by"):
            rejected_by[x["reject_by"]] += 1
        if x.get("kind"):
            sig = {"kind": x["kind"], "engine": x["engine"], "mutations": x["ms"], "mutation_kinds": ",".join(kinds),
                   "spec_usable": x["usable"]}
            msg = "pair %d [%s] (%s): %s" % (x["id"], x["ms"], x["engine"], x.get("msg"))
            if x.get("detail"):
                msg += "\n" + "\n".join(x["detail"])
            ctx.report(sig, msg, {"old": p["old"], "new": p["new"], "mutations": p["ms"], "spec_usable": p["usable"], "spec_why": p["why"],
                                  "old_source": x.get("old_src"), "new_source": x.get("new_src"), "reader": x.get("reader"),
                                  "engine": x["engine"]})
        elif x.get("note"):
            notes.append({"mutations": x["ms"], "engine": x["engine"], "note": x["note"]})
    if outcome["old-invalid"] > len(rows) // 10:
        raise Infra("%d of %d executions could not deploy the old version: the renderer of mutated schemas is off" % (outcome["old-invalid"], len(rows)))
    if not outcome["accepted"] or not outcome["rejected"]:
        raise Infra("degenerate run: accepted=%d rejected=%d" % (outcome["accepted"], outcome["rejected"]))
    for n in notes[:20]:
        ctx.log("SPEC-NOTE (accepted, reads agree, specification says not Usable): %s [%s]" % (n["mutations"], n["engine"]))
    usable_pairs = sum(1 for p in pairs if p["usable"])
    for p in (pairs[1], pairs[len(pairs) // 2], pairs[-1]):
        ctx.add_sample({"kind": "(old, new) pair", "mutations": p["ms"], "spec_usable": p["usable"], "spec_why": p["why"]})
    return ctx.finish({
        "states": states, "transitions": generated,
        "traces_validated_against_impl": len(rows),
        "evaluations": len(rows) + reads,
        "distinct_nontrivial": len(pairs),
        "rule": "distinct (old schema, new schema) pairs reachable by the bounded number of mutations; each is deployed, populated, updated "
                "and (when accepted) read back on both engines",
        "pairs": len(pairs), "pairs_usable_by_spec": usable_pairs,
        "executions": len(rows), "accepted": outcome["accepted"], "rejected": outcome["rejected"],
        "rejected_new_program_invalid": outcome["rejected-invalid-new"], "old_version_not_deployable": outcome["old-invalid"],
        "stored_value_reads_compared": reads, "distinct_accepted_mutation_sequences": len(accepted_kinds),
        "validator_rejections_by_error": dict(rejected_by.most_common(12)),
        "spec_notes_accepted_but_not_usable_by_spec": len(notes), "spec_notes": notes[:10],
        "exhaustive": True,
    }, assumptions=["base schema: struct S: I with 6 fields (Int, String, enum, array, optional, dictionary), resource R holding an S, enum E with 3 cases, struct interface I, contract fields count and saved",
                    "values whose own type is removed with #removedType are not quantified over; fields narrowed to access(self) are not read from outside",
                    "one-sided: a rejected update is never a violation"])


META = {"C25": {
    "level_text": "TLC explores the bounded Caps state machine (controllers, path index, published capabilities, inbox, values at target paths) with its invariants (IDs fresh and never reused, path index exact, published capability owned by the account, claim only by recipient, deleted never borrows, no escalation); a transition cover of a tiny configuration, a state cover of a small configuration (one behaviour per reachable abstract state, each observed with the complete borrow/check/get matrix) and simulated 40-call histories biased towards successful borrows are replayed call by call on the real runtime under interpreter and VM, comparing results, failure kinds, emitted capability events and the state re-read by a fresh script.",
    "level_note": "Trusted: TLC, the Go renderer of model calls to Cadence, the repo's test ledger/interface as host. Bounded model: 2 accounts, 2 target paths, <=6 controllers per account, 18 borrow types.",
    "technique": "TLA+ spec (Caps.tla) model-checked with TLC; spec behaviours (transition cover, state cover, simulation) replayed into the real runtime and compared step by step",
    "design_ref": "DESIGN.md section 5 C25, Appendix A.4",
    "engine": "E2 replay",
}, "C26": {
    "level_text": "TLC explores the bounded Contracts state machine (per account and name: deployed source class and the initializer that produced the contract value, in-transaction and committed views, names touched / added by the running transaction) with its invariants (only valid code deployed, value fits code, only commit changes the committed view, enums stay, failed tryUpdate changes nothing, add never overwrites); complete transition covers of the bounded configurations (1 account x 2 names and 2 accounts x 1 name, 8 source classes, <=2 calls per transaction, 2 transactions) and simulated 60-step histories over 2 accounts x 2 names are replayed on the real runtime under interpreter and VM, comparing per-call results, refusal kinds, AccountContract* events with code hashes, and names / get(...).code / borrow / the imported contract value read by later scripts.",
    "level_note": "Trusted: TLC, the Go renderer, host.World's code-store rollback. Bounded model: 8 source classes, 2 accounts x 2 names.",
    "technique": "TLA+ spec (Contracts.tla) model-checked with TLC; spec behaviours (transition cover + simulation) replayed into the real runtime and compared step by step",
    "design_ref": "DESIGN.md section 5 C26",
    "engine": "E2 replay",
}, "C27": {
    "level_text": "TLC enumerates every (old, new) pair of abstract contract schemas reachable from a base schema by a bounded number of mutations (field add/remove/retype/rename/reorder, let->var, access narrowing, conformance add/remove/swap, nested declaration add/remove with and without #removedType, enum case add/remove/swap/rename, raw type and kind changes; <=1 mutation in the quick tier, <=2 in the thorough tier) and evaluates the property's judgement Usable(old, new) with its lemmas; for every pair the real runtime (interpreter and VM) deploys old, stores instances (values, dictionary values, interface-typed and AnyStruct-typed elements, nested in a resource, contract fields), runs contracts.update with new and, when the update is accepted, reads everything back under the new version (all declared fields, enum raw values / round trip / case identity, isInstance of old interfaces). Violation = accepted and a read fails or differs.",
    "level_note": "Trusted: TLC, the Go renderer of schemas to Cadence and of the reading script. One base schema; the type universe of retypings is a closed list.",
    "technique": "TLA+ spec (ContractUpdate.tla): TLC enumerates schema pairs and the Usable judgement; each pair is executed on the real runtime and the observed reads decide",
    "design_ref": "DESIGN.md section 5 C27",
    "engine": "E2 replay",
}}
