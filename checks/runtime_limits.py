"""C30 — every execution is bounded by the metering and depth limits (spec/system/Metering.tla,
LimitShapes.tla). TLC proves on the model that an unbounded program halts under fairness and
enumerates the space of unbounded program shapes; every shape is run on the real runtime with finite
computation / memory / call-depth limits (interpreter and VM); the outcome must be one of the limit
errors the model allows (a user error), within a wall-clock bound, and the recorded gauge stream of
every run is validated by TLC against the metering model."""
import json, os, re, subprocess
from vlib.core import Infra, read_ndjson, write_ndjson

LEVEL = {"C30": "model_checking"}
FILES = ["system/Metering.tla", "system/MC_Metering.cfg", "system/MC_Metering_live.cfg",
         "system/LimitShapes.tla", "system/LimitShapes.cfg", "system/Trace_Metering.tla", "system/Trace_Metering.cfg"]


def sig_of(r, kind):
    return {"kind": kind, "loop": r["shape"]["loop"], "limit": r["shape"]["limit"], "engine": r["engine"]}


def check_C30(ctx):
    binary = ctx.build("limits")
    r1 = ctx.tlc(FILES, "Metering", "MC_Metering.cfg", tag="safety")
    r2 = ctx.tlc(FILES, "Metering", "MC_Metering_live.cfg", tag="liveness")
    rs = ctx.tlc(FILES, "LimitShapes", "LimitShapes.cfg", workers=1, tag="shapes", count=False)
    js = rs.json_lines()
    if not js:
        raise Infra("no shapes")
    shapes = js[0]["quick" if ctx.quick else "shapes"]
    sf = os.path.join(ctx.work, "shapes.json")
    json.dump({"shapes": shapes}, open(sf, "w"))
    rf = os.path.join(ctx.work, "results.ndjson")
    engines = "interp,vm" if ctx.quick else "interp,vm,vmopt"
    # the batch process may die if a shape overflows the host stack (that is itself a violation of the
    # property): tolerate it and run the shapes it did not finish one by one
    p = subprocess.run([binary, "run", sf, rf, engines], stdout=subprocess.PIPE, stderr=subprocess.PIPE, text=True,
                       env=dict(os.environ, VERIF_SEED=str(ctx.seed), VERIF_TIER=ctx.tier))
    rows = [r for r in read_ndjson(rf) if not r.get("summary")] if os.path.exists(rf) else []
    done = set((json.dumps(r["shape"], sort_keys=True), r["engine"]) for r in rows if r["outcome"] != "timeout")
    todo = []
    for sh in shapes:
        for e in engines.split(","):
            if (json.dumps({k: sh[k] for k in ("loop", "body", "limit", "expect")}, sort_keys=True), e) not in done:
                todo.append((sh, e))
    if p.returncode != 0 and len(todo) > 60:
        raise Infra("limits driver died early (rc=%d) leaving %d shapes: %s" % (p.returncode, len(todo), p.stderr[-800:]))
    rows = [r for r in rows if r["outcome"] != "timeout"]
    for sh, e in todo:
        q = subprocess.run(["timeout", "300", binary, "one", json.dumps(sh), e], stdout=subprocess.PIPE, stderr=subprocess.PIPE, text=True)
        if q.returncode == 0:
            rows.append(json.loads(q.stdout.strip().splitlines()[-1]))
        elif q.returncode == 124:
            rows.append({"shape": sh, "engine": e, "outcome": "timeout-confirmed", "class": "", "err": "", "wall": 300, "maxdepth": 0,
                         "depthlimit": 0, "trace": [], "src": ""})
        elif "fatal error" in q.stderr or "stack overflow" in q.stderr or "goroutine stack exceeds" in q.stderr or "panic:" in q.stderr:
            first = [l for l in q.stderr.splitlines() if "fatal error" in l or "stack exceeds" in l or l.startswith("panic:")][:2]
            rows.append({"shape": sh, "engine": e, "outcome": "host-crash", "class": "crash", "err": " | ".join(first), "wall": 0,
                         "maxdepth": 0, "depthlimit": 0, "trace": [], "src": ""})
        else:
            raise Infra("re-run of a shape failed (rc=%d): %s" % (q.returncode, q.stderr[-500:]))
    events, execs = [], []
    for i, r in enumerate(rows):
        sh = r["shape"]
        if r["outcome"] == "host-crash":
            ctx.report(sig_of(r, "host-crash"),
                       "shape %s on %s crashed the host process (%s) although finite computation and call-depth limits are configured"
                       % (json.dumps(sh), r["engine"], r["err"]), {"shape": sh, "engine": r["engine"]})
            continue
        if r["outcome"] == "timeout-confirmed":
            ctx.report(sig_of(r, "no-termination"),
                       "shape %s on %s did not terminate within 300 s alone on the machine although a finite computation limit is configured"
                       % (json.dumps(sh), r["engine"]), {"shape": sh, "engine": r["engine"], "source": r["src"]})
            continue
        if r["outcome"].startswith("other:") and ("Parsing" in r["class"] or "Checker" in r["class"]):
            raise Infra("rendered shape rejected by the checker: %s\n%s\n%s" % (sh, r["err"], r["src"]))
        if r["outcome"] not in sh["expect"]:
            ctx.report(sig_of(r, "unexpected-outcome:" + r["outcome"].split(":")[0]),
                       "shape %s on %s ended with %s (%s); the model allows only %s\n%s"
                       % (json.dumps(sh), r["engine"], r["outcome"], r["class"], sh["expect"], r["err"][:300]),
                       {"shape": sh, "engine": r["engine"], "source": r["src"]})
        elif not r["class"].startswith("user:"):
            ctx.report(sig_of(r, "limit-error-not-user"),
                       "shape %s on %s: the limit error is not a user error: %s" % (json.dumps(sh), r["engine"], r["class"]),
                       {"shape": sh, "engine": r["engine"], "source": r["src"]})
        if r["maxdepth"] > r["depthlimit"] + 1 and r["depthlimit"] > 0:
            ctx.report(sig_of(r, "depth-limit-not-respected"),
                       "shape %s on %s recursed to depth %d although the configured call-depth limit is %d"
                       % (json.dumps(sh), r["engine"], r["maxdepth"], r["depthlimit"]),
                       {"shape": sh, "engine": r["engine"], "source": r["src"], "maxdepth": r["maxdepth"]})
        first = len(events) + 1
        events += r["trace"]
        execs.append({"first": first, "last": len(events), "row": i})
    # gauge streams judged by TLC
    from vlib import tracecheck
    nch = 4
    import concurrent.futures as cf
    chunks = [execs[i::nch] for i in range(nch)]
    with cf.ThreadPoolExecutor(max_workers=nch) as ex:
        rej = list(ex.map(lambda ci: tracecheck.validate(ctx, FILES, "Trace_Metering", "Trace_Metering.cfg", events, chunks[ci], "g%d" % ci), range(nch)))
    nrej = 0
    for cr in rej:
        for e, k, ev in cr:
            nrej += 1
            r = rows[e["row"]]
            ctx.report(sig_of(r, "gauge-stream-rejected:" + ev["ev"]),
                       "gauge stream of shape %s on %s is not a behaviour of Metering.tla: event %s rejected (outcome %s)"
                       % (json.dumps(r["shape"]), r["engine"], json.dumps(ev), r["outcome"]),
                       {"shape": r["shape"], "engine": r["engine"], "source": r["src"], "trace": r["trace"]})
    ctx.add_sample({"shape": rows[0]["shape"], "engine": rows[0]["engine"], "outcome": rows[0]["outcome"], "wall_s": rows[0]["wall"],
                    "gauge_stream": rows[0]["trace"], "source": rows[0]["src"][-300:]})
    return ctx.finish({
        "states": r1.distinct + r2.distinct, "transitions": r1.generated + r2.generated,
        "traces_validated_against_impl": len(execs) - nrej,
        "evaluations": len(rows), "distinct_nontrivial": len(set(json.dumps(r["shape"], sort_keys=True) for r in rows)),
        "rule": "distinct (unbounded construct, per-round body, configured limit) shapes enumerated by TLC from LimitShapes.tla, each run on every engine",
        "max_wall_s": max(r["wall"] for r in rows), "liveness_checked_on_model": True,
    }, assumptions=["non-termination is observed through a wall-clock bound (60 s in the batch, then 300 s alone)",
                    "gauges are harness gauges with hard limits; amounts as reported by the runtime"])


META = {"C30": {
    "level_text": "Metering.tla (every metered step costs >= 1; refusal trips the execution; calls refused at the depth limit) is model-checked for safety and, under weak fairness, for termination of an unbounded program. TLC enumerates the space of unbounded program shapes (19 constructs incl. every iterating built-in with a non-terminating callback, recursion through functions/methods/closures/interface defaults/conditions, growing strings/arrays/dictionaries/nesting x 12 per-round bodies x 5 limit configurations); every shape runs on the real runtime (interpreter, VM; thorough: VM+peephole) with finite limits and must end with a limit user error the model allows, respect the configured call-depth limit, and its gauge stream must be a behaviour of the metering model (TLC trace validation).",
    "level_note": "Trusted: TLC, the recording gauges, the renderer. Termination is judged through a wall-clock bound (re-run alone before reporting).",
    "technique": "TLA+ spec Metering.tla model-checked (safety + liveness); TLC-enumerated program shapes replayed into the real runtime; gauge traces validated by TLC",
    "design_ref": "DESIGN.md section 5 C30", "engine": "E2 replay + E3 trace validation",
}}
