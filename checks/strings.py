"""Family "strings": C19 (strings as grapheme-cluster sequences of their NFC form) and
C18 (equality, ordering and hashing laws).

Both checks are table conformance (DESIGN 2.1, E4): TLC evaluates the specification
(spec/text/Graphemes.tla, spec/lang/EqHash.tla) on every enumerated case, checks the laws of the
specified functions as invariants and prints one table row per case with the predicted result of
every operation; harness/cmd/strings executes the real code on exactly those cases (direct
interpreter calls and Cadence scripts on both engines) and every row where the code differs from the
prediction is reported with a semantic signature."""
import json, os
from vlib.core import Infra, read_ndjson, write_ndjson

LEVEL = {"C19": "model_checking", "C18": "model_checking"}


def tlc_workers(ctx):
    return int(os.environ.get("VERIF_TLC_WORKERS", ctx.cores))


def run_driver(ctx, binary, sub, args, tag, timeout=6000):
    out = os.path.join(ctx.work, tag + ".results.ndjson")
    w = os.environ.get("VERIF_DRIVER_WORKERS")
    p = ctx.run([binary, sub, out] + args + (["workers=" + w] if w else []), timeout=timeout)
    for ln in p.stderr.splitlines():
        if ln.startswith("["):
            ctx.log(ln)
    rows = read_ndjson(out)
    summary = [r for r in rows if r.get("summary")]
    if not summary:
        raise Infra("driver %s wrote no summary (%s)" % (sub, tag))
    fails = [r for r in rows if not r.get("summary")]
    for f in fails:
        if f.get("harness"):
            raise Infra("harness/model validation error in %s/%s: %s" % (sub, tag, json.dumps(f)[:1500]))
    return summary[0], fails


def tlc_out(res):
    return os.path.join(res.dir, "tlc.out")


# ------------------------------------------------------------------------------------------
# C19 strings
G_FILES = ["text/Graphemes.tla", "text/GraphemesTable.tla", "text/MC_Graphemes.tla", "text/MC_GraphemesCases.tla",
           "text/MC_Graphemes_quick.cfg", "text/MC_Graphemes_thorough.cfg", "text/MC_GraphemesCases.cfg"]

G_ALPHABETS = {"Marks6": "bEedMS", "Emoji6": "bPZSRM", "Hangul6": "LVTGHM", "Lines6": "CFbMZR", "Full": "bEeDdMSZPRCFLVTGH"}
# fragments the generator splices in: emoji ZWJ sequences, flags, decomposed / precomposed pairs, jamo runs, CR LF
G_MOTIFS = {"Marks6": ["eM", "EM", "d", "eSM", "eMM", "bM", "MM", "dM"], "Emoji6": ["PZP", "PSZP", "PZZP", "RR", "RRR", "PM", "ZP", "bZP", "RZR"],
            "Hangul6": ["LV", "LVT", "GT", "G", "H", "LLV", "VT", "TT", "LMV", "GMT", "HT"], "Lines6": ["CF", "FC", "CM", "CFM", "CZ", "RR", "bM", "CCF"],
            "Full": ["eM", "PZP", "RR", "LVT", "CF", "GT", "d", "PSZP", "EM"]}


def g_cases(seed, quick):
    """sources of 5..7 (quick) / 6..8 (thorough) symbols: random symbols of a themed alphabet mixed with the motifs above"""
    import random
    rnd = random.Random(1000003 * seed + 19)
    n = 700 if quick else 2500
    lo, hi = (5, 7) if quick else (6, 8)
    seen, cases = set(), []
    while len(cases) < n:
        al = rnd.choice(["Marks6", "Emoji6", "Hangul6", "Lines6", "Full"])
        target = rnd.randint(lo, hi)
        s = ""
        while len(s) < target:
            s += rnd.choice(G_MOTIFS[al]) if rnd.random() < 0.45 else rnd.choice(G_ALPHABETS[al])
        s = s[:target]
        if (al, s) in seen:
            continue
        seen.add((al, s))
        cases.append({"al": al, "s": list(s)})
    return cases

SYMBOLS = {"b": "U+0062", "E": "U+0045", "e": "U+0065", "D": "U+00C9", "d": "U+00E9", "M": "U+0301", "S": "U+FE0F", "Z": "U+200D",
           "P": "U+1F600", "R": "U+1F1E6", "C": "U+000D", "F": "U+000A", "L": "U+1100", "V": "U+1161", "T": "U+11A8",
           "G": "U+AC00", "H": "U+AC01"}


def code_points(sym):
    return " ".join(SYMBOLS.get(c, "?") for c in sym) if sym else "(empty)"


def g_sig(f):
    return {"op": f["op"], "dev": f["dev"], "engine": f["engine"], "path": f["path"], "shape": f.get("shape", ""),
            "alphabet": f.get("al", ""), "string": f["s"], "needle": f.get("n", ""), "arg": f.get("arg", "")}


def g_msg(f):
    return ("String %s%s on source [%s] (value [%s] = %s)%s via %s/%s: specification %s, observed %s (%s; case shape: %s)"
            % (f["op"], ("(" + f["arg"] + ")") if f.get("arg") else "", f["s"], f["v"], code_points(f["v"]),
               (" with needle [%s] = %s" % (f["n"], code_points(f["n"]))) if f.get("n") else "",
               f["path"], f["engine"], "fails" if f["want"] == "!" else f["want"], f["got"], f["dev"], f.get("shape", "")))


def check_C19(ctx):
    binary = ctx.build("strings")
    workers = tlc_workers(ctx)
    runs = [ctx.tlc(G_FILES, "MC_Graphemes", "MC_Graphemes_quick.cfg" if ctx.quick else "MC_Graphemes_thorough.cfg",
                    workers=workers, tag="graphemes", timeout=7200)]
    cases = g_cases(ctx.seed, ctx.quick)
    cf = os.path.join(ctx.work, "gcases.ndjson")
    write_ndjson(cf, cases)
    runs.append(ctx.tlc(G_FILES + [cf], "MC_GraphemesCases", "MC_GraphemesCases.cfg", workers=workers, tag="graphemes-cases", timeout=7200))
    if runs[1].distinct != len(cases) + 1:
        raise Infra("case table has %d states for %d cases" % (runs[1].distinct, len(cases)))
    nrows = sum(r.distinct for r in runs) - 1          # the fan-out state of the case table prints no row
    args = [tlc_out(r) for r in runs] + (["litshare=4", "failshare=8"] if ctx.quick else ["litshare=8", "failshare=16"])
    summary, fails = run_driver(ctx, binary, "graphemes", args, "graphemes")
    if summary.get("invalid"):
        raise Infra("the model disagrees with the Unicode reference libraries")
    if summary["rows"] != nrows:
        raise Infra("driver judged %d rows, TLC enumerated %d states" % (summary["rows"], nrows))
    for f in fails:
        ctx.report(g_sig(f), g_msg(f), {"operation": f["op"], "source_symbols": f["s"], "source_code_points": code_points(f["s"]),
                                         "needle_symbols": f.get("n", ""), "needle_code_points": code_points(f.get("n", "")),
                                         "argument": f.get("arg", ""), "engine": f["engine"], "path": f["path"],
                                         "specification": f["want"], "observed": f["got"]})
    # negative control: corrupted predictions must be rejected by the same driver
    rows = runs[0].json_lines()
    cand = [r for r in rows if "nd" in r and len(r["cl"]) >= 2 and any(len(c) > 1 for c in r["cl"]) and any(n["c"] for n in r["nd"])]
    if not cand:
        raise Infra("negative control: no suitable row")
    base = cand[(ctx.seed * 7919) % len(cand)]
    alpha = [r for r in rows if "alphabet" in r]
    bad = []
    b1 = json.loads(json.dumps(base)); n1 = next(n for n in b1["nd"] if n["c"]); n1["i"] += 1                      # index(of:)
    b2 = json.loads(json.dumps(base)); b2["s"] = b2["s"]; b2["sl"][1][len(b2["cl"]) + 1] = "!"                    # slice(0, len) made failing
    b3 = json.loads(json.dumps(base)); n3 = next(n for n in b3["nd"] if n["c"]); n3["k"] += 1; n3["sp"].append("")  # count / split
    b4 = json.loads(json.dumps(base)); b4["cl"] = b4["cl"][:-2] + [b4["cl"][-2] + b4["cl"][-1]]                   # two clusters merged
    for i, b in enumerate((b1, b2, b3)):
        bad.append(b)
    nf = os.path.join(ctx.work, "negctl.ndjson")
    write_ndjson(nf, alpha[:1] + bad)
    _, nfails = run_driver(ctx, binary, "graphemes", [nf, "litshare=1", "failshare=1"], "graphemes-negctl")
    kinds = {(f["op"], f["dev"]) for f in nfails}
    need = {("index(of:)", "wrong-value"), ("slice", "succeeds-but-undefined"), ("count", "wrong-value"), ("split", "wrong-value")}
    if not need <= kinds:
        raise Infra("negative control failed: corrupted rows were not all rejected: %s" % sorted(kinds))
    # a corrupted segmentation is a model/library disagreement: it must stop the run as a harness error
    write_ndjson(nf + ".seg", alpha[:1] + [b4])
    try:
        run_driver(ctx, binary, "graphemes", [nf + ".seg"], "graphemes-negctl-seg")
        raise Infra("negative control failed: a corrupted cluster sequence was not rejected by the library validation")
    except Infra as e:
        if "validation error" not in str(e):
            raise
    for r in (cand[len(cand) // 3], cand[(2 * len(cand)) // 3]):
        nd = next(n for n in r["nd"] if n["c"])
        ctx.add_sample({"source": r["s"], "code_points": code_points(r["s"]), "value": r["v"], "characters": r["cl"], "utf8": r["u8"],
                        "needle": nd["n"], "index": nd["i"], "count": nd["k"], "split": nd["sp"], "replaceAll": dict(zip(r["rs"], nd["rp"]))})
    mis = next(((r, n) for r in cand for n in r["nd"] if not n["c"] and n["nv"] and n["nv"] in r["v"]), None)
    if mis:
        ctx.add_sample({"misaligned needle": mis[1]["n"], "in": mis[0]["s"], "characters": mis[0]["cl"], "contains": False, "count": 0})
    return ctx.finish({
        "states": nrows, "transitions": sum(r.generated for r in runs),
        "traces_validated_against_impl": summary["rows"],
        "evaluations": summary["go_evals"] + summary["cadence_evals"],
        "go_api_evaluations": summary["go_evals"], "cadence_script_evaluations": summary["cadence_evals"],
        "distinct_nontrivial": summary["nontrivial"],
        "rule": "one TLC state / table row per (alphabet, source string); a case is a distinct (string value, needle value) pair; non-trivial = the "
                "source is not NFC, or the value has a character of several code points, or the needle is not NFC, or the needle's code points occur "
                "in the string without being aligned to character boundaries",
        "distinct_string_values": summary["distinct_values"], "distinct_string_needle_cases": summary["distinct_cases"],
        "needle_rows": summary["needle_rows"], "misaligned_needle_cases": summary["misaligned"],
        "sources_not_normalized": summary["sources_not_normalized"], "rows_also_run_as_literals": summary["literal_rows"],
        "ordering_all_pairs": summary["ranked_pairs"], "ordering_strings": summary["ranked_strings"],
        "empty_needle_conventions_recorded_not_judged": summary["empty_needle_conventions"],
        "negative_control": "3 corrupted predictions (index(of:) +1, a defined slice made failing, count +1 / extra split part) all reported; "
                            "a corrupted cluster sequence is rejected by the validation against x/text and uniseg (exit 2)",
        "exhaustive": True,
        "exhaustive_scope": "all sources up to %d symbols over each class-focused alphabet and up to 3 symbols over the full alphabet (%d rows); "
                            "the %d longer generated sources are a seeded sample" % (4 if ctx.quick else 5, runs[0].distinct, len(cases)),
    }, assumptions=[
        "the alphabet is 17 code points, one or two per class the UAX #29 / UAX #15 rules distinguish (no Prepend, SpacingMark, Control other than CR/LF, "
        "no second non-zero combining class: canonical reordering is not exercised)",
        "the model's Norm and Clusters are validated on every row against golang.org/x/text/unicode/norm and github.com/rivo/uniseg, which are dependencies "
        "of the code under test, not part of it",
        "ordering is lexicographic by code point on the normalized form",
        "empty needles / separators are outside the statement: the code's conventions are recorded, not judged",
    ])


# ------------------------------------------------------------------------------------------
# C18 equality, ordering, hashing
E_FILES = ["text/Graphemes.tla", "lang/EqHash.tla", "lang/EqHashMC.tla", "lang/EqHashMC_quick.cfg", "lang/EqHashMC_thorough.cfg"]


def e_sig(f):
    return {"check": f["check"], "dev": f["dev"], "engine": f["engine"], "type": f["ty"], "kind": f["kind"], "op": f["op"],
            "form_a": f.get("form_a", ""), "form_b": f.get("form_b", "")}


def e_msg(f):
    return ("%s of %s values (%s) via %s: %s%s -- specification: %s; observed: %s (%s)"
            % (f["op"], f["ty"], f["kind"], f["engine"], f["a"], (" vs " + f["b"]) if f.get("b") else "", f["want"], f["got"], f["dev"]))


def check_C18(ctx):
    binary = ctx.build("strings")
    r = ctx.tlc(E_FILES, "EqHashMC", "EqHashMC_quick.cfg" if ctx.quick else "EqHashMC_thorough.cfg", workers=tlc_workers(ctx), tag="eqhash", timeout=5400)
    rows = r.json_lines()
    groups = [x for x in rows if x.get("row") == "group"]
    if not groups:
        raise Infra("the table has no group rows")
    summary, fails = run_driver(ctx, binary, "eqhash", [tlc_out(r)], "eqhash")
    nrows = sum(1 for x in rows if x.get("row"))
    if nrows != r.distinct - 1:
        raise Infra("%d table rows for %d states" % (nrows, r.distinct))
    if summary["groups"] != len(groups) or summary["histories"] != sum(1 for x in rows if x.get("row") == "hist"):
        raise Infra("driver judged %d groups / %d histories, the table has %d / %d"
                    % (summary["groups"], summary["histories"], len(groups), sum(1 for x in rows if x.get("row") == "hist")))
    for f in fails:
        ctx.report(e_sig(f), e_msg(f), {"check": f["check"], "static_type": f["ty"], "a": f["a"], "b": f.get("b", ""), "engine": f["engine"],
                                         "operation": f["op"], "specification": f["want"], "observed": f["got"]})
    # negative control: flipped predictions must be reported by the same driver
    bad = json.loads(json.dumps(rows))
    sg = next(g for g in bad if g.get("row") == "group" and g["ty"] == "String")
    srcs = ["".join(x["src"]) for x in sg["reps"]]
    i, j = srcs.index("eM"), srcs.index("d")                                  # NFD and NFC spelling of one string
    pr = next(x for x in bad if x.get("row") == "pair" and x["g"] == sg["g"] and x["i"] == i + 1)
    if pr["eq"][j] is not True or pr["cmp"][j] != 0:
        raise Infra("negative control: the table does not predict NFD == NFC")
    pr["eq"][j] = False
    pr["cmp"][j] = -1
    kr = next(x for x in bad if x.get("row") == "key" and x["g"] == sg["g"] and x["i"] == i + 1)
    q = next(k["p"] for k in bad if k.get("row") == "key" and k["g"] == sg["g"] and k["i"] == j + 1)
    kr["same"][q - 1] = False
    hr = next(x for x in bad if x.get("row") == "hist" and x["old"][1] == 1)   # second insert replaced the first
    hr["len"] += 1
    nf = os.path.join(ctx.work, "negctl.ndjson")
    write_ndjson(nf, bad)
    _, nfails = run_driver(ctx, binary, "eqhash", [nf], "eqhash-negctl")
    kinds = {(f["check"], f["dev"]) for f in nfails}
    need = {("eq", "wrong-equality"), ("order", "wrong-order"), ("key", "different-keys-one-entry"), ("hist", "wrong-history")}
    if not need <= kinds:
        raise Infra("negative control failed: flipped predictions were not all reported: %s" % sorted(kinds))
    tg = next(g for g in groups if g["ty"] == "Type")
    ctx.add_sample({"static type": "String", "representations": [{"symbols": "".join(x["src"]), "form": x["form"]} for x in sg["reps"][:8]]})
    ctx.add_sample({"static type": "Type", "type terms (members as written)": [
        {"c": x["t"]["c"], "ms": x["t"]["ms"], "au": x["t"]["au"], "es": x["t"]["es"], "form": x["form"]} for x in tg["reps"][3:9]]})
    h = next(x for x in rows if x.get("row") == "hist" and x["old"][1] == 1 and x["old"][2] == 2)
    ctx.add_sample({"dictionary history": "insert k1->1; insert k2->2; remove k3", "pool": h["pool"], "k1,k2,k3": h["ks"],
                    "replaced/removed values": h["old"], "length": h["len"], "lookups": h["look"]})
    return ctx.finish({
        "states": r.distinct, "transitions": r.generated,
        "traces_validated_against_impl": (summary["pairs"] + summary["key_pairs"] + summary["histories"]) * summary["engines"],
        "evaluations": summary["evals"],
        "distinct_nontrivial": summary["equal_pairs_of_different_reps"] + summary["equal_key_pairs_of_different_reps"],
        "rule": "non-trivial = ordered pairs of DIFFERENT representations that the specification makes equal (as values of one static type, "
                "and as dictionary keys): the cases where equality, order and hash input must agree although the values were constructed differently",
        "groups": summary["groups"], "representations": summary["reps"], "distinct_values": summary["distinct_values"],
        "pairs_compared": summary["pairs"], "hashable_representations": summary["hashable_reps"], "key_pairs": summary["key_pairs"],
        "dictionary_histories": summary["histories"], "key_pools": summary["pools"],
        "negative_control": "4 flipped predictions (NFD == NFC made false, its order, the same pair as dictionary keys, a history length) all reported",
        "exhaustive": True,
    }, assumptions=[
        "values are compared only with values of the same static type (what the checker accepts for == and <); across types only as keys of {HashableStruct: Int}",
        "number values are small (-128..127; fixed-point in hundredths); exact arithmetic at the type bounds belongs to C11-C17",
        "dictionaries are in-memory script values (the same atree maps and hash inputs as stored ones)",
    ])


META = {
    "C18": {
        "level_text": "TLC evaluates the canonical-form model on a universe of ~330 (quick) / ~450 (thorough) representations in 31-41 static-type groups "
                      "(NFC/NFD/constructed strings and characters, booleans, every integer and fixed-point type in decimal/hex/converted form, addresses, "
                      "paths, enums, ~70 type values with intersections and entitlement sets in different orders written statically and built at run time, "
                      "optionals, arrays and dictionaries of these), checks the laws on the model (equivalence, strict total order consistent with ==, equal "
                      "keys interchangeable) and prints the predicted ==/order of every pair of a group, the identity of every pair of hashable reps as "
                      "dictionary keys, and ~1600 dictionary histories. Scripts on interpreter and VM evaluate ==, !=, <, <=, >, >= and the dictionary "
                      "operations on the rendered expressions; results are compared with the model and the laws are re-checked on the observed tables.",
        "level_note": "Trusted: TLC, the renderer of representations to Cadence expressions. Bounded universe; values of composite (non-enum) types are not equatable "
                      "and not covered.",
        "technique": "TLA+ spec (EqHash.tla: representations, canonical forms, order, dictionary keyed by canonical form) evaluated by TLC into tables; table "
                     "conformance of scripts on both engines plus direct law checks on the observed tables",
        "design_ref": "DESIGN.md section 5 C18",
        "engine": "E4 table conformance",
    },
    "C19": {
        "level_text": "TLC enumerates every string source up to 4 (quick) / 5 (thorough) symbols over class-focused alphabets (marks/NFC pairs, emoji ZWJ "
                      "sequences and flags, Hangul jamo/syllables, CR LF) and up to 3 symbols over the full 17-symbol alphabet, plus 700 (quick) / 2500 (thorough) "
                      "seeded generated sources of 5-7 / 6-8 symbols biased toward the same motifs; checks the laws of the specification (segmentation is a "
                      "partition and equals the left-to-right state machine, every run of clusters stands on its own, NFC is idempotent / canonically equivalent "
                      "/ compatible with concatenation, aligned occurrences = boundary-aligned code-point matches, join(split) = identity, strict total order) "
                      "and prints the predicted result of every operation for every needle (all contiguous fragments of source and value, aligned or not). "
                      "The driver runs every row through direct StringValue calls and through Cadence scripts on interpreter and VM (arguments; literals for a "
                      "share; every predicted failure directly and a share as scripts) and compares.",
        "level_note": "Trusted: TLC, x/text norm and uniseg (used to validate the model's alphabet, Norm and Clusters; mismatch = exit 2), the symbol-to-code-point "
                      "renderer. Bounded: 17 code points, exhaustive sources up to 4-5 symbols, generated ones up to 7-8.",
        "technique": "TLA+ spec (Graphemes.tla: mini UAX#29 + NFC + string operations on cluster sequences) evaluated by TLC into a table; table conformance of "
                     "interpreter.StringValue and of scripts on both engines",
        "design_ref": "DESIGN.md section 5 C19",
        "engine": "E4 table conformance",
    },
}
