"""Family "strings": C19 (strings as grapheme-cluster sequences of their NFC form) and
C18 (equality, ordering and hashing laws).

Both checks are table conformance (DESIGN 2.1, E4): TLC evaluates the specification
(spec/text/Graphemes.tla, spec/lang/EqHash.tla) on every enumerated case, checks the laws of the
specified functions as invariants and prints one table row per case with the predicted result of
every operation; harness/cmd/strings executes the real code on exactly those cases (direct
interpreter calls and Cadence scripts on both engines) and every row where the code differs from the
prediction is reported with a semantic signature."""
import json, os
from vlib.core import Infra, read_ndjson, write_ndjson

LEVEL = {"C19": "model_checking", "C18": "model_checking"}


def tlc_workers(ctx):
    return int(os.environ.get("VERIF_TLC_WORKERS", ctx.cores))


def run_driver(ctx, binary, sub, args, tag, timeout=6000):
    out = os.path.join(ctx.work, tag + ".results.ndjson")
    w = os.environ.get("VERIF_DRIVER_WORKERS")
    p = ctx.run([binary, sub, out] + args + (["workers=" + w] if w else []), timeout=timeout)
    for ln in p.stderr.splitlines():
        if ln.startswith("["):
            ctx.log(ln)
    rows = read_ndjson(out)
    summary = [r for r in rows if r.get("summary")]
    if not summary:
        raise Infra("driver %s wrote no summary (%s)" % (sub, tag))
    fails = [r for r in rows if not r.get("summary")]
    for f in fails:
        if f.get("harness"):
            raise Infra("harness/model validation error in %s/%s: %s" % (sub, tag, json.dumps(f)[:1500]))
    return summary[0], fails


def tlc_out(res):
    return os.path.join(res.dir, "tlc.out")


# ------------------------------------------------------------------------------------------
# C19 strings
G_FILES = ["text/Graphemes.tla", "text/GraphemesTable.tla", "text/MC_Graphemes.tla", "text/MC_GraphemesCases.tla",
           "text/MC_Graphemes_quick.cfg", "text/MC_Graphemes_thorough.cfg", "text/MC_GraphemesCases.cfg"]

G_ALPHABETS = {"Marks6": "bEedMS", "Emoji6": "bPZSRM", "Hangul6": "LVTGHM", "Lines6": "CFbMZR", "Full": "bEeDdMSZPRCFLVTGH"}
# fragments the generator splices in: emoji ZWJ sequences, flags, decomposed / precomposed pairs, jamo runs, CR LF
G_MOTIFS = {"Marks6": ["eM", "EM", "d", "eSM", "eMM", "bM", "MM", "dM"], "Emoji6": ["PZP", "PSZP", "PZZP", "RR", "RRR", "PM", "ZP", "bZP", "RZR"],
            "Hangul6": ["LV", "LVT", "GT", "G", "H", "LLV", "VT", "TT", "LMV", "GMT", "HT"], "Lines6": ["CF", "FC", "CM", "CFM", "CZ", "RR", "bM", "CCF"],
            "Full": ["eM", "PZP", "RR", "LVT", "CF", "GT", "d", "PSZP", "EM"]}


def g_cases(seed, quick):
    """sources of 5..7 (quick) / 6..9 (thorough) symbols: random symbols of a themed alphabet mixed with the motifs above"""
    import random
    rnd = random.Random(1000003 * seed + 19)
    n = 700 if quick else 6000
    lo, hi = (5, 7) if quick else (6, 9)
    seen, cases = set(), []
    while len(cases) < n:
        al = rnd.choice(["Marks6", "Emoji6", "Hangul6", "Lines6", "Full"])
        target = rnd.randint(lo, hi)
        s = ""
        while len(s) < target:
            s += rnd.choice(G_MOTIFS[al]) if rnd.random() < 0.45 else rnd.choice(G_ALPHABETS[al])
        s = s[:target]
        if (al, s) in seen:
            continue
        seen.add((al, s))
        cases.append({"al": al, "s": list(s)})
    return cases

SYMBOLS = {"b": "U+0062", "E": "U+0045", "e": "U+0065", "D": "U+00C9", "d": "U+00E9", "M": "U+0301", "S": "U+FE0F", "Z": "U+200D",
           "P": "U+1F600", "R": "U+1F1E6", "C": "U+000D", "F": "U+000A", "L": "U+1100", "V": "U+1161", "T": "U+11A8",
           "G": "U+AC00", "H": "U+AC01"}


def code_points(sym):
    return " ".join(SYMBOLS.get(c, "?") for c in sym) if sym else "(empty)"


def g_sig(f):
    return {"op": f["op"], "dev": f["dev"], "engine": f["engine"], "path": f["path"], "shape": f.get("shape", ""),
            "alphabet": f.get("al", ""), "string": f["s"], "needle": f.get("n", ""), "arg": f.get("arg", "")}


def g_msg(f):
    return ("String %s%s on source [%s] (value [%s] = %s)%s via %s/%s: specification %s, observed %s (%s; case shape: %s)"
            % (f["op"], ("(" + f["arg"] + ")") if f.get("arg") else "", f["s"], f["v"], code_points(f["v"]),
               (" with needle [%s] = %s" % (f["n"], code_points(f["n"]))) if f.get("n") else "",
               f["path"], f["engine"], "fails" if f["want"] == "!" else f["want"], f["got"], f["dev"], f.get("shape", "")))


def check_C19(ctx):
    binary = ctx.build("strings")
    workers = tlc_workers(ctx)
    runs = [ctx.tlc(G_FILES, "MC_Graphemes", "MC_Graphemes_quick.cfg" if ctx.quick else "MC_Graphemes_thorough.cfg",
                    workers=workers, tag="graphemes", timeout=7200)]
    cases = g_cases(ctx.seed, ctx.quick)
    cf = os.path.join(ctx.work, "gcases.ndjson")
    write_ndjson(cf, cases)
    runs.append(ctx.tlc(G_FILES + [cf], "MC_GraphemesCases", "MC_GraphemesCases.cfg", workers=workers, tag="graphemes-cases", timeout=7200))
    if runs[1].distinct != len(cases) + 1:
        raise Infra("case table has %d states for %d cases" % (runs[1].distinct, len(cases)))
    nrows = sum(r.distinct for r in runs) - 1          # the fan-out state of the case table prints no row
    args = [tlc_out(r) for r in runs] + (["litshare=4", "failshare=8"] if ctx.quick else ["litshare=8", "failshare=16"])
    summary, fails = run_driver(ctx, binary, "graphemes", args, "graphemes")
    if summary.get("invalid"):
        raise Infra("the model disagrees with the Unicode reference libraries")
    if summary["rows"] != nrows:
        raise Infra("driver judged %d rows, TLC enumerated %d states" % (summary["rows"], nrows))
    for f in fails:
        ctx.report(g_sig(f), g_msg(f), {"operation": f["op"], "source_symbols": f["s"], "source_code_points": code_points(f["s"]),
                                         "needle_symbols": f.get("n", ""), "needle_code_points": code_points(f.get("n", "")),
                                         "argument": f.get("arg", ""), "engine": f["engine"], "path": f["path"],
                                         "specification": f["want"], "observed": f["got"]})
    # negative control: corrupted predictions must be rejected by the same driver
    rows = runs[0].json_lines()
    cand = [r for r in rows if "nd" in r and len(r["cl"]) >= 2 and any(len(c) > 1 for c in r["cl"]) and any(n["c"] for n in r["nd"])]
    if not cand:
        raise Infra("negative control: no suitable row")
    base = cand[(ctx.seed * 7919) % len(cand)]
    alpha = [r for r in rows if "alphabet" in r]
    bad = []
    b1 = json.loads(json.dumps(base)); n1 = next(n for n in b1["nd"] if n["c"]); n1["i"] += 1                      # index(of:)
    b2 = json.loads(json.dumps(base)); b2["s"] = b2["s"]; b2["sl"][1][len(b2["cl"]) + 1] = "!"                    # slice(0, len) made failing
    b3 = json.loads(json.dumps(base)); n3 = next(n for n in b3["nd"] if n["c"]); n3["k"] += 1; n3["sp"].append("")  # count / split
    b4 = json.loads(json.dumps(base)); b4["cl"] = b4["cl"][:-2] + [b4["cl"][-2] + b4["cl"][-1]]                   # two clusters merged
    for i, b in enumerate((b1, b2, b3)):
        bad.append(b)
    nf = os.path.join(ctx.work, "negctl.ndjson")
    write_ndjson(nf, alpha[:1] + bad)
    _, nfails = run_driver(ctx, binary, "graphemes", [nf, "litshare=1", "failshare=1"], "graphemes-negctl")
    kinds = {(f["op"], f["dev"]) for f in nfails}
    need = {("index(of:)", "wrong-value"), ("slice", "succeeds-but-undefined"), ("count", "wrong-value"), ("split", "wrong-value")}
    if not need <= kinds:
        raise Infra("negative control failed: corrupted rows were not all rejected: %s" % sorted(kinds))
    # a corrupted segmentation is a model/library disagreement: it must stop the run as a harness error
    write_ndjson(nf + ".seg", alpha[:1] + [b4])
    try:
        run_driver(ctx, binary, "graphemes", [nf + ".seg"], "graphemes-negctl-seg")
        raise Infra("negative control failed: a corrupted cluster sequence was not rejected by the library validation")
    except Infra as e:
        if "validation error" not in str(e):
            raise
    for r in (cand[len(cand) // 3], cand[(2 * len(cand)) // 3]):
        nd = next(n for n in r["nd"] if n["c"])
        ctx.add_sample({"source": r["s"], "code_points": code_points(r["s"]), "value": r["v"], "characters": r["cl"], "utf8": r["u8"],
                        "needle": nd["n"], "index": nd["i"], "count": nd["k"], "split": nd["sp"], "replaceAll": dict(zip(r["rs"], nd["rp"]))})
    mis = next(((r, n) for r in cand for n in r["nd"] if not n["c"] and n["nv"] and n["nv"] in r["v"]), None)
    if mis:
        ctx.add_sample({"misaligned needle": mis[1]["n"], "in": mis[0]["s"], "characters": mis[0]["cl"], "contains": False, "count": 0})
    return ctx.finish({
        "states": nrows, "transitions": sum(r.generated for r in runs),
        "traces_validated_against_impl": summary["rows"],
        "evaluations": summary["go_evals"] + summary["cadence_evals"],
        "go_api_evaluations": summary["go_evals"], "cadence_script_evaluations": summary["cadence_evals"],
        "distinct_nontrivial": summary["nontrivial"],
        "rule": "one TLC state / table row per (alphabet, source string); a case is a distinct (string value, needle value) pair; non-trivial = the "
                "source is not NFC, or the value has a character of several code points, or the needle is not NFC, or the needle's code points occur "
                "in the string without being aligned to character boundaries",
        "distinct_string_values": summary["distinct_values"], "distinct_string_needle_cases": summary["distinct_cases"],
        "needle_rows": summary["needle_rows"], "misaligned_needle_cases": summary["misaligned"],
        "sources_not_normalized": summary["sources_not_normalized"], "rows_also_run_as_literals": summary["literal_rows"],
        "ordering_all_pairs": summary["ranked_pairs"], "ordering_strings": summary["ranked_strings"],
        "empty_needle_conventions_recorded_not_judged": summary["empty_needle_conventions"],
        "negative_control": "3 corrupted predictions (index(of:) +1, a defined slice made failing, count +1 / extra split part) all reported; "
                            "a corrupted cluster sequence is rejected by the validation against x/text and uniseg (exit 2)",
        "exhaustive": True,
    }, assumptions=[
        "the alphabet is 17 code points, one or two per class the UAX #29 / UAX #15 rules distinguish (no Prepend, SpacingMark, Control other than CR/LF, "
        "no second non-zero combining class: canonical reordering is not exercised)",
        "the model's Norm and Clusters are validated on every row against golang.org/x/text/unicode/norm and github.com/rivo/uniseg, which are dependencies "
        "of the code under test, not part of it",
        "ordering is lexicographic by code point on the normalized form",
        "empty needles / separators are outside the statement: the code's conventions are recorded, not judged",
    ])


META = {
    "C19": {
        "level_text": "TLC enumerates every string source up to 5 (quick) / 6-7 (thorough) symbols over class-focused alphabets (marks/NFC pairs, emoji ZWJ "
                      "sequences and flags, Hangul jamo/syllables, CR LF) and up to 3-4 symbols over the full 17-symbol alphabet, checks the laws of the "
                      "specification on each (segmentation is a partition and equals the left-to-right state machine, every run of clusters stands on its own, "
                      "NFC is idempotent / canonically equivalent / compatible with concatenation, aligned occurrences = boundary-aligned code-point matches, "
                      "join(split) = identity, strict total order) and prints the predicted result of every operation for every needle (all contiguous "
                      "fragments of source and value, aligned or not). The driver runs every row through direct StringValue calls and through Cadence "
                      "scripts on interpreter and VM (arguments; literals for a share) and compares.",
        "level_note": "Trusted: TLC, x/text norm and uniseg (used to validate the model's alphabet, Norm and Clusters; mismatch = exit 2), the symbol-to-code-point "
                      "renderer. Bounded: 17 code points, sources up to 5-7 symbols.",
        "technique": "TLA+ spec (Graphemes.tla: mini UAX#29 + NFC + string operations on cluster sequences) evaluated by TLC into a table; table conformance of "
                     "interpreter.StringValue and of scripts on both engines",
        "design_ref": "DESIGN.md section 5 C19",
        "engine": "E4 table conformance",
    },
}
