"""Family "text": C46 (RLP), C47 (revertibleRandom), C35 (LEB128 / instruction codec / compile
determinism), C17 (numeric text and byte encodings), C40 (literals).

Every check has the same shape: TLC evaluates the specification in spec/text/ (laws of the
specified function as invariants + the table / behaviours used for conformance), the Go driver
harness/cmd/text executes the real code on exactly those cases, and every row where the code
differs from the specification is reported with a semantic signature."""
import json, os, random, hashlib
from vlib.core import Infra, read_ndjson, write_ndjson

LEVEL = {"C46": "model_checking", "C47": "model_checking", "C35": "model_checking",
         "C17": "model_checking", "C40": "model_checking"}


# ------------------------------------------------------------------------------------------
# helpers
def run_driver(ctx, binary, sub, args, tag, timeout=3000, env=None):
    out = os.path.join(ctx.work, tag + ".results.ndjson")
    ctx.run([binary, sub, out] + args, timeout=timeout, env=env)
    rows = read_ndjson(out)
    summary = [r for r in rows if r.get("summary")]
    if not summary:
        raise Infra("driver %s wrote no summary (%s)" % (sub, tag))
    fails = [r for r in rows if not r.get("summary")]
    for f in fails:
        if f.get("harness"):
            raise Infra("harness error in %s/%s: %s" % (sub, tag, json.dumps(f)[:1500]))
    return summary[0], fails


def tlc_out(res):
    return os.path.join(res.dir, "tlc.out")


def table_rows(res):
    """rows printed by PrintT(ToJson(row)) in a TLC output"""
    return res.json_lines()


# ------------------------------------------------------------------------------------------
# C46 RLP
RLP_FILES = ["text/Rlp.tla", "text/MC_RlpEnum.tla", "text/MC_RlpCases.tla", "text/MC_RlpEnum_b4.cfg",
             "text/MC_RlpEnum_b5.cfg", "text/MC_RlpEnum_all2.cfg", "text/MC_RlpEnum_all3.cfg", "text/MC_RlpCases.cfg"]


def _be(n):
    out = []
    while n:
        out.insert(0, n & 255)
        n >>= 8
    return out


def _hdr(base, n):
    if n <= 55:
        return [base + n]
    lb = _be(n)
    return [base + 55 + len(lb)] + lb


def rlp_enc(t):
    """generator-side encoder (untrusted: the model re-encodes every tree and requires equality)"""
    if "s" in t:
        s = t["s"]
        if len(s) == 1 and s[0] <= 127:
            return list(s)
        return _hdr(128, len(s)) + list(s)
    p = []
    for c in t["l"]:
        p += rlp_enc(c)
    return _hdr(192, len(p)) + p


EXTREME_LENGTHS = [
    [255], [56], [55], [1], [0], [0, 56], [1, 0], [255, 255], [0, 255, 255], [1, 0, 0], [255, 255, 255],
    [1, 0, 0, 0], [127, 255, 255, 255], [128, 0, 0, 0], [255, 255, 255, 255], [1, 0, 0, 0, 0],
    [255] * 5, [255] * 6, [255] * 7, [1] + [0] * 7, [127] + [255] * 7, [127] + [255] * 6 + [247],
    [127] + [255] * 6 + [246], [127] + [255] * 6 + [254], [128] + [0] * 7, [128] + [0] * 6 + [1], [255] * 8,
    [0] * 7 + [56], [0] + [255] * 7,
]


def header_mutants(base, payload):
    """inputs that differ from Hdr(base, len(payload)) ++ payload in the header only"""
    n = len(payload)
    out = []
    for k in range(1, 9):                      # every long form, left-padded with zeros
        lb = _be(n)
        if len(lb) <= k:
            out.append([base + 55 + k] + [0] * (k - len(lb)) + lb + payload)
    for d in (-1, 1, 2, 256, 65536):           # neighbouring lengths in minimal form
        if n + d >= 0:
            out.append(_hdr(base, n + d) + payload)
    for lb in EXTREME_LENGTHS:                 # extreme declared lengths, up to 2^64-1
        out.append([base + 55 + len(lb)] + lb + payload)
    other = 192 if base == 128 else 128        # same length, other kind
    out.append(_hdr(other, n) + payload)
    return out


def rlp_mutants(t, rnd):
    e = rlp_enc(t)
    muts = []
    if "s" in t:
        s = list(t["s"])
        muts += header_mutants(128, s)
        if len(s) == 1 and s[0] <= 127:
            muts.append([129] + s)             # single byte wrapped in a header
    else:
        p = []
        encs = [rlp_enc(c) for c in t["l"]]
        for x in encs:
            p += x
        muts += header_mutants(192, p)
        # mutate the header of one direct item, outer header re-computed or kept
        if encs:
            for idx in {0, len(encs) - 1, rnd.randrange(len(encs))}:
                c = t["l"][idx]
                if "s" in c:
                    cp = list(c["s"])
                    cm = header_mutants(128, cp)
                    if len(cp) == 1 and cp[0] <= 127:
                        cm.append([129] + cp)
                else:
                    cp = []
                    for g in c["l"]:
                        cp += rlp_enc(g)
                    cm = header_mutants(192, cp)
                # also the bare huge header without payload
                cm += [[191] + lb for lb in EXTREME_LENGTHS if len(lb) == 8] + [[255] + lb for lb in EXTREME_LENGTHS if len(lb) == 8]
                for m in cm:
                    before = [b for x in encs[:idx] for b in x]
                    after = [b for x in encs[idx + 1:] for b in x]
                    np_ = before + m + after
                    muts.append(_hdr(192, len(np_)) + np_)         # outer header consistent
                    if rnd.random() < 0.15:
                        muts.append(_hdr(192, len(p)) + np_)       # outer header stale
    muts.append(e[:-1])
    muts.append(e + [0])
    muts.append(e + [128])
    # dedupe, drop the canonical encoding itself, bound the size
    seen, res = set(), []
    for m in muts:
        k = bytes(m)
        if k in seen or m == e or len(m) > 70000:
            continue
        seen.add(k)
        res.append(m)
    return e, res


def rlp_random_tree(rnd, depth, big):
    def rbytes(n):
        pool = [0, 1, 127, 128, 129, 183, 184, 191, 192, 193, 247, 248, 255]
        return [rnd.choice(pool) if rnd.random() < 0.5 else rnd.randrange(256) for _ in range(n)]
    if depth == 0 or rnd.random() < 0.45:
        n = rnd.choice([0, 1, 1, 1, 2, 3, 5, 54, 55, 56, 57, 60] + ([200, 255, 256, 257, 1000] if big else []))
        return {"s": rbytes(n)}
    k = rnd.choice([0, 1, 2, 3, 4, 6])
    return {"l": [rlp_random_tree(rnd, depth - 1, big and rnd.random() < 0.3) for _ in range(k)]}


def rlp_cases(seed, quick):
    rnd = random.Random(1000003 * seed + 46)
    trees = [
        {"s": []}, {"s": [0]}, {"s": [127]}, {"s": [128]}, {"s": [255]}, {"s": [1, 2]}, {"l": []},
        {"l": [{"l": []}]}, {"l": [{"s": []}]}, {"l": [{"s": [5]}]}, {"l": [{"s": [200]}]},
        {"s": [7] * 55}, {"s": [7] * 56}, {"s": [200] * 255}, {"s": [9] * 256}, {"s": [9] * 1024},
        {"l": [{"s": [1]}] * 55}, {"l": [{"s": [1]}] * 56}, {"l": [{"s": [1]}] * 300},
        {"l": [{"s": [3] * 54}]}, {"l": [{"s": [3] * 55}]}, {"l": [{"s": [3] * 60}, {"l": [{"s": [4] * 60}]}]},
        {"l": [{"l": [{"l": [{"l": []}]}]}, {"s": [128]}]},
        # the set-theoretic encoding of three: [ [], [[]], [ [], [[]] ] ]
        {"l": [{"l": []}, {"l": [{"l": []}]}, {"l": [{"l": []}, {"l": [{"l": []}]}]}]},
    ]
    if not quick:
        trees.append({"s": [rnd.randrange(256) for _ in range(65536)]})      # three length bytes
        trees.append({"l": [{"s": [1] * 40000}, {"s": [2] * 30000}]})
    n = 120 if quick else 1500
    for i in range(n):
        trees.append(rlp_random_tree(rnd, rnd.choice([1, 2, 3, 4]), True))
    cases = []
    for t in trees:
        e, m = rlp_mutants(t, rnd)
        if len(e) > 3000:
            m = [x for x in m if len(x) <= 70000][:12]
        cases.append({"t": t, "e": e, "m": m})
    return cases


def rlp_sig(f):
    return {"fn": f["fn"], "level": f["level"], "dev": f["dev"], "why": f.get("why", ""), "cls": f.get("cls", ""),
            "input": f["input"] if f.get("len", 99) <= 16 else "(long)"}


def check_C46(ctx):
    binary = ctx.build("text")
    cores = ctx.cores
    # 1. tables evaluated by TLC: one state per input, laws of the decoder as invariants
    rb = ctx.tlc(RLP_FILES, "MC_RlpEnum", "MC_RlpEnum_b4.cfg" if ctx.quick else "MC_RlpEnum_b5.cfg",
                 workers=cores, tag="rlp-boundary", timeout=1500)
    ra = ctx.tlc(RLP_FILES, "MC_RlpEnum", "MC_RlpEnum_all2.cfg" if ctx.quick else "MC_RlpEnum_all3.cfg",
                 workers=cores, tag="rlp-allbytes", timeout=2400)
    cases = rlp_cases(ctx.seed, ctx.quick)
    cf = os.path.join(ctx.work, "cases.ndjson")
    write_ndjson(cf, cases)
    rc = ctx.tlc(RLP_FILES + [cf], "MC_RlpCases", "MC_RlpCases.cfg", workers=cores, tag="rlp-cases", timeout=1500)
    ninputs = sum(1 + len(c["m"]) for c in cases)
    if rc.distinct < len(cases) or rc.distinct > ninputs:
        raise Infra("case table has %d states for %d cases / %d inputs" % (rc.distinct, len(cases), ninputs))
    # 2. the real decoders on every row (Go API on all rows, Cadence scripts on both engines on all rows in
    #    the quick tier, on a hash-selected share of the large tables in the thorough tier)
    modes = ["all", "all", "all"] if ctx.quick else ["8", "64", "all"]
    summary, fails = run_driver(ctx, binary, "rlp",
                                ["%s=%s" % (tlc_out(r), m) for r, m in zip((rb, ra, rc), modes)], "rlp", timeout=3000)
    expected_rows = rb.distinct + ra.distinct + rc.distinct
    if summary["rows"] != expected_rows:
        raise Infra("driver judged %d rows, TLC printed %d" % (summary["rows"], expected_rows))
    for f in fails:
        ctx.report(rlp_sig(f), "RLP.%s (%s) on 0x%s: %s; specification: %s (declared length class %s); observed: %s"
                   % (f["fn"], f["level"], f["input"], f["dev"], f["why"], f["cls"], f["msg"]),
                   {"input_hex": f["input"], "fn": f["fn"], "level": f["level"], "spec": f["why"], "observed": f["msg"]})
    # 3. negative control: corrupted table entries must be rejected by the same driver
    rows = table_rows(rc)
    acc = next((r for r in rows if r[1] != 0 and len(r[0]) > 2), None)
    rej = next((r for r in rows if r[1] == 0 and r[2] == 0 and r[4][0] == "trailing-bytes" and len(r[0]) < 40), None)
    accl = next((r for r in rows if r[2] != 0 and len(r[2]["v"]) > 0), None)
    if not acc or not rej or not accl:
        raise Infra("negative control: no suitable rows")
    bad1 = json.loads(json.dumps(acc)); bad1[1]["v"][-1] ^= 1; bad1[3]["t"]["s"][-1] ^= 1
    bad2 = json.loads(json.dumps(rej)); bad2[1] = {"v": rej[0][1:]}
    bad3 = json.loads(json.dumps(accl)); bad3[2] = 0
    nf = os.path.join(ctx.work, "negctl.ndjson")
    write_ndjson(nf, [bad1, bad2, bad3])
    _, nfails = run_driver(ctx, binary, "rlp", [nf + "=all"], "rlp-negctl")
    kinds = {(f["fn"], f["dev"]) for f in nfails}
    need = {("decodeString", "wrong-value"), ("decodeString", "rejects-canonical-input"), ("decodeList", "accepts-rejected-input")}
    if not need <= kinds:
        raise Infra("negative control failed: corrupted rows were not all rejected: %s" % sorted(kinds))
    ctx.add_sample({"input": rows[len(rows) // 3][0][:40], "string": rows[len(rows) // 3][1], "list": rows[len(rows) // 3][2],
                    "reasons": rows[len(rows) // 3][4]})
    ctx.add_sample({"tree": json.dumps(cases[23]["t"])[:300], "encoding_hex": bytes(cases[23]["e"]).hex()[:120],
                    "mutants": len(cases[23]["m"]), "first_mutants_hex": [bytes(m).hex()[:60] for m in cases[23]["m"][:4]]})
    ctx.add_sample({"extreme length prefix": "bf7fffffffffffffff", "spec": "payload-beyond-input, class edge63 (offset+length leaves int64)"})
    return ctx.finish({
        "states": rb.distinct + ra.distinct + rc.distinct,
        "transitions": rb.generated + ra.generated + rc.generated,
        "traces_validated_against_impl": summary["rows"],
        "evaluations": summary["go_evals"] + summary["cadence_evals"],
        "go_api_evaluations": summary["go_evals"], "cadence_script_evaluations": summary["cadence_evals"],
        "distinct_nontrivial": summary["nontrivial"],
        "rule": "one table row per input byte string (TLC state); distinct inputs counted by the driver; non-trivial = at least 2 bytes "
                "and first byte >= 0x80, i.e. a string/list header whose declared length must be checked against the rest of the input",
        "distinct_inputs": summary["distinct_inputs"],
        "accepted_string": summary["accepted_string"], "accepted_list": summary["accepted_list"], "accepted_deep": summary["accepted_deep"],
        "reason_classes": summary["reason_classes"],
        "generated_trees": len(cases), "mutant_inputs": ninputs - len(cases),
        "negative_control": "3 corrupted rows (payload bit, reject->accept, accept->reject) all rejected by the driver",
        "exhaustive": True,
    }, assumptions=["inputs are shorter than 2^24 bytes (the model caps declared lengths at 2^24; longer declared lengths are 'beyond the input')",
                    "decodeList is one-level: items are returned encoded and only their headers are judged; full canonicity is bound through "
                    "recursive decoding via the real API against the model's Deep()"])


META = {
    "C46": {
        "level_text": "TLC evaluates the RLP decoder specification (Rlp.tla: encoder = definition of canonical, DecodeString, one-level DecodeList, "
                      "recursive Deep) on one state per input: every byte string over a 19-byte boundary alphabet up to length 4 (5 thorough), every "
                      "byte string up to length 2 (3 thorough), and the encoder's images of seeded random nested items plus header mutants "
                      "(every long form with leading zeros, off-by-one lengths, declared lengths up to 2^64-1, truncation, extension, kind flip, "
                      "also on direct list items). Laws checked by TLC on every state: accepted implies re-encoding gives the input, the three "
                      "decoders agree, Deep(Enc(t)) = t. Every row is compared with stdlib/rlp.DecodeString/DecodeList, with recursive decoding "
                      "through that API, and with RLP.decodeString/decodeList scripts on interpreter and VM (value, user error, never internal).",
        "level_note": "Trusted: TLC, the JSON row printer, the Go comparison loop. Bounded: inputs < 2^24 bytes; beyond the enumerated lengths only "
                      "generated cases. The Cadence wrappers are exercised on all rows in the quick tier and a hash-selected share of the big tables in the thorough tier.",
        "technique": "TLA+ function specification model-checked with TLC (laws as invariants), TLC-evaluated table compared with the real functions (E4)",
        "design_ref": "DESIGN.md section 5 C46, Appendix A.5",
        "engine": "E4 table conformance",
    },
}
